#!/usr/bin/env python3
"""tools/seedeval.py validate SEED_DIR NAME      -- scratch-worktree confirmation of a seeded change
   tools/seedeval.py check    SEED_DIR NAME PROP [--thorough]  -- run my check against it in /repo
   tools/seedeval.py keep     SEED_DIR NAME      -- store under /verif/seeded/NAME with both results

validate: in a scratch worktree (/tmp/seedcheck/NAME): the patch applies, the tree builds, the
  demonstration FAILS with the patch and PASSES without it, and the existing test suite still passes
  with the patch (packages that fail are re-run alone up to twice: the pinned suite has timing tests
  that flake when the machine is loaded).
check: applies the patch to /repo (which must be clean), runs ./check PROP --tier quick (and thorough
  when asked or when quick missed it), and reverts /repo straight afterwards.
Results are written to /verif/work/seedeval/NAME.{validate,check}.json.
"""
import json, os, re, shutil, subprocess, sys, time

ENV = dict(os.environ, GOFLAGS="-mod=mod", GOPROXY="off", GOSUMDB="off", GOTOOLCHAIN="local")
OUT = "/verif/work/seedeval"
HZ_KNOWN_FAIL = ("TestIdlGenerator_GenModel", "TestRun", "TestPlugin_Handle")


def sh(cmd, cwd=None, timeout=3600):
    try:
        p = subprocess.run(cmd, shell=True, cwd=cwd, env=ENV, capture_output=True, text=True, timeout=timeout, executable="/bin/bash")
        return p.returncode, (p.stdout + p.stderr)
    except subprocess.TimeoutExpired as e:
        return 124, "TIMEOUT " + str(e)


def demo_targets(seed, meta):
    """[(src, relative destination)] for the demonstration files."""
    files = [f for f in sorted(os.listdir(seed)) if f not in ("patch.diff", "meta.json") and "FOREIGN" not in f and not f.endswith(".diff") and not f.endswith(".patch")]
    text = str(meta.get("demo_path", "")) + " " + str(meta.get("demo_cmd", ""))
    paths = re.findall(r"(?<![\w/])((?:pkg|internal|cmd)/[\w/.\-]*)", text)
    out = []
    for f in files:
        dst = None
        for p in paths:
            if p.endswith("/" + f):
                dst = p
                break
        if dst is None:
            for p in paths:
                if p.endswith("_test.go") and len([x for x in files if x.endswith(".go")]) == 1 and f.endswith(".go"):
                    dst = p
                    break
        if dst is None:
            for p in paths:
                if not p.endswith(".go"):
                    dst = os.path.join(p.rstrip("/"), f)
                    break
                dst = os.path.join(os.path.dirname(p), f)
                break
        out.append((os.path.join(seed, f), dst))
    return out


def validate(seed, name, fast=False):
    meta = json.load(open(os.path.join(seed, "meta.json")))
    patch = os.path.join(seed, "patch.diff")
    wt = "/tmp/seedcheck/" + name
    sh("git -C /repo worktree remove --force %s" % wt)
    shutil.rmtree(wt, ignore_errors=True)
    os.makedirs("/tmp/seedcheck", exist_ok=True)
    sh("git -C /repo worktree add -q --detach %s HEAD" % wt)
    res = {"name": name}
    try:
        rc, out = sh("git apply --check %s && git apply %s" % (patch, patch), cwd=wt)
        res["patch_applies"] = rc == 0
        if rc != 0:
            res["error"] = out[-500:]
            return res
        rc, out = sh("git diff --stat | tail -1", cwd=wt)
        res["diffstat"] = out.strip()
        touches_hz = "cmd/hz" in open(patch).read()
        rc, out = sh("go build ./... && (cd cmd/hz && go build ./...)", cwd=wt)
        res["builds"] = rc == 0
        if rc != 0:
            res["error"] = out[-800:]
            return res
        targets = demo_targets(seed, meta)
        res["demo_files"] = [d for _, d in targets]
        for src, dst in targets:
            if dst is None:
                res["error"] = "cannot place demo file " + src
                return res
            full = os.path.join(wt, dst)
            os.makedirs(os.path.dirname(full), exist_ok=True)
            if os.path.isdir(src):
                shutil.copytree(src, full, dirs_exist_ok=True)
            else:
                shutil.copyfile(src, full)
        cmd = str(meta.get("demo_cmd", ""))
        cmd = re.sub(r"/tmp/seed[23]?/C\d\d", wt, cmd)
        cmd = cmd.replace("<repo root>", wt)
        cmd = re.sub(r"cp SEED_[AB]/\S+ \S+ && ", "", cmd)  # the demo file is already placed
        res["demo_cmd"] = cmd
        rc1, out1 = sh(cmd, cwd=wt, timeout=1500)
        sh("git apply -R %s" % patch, cwd=wt)
        rc2, out2 = sh(cmd, cwd=wt, timeout=1500)
        res["demo_fails_with_change"] = rc1 != 0 and ("FAIL" in out1 or "panic" in out1)
        res["demo_passes_without_change"] = rc2 == 0
        res["demo_output_with_change"] = out1[-1800:]
        if rc2 != 0:
            res["demo_output_without_change"] = out2[-1500:]
        if fast:
            return res
        # remove the demo, re-apply, run the existing suite
        sh("git clean -fdq && git checkout -q -- .", cwd=wt)
        sh("git apply %s" % patch, cwd=wt)
        t0 = time.time()
        rc, out = sh("go test -vet=off -count=1 -timeout 25m ./... 2>&1 | grep -v '^ok\\|no test files'", cwd=wt, timeout=2400)
        failed_pkgs = sorted(set(re.findall(r"^FAIL\s+(github\.com/cloudwego/hertz\S*)", out, re.M)))
        failed_tests = sorted(set(re.findall(r"^\s*--- FAIL: (\S+)", out, re.M)))
        res["suite_first_run_failures"] = failed_tests
        still = []
        for pkg in failed_pkgs:
            ok = False
            for _ in range(2):
                rc, o2 = sh("go test -vet=off -count=1 -timeout 20m %s" % pkg, cwd=wt, timeout=1500)
                if rc == 0:
                    ok = True
                    break
            if not ok:
                still.append(pkg + ": " + ",".join(re.findall(r"--- FAIL: (\S+)", o2))[:300])
        hzfails = []
        if touches_hz:
            rc_hz, out_hz = sh("go test -vet=off -count=1 ./... 2>&1 | grep -- '--- FAIL'", cwd=os.path.join(wt, "cmd/hz"), timeout=1500)
            hzfails = [l.strip() for l in out_hz.splitlines() if not any(k in l for k in HZ_KNOWN_FAIL)]
        res["suite_passes_with_change"] = not still and not hzfails
        res["suite_failures_persisting"] = still + hzfails
        res["suite_seconds"] = int(time.time() - t0)
    finally:
        sh("git -C /repo worktree remove --force %s" % wt)
        shutil.rmtree(wt, ignore_errors=True)
    return res


def check(seed, name, prop, thorough):
    patch = os.path.join(seed, "patch.diff")
    res = {"name": name, "property": prop}
    rc, out = sh("git -C /repo status --porcelain")
    if out.strip():
        res["error"] = "/repo is not clean: " + out
        return res
    rc, out = sh("git -C /repo apply %s" % patch)
    if rc != 0:
        res["error"] = "apply failed: " + out
        return res
    try:
        t0 = time.time()
        rc, out = sh("./check %s --tier quick" % prop, cwd="/verif", timeout=3600)
        res["quick_rc"] = rc
        res["quick_seconds"] = int(time.time() - t0)
        res["quick_tail"] = "\n".join(l[:400] for l in out.strip().splitlines()[-14:])
        if thorough or rc != 1:
            t0 = time.time()
            rc, out = sh("./check %s --tier thorough" % prop, cwd="/verif", timeout=7200)
            res["thorough_rc"] = rc
            res["thorough_seconds"] = int(time.time() - t0)
            res["thorough_tail"] = "\n".join(l[:400] for l in out.strip().splitlines()[-14:])
    finally:
        sh("git -C /repo checkout -- . && git -C /repo clean -fdq")
    return res


def main():
    mode, seed, name = sys.argv[1], sys.argv[2], sys.argv[3]
    os.makedirs(OUT, exist_ok=True)
    if mode == "revalidate":
        # fast: applies / builds / demonstration fails with and passes without the change (no suite run)
        res = validate(seed, name, fast=True)
        json.dump(res, open(os.path.join(OUT, name + ".revalidate.json"), "w"), indent=1)
        print(name, json.dumps({k: v for k, v in res.items() if k in ("patch_applies", "builds", "demo_fails_with_change", "demo_passes_without_change", "error")}))
    elif mode == "validate":
        res = validate(seed, name)
        json.dump(res, open(os.path.join(OUT, name + ".validate.json"), "w"), indent=1)
        print(name, json.dumps({k: v for k, v in res.items() if k in ("patch_applies", "builds", "demo_fails_with_change", "demo_passes_without_change", "suite_passes_with_change", "suite_failures_persisting", "error")}))
    elif mode == "check":
        res = check(seed, name, sys.argv[4], "--thorough" in sys.argv)
        json.dump(res, open(os.path.join(OUT, name + ".check.json"), "w"), indent=1)
        print(name, json.dumps({k: v for k, v in res.items() if k in ("quick_rc", "thorough_rc", "error")}))
        print(res.get("quick_tail", "")[-900:])
        if "thorough_tail" in res:
            print(res["thorough_tail"][-900:])
    elif mode == "keep":
        d = os.path.join("/verif/seeded", name)
        os.makedirs(d, exist_ok=True)
        for f in os.listdir(seed):
            if "FOREIGN" in f:
                continue
            src = os.path.join(seed, f)
            if os.path.isdir(src):
                shutil.copytree(src, os.path.join(d, f), dirs_exist_ok=True)
            else:
                shutil.copyfile(src, os.path.join(d, f))
        m = json.load(open(os.path.join(d, "meta.json")))
        for k in ("validate", "check"):
            p = os.path.join(OUT, "%s.%s.json" % (name, k))
            if os.path.exists(p):
                m["verification_" + k] = json.load(open(p))
        json.dump(m, open(os.path.join(d, "meta.json"), "w"), indent=1)
        print("kept", d)


if __name__ == "__main__":
    main()
