#!/usr/bin/env python3
"""tools/seedeval.py SEED_DIR PROP [--thorough] [--keep NAME]
Confirms an independently written breaking change and runs the property's check against it.
 1. scratch worktree: patch applies, tree builds, demo FAILS with the patch and PASSES without,
    the existing test suite (stable tests of BASELINE.json) still passes with the patch;
 2. applies the patch to /repo, runs ./check PROP --tier quick (and thorough if asked / missed), reverts;
 3. with --keep NAME stores everything under /verif/seeded/NAME/.
"""
import json, os, shutil, subprocess, sys, time

ENV = dict(os.environ, GOFLAGS="-mod=mod", GOPROXY="off", GOSUMDB="off", GOTOOLCHAIN="local")

def sh(cmd, cwd=None, timeout=3600):
    p = subprocess.run(cmd, shell=True, cwd=cwd, env=ENV, capture_output=True, text=True, timeout=timeout)
    return p.returncode, (p.stdout + p.stderr)

def main():
    seed, prop = sys.argv[1], sys.argv[2]
    thorough = "--thorough" in sys.argv
    keep = sys.argv[sys.argv.index("--keep") + 1] if "--keep" in sys.argv else None
    skip_suite = "--skip-suite" in sys.argv
    meta = json.load(open(os.path.join(seed, "meta.json")))
    patch = os.path.join(seed, "patch.diff")
    wt = "/tmp/seedcheck/wt"
    sh("git -C /repo worktree remove --force %s" % wt)
    shutil.rmtree(wt, ignore_errors=True)
    os.makedirs("/tmp/seedcheck", exist_ok=True)
    rc, out = sh("git -C /repo worktree add -q --detach %s HEAD" % wt)
    res = {"property": prop, "seed_dir": seed, "meta": meta}
    try:
        rc, out = sh("git apply --check %s && git apply %s" % (patch, patch), cwd=wt)
        res["patch_applies"] = rc == 0
        if rc != 0:
            print("PATCH DOES NOT APPLY:", out[-500:]); return finish(res, keep, seed)
        rc, out = sh("go build ./... && (cd cmd/hz && go build ./...)", cwd=wt)
        res["builds"] = rc == 0
        if rc != 0:
            print("DOES NOT BUILD:", out[-800:]); return finish(res, keep, seed)
        # demo
        demo_path = meta.get("demo_path", "")
        demo_cmd = meta.get("demo_cmd", "")
        demo_files = [f for f in os.listdir(seed) if f not in ("patch.diff", "meta.json")]
        def place():
            for f in demo_files:
                src = os.path.join(seed, f)
                dst = os.path.join(wt, demo_path) if demo_path and len(demo_files) == 1 else os.path.join(wt, os.path.dirname(demo_path) if demo_path.endswith(".go") else demo_path, f)
                if os.path.isdir(src):
                    shutil.copytree(src, dst, dirs_exist_ok=True)
                else:
                    os.makedirs(os.path.dirname(dst), exist_ok=True)
                    shutil.copyfile(src, dst)
        place()
        cmd = demo_cmd.replace(seed.rsplit("/SEED", 1)[0], wt)
        rc1, out1 = sh(cmd, cwd=wt, timeout=900)
        res["demo_fails_with_change"] = rc1 != 0
        sh("git apply -R %s" % patch, cwd=wt)
        rc2, out2 = sh(cmd, cwd=wt, timeout=900)
        res["demo_passes_without_change"] = rc2 == 0
        res["demo_output_with_change"] = out1[-1500:]
        print("demo with change rc=%d, without rc=%d" % (rc1, rc2))
        if rc2 != 0:
            print(out2[-1200:])
        # remove demo, re-apply, run suite
        sh("git clean -fdq && git checkout -q -- .", cwd=wt)
        sh("git apply %s" % patch, cwd=wt)
        if not skip_suite:
            t0 = time.time()
            rc, out = sh("go test -vet=off -count=1 -timeout 25m ./... 2>&1 | grep -v '^ok\\|no test files' | head -40", cwd=wt, timeout=2400)
            rc_hz, out_hz = sh("go test -vet=off -count=1 ./... 2>&1 | grep -- '--- FAIL' | head", cwd=os.path.join(wt, "cmd/hz"), timeout=1200)
            fails = [l for l in out.splitlines() if l.startswith("--- FAIL") or l.startswith("FAIL")]
            hzfails = [l for l in out_hz.splitlines() if "TestIdlGenerator_GenModel" not in l and "TestRun" not in l and "TestPlugin_Handle" not in l]
            res["suite_passes_with_change"] = not fails and not hzfails
            res["suite_output"] = (out + out_hz)[-1500:]
            print("suite with change: %s (%.0fs)" % ("pass" if res["suite_passes_with_change"] else "FAIL", time.time() - t0))
            if fails or hzfails:
                print(out[-1500:], out_hz[-500:])
    finally:
        sh("git -C /repo worktree remove --force %s" % wt)
        shutil.rmtree(wt, ignore_errors=True)
    # run my check against it
    rc, out = sh("git -C /repo status --porcelain")
    if out.strip():
        print("REFUSING: /repo is not clean:", out); return finish(res, keep, seed)
    rc, out = sh("git -C /repo apply %s" % patch)
    try:
        t0 = time.time()
        rc, out = sh("./check %s --tier quick" % prop, cwd="/verif", timeout=3600)
        res["quick_rc"] = rc
        res["quick_tail"] = "\n".join(out.strip().splitlines()[-6:])[-1500:]
        print("quick: rc=%d (%.0fs)" % (rc, time.time() - t0)); print(res["quick_tail"][-700:])
        if thorough or rc == 0:
            t0 = time.time()
            rc, out = sh("./check %s --tier thorough" % prop, cwd="/verif", timeout=7200)
            res["thorough_rc"] = rc
            res["thorough_tail"] = "\n".join(out.strip().splitlines()[-6:])[-1500:]
            print("thorough: rc=%d (%.0fs)" % (rc, time.time() - t0)); print(res["thorough_tail"][-700:])
    finally:
        sh("git -C /repo checkout -- . && git -C /repo clean -fdq")
    return finish(res, keep, seed)

def finish(res, keep, seed):
    if keep:
        d = os.path.join("/verif/seeded", keep)
        os.makedirs(d, exist_ok=True)
        for f in os.listdir(seed):
            src = os.path.join(seed, f)
            if os.path.isdir(src):
                shutil.copytree(src, os.path.join(d, f), dirs_exist_ok=True)
            else:
                shutil.copyfile(src, os.path.join(d, f))
        m = json.load(open(os.path.join(d, "meta.json")))
        m["verification"] = {k: v for k, v in res.items() if k not in ("meta", "seed_dir")}
        json.dump(m, open(os.path.join(d, "meta.json"), "w"), indent=1)
    print(json.dumps({k: v for k, v in res.items() if k in ("patch_applies", "builds", "demo_fails_with_change", "demo_passes_without_change", "suite_passes_with_change", "quick_rc", "thorough_rc")}))

if __name__ == "__main__":
    main()
