#!/usr/bin/env python3
"""tools/seed_final.py [revalidate|check|record] -- final pass over every kept seeded change at the current /repo HEAD.
revalidate: 4 lanes of scratch worktrees (patch applies, builds, demonstration fails with / passes without the change)
check:      serially in /repo: apply, ./check <prop> --tier quick (thorough if missed), revert
record:     merge both results into seeded/<name>/meta.json as verification_final
"""
import json, os, subprocess, sys, re
from concurrent.futures import ThreadPoolExecutor
SEEDED = "/verif/seeded"
OUT = "/verif/work/seedeval"
names = sorted(n for n in os.listdir(SEEDED) if os.path.isfile(os.path.join(SEEDED, n, "patch.diff")))
head = subprocess.check_output(["git", "-C", "/repo", "rev-parse", "--short", "HEAD"], text=True).strip()
mode = sys.argv[1]
only = sys.argv[2:] or names
def prop(n): return re.match(r"(C\d\d)", n).group(1)
if mode == "revalidate":
    def run(n):
        p = subprocess.run([sys.executable, "/verif/tools/seedeval.py", "revalidate", os.path.join(SEEDED, n), "final-" + n], capture_output=True, text=True)
        return n, p.stdout.strip().splitlines()[-1] if p.stdout.strip() else p.stderr[-300:]
    with ThreadPoolExecutor(4) as ex:
        for n, line in ex.map(run, [n for n in names if n in only]):
            print(line, flush=True)
elif mode == "check":
    for n in names:
        if n not in only: continue
        p = subprocess.run([sys.executable, "/verif/tools/seedeval.py", "check", os.path.join(SEEDED, n), "final-" + n, prop(n)], capture_output=True, text=True)
        print(p.stdout.strip().splitlines()[0] if p.stdout.strip() else p.stderr[-300:], flush=True)
elif mode == "record":
    for n in names:
        m = json.load(open(os.path.join(SEEDED, n, "meta.json")))
        fin = {"repo_head": head}
        for k in ("revalidate", "check"):
            f = os.path.join(OUT, "final-%s.%s.json" % (n, k))
            if os.path.exists(f):
                r = json.load(open(f))
                for key in ("patch_applies", "builds", "demo_fails_with_change", "demo_passes_without_change", "quick_rc", "quick_seconds", "thorough_rc", "error"):
                    if key in r: fin[key] = r[key]
        m["verification_final"] = fin
        json.dump(m, open(os.path.join(SEEDED, n, "meta.json"), "w"), indent=1)
    print("recorded", len(names))
