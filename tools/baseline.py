#!/usr/bin/env python3
"""tools/baseline.py -- run the pinned suite of /repo (both modules) as /root/.vp/BASELINE.json describes it and
compare with its stable_pass list. Prints the names that are in stable_pass and did not pass."""
import json, subprocess, os, sys
B = json.load(open("/root/.vp/BASELINE.json"))
want = set(B["stable_pass"])
env = dict(os.environ, GOFLAGS="-mod=mod", GOPROXY="off", GOSUMDB="off", GOTOOLCHAIN="local")
passed, failed = set(), set()
for mod in ["", "cmd/hz"]:
    p = subprocess.run("go test -json -vet=off -count=1 -timeout 25m ./...", shell=True, cwd=os.path.join("/repo", mod), env=env, capture_output=True, text=True)
    for line in p.stdout.splitlines():
        try:
            e = json.loads(line)
        except Exception:
            continue
        if e.get("Test") and e.get("Action") in ("pass", "fail"):
            (passed if e["Action"] == "pass" else failed).add(e["Package"] + "::" + e["Test"])
missing = sorted(want - passed)
print("stable_pass %d, passed now %d of them, failing tests overall %d" % (len(want), len(want & passed), len(failed)))
for m in missing:
    print("NOT PASSED:", m)
for f in sorted(failed - want):
    print("failed (not in stable_pass):", f)
subprocess.run("git -C /repo status --short", shell=True)
sys.exit(1 if missing else 0)
