#!/usr/bin/env python3
"""tools/fix_sensitivity.py [first_id [last_id]] -- for every 'fixed' finding (from D29 on by default): revert its fix
commit in /repo's working tree, run the quick tier of the property's check (and of the 'also' properties
until one reports it), expect exit 1, restore /repo. Results: hunt/SENSITIVITY.json."""
import json, subprocess, sys, os, re
first = int(sys.argv[1]) if len(sys.argv) > 1 else 29
last = int(sys.argv[2]) if len(sys.argv) > 2 else 10**6
F = json.load(open("/verif/known_findings.json"))["findings"]
out = []
def sh(cmd, **kw): return subprocess.run(cmd, shell=True, capture_output=True, text=True, **kw)
assert sh("git -C /repo status --porcelain").stdout.strip() == "", "/repo not clean"
for f in F:
    if f["status"] != "fixed" or not (first <= int(f["id"][1:]) <= last): continue
    c = f["commit"]
    sh("git -C /repo show %s > /tmp/fs.diff" % c)
    r = sh("git -C /repo apply -R /tmp/fs.diff")
    rec = {"id": f["id"], "commit": c, "property": f["property"]}
    if r.returncode != 0:
        rec["error"] = "cannot revert: " + r.stderr[-200:]
    else:
        for p in [f["property"]] + f.get("also", []):
            q = sh("./check %s --tier quick" % p, cwd="/verif")
            rec.setdefault("runs", []).append({"property": p, "rc": q.returncode, "summary": (q.stdout.strip().splitlines() or [""])[-1][:160]})
            if q.returncode == 1: break
        rec["caught"] = any(x["rc"] == 1 for x in rec["runs"])
    sh("git -C /repo checkout -- . && git -C /repo clean -fdq")
    out.append(rec)
    print(rec["id"], rec.get("caught"), rec.get("error", ""), flush=True)
prev = {}
if os.path.exists("/verif/hunt/SENSITIVITY.json"):
    for r in json.load(open("/verif/hunt/SENSITIVITY.json")).get("results", []):
        prev[r["id"]] = r
for r in out:
    prev[r["id"]] = r
merged = sorted(prev.values(), key=lambda r: int(r["id"][1:]))
json.dump({"repo_head": sh("git -C /repo rev-parse --short HEAD").stdout.strip(), "results": merged}, open("/verif/hunt/SENSITIVITY.json", "w"), indent=1)
os.remove("/tmp/fs.diff")
