#!/usr/bin/env python3
"""Regenerates /verif/MANIFEST.json from checks_config.py (claimed checks) and properties.jsonl."""
import json, os, sys
ROOT = os.path.dirname(os.path.dirname(os.path.abspath(__file__)))
sys.path.insert(0, ROOT)
from checks_config import CHECKS, NOT_APPLICABLE, HOOK_COMMITS

props = [json.loads(l) for l in open(os.path.join(ROOT, "properties.jsonl"))]
checks = []
na = []
for p in props:
    pid = p["id"]
    c = CHECKS.get(pid)
    if c is None or not c.get("claimed", True):
        na.append({"property_id": pid, "reason": NOT_APPLICABLE.get(pid, "check not built yet; not claimed until its machinery exists and has passed sensitivity runs")})
        continue
    e = {
        "property_id": pid,
        "quick_cmd": "./check %s --tier quick" % pid,
        "evidence_file": "/verif/evidence/%s.json" % pid,
        "replay_cmd_template": "./check %s --replay {path}" % pid,
        "engine": "rapid+enumerators",
        "level_claimed": {"category": c.get("level", "exploration"), "text": c["level_text"], "design_ref": c.get("design_ref", "DESIGN.md §3 " + pid)},
        "level_note": c["level_note"],
        "technique": c["technique"],
    }
    if c.get("thorough", True):
        e["thorough_cmd"] = "./check %s --tier thorough" % pid
    checks.append(e)

m = {
    "version": 1,
    "setup_cmd": "./check build",
    "hooks": {
        "guard": "verif",
        "enable": "go test -tags verif (harness modules replace github.com/cloudwego/hertz => /repo)",
        "baseline_off_cmd": "cd /repo && go build ./... && go test -mod=mod -vet=off -count=1 -timeout 25m ./... && cd cmd/hz && go test -mod=mod -vet=off -count=1 -timeout 25m ./...",
        "source_commits": HOOK_COMMITS,
        "add_only": True,
    },
    "engines": [
        {"name": "rapid+enumerators", "path": "/verif/harness", "serves_properties": [c["property_id"] for c in checks],
         "kind_free_text": "Go test binaries (pgregory.net/rapid v1.3.0 generators/state machines, bounded-exhaustive enumerators, native go fuzzing in thorough tiers) driven by /verif/check, which shards, merges evidence and maps results to exit codes"},
    ],
    "checks": checks,
    "not_applicable": na,
    "notes": "Every check is generated-input search against an explicit oracle (see DESIGN.md). exit 0 held / 1 VIOLATION / 2 inconclusive. known_findings.json lists recorded and fixed defects.",
}
json.dump(m, open(os.path.join(ROOT, "MANIFEST.json"), "w"), indent=1)
print("claimed:", [c["property_id"] for c in checks])
print("not claimed:", [n["property_id"] for n in na])
