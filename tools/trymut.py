#!/usr/bin/env python3
"""tools/trymut.py PROP FILE OLD NEW [--tier quick] : apply a textual mutation to /repo, run the check, revert.
Prints CAUGHT / MISSED. Only for development (sensitivity experiments)."""
import subprocess, sys, os
prop, f, old, new = sys.argv[1:5]
extra = sys.argv[5:]
p = os.path.join("/repo", f)
s = open(p).read()
if s.count(old) < 1:
    print("pattern not found"); sys.exit(3)
open(p, "w").write(s.replace(old, new, 1))
try:
    b = subprocess.run("cd /repo && go build ./pkg/... 2>&1 | tail -5", shell=True, capture_output=True, text=True)
    if b.stdout.strip():
        print("BUILD:", b.stdout)
    r = subprocess.run(["/verif/check", prop] + (extra or ["--tier", "quick"]), capture_output=True, text=True, cwd="/verif")
    lines = r.stdout.strip().splitlines()
    print("\n".join(lines[-6:]))
    print("=> rc=%d %s" % (r.returncode, "CAUGHT" if r.returncode == 1 else "MISSED" if r.returncode == 0 else "INCONCLUSIVE"))
finally:
    subprocess.run(["git", "-C", "/repo", "checkout", "--", f])
