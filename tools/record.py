#!/usr/bin/env python3
"""tools/record.py fixed|known <Dnn> <Cxx> <text> <input> <regress-or-identified_by> <lead> [also,...] -- append an entry to
known_findings.json; for 'fixed' the commit is /repo HEAD."""
import json, subprocess, sys
status, did, prop, text, inp, reg, lead = sys.argv[1:8]
also = sys.argv[8].split(",") if len(sys.argv) > 8 else []
p = "/verif/known_findings.json"
d = json.load(open(p))
assert not any(f["id"] == did for f in d["findings"]), did + " exists"
e = {"status": status, "property": prop}
if also: e["also"] = also
if status == "fixed":
    import os
    c = os.environ.get("COMMIT") or subprocess.run("git -C /repo log --format=%h -1", shell=True, capture_output=True, text=True).stdout.strip()
    e.update({"commit": c, "id": did, "text": "fixed: property=%s %s %s" % (prop, c, text), "input": inp, "regress": reg})
else:
    e.update({"id": did, "text": text, "input": inp, "identified_by": reg})
e["found_by"] = "fifth bug-hunt round, lead " + lead
d["findings"].append(e)
json.dump(d, open(p, "w"), indent=1, ensure_ascii=False)
print(did, e.get("commit", "known"))
