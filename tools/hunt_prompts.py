#!/usr/bin/env python3
"""tools/hunt_prompts.py <round-dir> <Cxx>... -- create a scratch worktree of /repo HEAD per property under <round-dir>
and write <round-dir>/<Cxx>.prompt.txt: the property text, what is already known (known_findings.json) and the leads
that were set aside (hunt/TRIAGE.md). Nothing from the checks goes into a prompt."""
import json, os, re, subprocess, sys
rd = sys.argv[1]
props = {}
for l in open("/verif/properties.jsonl"):
    d = json.loads(l); props[d["id"]] = d
F = json.load(open("/verif/known_findings.json"))["findings"]
tri = open("/verif/hunt/TRIAGE.md").read().splitlines()
os.makedirs(rd, exist_ok=True)
tag = os.path.basename(rd.rstrip("/"))
for pid in sys.argv[2:]:
    p = props[pid]
    wt = os.path.join(rd, pid)
    if not os.path.isdir(wt):
        subprocess.run(["git", "-C", "/repo", "worktree", "add", "--detach", wt, "HEAD"], check=True, capture_output=True)
    known = []
    for f in F:
        if f["property"] == pid or pid in f.get("also", []):
            t = re.sub(r"^fixed: property=C\d\d [0-9a-f]+ ", "", f["text"])
            t = re.sub(r"\. Not repaired:.*$", "", t)
            known.append(("(fixed) " if f["status"] == "fixed" else "(known, not repaired) ") + t)
    aside = []
    for l in tri:
        if not l.startswith("| " + pid): continue
        c = [x.strip() for x in l.strip("|").split("|")]
        if len(c) >= 3 and not re.match(r"(FIXED|KNOWN)", c[2]):
            aside.append("- %s -> %s" % (c[1], c[2]))
    anchors = ", ".join(p["anchors"]["files"])
    txt = f"""You are hunting for GENUINE violations of one semantic property of cloudwego/hertz (a Go HTTP/1.1 server and client framework derived from fasthttp, with its own header/URI parser, radix-tree router, connection pool, binder/validator and the hz code generator).

Your working directory is {wt} : a git worktree of the source tree (detached HEAD). Work ONLY inside it. Never touch /repo or /verif, never run `git stash`, never modify or commit tracked files (untracked test files of your own are fine and are the deliverable). There is no network: in every shell call first run
  export GOFLAGS=-mod=mod GOPROXY=off GOSUMDB=off GOTOOLCHAIN=local
(the hz generator is a module of its own in cmd/hz). Go 1.23 is installed; `go test -race` works. Other work runs on this machine: keep your own tests small, never use more than 4 parallel processes, and do not base a finding on a wall-clock measurement that a busy machine could explain.

THE PROPERTY ({pid}: {p['title']})
{p['statement']}

It is meant to hold over: {p['quantifier']['text']}
Code it is anchored in: {anchors}

TASK
Find inputs, call sequences, option settings, schedules or fault sequences for which the UNCHANGED tree violates the property as stated, and demonstrate each with a Go test that FAILS on the unchanged tree (and would pass once the defect is repaired: assert what the property demands, not what the code does). This tree has been through four rounds of exactly this exercise and about a hundred and fifty repairs; the easy things are gone, and some of the repairs themselves are recent and little exercised (look at `git log --oneline | head -160`: every commit starting with "fix:" is one; a repair that is incomplete, or that broke something next to it, is a first-class finding). What paid off before, and is worth pushing further:
  * options and configurations nobody varies (server.With..., client options, environment switches, less common transports: netpoll vs standard, TLS / connections without ReaderFrom),
  * a SECOND step on the same object (setter after getter, a write after the header block left, reuse of a pooled object, retry paths, error paths that reset state),
  * other spellings of the same thing (case, token lists, escapes, empty values, lenient forms hertz itself accepts: bare LF, tabs, extensions; boundary sizes 4095/4096/4097, 8192/8193, integer limits),
  * two code paths that must agree and are written separately (reader vs. drain, buffered vs. streaming, scalar vs. slice, server side vs. client side of the same codec),
  * assumptions a checker would make silently ("this cannot be expressed", "the caller would not do that") where the statement does not make them,
  * concurrency: small stress tests under `go test -race`; a reported DATA RACE inside hertz code on a path the property covers counts.
Read the code first; write small exploratory tests; keep only what is solid.

ALREADY KNOWN - do not report these again (repaired in this tree unless marked known):
""" + "\n".join("- " + k for k in known) + """

Leads that were examined and set aside (do not repeat unless you can show they DO fall under the statement):
""" + ("\n".join(aside) if aside else "- (none)") + f"""

DELIVERABLES (at most 4 findings, different root causes, best first)
For each finding n create the directory {wt}/FINDING_n/ containing
  - the demonstration test, named zz_{tag}_n_test.go (also place a copy at the path where it has to live to run),
  - meta.json with the keys: property, title, trigger, what_happens, what_the_property_demands, cause (file and function), severity, demo_path (repo-relative path of the test file), demo_cmd (a single shell command, run from the worktree root, that fails because of the finding).
Run every demo_cmd yourself and confirm it fails on the unchanged tree. If the Write tool refuses a file, create it with a shell heredoc.
Your final message must list, for each finding: the trigger, what happens, what the property demands, the cause, and the two paths; then, briefly, what you tested that turned out fine (so that nobody repeats it). If you find nothing solid, say so - a false report costs more than none.
"""
    open(os.path.join(rd, pid + ".prompt.txt"), "w").write(txt)
    print(pid, len(known), "known,", len(aside), "set aside,", len(txt), "chars")
