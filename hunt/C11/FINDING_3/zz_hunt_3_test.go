package client

import (
	"bufio"
	"bytes"
	"context"
	"net"
	"net/http"
	"testing"
	"time"

	"github.com/cloudwego/hertz/pkg/common/test/mock"
	"github.com/cloudwego/hertz/pkg/network/standard"
	"github.com/cloudwego/hertz/pkg/protocol"
	"github.com/cloudwego/hertz/pkg/protocol/http1/req"
)

// Property C11: the bytes sent are one well-formed request that both the hertz
// server and an independent HTTP parser decode to the same method, target, Host
// (configuration "path normalisation on/off" is part of the quantifier).
//
// Trigger: WithDisablePathNormalizing(true) and a URL whose path is empty but
// which has a query ("http://host?x=1", a valid URI per RFC 3986, for which
// RFC 7230 5.3.1 demands the target "/?x=1").
func TestHuntC11NoPathNormalizingEmptyPath(t *testing.T) {
	ln, err := net.Listen("tcp", "127.0.0.1:0")
	if err != nil {
		t.Fatal(err)
	}
	defer ln.Close()
	heads := make(chan []byte, 4)
	go func() {
		for {
			c, err := ln.Accept()
			if err != nil {
				return
			}
			go func(c net.Conn) {
				defer c.Close()
				br := bufio.NewReader(c)
				var head []byte
				for {
					line, err := br.ReadBytes('\n')
					head = append(head, line...)
					if err != nil {
						return
					}
					if len(line) <= 2 {
						break
					}
				}
				heads <- head
				c.Write([]byte("HTTP/1.1 200 OK\r\nConnection: close\r\nContent-Length: 2\r\n\r\nok")) //nolint:errcheck
			}(c)
		}
	}()

	// control: with path normalisation on, the same URL is sent as "/?x=1"
	for _, disable := range []bool{false, true} {
		c, err := NewClient(WithDialer(standard.NewDialer()), WithDisablePathNormalizing(disable))
		if err != nil {
			t.Fatal(err)
		}
		rq, rs := protocol.AcquireRequest(), protocol.AcquireResponse()
		rq.SetRequestURI("http://" + ln.Addr().String() + "?x=1")
		ctx, cancel := context.WithTimeout(context.Background(), 5*time.Second)
		err = c.Do(ctx, rq, rs)
		cancel()
		if err != nil {
			t.Fatalf("DisablePathNormalizing=%v Do: %v", disable, err)
		}
		raw := <-heads
		t.Logf("DisablePathNormalizing=%v, bytes on the wire:\n%s", disable, raw)

		sreq, err := http.ReadRequest(bufio.NewReader(bytes.NewReader(raw)))
		if err != nil {
			t.Errorf("DisablePathNormalizing=%v: the independent parser (net/http) rejects the request the client sent: %v", disable, err)
			continue
		}
		var hreq protocol.Request
		if err = req.Read(&hreq, mock.NewZeroCopyReader(string(raw))); err != nil {
			t.Errorf("DisablePathNormalizing=%v: hertz rejects the request the client sent: %v", disable, err)
			continue
		}
		if string(hreq.URI().Path()) != sreq.URL.Path || string(hreq.URI().QueryString()) != sreq.URL.RawQuery {
			t.Errorf("DisablePathNormalizing=%v: parsers disagree: hertz %q?%q, net/http %q?%q", disable,
				hreq.URI().Path(), hreq.URI().QueryString(), sreq.URL.Path, sreq.URL.RawQuery)
		}
		if sreq.URL.Path != "/" || sreq.URL.RawQuery != "x=1" {
			t.Errorf("DisablePathNormalizing=%v: target decoded as %q?%q, want \"/\"?\"x=1\"", disable, sreq.URL.Path, sreq.URL.RawQuery)
		}
	}
}
