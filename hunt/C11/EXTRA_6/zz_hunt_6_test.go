package req

import (
	"bufio"
	"bytes"
	"net/http"
	"testing"

	"github.com/cloudwego/hertz/pkg/network"
	"github.com/cloudwego/hertz/pkg/protocol"
)

// Property C11: for every request expressible through the client API (method,
// URL with query, ...) the bytes sent decode to the same target.
//
// Trigger (call sequence): the query arguments are touched through
// URI().QueryArgs() and afterwards the query is replaced with SetQueryString.
func TestHuntC11StaleQueryArgsWinOverSetQueryString(t *testing.T) {
	r := protocol.AcquireRequest()
	r.SetRequestURI("http://example.com/search?page=1")
	r.URI().QueryArgs().Add("debug", "1") // e.g. a middleware adding an argument
	r.SetQueryString("page=2&size=50")   // the application replaces the query

	if got := string(r.URI().QueryString()); got != "page=2&size=50" {
		t.Fatalf("QueryString() = %q", got)
	}

	var buf bytes.Buffer
	w := network.NewWriter(&buf)
	if err := Write(r, w); err != nil {
		t.Fatal(err)
	}
	w.Flush() //nolint:errcheck
	t.Logf("bytes on the wire:\n%s", buf.String())

	sreq, err := http.ReadRequest(bufio.NewReader(bytes.NewReader(buf.Bytes())))
	if err != nil {
		t.Fatal(err)
	}
	if sreq.URL.RawQuery != "page=2&size=50" {
		t.Errorf("the request's query is %q (URI().QueryString() reports it too), but the query on the wire is %q",
			"page=2&size=50", sreq.URL.RawQuery)
	}
}
