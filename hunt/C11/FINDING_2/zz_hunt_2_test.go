package client

import (
	"bufio"
	"bytes"
	"context"
	"net"
	"net/http"
	"sync"
	"testing"
	"time"

	"github.com/cloudwego/hertz/pkg/common/test/mock"
	"github.com/cloudwego/hertz/pkg/network/standard"
	"github.com/cloudwego/hertz/pkg/protocol"
	"github.com/cloudwego/hertz/pkg/protocol/http1/req"
)

// huntC11Proxy plays the HTTP proxy: it records the head of every request it
// receives and answers 200.
type huntC11Proxy struct {
	ln   net.Listener
	mu   sync.Mutex
	reqs [][]byte
}

func newHuntC11Proxy(t *testing.T) *huntC11Proxy {
	ln, err := net.Listen("tcp", "127.0.0.1:0")
	if err != nil {
		t.Fatal(err)
	}
	s := &huntC11Proxy{ln: ln}
	go func() {
		for {
			c, err := ln.Accept()
			if err != nil {
				return
			}
			go func(c net.Conn) {
				defer c.Close()
				br := bufio.NewReader(c)
				for {
					var head []byte
					for {
						line, err := br.ReadBytes('\n')
						head = append(head, line...)
						if err != nil {
							return
						}
						if len(line) <= 2 {
							break
						}
					}
					s.mu.Lock()
					s.reqs = append(s.reqs, head)
					s.mu.Unlock()
					c.Write([]byte("HTTP/1.1 200 OK\r\nContent-Length: 2\r\n\r\nok")) //nolint:errcheck
				}
			}(c)
		}
	}()
	return s
}

// Property C11: the bytes sent are one well-formed request that both the hertz
// server and an independent HTTP parser decode to the same method, target, Host
// (configuration "via proxy form" is part of the quantifier).
//
// Trigger: the client goes through an HTTP proxy (absolute-form request target)
// and the URL carries a fragment.
func TestHuntC11ProxyFormKeepsFragment(t *testing.T) {
	srv := newHuntC11Proxy(t)
	defer srv.ln.Close()

	c, err := NewClient(WithDialer(standard.NewDialer()))
	if err != nil {
		t.Fatal(err)
	}
	c.SetProxy(protocol.ProxyURI(protocol.ParseURI("http://" + srv.ln.Addr().String())))

	rq, rs := protocol.AcquireRequest(), protocol.AcquireResponse()
	rq.SetRequestURI("http://example.com/a/b?x=1&y=2#section-3")
	ctx, cancel := context.WithTimeout(context.Background(), 5*time.Second)
	defer cancel()
	if err = c.Do(ctx, rq, rs); err != nil {
		t.Fatalf("Do: %v", err)
	}
	srv.mu.Lock()
	raw := srv.reqs[len(srv.reqs)-1]
	srv.mu.Unlock()
	t.Logf("bytes on the wire:\n%s", raw)

	// independent parser
	sreq, err := http.ReadRequest(bufio.NewReader(bytes.NewReader(raw)))
	if err != nil {
		t.Fatalf("net/http cannot parse the request the client sent: %v", err)
	}
	// hertz server parser
	var hreq protocol.Request
	if err = req.Read(&hreq, mock.NewZeroCopyReader(string(raw))); err != nil {
		t.Fatalf("hertz cannot parse the request the client sent: %v", err)
	}

	hPath, hQuery := string(hreq.URI().Path()), string(hreq.URI().QueryString())
	t.Logf("hertz   : path=%q query=%q", hPath, hQuery)
	t.Logf("net/http: path=%q query=%q", sreq.URL.Path, sreq.URL.RawQuery)

	startLine := bytes.SplitN(raw, []byte("\r\n"), 2)[0]
	if bytes.IndexByte(startLine, '#') >= 0 {
		t.Errorf("request line carries a fragment, which is never part of a request target (RFC 7230 5.3): %q", startLine)
	}
	if hPath != sreq.URL.Path || hQuery != sreq.URL.RawQuery {
		t.Errorf("the two parsers decode different targets: hertz path=%q query=%q, net/http path=%q query=%q",
			hPath, hQuery, sreq.URL.Path, sreq.URL.RawQuery)
	}
	if got := sreq.URL.Query().Get("y"); got != "2" {
		t.Errorf("query parameter y: client was given %q, the independent parser decodes %q", "2", got)
	}
}
