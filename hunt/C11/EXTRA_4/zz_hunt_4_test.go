package req

import (
	"bufio"
	"bytes"
	"io"
	"net/http"
	"strings"
	"testing"

	"github.com/cloudwego/hertz/pkg/common/test/mock"
	"github.com/cloudwego/hertz/pkg/network"
	"github.com/cloudwego/hertz/pkg/protocol"
)

// Property C11: every request expressible through the client API (... multipart)
// is sent as one well-formed request that the hertz server and an independent
// parser decode to the same body.
//
// Trigger: a multipart file whose file name (or a field whose name) contains a
// double quote - legal in file names on every Unix.
func TestHuntC11MultipartQuoteInName(t *testing.T) {
	r := protocol.AcquireRequest()
	r.SetMethod("POST")
	r.SetRequestURI("http://example.com/upload")
	r.SetFileReader("doc", `my "final" report.txt`, strings.NewReader("report-data"))
	r.SetMultipartFormData(map[string]string{`say "hi"`: "v1", "plain": "v2"})

	var buf bytes.Buffer
	w := network.NewWriter(&buf)
	if err := Write(r, w); err != nil {
		// an error would be fine: the caller would know
		t.Skipf("Write refused the request: %v", err)
	}
	w.Flush() //nolint:errcheck
	t.Logf("bytes on the wire:\n%s", buf.String())

	// independent parser
	sreq, err := http.ReadRequest(bufio.NewReader(bytes.NewReader(buf.Bytes())))
	if err != nil {
		t.Fatalf("net/http: %v", err)
	}
	if err = sreq.ParseMultipartForm(1 << 20); err != nil {
		t.Fatalf("net/http multipart: %v", err)
	}
	// hertz server parser
	var hreq protocol.Request
	if err = Read(&hreq, mock.NewZeroCopyReader(buf.String())); err != nil {
		t.Fatalf("hertz: %v", err)
	}
	hform, err := hreq.MultipartForm()
	if err != nil {
		t.Fatalf("hertz multipart: %v", err)
	}

	if v := sreq.MultipartForm.Value["plain"]; len(v) != 1 || v[0] != "v2" {
		t.Errorf("net/http: field plain = %q", v)
	}
	if v := sreq.MultipartForm.Value[`say "hi"`]; len(v) != 1 || v[0] != "v1" {
		t.Errorf(`net/http: the field named say "hi" (value v1) given to the client arrives as %q; all fields received: %v`, v, sreq.MultipartForm.Value)
	}
	if v := hform.Value[`say "hi"`]; len(v) != 1 || v[0] != "v1" {
		t.Errorf(`hertz: the field named say "hi" (value v1) given to the client arrives as %q; all fields received: %v`, v, hform.Value)
	}
	fhs := sreq.MultipartForm.File["doc"]
	if len(fhs) != 1 {
		t.Fatalf("net/http: the client was given 1 file for field doc, the request carries %d (files received: %v)", len(fhs), sreq.MultipartForm.File)
	}
	f, _ := fhs[0].Open()
	b, _ := io.ReadAll(f)
	if string(b) != "report-data" {
		t.Errorf("file content %q", b)
	}
	if len(hform.File["doc"]) != 1 {
		t.Errorf("hertz: file doc missing")
	}
}
