package client

import (
	"bufio"
	"bytes"
	"context"
	"io"
	"mime"
	"mime/multipart"
	"net"
	"net/http"
	"strings"
	"sync"
	"testing"
	"time"

	"github.com/cloudwego/hertz/pkg/network/standard"
	"github.com/cloudwego/hertz/pkg/protocol"
)

// Property C11: every request expressible through the client API (here: a
// multipart form built with SetMultipartFormData / SetFileReader) reaches the
// server intact, also over a sequence of keep-alive exchanges.
//
// Trigger: an idempotent (PUT) multipart request goes out on a pooled
// keep-alive connection that the server has closed in the meantime. The client
// notices (ErrBadPoolConn) and transparently re-sends the request on a new
// connection - but the multipart readers were drained while serialising the
// first attempt, so the second attempt carries empty parts, and Do reports
// success.
func TestHuntC11MultipartResendAfterBadPoolConn(t *testing.T) {
	ln, err := net.Listen("tcp", "127.0.0.1:0")
	if err != nil {
		t.Fatal(err)
	}
	defer ln.Close()

	var mu sync.Mutex
	var got []*http.Request
	var bodies [][]byte
	go func() {
		for n := 0; ; n++ {
			c, err := ln.Accept()
			if err != nil {
				return
			}
			go func(c net.Conn, first bool) {
				defer c.Close()
				br := bufio.NewReader(c)
				for {
					r, err := http.ReadRequest(br)
					if err != nil {
						return
					}
					b, _ := io.ReadAll(r.Body)
					mu.Lock()
					got = append(got, r)
					bodies = append(bodies, b)
					mu.Unlock()
					c.Write([]byte("HTTP/1.1 200 OK\r\nContent-Length: 2\r\n\r\nok")) //nolint:errcheck
					if first {
						// the server gives up on this idle keep-alive connection
						return
					}
				}
			}(c, n == 0)
		}
	}()

	c, err := NewClient(WithDialer(standard.NewDialer()))
	if err != nil {
		t.Fatal(err)
	}
	base := "http://" + ln.Addr().String()
	ctx, cancel := context.WithTimeout(context.Background(), 10*time.Second)
	defer cancel()

	// exchange 1: leaves a keep-alive connection in the pool
	rq, rs := protocol.AcquireRequest(), protocol.AcquireResponse()
	rq.SetRequestURI(base + "/warmup")
	if err = c.Do(ctx, rq, rs); err != nil {
		t.Fatalf("warmup: %v", err)
	}
	time.Sleep(200 * time.Millisecond) // let the server's FIN arrive

	// exchange 2: PUT with a multipart form
	rq, rs = protocol.AcquireRequest(), protocol.AcquireResponse()
	rq.SetMethod("PUT")
	rq.SetRequestURI(base + "/upload")
	rq.SetMultipartFormData(map[string]string{"title": "hello world"})
	rq.SetFileReader("file", "a.txt", strings.NewReader("file-content-0123456789"))
	if err = c.Do(ctx, rq, rs); err != nil {
		// an error would be acceptable: the caller knows the request did not go through
		t.Skipf("Do returned an error, nothing was silently altered: %v", err)
	}
	if rs.StatusCode() != 200 {
		t.Fatalf("status %d", rs.StatusCode())
	}

	mu.Lock()
	defer mu.Unlock()
	if len(got) != 2 {
		t.Fatalf("server saw %d requests, want 2", len(got))
	}
	r, body := got[1], bodies[1]
	t.Logf("request body received by the server:\n%s", body)
	_, params, err := mime.ParseMediaType(r.Header.Get("Content-Type"))
	if err != nil {
		t.Fatal(err)
	}
	form, err := multipart.NewReader(bytes.NewReader(body), params["boundary"]).ReadForm(1 << 20)
	if err != nil {
		t.Fatalf("body is not a well-formed multipart form: %v", err)
	}
	if v := form.Value["title"]; len(v) != 1 || v[0] != "hello world" {
		t.Errorf("field title: client was given %q, server received %q", "hello world", v)
	}
	fhs := form.File["file"]
	if len(fhs) != 1 {
		t.Fatalf("file part: client was given 1 file, server received %d", len(fhs))
	}
	f, _ := fhs[0].Open()
	fb, _ := io.ReadAll(f)
	if string(fb) != "file-content-0123456789" {
		t.Errorf("file content: client was given %q, server received %q", "file-content-0123456789", fb)
	}
}
