package client

import (
	"bufio"
	"context"
	"errors"
	"io"
	"net"
	"net/http"
	"strings"
	"testing"
	"time"

	"github.com/cloudwego/hertz/pkg/common/config"
	errs "github.com/cloudwego/hertz/pkg/common/errors"
	"github.com/cloudwego/hertz/pkg/network/standard"
	"github.com/cloudwego/hertz/pkg/protocol"
)

// Property C11: "... the client returns the same status, header fields and body
// in both buffered and streaming mode, and enforces the configured maximum
// response size" (configurations: response streaming on/off x MaxResponseBodySize
// set/unset). ClientOptions.MaxResponseBodySize is documented as "The client
// returns ErrBodyTooLarge if this limit is greater than 0 and response body is
// greater than the limit."
//
// Trigger: WithResponseBodyStream(true) together with MaxResponseBodySize=100
// and a response body of 20000 bytes (fixed length, chunked, or read-until-close).
func TestHuntC11StreamModeIgnoresMaxResponseBodySize(t *testing.T) {
	const limit = 100
	big := strings.Repeat("x", 20000)
	cases := []struct{ name, resp string }{
		{"fixed", "HTTP/1.1 200 OK\r\nContent-Length: 20000\r\n\r\n" + big},
		{"chunked", "HTTP/1.1 200 OK\r\nTransfer-Encoding: chunked\r\n\r\n4e20\r\n" + big + "\r\n0\r\n\r\n"},
		{"until-close", "HTTP/1.1 200 OK\r\nConnection: close\r\n\r\n" + big},
	}
	for _, stream := range []bool{false, true} {
		for _, tc := range cases {
			ln, err := net.Listen("tcp", "127.0.0.1:0")
			if err != nil {
				t.Fatal(err)
			}
			go func(resp string) {
				for {
					c, err := ln.Accept()
					if err != nil {
						return
					}
					go func(c net.Conn) {
						defer c.Close()
						r, err := http.ReadRequest(bufio.NewReader(c))
						if err != nil {
							return
						}
						io.Copy(io.Discard, r.Body) //nolint:errcheck
						c.Write([]byte(resp))       //nolint:errcheck
					}(c)
				}
			}(tc.resp)

			c, _ := NewClient(WithDialer(standard.NewDialer()), WithResponseBodyStream(stream),
				config.ClientOption{F: func(o *config.ClientOptions) { o.MaxResponseBodySize = limit }})
			rq, rs := protocol.AcquireRequest(), protocol.AcquireResponse()
			rq.SetRequestURI("http://" + ln.Addr().String() + "/")
			ctx, cancel := context.WithTimeout(context.Background(), 5*time.Second)
			err = c.Do(ctx, rq, rs)
			var n int64
			if err == nil {
				// consume the body the way a streaming caller does
				n, err = io.Copy(io.Discard, rs.BodyStream())
				if !stream {
					n = int64(len(rs.Body()))
				}
			}
			cancel()
			rs.CloseBodyStream() //nolint:errcheck
			ln.Close()

			t.Logf("stream=%v %-11s: delivered %d body bytes, err=%v", stream, tc.name, n, err)
			if !errors.Is(err, errs.ErrBodyTooLarge) {
				t.Errorf("stream=%v %s: MaxResponseBodySize=%d, body of 20000 bytes: want ErrBodyTooLarge, got err=%v and %d body bytes handed to the caller",
					stream, tc.name, limit, err, n)
			}
		}
	}
}
