package validator

import (
	"reflect"
	"strconv"
	"testing"
)

// Property C20: an expression built from string literals, field references,
// parentheses, comparison/logical operators and len/regexp/in must be accepted
// exactly when it evaluates to true, whether it is printed with minimal or with
// redundant parentheses.
//
// The group / function-argument reader (readPairedSymbol) counts '(' and ')'
// that stand INSIDE a quoted string literal and strips a backslash in front of
// them. So as soon as such a literal is wrapped in any parentheses (a redundant
// group, or the argument list of len / in / regexp) the expression no longer
// compiles (every value is rejected with "syntax error"), or - for regexp - is
// compiled into a different pattern.

func hunt2Validate(t *testing.T, fieldVal string, expr string) error {
	t.Helper()
	st := reflect.StructOf([]reflect.StructField{{
		Name: "A",
		Type: reflect.TypeOf(fieldVal),
		Tag:  reflect.StructTag("vd:" + strconv.Quote(expr)),
	}})
	v := reflect.New(st)
	v.Elem().Field(0).SetString(fieldVal)
	var err error
	func() {
		defer func() {
			if r := recover(); r != nil {
				t.Fatalf("expr %q value %q: evaluation panicked: %v", expr, fieldVal, r)
			}
		}()
		err = New("vd").Validate(v.Interface())
	}()
	return err
}

func TestHunt2ParenthesisInsideStringLiteral(t *testing.T) {
	cases := []struct {
		minimal   string // printed with minimal parentheses
		redundant string // the same tree with redundant parentheses
		value     string
		want      bool // value of the expression for that field value
	}{
		{"$ == ')'", "($ == ')')", ")", true},
		{"$ == ')'", "($ == ')')", "x", false},
		{"$ == '('", "($ == '(')", "(", true},
		{"$ != ')' && $ != '('", "($ != ')') && ($ != '(')", "x", true},
		{"$ == 'a(' || $ == 'x'", "($ == 'a(' || $ == 'x')", "x", true},
		{"$ == ':-)'", "(($ == ':-)'))", ":-)", true},
	}
	for _, c := range cases {
		errMin := hunt2Validate(t, c.value, c.minimal)
		if (errMin == nil) != c.want {
			t.Errorf("A=%q %q: accepted=%v, want %v (err: %v)", c.value, c.minimal, errMin == nil, c.want, errMin)
		}
		errRed := hunt2Validate(t, c.value, c.redundant)
		if (errRed == nil) != c.want {
			t.Errorf("A=%q %q: accepted=%v, want %v like %q (err: %v)",
				c.value, c.redundant, errRed == nil, c.want, c.minimal, errRed)
		}
	}

	// the same literals as arguments of the built-in functions
	fn := []struct {
		expr  string
		value string
		want  bool
	}{
		{"len(')') == 1", "x", true},
		{"len($ + ')') == 2", "x", true},
		{"in($, 'a', ')')", ")", true},
		{"in($, '(', 'a')", "(", true},
		{"in($, '(', ')')", "(", true}, // control: balanced by accident, works
		// a regexp whose pattern holds a literal parenthesis
		{"regexp('^[^)]*$')", "abc", true},
		{"regexp('^[(]$')", "(", true},
		{`regexp('^\(a\)$')`, "(a)", true}, // \( \) are literal parentheses in RE2
		{`regexp('^\(a\)$')`, "a", false},
		{`regexp('^\(a\)$', $)`, "(a)", true},
	}
	for _, c := range fn {
		err := hunt2Validate(t, c.value, c.expr)
		if (err == nil) != c.want {
			t.Errorf("A=%q %q: accepted=%v, want %v (err: %v)", c.value, c.expr, err == nil, c.want, err)
		}
	}
}
