package validator

import (
	"fmt"
	"reflect"
	"strconv"
	"testing"
)

// Property C20: struct validation accepts the value exactly when the expression
// evaluates to true under the documented precedence; unary `!` binds tightest and
// redundant parentheses must not change the outcome.
//
// `!regexp(...)` whose operand is not a string (nil *string, a number, a bool)
// evaluates to false although `regexp(...)` itself is false for that operand, so
// `!X` and `X` are both false, and `!regexp(p)` differs from `!(regexp(p))`.

func hunt1Accepts(t *testing.T, fieldVal interface{}, expr string) bool {
	t.Helper()
	// the type is generated at run time so the expression is compiled afresh
	st := reflect.StructOf([]reflect.StructField{{
		Name: "A",
		Type: reflect.TypeOf(fieldVal),
		Tag:  reflect.StructTag("vd:" + strconv.Quote(expr)),
	}})
	v := reflect.New(st)
	v.Elem().Field(0).Set(reflect.ValueOf(fieldVal))
	var err error
	func() {
		defer func() {
			if r := recover(); r != nil {
				t.Fatalf("expr %q value %#v: evaluation panicked: %v", expr, fieldVal, r)
			}
		}()
		err = New("vd").Validate(v.Interface())
	}()
	return err == nil
}

func TestHunt1NegatedRegexpOnNonStringOperand(t *testing.T) {
	var nilStr *string
	a := "abc"
	values := []interface{}{nilStr, &a, "abc", "xyz", "", 0, 5, -1, 1.5, true, false}
	for _, val := range values {
		name := fmt.Sprintf("%T(%v)", val, val)
		if p, ok := val.(*string); ok && p != nil {
			name = "*string(" + *p + ")"
		}
		plain := hunt1Accepts(t, val, "regexp('^a')")
		negated := hunt1Accepts(t, val, "!regexp('^a')")
		negatedGrouped := hunt1Accepts(t, val, "!(regexp('^a'))")
		doubleNeg := hunt1Accepts(t, val, "!!regexp('^a')")
		explicit := hunt1Accepts(t, val, "!regexp('^a', $)")

		if negated == plain {
			t.Errorf("%s: `regexp('^a')` accepted=%v and `!regexp('^a')` accepted=%v; "+
				"the unary ! must invert the result", name, plain, negated)
		}
		if negated != negatedGrouped {
			t.Errorf("%s: `!regexp('^a')` accepted=%v but `!(regexp('^a'))` accepted=%v; "+
				"redundant parentheses must not change the outcome", name, negated, negatedGrouped)
		}
		if doubleNeg != plain {
			t.Errorf("%s: `!!regexp('^a')` accepted=%v but `regexp('^a')` accepted=%v", name, doubleNeg, plain)
		}
		if explicit != negated {
			t.Errorf("%s: `!regexp('^a', $)` accepted=%v but `!regexp('^a')` accepted=%v", name, explicit, negated)
		}
	}
}
