package binding

import (
	"fmt"
	"reflect"
	"testing"
)

// Property C20: struct validation accepts the value exactly when the expression
// evaluates to true, for all field values incl. nil pointers; evaluation never
// panics, whatever the field values are.
//
// binding.Validate / StructValidator.ValidateStruct document that they take a
// struct or a pointer to a struct. A struct whose only field is a pointer is
// "pointer shaped": when it is passed BY VALUE, reflect keeps the field's
// pointer itself in the data word of the reflect.Value. tagexpr
// (VM.RunAny -> subRunAll -> rvPtr) takes that word for the ADDRESS of the
// struct, so
//   - a nil field makes the whole validation fail with "unsupported data: nil"
//     although the expression is true for nil, and
//   - a non-nil field makes the engine use the pointee (the user's integer!) as
//     a memory address: nil-dereference panic for small values, and an
//     unrecoverable "fatal error: unexpected fault address" (process exit) for
//     others, e.g. -5 or 1000000.

type hunt3OnePtr struct {
	A *int `vd:"$ == nil || $ > 0"`
}

// control: same field and expression, but the struct is not pointer shaped
type hunt3TwoFields struct {
	A *int `vd:"$ == nil || $ > 0"`
	B int
}

func hunt3Validate(obj interface{}) (err error, panicked interface{}) { //nolint
	defer func() { panicked = recover() }()
	return Validate(obj), nil
}

func TestHunt3PointerShapedStructByValue(t *testing.T) {
	five, minusOne := 5, -1

	// reference behaviour through a pointer to the struct
	for _, c := range []struct {
		a    *int
		want bool
	}{{nil, true}, {&five, true}, {&minusOne, false}} {
		desc := "nil"
		if c.a != nil {
			desc = fmt.Sprint(*c.a)
		}
		for _, obj := range []interface{}{
			&hunt3OnePtr{A: c.a},                         // pointer: fine
			hunt3TwoFields{A: c.a},                       // by value, not pointer shaped: fine
			&hunt3TwoFields{A: c.a},                      // pointer: fine
			reflect.ValueOf(&hunt3OnePtr{A: c.a}).Elem(), // addressable reflect.Value: fine
		} {
			err, p := hunt3Validate(obj)
			if p != nil {
				t.Errorf("control %T A=%s: panic %v", obj, desc, p)
			} else if (err == nil) != c.want {
				t.Errorf("control %T A=%s: accepted=%v want %v (%v)", obj, desc, err == nil, c.want, err)
			}
		}
	}

	// the pointer-shaped struct passed by value
	err, p := hunt3Validate(hunt3OnePtr{A: nil})
	if p != nil {
		t.Errorf("hunt3OnePtr{A: nil} by value: evaluation panicked: %v", p)
	} else if err != nil {
		t.Errorf("hunt3OnePtr{A: nil} by value: `$ == nil || $ > 0` is true for a nil pointer, "+
			"so the value must be accepted (as it is through a pointer), got error: %v", err)
	}

	// 5 is used as an address -> recoverable nil-dereference panic.
	// (With A = &minusOne or &1000000 the test binary dies with
	// "fatal error: unexpected fault address", which cannot be recovered.)
	err, p = hunt3Validate(hunt3OnePtr{A: &five})
	if p != nil {
		t.Errorf("hunt3OnePtr{A: &5} by value: evaluation panicked: %v", p)
	} else if err != nil {
		t.Errorf("hunt3OnePtr{A: &5} by value: 5 > 0, the value must be accepted, got error: %v", err)
	}

	// same thing with a type generated at run time
	st := reflect.StructOf([]reflect.StructField{{
		Name: "A", Type: reflect.TypeOf((*string)(nil)),
		Tag: `vd:"$ == nil || len($) > 0"`,
	}})
	err, p = hunt3Validate(reflect.New(st).Elem().Interface())
	if p != nil {
		t.Errorf("struct{A *string}{nil} by value: evaluation panicked: %v", p)
	} else if err != nil {
		t.Errorf("struct{A *string}{nil} by value: expression is true for nil, must be accepted, got error: %v", err)
	}
}
