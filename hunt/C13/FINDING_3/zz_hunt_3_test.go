package standard

import (
	"bytes"
	"io"
	"net"
	"testing"
	"time"
)

type zzH3Timeout struct{}

func (zzH3Timeout) Error() string   { return "i/o timeout" }
func (zzH3Timeout) Timeout() bool   { return true }
func (zzH3Timeout) Temporary() bool { return true }

// zzH3Conn behaves like a net.Conn whose write deadline fires in the middle of
// the first Write: it accepts the first `accept` bytes and returns a timeout
// error together with n > 0 (what net.TCPConn does). The next writes succeed,
// as they do on a real connection once the deadline has been extended.
type zzH3Conn struct {
	got    bytes.Buffer
	accept int
	fired  bool
}

func (f *zzH3Conn) Read(b []byte) (int, error) { return 0, io.EOF }
func (f *zzH3Conn) Write(b []byte) (int, error) {
	if !f.fired && len(b) > f.accept {
		f.fired = true
		f.got.Write(b[:f.accept])
		return f.accept, zzH3Timeout{}
	}
	return f.got.Write(b)
}
func (f *zzH3Conn) Close() error                       { return nil }
func (f *zzH3Conn) LocalAddr() net.Addr                { return nil }
func (f *zzH3Conn) RemoteAddr() net.Addr               { return nil }
func (f *zzH3Conn) SetDeadline(t time.Time) error      { return nil }
func (f *zzH3Conn) SetReadDeadline(t time.Time) error  { return nil }
func (f *zzH3Conn) SetWriteDeadline(t time.Time) error { return nil }

// Property C13: the peer receives exactly the concatenation of what was
// written, in order (nothing lost, duplicated or altered), by the time Flush
// returns.
//
// Sequence: WriteBinary(6000 bytes); Flush -> the socket takes 1000 bytes and
// reports a write timeout; SetWriteTimeout (extend the deadline); Flush -> nil.
func TestZZHunt3_FlushRetryAfterPartialWriteDuplicatesBytes(t *testing.T) {
	raw := &zzH3Conn{accept: 1000}
	c := newConn(raw, 4096)

	msg := make([]byte, 6000)
	for i := range msg {
		msg[i] = byte(i % 251)
	}
	if _, err := c.WriteBinary(msg); err != nil {
		t.Fatal(err)
	}
	err := c.Flush()
	if err == nil {
		t.Fatal("expected the injected timeout from the first Flush")
	}
	if ne, ok := err.(net.Error); !ok || !ne.Timeout() {
		t.Fatalf("unexpected error %v", err)
	}

	// The deadline is pushed out and the flush is retried; this time it succeeds.
	_ = c.SetWriteTimeout(time.Second)
	if err = c.Flush(); err != nil {
		t.Fatalf("second Flush: %v", err)
	}

	if !bytes.Equal(raw.got.Bytes(), msg) {
		t.Fatalf("Flush returned nil but the peer received %d bytes, want exactly the %d written "+
			"(first %d bytes were sent twice: got[1000:1004]=%v want %v)",
			raw.got.Len(), len(msg), raw.accept, raw.got.Bytes()[1000:1004], msg[1000:1004])
	}
}
