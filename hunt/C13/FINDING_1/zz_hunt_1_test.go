package standard

import (
	"bytes"
	"io"
	"net"
	"testing"
	"time"
)

// zzH1Conn hands out the scripted segments one per Read call.
type zzH1Conn struct {
	segs [][]byte
}

func (f *zzH1Conn) Read(b []byte) (int, error) {
	if len(f.segs) == 0 {
		return 0, io.EOF
	}
	n := copy(b, f.segs[0])
	if n == len(f.segs[0]) {
		f.segs = f.segs[1:]
	} else {
		f.segs[0] = f.segs[0][n:]
	}
	return n, nil
}
func (f *zzH1Conn) Write(b []byte) (int, error)        { return len(b), nil }
func (f *zzH1Conn) Close() error                       { return nil }
func (f *zzH1Conn) LocalAddr() net.Addr                { return nil }
func (f *zzH1Conn) RemoteAddr() net.Addr               { return nil }
func (f *zzH1Conn) SetDeadline(t time.Time) error      { return nil }
func (f *zzH1Conn) SetReadDeadline(t time.Time) error  { return nil }
func (f *zzH1Conn) SetWriteDeadline(t time.Time) error { return nil }

// Property C13: "a slice returned by a peek stays unchanged until the next
// release" (network.Reader: "After invoking Release, the slices obtained by the
// method such as Peek will become an invalid address").
//
// The sequence below never calls Release. It peeks a "header", skips it, reads
// the "body" with Read (a listed reader operation), and peeks the next message.
func TestZZHunt1_PeekedSliceChangedByReadWithoutRelease(t *testing.T) {
	raw := &zzH1Conn{segs: [][]byte{
		[]byte("HEAD" + "body"),
		[]byte("NEXTMESSAGE!"),
	}}
	c := newConn(raw, 4096)

	hdr, err := c.Peek(4)
	if err != nil || string(hdr) != "HEAD" {
		t.Fatalf("Peek(4) = %q, %v", hdr, err)
	}
	if err = c.Skip(4); err != nil {
		t.Fatal(err)
	}

	body := make([]byte, 4)
	n, err := c.Read(body)
	if err != nil || n != 4 || string(body) != "body" {
		t.Fatalf("Read = %d %q %v", n, body, err)
	}
	// Still no Release: hdr must still read "HEAD".
	if string(hdr) != "HEAD" {
		t.Fatalf("peeked slice changed right after Read: %q", hdr)
	}

	next, err := c.Peek(12)
	if err != nil || string(next) != "NEXTMESSAGE!" {
		t.Fatalf("Peek(12) = %q, %v", next, err)
	}

	// No Release has been called since hdr was peeked.
	if !bytes.Equal(hdr, []byte("HEAD")) {
		t.Fatalf("slice returned by Peek changed before any Release: got %q, want %q "+
			"(Conn.Read released the input buffer behind the caller's back)", hdr, "HEAD")
	}
}
