package standard

import (
	"bytes"
	"io"
	"net"
	"testing"
	"time"
)

// zzH2Conn records everything written to it. Like *tls.Conn and net.Pipe it
// does not implement io.ReaderFrom, so Conn.ReadFrom uses its own copy loop.
type zzH2Conn struct {
	got bytes.Buffer
}

func (f *zzH2Conn) Read(b []byte) (int, error)         { return 0, io.EOF }
func (f *zzH2Conn) Write(b []byte) (int, error)        { return f.got.Write(b) }
func (f *zzH2Conn) Close() error                       { return nil }
func (f *zzH2Conn) LocalAddr() net.Addr                { return nil }
func (f *zzH2Conn) RemoteAddr() net.Addr               { return nil }
func (f *zzH2Conn) SetDeadline(t time.Time) error      { return nil }
func (f *zzH2Conn) SetReadDeadline(t time.Time) error  { return nil }
func (f *zzH2Conn) SetWriteDeadline(t time.Time) error { return nil }

func zzH2Pattern(n int, salt byte) []byte {
	b := make([]byte, n)
	for i := range b {
		b[i] = byte(i*7) ^ salt
	}
	return b
}

// Property C13: for every sequence of writer operations the peer receives
// exactly the concatenation of what was written, in order, by the time Flush
// returns.
//
// Sequence: Malloc(10000)+Flush (leaves a flushed 16 KiB node, which is not
// "recyclable"), then ReadFrom(40000 bytes), then Flush.
func TestZZHunt2_ReadFromAfterLargeMallocLosesData(t *testing.T) {
	raw := &zzH2Conn{}
	c := newConn(raw, 4096).(*Conn)

	var want bytes.Buffer

	first := zzH2Pattern(10000, 0x11)
	buf, err := c.Malloc(len(first))
	if err != nil || len(buf) != len(first) {
		t.Fatalf("Malloc: %d %v", len(buf), err)
	}
	copy(buf, first)
	want.Write(first)
	if err = c.Flush(); err != nil {
		t.Fatal(err)
	}
	if !bytes.Equal(raw.got.Bytes(), want.Bytes()) {
		t.Fatalf("after first flush: got %d bytes want %d", raw.got.Len(), want.Len())
	}

	second := zzH2Pattern(40000, 0x22)
	want.Write(second)
	n, err := c.ReadFrom(bytes.NewReader(second))
	if err != nil {
		t.Errorf("ReadFrom(40000 bytes) = %d, %v; want 40000, nil", n, err)
	}
	func() {
		defer func() {
			if r := recover(); r != nil {
				t.Errorf("Flush after ReadFrom panicked: %v", r)
			}
		}()
		if err := c.Flush(); err != nil {
			t.Errorf("Flush: %v", err)
		}
	}()
	if !bytes.Equal(raw.got.Bytes(), want.Bytes()) {
		t.Fatalf("peer received %d bytes, want %d: the bytes handed to ReadFrom were not all delivered",
			raw.got.Len(), want.Len())
	}
}
