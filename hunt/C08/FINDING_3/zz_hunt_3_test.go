package app

import (
	"context"
	"io/ioutil"
	"os"
	"path/filepath"
	"strings"
	"testing"

	"github.com/cloudwego/hertz/pkg/protocol"
)

// Property C08: a file that exists under the root is answered with exactly
// its bytes; 404 is reserved for "there is no such file".
//
// Configuration: FS{Compress: true}. Request: GET of an existing, readable,
// compressible file with "Accept-Encoding: gzip".
//
// The handler wants to keep a "<name>.hertz.gz" cache file next to the
// original. When that cannot be opened/created for a reason other than
// ENOENT / EACCES / EPERM (here: ENAMETOOLONG because <name> + ".hertz.gz"
// or + ".hertz.gz.tmp" exceeds NAME_MAX; the same code path is taken for
// EROFS, ENOSPC, EDQUOT ...) it answers "404 Cannot open requested path"
// instead of falling back to the uncompressed file, although the very same
// request without Accept-Encoding is served.
func TestZZHunt3CompressCacheFileErrorGives404(t *testing.T) {
	dir, err := ioutil.TempDir("", "zzhunt3")
	if err != nil {
		t.Fatal(err)
	}
	defer os.RemoveAll(dir)
	content := strings.Repeat("hello world ", 200) // compressible

	// 255 is NAME_MAX on the usual Linux file systems;
	// len(".hertz.gz") == 9, len(".hertz.gz.tmp") == 13
	for _, n := range []int{200, 242, 243, 246, 247, 255} {
		name := strings.Repeat("a", n-4) + ".txt"
		if err := ioutil.WriteFile(filepath.Join(dir, name), []byte(content), 0o644); err != nil {
			t.Skipf("file system does not accept a %d byte name: %v", n, err)
		}
		fs := &FS{Root: dir, Compress: true}
		h := fs.NewRequestHandler()
		for _, gz := range []bool{false, true} {
			var ctx RequestContext
			var req protocol.Request
			req.SetRequestURI("http://foobar.com/" + name)
			if gz {
				req.Header.Set("Accept-Encoding", "gzip")
			}
			req.CopyTo(&ctx.Request)
			h(context.Background(), &ctx)

			var body []byte
			if string(ctx.Response.Header.ContentEncoding()) == "gzip" {
				body, _ = ctx.Response.BodyGunzip()
			} else {
				body = ctx.Response.Body()
			}
			if st := ctx.Response.StatusCode(); st != 200 || string(body) != content {
				if len(body) > 40 {
					body = body[:40]
				}
				t.Errorf("existing file with a %d byte name, Accept-Encoding gzip=%v: status=%d body=%q; want 200 and the %d bytes of the file",
					n, gz, st, body, len(content))
			}
		}
	}
}
