//go:build linux

package app

import (
	"context"
	"io/ioutil"
	"os"
	"path/filepath"
	"runtime"
	"strings"
	"syscall"
	"testing"

	"github.com/cloudwego/hertz/pkg/protocol"
)

// Property C08: a request that designates a file under the root must be
// answered with exactly the bytes of that file (404 only when there is no
// such file).
//
// Configuration: FS{Compress: true, IndexNames: ["index.html"]}, the served
// directory is not writable by the server process (the usual hardened
// deployment: content owned by root, server running unprivileged).
// Request: GET <directory> with "Accept-Encoding: gzip" (every browser).
//
// "/index.html" itself is served (the handler falls back to the uncompressed
// file when it cannot store the .hertz.gz cache file), but the very same file
// reached through the directory + IndexNames is answered with
// "403 Directory index is forbidden".
func TestZZHunt1CompressIndexNamesReadOnlyDir(t *testing.T) {
	dir, err := ioutil.TempDir("", "zzhunt1")
	if err != nil {
		t.Fatal(err)
	}
	sub := filepath.Join(dir, "sub")
	defer func() {
		os.Chmod(sub, 0o755) //nolint:errcheck
		os.Chmod(dir, 0o755) //nolint:errcheck
		os.RemoveAll(dir)
	}()
	content := strings.Repeat("<p>hello world</p>", 200) // well compressible
	if err := os.MkdirAll(sub, 0o755); err != nil {
		t.Fatal(err)
	}
	for _, p := range []string{filepath.Join(dir, "index.html"), filepath.Join(sub, "index.html")} {
		if err := ioutil.WriteFile(p, []byte(content), 0o644); err != nil {
			t.Fatal(err)
		}
	}
	// world readable, nobody may create files in there
	os.Chmod(sub, 0o555) //nolint:errcheck
	os.Chmod(dir, 0o555) //nolint:errcheck

	if os.Getuid() == 0 {
		// root ignores directory permissions; give this OS thread the
		// filesystem identity of "nobody" for the duration of the test so the
		// directory really is read-only for the handler.
		runtime.LockOSThread()
		defer runtime.UnlockOSThread()
		syscall.Setfsgid(65534) //nolint:errcheck
		syscall.Setfsuid(65534) //nolint:errcheck
		defer syscall.Setfsgid(0) //nolint:errcheck
		defer syscall.Setfsuid(0) //nolint:errcheck
	}
	if f, err := os.Create(filepath.Join(dir, "probe")); err == nil {
		f.Close()
		t.Skip("cannot make the directory read-only in this environment")
	}
	if _, err := ioutil.ReadFile(filepath.Join(dir, "index.html")); err != nil {
		t.Skipf("cannot read the test file with the reduced identity: %v", err)
	}

	fs := &FS{Root: dir, Compress: true, IndexNames: []string{"index.html"}}
	h := fs.NewRequestHandler()

	get := func(p string, gz bool) (int, string) {
		var ctx RequestContext
		var req protocol.Request
		req.SetRequestURI("http://foobar.com" + p)
		if gz {
			req.Header.Set("Accept-Encoding", "gzip")
		}
		req.CopyTo(&ctx.Request)
		h(context.Background(), &ctx)
		var body []byte
		if string(ctx.Response.Header.ContentEncoding()) == "gzip" {
			body, _ = ctx.Response.BodyGunzip()
		} else {
			body = ctx.Response.Body()
		}
		return ctx.Response.StatusCode(), string(body)
	}

	// controls: these all work on the unchanged tree
	for _, c := range []struct {
		p  string
		gz bool
	}{{"/index.html", false}, {"/index.html", true}, {"/sub/index.html", true}, {"/", false}, {"/sub", false}} {
		if st, body := get(c.p, c.gz); st != 200 || body != content {
			t.Fatalf("control GET %s gzip=%v: status=%d, body len=%d; want 200 and the %d bytes of index.html", c.p, c.gz, st, len(body), len(content))
		}
	}

	// the property: the directory request designates index.html, which exists
	// under the root and is readable -> its exact bytes, status 200.
	for _, p := range []string{"/", "/sub", "/sub/"} {
		st, body := get(p, true)
		if st != 200 || body != content {
			if len(body) > 60 {
				body = body[:60]
			}
			t.Errorf("GET %s with Accept-Encoding: gzip: status=%d body=%q; want 200 and the %d bytes of index.html (the file exists under the root)", p, st, body, len(content))
		}
	}
}
