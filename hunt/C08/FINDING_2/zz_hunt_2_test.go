package app

import (
	"io/ioutil"
	"os"
	"path/filepath"
	"testing"

	"github.com/cloudwego/hertz/pkg/protocol"
)

// Property C08: the response carries exactly the bytes of the requested file,
// or 404 when there is no such file.
//
// ServeFile / ServeFileUncompressed (and therefore RequestContext.File,
// RequestContext.FileAttachment and RouterGroup.StaticFile) as well as
// RequestContext.FileFromFS take a *file system path*, but push it through the
// request-URI parser: '?' and '#' cut the name, %XX sequences are decoded,
// and the decoded result is dot-segment normalised. The response is then
// "200 OK" with the bytes of a DIFFERENT file.
func TestZZHunt2ServeFileTreatsFileNameAsURI(t *testing.T) {
	dir, err := ioutil.TempDir("", "zzhunt2")
	if err != nil {
		t.Fatal(err)
	}
	defer os.RemoveAll(dir)
	uploads := filepath.Join(dir, "uploads")
	if err := os.MkdirAll(uploads, 0o755); err != nil {
		t.Fatal(err)
	}
	files := map[string]string{
		"plain.txt":    "PLAIN",
		"report":       "CONTENT-OF-report",
		"report?v=2":   "CONTENT-OF-report?v=2",
		"report#1.txt": "CONTENT-OF-report#1.txt",
		"a%41.txt":     "CONTENT-OF-a%41.txt",
		"aA.txt":       "CONTENT-OF-aA.txt",
		"q%3Fz":        "CONTENT-OF-q%3Fz",
		"q?z":          "CONTENT-OF-q?z",
		"x%2fy":        "CONTENT-OF-x%2fy",
	}
	for n, c := range files {
		if err := ioutil.WriteFile(filepath.Join(uploads, n), []byte(c), 0o644); err != nil {
			t.Fatal(err)
		}
	}
	// a file that is NOT inside the uploads directory
	if err := ioutil.WriteFile(filepath.Join(dir, "secret.txt"), []byte("SECRET"), 0o644); err != nil {
		t.Fatal(err)
	}

	newCtx := func() *RequestContext {
		var ctx RequestContext
		var req protocol.Request
		req.SetRequestURI("http://foobar.com/download")
		req.CopyTo(&ctx.Request)
		return &ctx
	}

	// 1. every existing file must come back with its own bytes
	for n, want := range files {
		ctx := newCtx()
		ServeFileUncompressed(ctx, filepath.Join(uploads, n)) // what ctx.File / StaticFile do
		if st, body := ctx.Response.StatusCode(), string(ctx.Response.Body()); st != 200 || body != want {
			t.Errorf("ServeFile(%q): status=%d body=%q; want 200 %q", filepath.Join("uploads", n), st, body, want)
		}

		ctx = newCtx()
		ctx.FileFromFS(n, &FS{Root: uploads})
		if st, body := ctx.Response.StatusCode(), string(ctx.Response.Body()); st != 200 || body != want {
			t.Errorf("FileFromFS(%q): status=%d body=%q; want 200 %q", n, st, body, want)
		}
	}

	// 2. a name that designates no file must give 404. The name below contains
	// neither a path separator nor a ".." element (an application-level check
	// of an "upload name" passes), yet ServeFile percent-decodes it and walks
	// out of the uploads directory.
	name := "..%2fsecret.txt"
	if _, err := os.Stat(filepath.Join(uploads, name)); !os.IsNotExist(err) {
		t.Fatalf("test setup: %v", err)
	}
	ctx := newCtx()
	ctx.File(filepath.Join(uploads, name))
	if st, body := ctx.Response.StatusCode(), string(ctx.Response.Body()); st != 404 {
		t.Errorf("ctx.File(%q): status=%d body=%q; want 404, there is no such file", filepath.Join("uploads", name), st, body)
	}
}
