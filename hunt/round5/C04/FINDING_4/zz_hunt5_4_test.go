package server

// hunt5 / C04 / finding 4
//
// An HTTP/1.0 request that carries "Expect: 100-continue" is sent the interim
// response "HTTP/1.1 100 Continue" before the final one.
//
// RFC 7231 5.1.1: "A server that receives a 100-continue expectation in an
// HTTP/1.0 request MUST ignore that expectation."
// RFC 7231 6.2:   "Since HTTP/1.0 did not define any 1xx status codes, a server
// MUST NOT send a 1xx response to an HTTP/1.0 client."
//
// HTTP/1.0 knows one response per request: the client takes "100 Continue" for
// the answer (status 100, no header fields) and the final response, status line
// and header block included, for whatever follows it.
//
// The test plays the HTTP/1.0 client: the first thing on the wire has to be the
// final response.

import (
	"bytes"
	"context"
	"io"
	"net"
	"strconv"
	"strings"
	"testing"
	"time"

	"github.com/cloudwego/hertz/pkg/app"
	"github.com/cloudwego/hertz/pkg/common/config"
)

func hunt5f4Start(t *testing.T, reg func(h *Hertz), opts ...config.Option) string {
	l, err := net.Listen("tcp", "127.0.0.1:0")
	if err != nil {
		t.Fatal(err)
	}
	addr := l.Addr().String()
	l.Close()
	o := append([]config.Option{WithHostPorts(addr), WithExitWaitTime(10 * time.Millisecond), WithDisablePrintRoute(true)}, opts...)
	h := New(o...)
	reg(h)
	go h.Spin()
	t.Cleanup(func() { _ = h.Shutdown(context.Background()) })
	for i := 0; i < 300; i++ {
		c, err := net.Dial("tcp", addr)
		if err == nil {
			c.Close()
			return addr
		}
		time.Sleep(10 * time.Millisecond)
	}
	t.Fatal("server did not start")
	return ""
}

func TestHunt5C04F4_InterimResponseSentToHTTP10Client(t *testing.T) {
	addr := hunt5f4Start(t, func(h *Hertz) {
		h.POST("/echo", func(c context.Context, ctx *app.RequestContext) {
			ctx.SetBodyString("got:" + string(ctx.Request.Body()))
		})
	})

	for _, tc := range []struct{ name, raw string }{
		// the body comes with the request: an HTTP/1.0 client does not wait for anything
		{"HTTP/1.0", "POST /echo HTTP/1.0\r\nHost: a\r\nExpect: 100-continue\r\nContent-Length: 3\r\n\r\nabc"},
		{"HTTP/1.0 keep-alive", "POST /echo HTTP/1.0\r\nHost: a\r\nConnection: keep-alive\r\nExpect: 100-continue\r\nContent-Length: 3\r\n\r\nabc" +
			"GET /none HTTP/1.0\r\nHost: a\r\n\r\n"},
	} {
		c, err := net.Dial("tcp", addr)
		if err != nil {
			t.Fatal(err)
		}
		if _, err = c.Write([]byte(tc.raw)); err != nil {
			t.Fatal(err)
		}
		_ = c.SetReadDeadline(time.Now().Add(10 * time.Second))
		wire, _ := io.ReadAll(c)
		c.Close()

		// HTTP/1.0 client: the first status line is the status of the response
		eol := bytes.Index(wire, []byte("\r\n"))
		if eol < 0 {
			t.Errorf("%s: no status line in %q", tc.name, wire)
			continue
		}
		parts := strings.SplitN(string(wire[:eol]), " ", 3)
		status := 0
		if len(parts) >= 2 {
			status, _ = strconv.Atoi(parts[1])
		}
		if status != 200 {
			t.Errorf("%s: the response an HTTP/1.0 client reads has status %d (%q), the handler answered 200\nwire: %q", tc.name, status, wire[:eol], wire)
		}
		if n := bytes.Count(wire, []byte("HTTP/1.1 100 ")); n != 0 {
			t.Errorf("%s: %d interim response(s) sent to an HTTP/1.0 client (RFC 7231 6.2: MUST NOT)", tc.name, n)
		}
		if !bytes.Contains(wire, []byte("\r\n\r\ngot:abc")) {
			t.Errorf("%s: the final response does not carry the handler's body: %q", tc.name, wire)
		}
	}
}
