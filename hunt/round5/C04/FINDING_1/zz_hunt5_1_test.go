package server

// hunt5 / C04 / finding 1
//
// A request that says HTTP/1.0 is answered with "Transfer-Encoding: chunked"
// whenever the handler gives the body as a stream of unknown length
// (SetBodyStream(r, -1)). RFC 7230 section 3.3.1: "A server MUST NOT send a
// response containing Transfer-Encoding unless the corresponding request
// indicates HTTP/1.1 (or later)". An HTTP/1.0 client knows two ways to find the
// end of a body, Content-Length and the end of the connection: it takes the chunk
// sizes, the CRLFs and the last-chunk for body bytes.
//
// The test plays the HTTP/1.0 client: it decodes the answer with the HTTP/1.0
// rules only and asks for exactly the body the handler produced.

import (
	"bytes"
	"context"
	"fmt"
	"io"
	"net"
	"strconv"
	"strings"
	"testing"
	"time"

	"github.com/cloudwego/hertz/pkg/app"
	"github.com/cloudwego/hertz/pkg/common/config"
)

func hunt5f1Start(t *testing.T, reg func(h *Hertz), opts ...config.Option) string {
	l, err := net.Listen("tcp", "127.0.0.1:0")
	if err != nil {
		t.Fatal(err)
	}
	addr := l.Addr().String()
	l.Close()
	o := append([]config.Option{WithHostPorts(addr), WithExitWaitTime(10 * time.Millisecond), WithDisablePrintRoute(true)}, opts...)
	h := New(o...)
	reg(h)
	go h.Spin()
	t.Cleanup(func() { _ = h.Shutdown(context.Background()) })
	for i := 0; i < 300; i++ {
		c, err := net.Dial("tcp", addr)
		if err == nil {
			c.Close()
			return addr
		}
		time.Sleep(10 * time.Millisecond)
	}
	t.Fatal("server did not start")
	return ""
}

// hunt5f1Exchange sends raw and returns everything the server sends until it closes
// the connection (every request used here ends the connection).
func hunt5f1Exchange(t *testing.T, addr, raw string) []byte {
	c, err := net.Dial("tcp", addr)
	if err != nil {
		t.Fatal(err)
	}
	defer c.Close()
	if _, err = c.Write([]byte(raw)); err != nil {
		t.Fatal(err)
	}
	_ = c.SetReadDeadline(time.Now().Add(10 * time.Second))
	wire, _ := io.ReadAll(c)
	return wire
}

// hunt5f1DecodeHTTP10 decodes one response the way an HTTP/1.0 client does:
// Content-Length if there is one, the end of the connection otherwise.
func hunt5f1DecodeHTTP10(wire []byte) (status int, header map[string]string, body []byte, err error) {
	i := bytes.Index(wire, []byte("\r\n\r\n"))
	if i < 0 {
		return 0, nil, nil, fmt.Errorf("no header block in %q", wire)
	}
	lines := strings.Split(string(wire[:i]), "\r\n")
	parts := strings.SplitN(lines[0], " ", 3)
	if len(parts) < 2 {
		return 0, nil, nil, fmt.Errorf("bad status line %q", lines[0])
	}
	if status, err = strconv.Atoi(parts[1]); err != nil {
		return 0, nil, nil, err
	}
	header = map[string]string{}
	for _, l := range lines[1:] {
		kv := strings.SplitN(l, ":", 2)
		if len(kv) == 2 {
			header[strings.ToLower(kv[0])] = strings.TrimSpace(kv[1])
		}
	}
	rest := wire[i+4:]
	if cl, ok := header["content-length"]; ok {
		n, err := strconv.Atoi(cl)
		if err != nil || n > len(rest) {
			return status, header, rest, fmt.Errorf("Content-Length %q, %d bytes behind the header", cl, len(rest))
		}
		return status, header, rest[:n], nil
	}
	return status, header, rest, nil
}

func TestHunt5C04F1_HTTP10RequestAnsweredChunked(t *testing.T) {
	want := "hello world, this is the body of the response"
	addr := hunt5f1Start(t, func(h *Hertz) {
		h.GET("/stream", func(c context.Context, ctx *app.RequestContext) {
			// a stream of unknown length; not a *bytes.Reader, so nothing can be looked up
			ctx.SetBodyStream(io.MultiReader(strings.NewReader(want)), -1)
		})
	})

	for _, tc := range []struct{ name, raw string }{
		{"HTTP/1.0", "GET /stream HTTP/1.0\r\nHost: a\r\n\r\n"},
		{"HTTP/1.0 keep-alive", "GET /stream HTTP/1.0\r\nHost: a\r\nConnection: keep-alive\r\n\r\nGET /stream HTTP/1.0\r\nHost: a\r\n\r\n"},
	} {
		wire := hunt5f1Exchange(t, addr, tc.raw)
		status, header, body, err := hunt5f1DecodeHTTP10(wire)
		if err != nil {
			t.Errorf("%s: %v", tc.name, err)
			continue
		}
		if status != 200 {
			t.Errorf("%s: status %d", tc.name, status)
		}
		if te, ok := header["transfer-encoding"]; ok {
			t.Errorf("%s: the response to an HTTP/1.0 request carries Transfer-Encoding: %s (RFC 7230 3.3.1: MUST NOT)\nwire: %q", tc.name, te, wire)
		}
		if tc.name == "HTTP/1.0" && string(body) != want {
			t.Errorf("%s: an HTTP/1.0 client reads the body %q, the handler sent %q", tc.name, body, want)
		}
	}
}
