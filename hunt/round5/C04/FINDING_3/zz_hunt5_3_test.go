package server

// hunt5 / C04 / finding 3
//
// With the chunked body writer installed, RequestContext.Write,
// Response.AppendBody, Response.SetBody and Response.BodyWriter() hand the
// caller's slice to the connection by reference (4 KiB and more) and keep it
// until the next flush. Their own contracts say the opposite:
//
//   Response.AppendBody: "It is safe re-using p after the function returns."
//   Response.SetBody:    "It is safe re-using body argument after the function returns."
//   Response.BodyWriter: returns an io.Writer ("Write must not retain p")
//
// so every standard producer that writes from a reused buffer (io.Copy,
// json.Encoder, fmt.Fprintf ...) gets its body garbled: all chunks that are
// waiting for the flush show the bytes of the last one. The message is well framed, the body is not the body the handler wrote.
//
// (The note at chunkedBodyWriter.Write, "Before flush successfully, the buffer b
// should be valid", speaks to a caller of the ExtWriter. The caller here is hertz:
// AppendBody / SetBody / responseBodyWriter.Write pass on a buffer they promised
// not to keep.)

import (
	"bufio"
	"bytes"
	"context"
	"io"
	"net"
	"net/http"
	"testing"
	"time"

	"github.com/cloudwego/hertz/pkg/app"
	"github.com/cloudwego/hertz/pkg/common/config"
	"github.com/cloudwego/hertz/pkg/network/netpoll"
	"github.com/cloudwego/hertz/pkg/network/standard"
	"github.com/cloudwego/hertz/pkg/protocol/http1/resp"
)

func hunt5f3Start(t *testing.T, reg func(h *Hertz), opts ...config.Option) string {
	l, err := net.Listen("tcp", "127.0.0.1:0")
	if err != nil {
		t.Fatal(err)
	}
	addr := l.Addr().String()
	l.Close()
	o := append([]config.Option{WithHostPorts(addr), WithExitWaitTime(10 * time.Millisecond), WithDisablePrintRoute(true)}, opts...)
	h := New(o...)
	reg(h)
	go h.Spin()
	t.Cleanup(func() { _ = h.Shutdown(context.Background()) })
	for i := 0; i < 300; i++ {
		c, err := net.Dial("tcp", addr)
		if err == nil {
			c.Close()
			return addr
		}
		time.Sleep(10 * time.Millisecond)
	}
	t.Fatal("server did not start")
	return ""
}

// hunt5f3Src is a plain io.Reader (no WriterTo), so that io.Copy copies through
// its own, reused, buffer - what it does for a file, a pipe, a gzip reader...
type hunt5f3Src struct{ r io.Reader }

func (s hunt5f3Src) Read(p []byte) (int, error) { return s.r.Read(p) }

func hunt5f3Get(t *testing.T, addr, path string) string {
	c, err := net.Dial("tcp", addr)
	if err != nil {
		t.Fatal(err)
	}
	defer c.Close()
	if _, err = c.Write([]byte("GET " + path + " HTTP/1.1\r\nHost: a\r\nConnection: close\r\n\r\n")); err != nil {
		t.Fatal(err)
	}
	_ = c.SetReadDeadline(time.Now().Add(10 * time.Second))
	// an independent decoder
	r, err := http.ReadResponse(bufio.NewReader(c), &http.Request{Method: "GET"})
	if err != nil {
		t.Fatalf("%s: %v", path, err)
	}
	b, err := io.ReadAll(r.Body)
	if err != nil {
		t.Fatalf("%s: reading the body: %v", path, err)
	}
	if r.StatusCode != 200 {
		t.Fatalf("%s: status %d", path, r.StatusCode)
	}
	return string(b)
}

func TestHunt5C04F3_ChunkedWriterKeepsBufferAppendBodyPromisedNotToKeep(t *testing.T) {
	// 100000 bytes, every 4 KiB block different from every other
	want := make([]byte, 100000)
	for i := range want {
		want[i] = byte('a' + (i/4096+i%7)%26)
	}

	reg := func(h *Hertz) {
		// io.Copy into the context (RequestContext.Write -> Response.AppendBody)
		h.GET("/copy-ctx", func(c context.Context, ctx *app.RequestContext) {
			ctx.Response.HijackWriter(resp.NewChunkedBodyWriter(&ctx.Response, ctx.GetWriter()))
			_, _ = io.Copy(ctx, hunt5f3Src{bytes.NewReader(want)})
		})
		// io.Copy into the io.Writer the response hands out
		h.GET("/copy-bodywriter", func(c context.Context, ctx *app.RequestContext) {
			ctx.Response.HijackWriter(resp.NewChunkedBodyWriter(&ctx.Response, ctx.GetWriter()))
			_, _ = io.Copy(ctx.Response.BodyWriter(), hunt5f3Src{bytes.NewReader(want)})
		})
		// AppendBody from a buffer that is reused "after the function returns"
		h.GET("/appendbody", func(c context.Context, ctx *app.RequestContext) {
			ctx.Response.HijackWriter(resp.NewChunkedBodyWriter(&ctx.Response, ctx.GetWriter()))
			buf := make([]byte, 8192)
			for off := 0; off < len(want); {
				n := copy(buf, want[off:])
				ctx.Response.AppendBody(buf[:n])
				off += n
			}
		})
	}

	for _, tr := range []struct {
		name string
		opt  config.Option
	}{
		{"standard", WithTransport(standard.NewTransporter)},
		{"netpoll", WithTransport(netpoll.NewTransporter)},
	} {
		addr := hunt5f3Start(t, reg, tr.opt)
		for _, path := range []string{"/copy-ctx", "/copy-bodywriter", "/appendbody"} {
			got := hunt5f3Get(t, addr, path)
			if got == string(want) {
				continue
			}
			if len(got) != len(want) {
				t.Errorf("%s %s: body of %d bytes, the handler wrote %d", tr.name, path, len(got), len(want))
				continue
			}
			first := 0
			for first < len(got) && got[first] == want[first] {
				first++
			}
			diff := 0
			for i := range want {
				if got[i] != want[i] {
					diff++
				}
			}
			t.Errorf("%s %s: the client decodes a body that is not the body the handler wrote: %d of %d bytes differ, the first at offset %d (got %q, want %q)",
				tr.name, path, diff, len(want), first, got[first:first+16], want[first:first+16])
		}
	}
}
