import socket, threading, http.client, time
srv = socket.socket(); srv.bind(("127.0.0.1", 0)); srv.listen(1)
port = srv.getsockname()[1]
def serve():
    c, _ = srv.accept()
    c.recv(65536)
    c.sendall(b"HTTP/1.1 204 No Content\r\nServer: hertz\r\nTransfer-Encoding: chunked\r\n\r\n")
    time.sleep(3)
    c.close()
threading.Thread(target=serve, daemon=True).start()
conn = http.client.HTTPConnection("127.0.0.1", port, timeout=2)
conn.request("GET", "/")
r = conn.getresponse()
print("status", r.status, "chunked", r.chunked)
t = time.time()
try:
    print("body", r.read())
except Exception as e:
    print("read failed after %.1fs: %r" % (time.time() - t, e))
