package server

// hunt5 / C04 / finding 2
//
// A handler gives the body as a stream and the status ends up being 204 (set
// afterwards by the handler itself, by AbortWithStatus in a middleware, ...).
// The body is dropped, as it must be, but the framing fields that SetBodyStream
// stored in the header for it are sent: "Content-Length: n" for a stream of
// known length, "Transfer-Encoding: chunked" for one of unknown length - in
// front of no body at all.
//
// RFC 7230 3.3.1: "A server MUST NOT send a Transfer-Encoding header field in any
// response with a status code of 1xx (Informational) or 204 (No Content)."
// RFC 7230 3.3.2: "A server MUST NOT send a Content-Length header field in any
// response with a status code of 1xx (Informational) or 204 (No Content)."
//
// Not only a matter of form: a client that believes the header waits for a chunk
// behind the 204. Python's http.client (urllib, and what is built on it) does:
// on a keep-alive connection read() blocks until its timeout, see
// py_http_client_hangs_on_204_chunked.py next to this file.
//
// The same handler with the body as bytes (SetBodyString) sends neither field:
// Write() asks MustSkipContentLength before it declares the length, the stream
// path sends what SetBodyStream recorded while the status still allowed a body.

import (
	"bytes"
	"context"
	"io"
	"net"
	"strings"
	"testing"
	"time"

	"github.com/cloudwego/hertz/pkg/app"
	"github.com/cloudwego/hertz/pkg/common/config"
)

func hunt5f2Start(t *testing.T, reg func(h *Hertz), opts ...config.Option) string {
	l, err := net.Listen("tcp", "127.0.0.1:0")
	if err != nil {
		t.Fatal(err)
	}
	addr := l.Addr().String()
	l.Close()
	o := append([]config.Option{WithHostPorts(addr), WithExitWaitTime(10 * time.Millisecond), WithDisablePrintRoute(true)}, opts...)
	h := New(o...)
	reg(h)
	go h.Spin()
	t.Cleanup(func() { _ = h.Shutdown(context.Background()) })
	for i := 0; i < 300; i++ {
		c, err := net.Dial("tcp", addr)
		if err == nil {
			c.Close()
			return addr
		}
		time.Sleep(10 * time.Millisecond)
	}
	t.Fatal("server did not start")
	return ""
}

func hunt5f2HeaderBlock(t *testing.T, addr, path string) (statusLine string, fields map[string]string, rest []byte) {
	c, err := net.Dial("tcp", addr)
	if err != nil {
		t.Fatal(err)
	}
	defer c.Close()
	if _, err = c.Write([]byte("GET " + path + " HTTP/1.1\r\nHost: a\r\nConnection: close\r\n\r\n")); err != nil {
		t.Fatal(err)
	}
	_ = c.SetReadDeadline(time.Now().Add(10 * time.Second))
	wire, _ := io.ReadAll(c)
	i := bytes.Index(wire, []byte("\r\n\r\n"))
	if i < 0 {
		t.Fatalf("%s: no header block in %q", path, wire)
	}
	lines := strings.Split(string(wire[:i]), "\r\n")
	fields = map[string]string{}
	for _, l := range lines[1:] {
		kv := strings.SplitN(l, ":", 2)
		if len(kv) == 2 {
			fields[strings.ToLower(kv[0])] = strings.TrimSpace(kv[1])
		}
	}
	return lines[0], fields, wire[i+4:]
}

func TestHunt5C04F2_NoContentCarriesFramingOfDroppedStream(t *testing.T) {
	addr := hunt5f2Start(t, func(h *Hertz) {
		h.GET("/bytes", func(c context.Context, ctx *app.RequestContext) {
			ctx.SetBodyString("hello world")
			ctx.SetStatusCode(204)
		})
		h.GET("/stream-known", func(c context.Context, ctx *app.RequestContext) {
			ctx.SetBodyStream(strings.NewReader("hello world"), 11)
			ctx.SetStatusCode(204)
		})
		h.GET("/stream-unknown", func(c context.Context, ctx *app.RequestContext) {
			ctx.SetBodyStream(strings.NewReader("hello world"), -1)
			ctx.SetStatusCode(204)
		})
		// a middleware-style ending
		h.GET("/stream-abort", func(c context.Context, ctx *app.RequestContext) {
			ctx.SetBodyStream(strings.NewReader("hello world"), -1)
			ctx.AbortWithStatus(204)
		})
	})

	for _, path := range []string{"/bytes", "/stream-known", "/stream-unknown", "/stream-abort"} {
		statusLine, fields, rest := hunt5f2HeaderBlock(t, addr, path)
		if !strings.HasPrefix(statusLine, "HTTP/1.1 204 ") {
			t.Errorf("%s: status line %q", path, statusLine)
			continue
		}
		if len(rest) != 0 {
			t.Errorf("%s: %d bytes behind the header block of a 204", path, len(rest))
		}
		if v, ok := fields["transfer-encoding"]; ok {
			t.Errorf("%s: 204 response with Transfer-Encoding: %s and no chunked body behind it (RFC 7230 3.3.1: MUST NOT)", path, v)
		}
		if v, ok := fields["content-length"]; ok {
			t.Errorf("%s: 204 response with Content-Length: %s and 0 bytes sent (RFC 7230 3.3.2: MUST NOT)", path, v)
		}
	}
}
