package http1_test

// C11 / hunt5 finding 1: with MaxConnDuration set, HostClient.Do deletes the caller's own
// Connection header field from the request (RequestHeader.ResetConnectionClose removes
// every Connection field, not only the "close" the client added for this attempt).
// When the aged pooled connection turns out to be dead, the retry inside the same Do
// sends the request without that field.

import (
	"bufio"
	"context"
	"net"
	"net/http"
	"strings"
	"testing"
	"time"

	"github.com/cloudwego/hertz/pkg/network/standard"
	"github.com/cloudwego/hertz/pkg/protocol"
	"github.com/cloudwego/hertz/pkg/protocol/http1"
)

func TestHunt5_1_MaxConnDurationDropsCallersConnectionHeader(t *testing.T) {
	ln, err := net.Listen("tcp", "127.0.0.1:0")
	if err != nil {
		t.Fatal(err)
	}
	defer ln.Close()

	firstConnClosed := make(chan struct{})
	seen := make(chan http.Header, 8) // header of every request the server ANSWERS
	go func() {
		for i := 0; ; i++ {
			c, err := ln.Accept()
			if err != nil {
				return
			}
			go func(i int, c net.Conn) {
				defer c.Close()
				br := bufio.NewReader(c)
				r, err := http.ReadRequest(br)
				if err != nil {
					return
				}
				seen <- r.Header
				c.Write([]byte("HTTP/1.1 200 OK\r\nContent-Length: 2\r\n\r\nok")) //nolint:errcheck
				if i == 0 {
					// an idle keep-alive connection the server gives up (idle timeout)
					c.Close()
					close(firstConnClosed)
					return
				}
				http.ReadRequest(br) //nolint:errcheck // keep the connection open until the client goes away
			}(i, c)
		}
	}()

	hc := &http1.HostClient{
		Addr: ln.Addr().String(),
		ClientOptions: &http1.ClientOptions{
			Dialer:          standard.NewDialer(),
			ReadTimeout:     5 * time.Second,
			MaxConnDuration: 20 * time.Millisecond, // client.WithMaxConnDuration
		},
	}

	newReq := func() *protocol.Request {
		req := protocol.AcquireRequest()
		req.SetRequestURI("http://" + ln.Addr().String() + "/x")
		// RFC 9110 10.1.4: a sender of TE must also list it in Connection
		req.Header.Set("TE", "trailers")
		req.Header.Set("Connection", "TE")
		return req
	}

	// exchange 1: fresh connection, goes to the pool afterwards
	req, resp := newReq(), protocol.AcquireResponse()
	if err := hc.Do(context.Background(), req, resp); err != nil {
		t.Fatalf("exchange 1: %v", err)
	}
	if got := strings.Join((<-seen)["Connection"], ","); !strings.Contains(got, "TE") {
		t.Fatalf("exchange 1: server saw Connection=%q", got)
	}
	<-firstConnClosed
	time.Sleep(100 * time.Millisecond) // the pooled connection is now older than MaxConnDuration (and dead)

	// exchange 2: ONE Do. First attempt on the aged pooled connection (the client adds
	// "Connection: close" for it and takes it back afterwards), the connection is dead,
	// the client repeats the GET on a new connection.
	req, resp = newReq(), protocol.AcquireResponse()
	if err := hc.Do(context.Background(), req, resp); err != nil {
		t.Fatalf("exchange 2: %v", err)
	}
	if resp.StatusCode() != 200 || string(resp.Body()) != "ok" {
		t.Fatalf("exchange 2: status %d body %q", resp.StatusCode(), resp.Body())
	}
	got := strings.Join((<-seen)["Connection"], ",")
	if !strings.Contains(got, "TE") {
		t.Errorf("exchange 2: the request carried 'Connection: TE' (and 'TE: trailers'), the server that answered it saw Connection=%q", got)
	}
	if v := string(req.Header.Peek("Connection")); v != "TE" {
		t.Errorf("after Do the caller's request has Connection=%q, it was set to \"TE\" (Do removed the caller's header field)", v)
	}
}
