package http1_test

// C11 / hunt5 finding 3: while a read-until-close response body is being read, EVERY
// read error is taken for the end of the body (ext.readBodyIdentity returns nil for any
// error of Peek). A read timeout in the middle of the body - the server is slow, it has
// neither finished nor closed - makes HostClient.Do return err == nil with the part of
// the body received so far and a Content-Length header of that part: a truncated
// response delivered as a complete one. With Content-Length or chunked framing the same
// stall is reported as a timeout error.

import (
	"bufio"
	"context"
	"net"
	"net/http"
	"testing"
	"time"

	"github.com/cloudwego/hertz/pkg/network/standard"
	"github.com/cloudwego/hertz/pkg/protocol"
	"github.com/cloudwego/hertz/pkg/protocol/http1"
)

func TestHunt5_3_ReadTimeoutInsideCloseDelimitedBodyIsNotTheEndOfTheBody(t *testing.T) {
	const part1, part2 = "first half,", "second half"

	serve := func(t *testing.T, head string) (addr string, stop func()) {
		ln, err := net.Listen("tcp", "127.0.0.1:0")
		if err != nil {
			t.Fatal(err)
		}
		release := make(chan struct{})
		go func() {
			for {
				c, err := ln.Accept()
				if err != nil {
					return
				}
				go func(c net.Conn) {
					defer c.Close()
					if _, err := http.ReadRequest(bufio.NewReader(c)); err != nil {
						return
					}
					c.Write([]byte(head + part1)) //nolint:errcheck
					<-release                     // the server stalls; it does NOT close the connection
					c.Write([]byte(part2))        //nolint:errcheck
				}(c)
			}
		}()
		return ln.Addr().String(), func() { close(release); ln.Close() }
	}

	do := func(addr string) (*protocol.Response, error) {
		hc := &http1.HostClient{
			Addr: addr,
			ClientOptions: &http1.ClientOptions{
				Dialer:      standard.NewDialer(),
				ReadTimeout: 500 * time.Millisecond,
			},
		}
		req, resp := protocol.AcquireRequest(), protocol.AcquireResponse()
		req.SetRequestURI("http://" + addr + "/x")
		return resp, hc.Do(context.Background(), req, resp)
	}

	// reference: the same stall inside a body with a declared length is an error
	t.Run("content-length (reference)", func(t *testing.T) {
		addr, stop := serve(t, "HTTP/1.1 200 OK\r\nContent-Length: 22\r\n\r\n")
		defer stop()
		if _, err := do(addr); err == nil {
			t.Errorf("Do returned no error although the body never arrived completely")
		}
	})

	t.Run("read-until-close", func(t *testing.T) {
		addr, stop := serve(t, "HTTP/1.1 200 OK\r\nContent-Type: text/plain\r\n\r\n")
		defer stop()
		resp, err := do(addr)
		if err != nil {
			return // what the property demands: the incomplete response is reported as an error
		}
		body := string(resp.Body())
		if body != part1+part2 {
			t.Errorf("Do returned err == nil with status %d, Content-Length %q and body %q; the server was still sending (it had neither sent %q nor closed the connection)",
				resp.StatusCode(), resp.Header.Peek("Content-Length"), body, part2)
		}
	})
}
