package http1_test

// C11 / hunt5 finding 2: an interim (1xx) response other than 100, 102 and 103 in front
// of the final response is returned by HostClient.Do as THE response; the final response
// stays on the connection, which goes back to the pool, and answers the next request.
// RFC 9110 15.2: "A client MUST be able to parse one or more 1xx responses received prior
// to a final response, even if the client does not expect one." 104 (Upload Resumption
// Supported) is in the IANA registry and sent by servers that implement resumable uploads.

import (
	"bufio"
	"context"
	"io"
	"net"
	"net/http"
	"testing"
	"time"

	"github.com/cloudwego/hertz/pkg/network/standard"
	"github.com/cloudwego/hertz/pkg/protocol"
	"github.com/cloudwego/hertz/pkg/protocol/http1"
)

func TestHunt5_2_UnknownInterimResponseIsNotTheFinalOne(t *testing.T) {
	for _, stream := range []bool{false, true} {
		name := "buffered"
		if stream {
			name = "streaming"
		}
		t.Run(name, func(t *testing.T) {
			ln, err := net.Listen("tcp", "127.0.0.1:0")
			if err != nil {
				t.Fatal(err)
			}
			defer ln.Close()
			go func() {
				for {
					c, err := ln.Accept()
					if err != nil {
						return
					}
					go func(c net.Conn) {
						defer c.Close()
						br := bufio.NewReader(c)
						for i := 0; ; i++ {
							r, err := http.ReadRequest(br)
							if err != nil {
								return
							}
							io.Copy(io.Discard, r.Body) //nolint:errcheck
							if i == 0 {
								c.Write([]byte("HTTP/1.1 104 Upload Resumption Supported\r\nUpload-Draft-Interop-Version: 6\r\n\r\n" + //nolint:errcheck
									"HTTP/1.1 201 Created\r\nContent-Length: 5\r\nX-Exchange: 1\r\n\r\nfirst"))
							} else {
								c.Write([]byte("HTTP/1.1 200 OK\r\nContent-Length: 6\r\nX-Exchange: 2\r\n\r\nsecond")) //nolint:errcheck
							}
						}
					}(c)
				}
			}()

			hc := &http1.HostClient{
				Addr: ln.Addr().String(),
				ClientOptions: &http1.ClientOptions{
					Dialer:             standard.NewDialer(),
					ReadTimeout:        5 * time.Second,
					ResponseBodyStream: stream,
				},
			}
			want := []struct {
				status int
				body   string
			}{{201, "first"}, {200, "second"}}
			for i, w := range want {
				req, resp := protocol.AcquireRequest(), protocol.AcquireResponse()
				req.SetMethod("POST")
				req.SetRequestURI("http://" + ln.Addr().String() + "/upload")
				req.SetBodyString("data")
				if err := hc.Do(context.Background(), req, resp); err != nil {
					t.Fatalf("exchange %d: %v", i+1, err)
				}
				body := resp.Body() // reads the stream in streaming mode
				if resp.StatusCode() != w.status || string(body) != w.body {
					t.Errorf("exchange %d: got status %d, X-Exchange %q, body %q; the server's final response was %d %q",
						i+1, resp.StatusCode(), resp.Header.Peek("X-Exchange"), body, w.status, w.body)
				}
				protocol.ReleaseResponse(resp)
				protocol.ReleaseRequest(req)
			}
		})
	}
}
