package http1_test

// C11 / hunt5 finding 4: streaming mode, the peer goes away inside the response body.
// The first Body()/BodyE() call on the response reports the failure (BodyE returns the
// error, Body returns nil), but it leaves the part that was read in the body buffer and
// forgets the error: the next Body()/BodyE() call returns the truncated part with a nil
// error - a clean end in the middle of the body. (Request.BodyE was repaired for exactly
// this in cdb9429; Response.BodyE, the client side of the same code, was not.)

import (
	"bufio"
	"bytes"
	"context"
	"net"
	"net/http"
	"strconv"
	"testing"
	"time"

	"github.com/cloudwego/hertz/pkg/network/standard"
	"github.com/cloudwego/hertz/pkg/protocol"
	"github.com/cloudwego/hertz/pkg/protocol/http1"
)

func TestHunt5_4_SecondBodyCallAfterFailedStreamReturnsTruncatedBody(t *testing.T) {
	const declared, sent = 100000, 50000
	payload := bytes.Repeat([]byte("0123456789"), sent/10)

	for _, framing := range []string{"content-length", "chunked"} {
		t.Run(framing, func(t *testing.T) {
			ln, err := net.Listen("tcp", "127.0.0.1:0")
			if err != nil {
				t.Fatal(err)
			}
			defer ln.Close()
			go func() {
				for {
					c, err := ln.Accept()
					if err != nil {
						return
					}
					go func(c net.Conn) {
						defer c.Close() // the server dies in the middle of the body
						if _, err := http.ReadRequest(bufio.NewReader(c)); err != nil {
							return
						}
						if framing == "chunked" {
							c.Write([]byte("HTTP/1.1 200 OK\r\nTransfer-Encoding: chunked\r\n\r\n" + strconv.FormatInt(declared, 16) + "\r\n")) //nolint:errcheck
						} else {
							c.Write([]byte("HTTP/1.1 200 OK\r\nContent-Length: " + strconv.Itoa(declared) + "\r\n\r\n")) //nolint:errcheck
						}
						c.Write(payload) //nolint:errcheck
					}(c)
				}
			}()

			hc := &http1.HostClient{
				Addr: ln.Addr().String(),
				ClientOptions: &http1.ClientOptions{
					Dialer:             standard.NewDialer(),
					ReadTimeout:        5 * time.Second,
					ResponseBodyStream: true,
				},
			}
			req, resp := protocol.AcquireRequest(), protocol.AcquireResponse()
			req.SetRequestURI("http://" + ln.Addr().String() + "/x")
			if err := hc.Do(context.Background(), req, resp); err != nil {
				t.Fatalf("Do: %v", err)
			}

			// e.g. a logging middleware looks at the body first ...
			b1, err1 := resp.BodyE()
			if err1 == nil {
				t.Fatalf("first BodyE: no error although only %d of %d body bytes were sent (got %d bytes)", sent, declared, len(b1))
			}
			// ... then the application asks for it
			b2, err2 := resp.BodyE()
			if err2 == nil {
				t.Errorf("second BodyE returned %d bytes and a nil error; the body has %d bytes, the peer closed after %d, and the first call had reported %q",
					len(b2), declared, sent, err1)
			}
			if b := resp.Body(); len(b) != 0 {
				t.Errorf("Body() hands out %d bytes of a body that was never received completely (%d declared)", len(b), declared)
			}
		})
	}
}
