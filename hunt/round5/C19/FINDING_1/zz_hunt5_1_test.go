package server

// C19 - "each handled request is bracketed by exactly one start/finish pair whose
// finish carries that request's data".
//
// Serve releases the connection's read buffers (zr.Release()) BEFORE it flushes the
// response, and delivers the tracer's Finish only AFTER the flush. The body of a
// request that was read with ContinueReadBody is a zero-copy slice of those buffers
// (req.SetBodyRaw(r.Peek(contentLength))); when the body spans two buffer nodes it
// is a "cache" slice taken from the process-wide mcache pool, which Release() gives
// back. While the flush is blocked (a large answer, a slow reader) any other
// connection of the process takes that memory for its own input: the Finish of the
// first request then carries the bytes of the OTHER connection's request as its body.
//
// Nothing here depends on timing: the order is forced by the protocol (A's client
// does not read its answer until B's exchanges are over). What is not forced is
// which P's sync.Pool slot the freed buffer lands in, hence a few rounds; with
// `-cpu 1` the first round hits.

import (
	"bufio"
	"context"
	"fmt"
	"io"
	"net"
	"strings"
	"sync"
	"testing"
	"time"

	"github.com/cloudwego/hertz/pkg/app"
	"github.com/cloudwego/hertz/pkg/common/config"
	"github.com/cloudwego/hertz/pkg/network"
	"github.com/cloudwego/hertz/pkg/network/netpoll"
	"github.com/cloudwego/hertz/pkg/network/standard"
)

type h51Tracer struct {
	mu      sync.Mutex
	started int
	bodyA   []string // the body every Finish of /a carried
	done    chan struct{}
}

func (tr *h51Tracer) Start(ctx context.Context, c *app.RequestContext) context.Context {
	return ctx
}

func (tr *h51Tracer) Finish(ctx context.Context, c *app.RequestContext) {
	if string(c.Request.URI().Path()) != "/a" {
		return
	}
	b := string(c.Request.Body())
	tr.mu.Lock()
	tr.bodyA = append(tr.bodyA, b)
	tr.mu.Unlock()
	tr.done <- struct{}{}
}

func h51FreeAddr(t *testing.T) string {
	ln, err := net.Listen("tcp", "127.0.0.1:0")
	if err != nil {
		t.Fatal(err)
	}
	defer ln.Close()
	return ln.Addr().String()
}

// h51ReadResponse reads one response with a Content-Length from br and drops it.
func h51ReadResponse(br *bufio.Reader) error {
	cl := 0
	for {
		line, err := br.ReadString('\n')
		if err != nil {
			return err
		}
		l := strings.ToLower(line)
		if strings.HasPrefix(l, "content-length:") {
			fmt.Sscanf(strings.TrimSpace(l[len("content-length:"):]), "%d", &cl)
		}
		if line == "\r\n" {
			break
		}
	}
	_, err := io.CopyN(io.Discard, br, int64(cl))
	return err
}

func TestHunt5_1_FinishAfterReadBuffersReleased(t *testing.T) {
	// standard: 4 KiB buffer nodes, a body of 6000 bytes spans two of them.
	t.Run("standard", func(t *testing.T) { h51Run(t, standard.NewTransporter, 6000) })
	// netpoll (the default transport on Linux): 8 KiB nodes, a body of 20000 bytes.
	t.Run("netpoll", func(t *testing.T) { h51Run(t, netpoll.NewTransporter, 20000) })
}

func h51Run(t *testing.T, transporter func(*config.Options) network.Transporter, n int) {
	tr := &h51Tracer{done: make(chan struct{}, 16)}
	addr := h51FreeAddr(t)
	h := New(WithHostPorts(addr), WithTracer(tr), WithTransport(transporter),
		WithExitWaitTime(100*time.Millisecond))
	// larger than what the loopback socket buffers take: the flush blocks until the client reads
	big := []byte(strings.Repeat("r", 16<<20))
	var handledA []string
	var hmu sync.Mutex
	h.POST("/a", func(c context.Context, ctx *app.RequestContext) {
		hmu.Lock()
		handledA = append(handledA, string(ctx.Request.Body()))
		hmu.Unlock()
		ctx.Response.SetBodyRaw(big)
	})
	h.POST("/b", func(c context.Context, ctx *app.RequestContext) {
		ctx.String(200, "ok")
	})
	go h.Spin()
	for i := 0; i < 200 && !h.IsRunning(); i++ {
		time.Sleep(10 * time.Millisecond)
	}
	time.Sleep(50 * time.Millisecond)
	defer func() {
		ctx, cancel := context.WithTimeout(context.Background(), time.Second)
		defer cancel()
		h.Shutdown(ctx) //nolint:errcheck
	}()

	// n: the body does not fit the buffer node that holds the header
	bodyA := strings.Repeat("A", n)
	bodyB := strings.Repeat("B", n)

	for round := 0; round < 12; round++ {
		ca, err := net.Dial("tcp", addr)
		if err != nil {
			t.Fatal(err)
		}
		ca.SetDeadline(time.Now().Add(20 * time.Second))
		fmt.Fprintf(ca, "POST /a HTTP/1.1\r\nHost: x\r\nContent-Length: %d\r\n\r\n%s", n, bodyA)
		bra := bufio.NewReaderSize(ca, 64)
		// The first byte of the answer: the server is inside zw.Flush(), hence behind
		// zr.Release(), and stays there because nobody reads the other 16 MiB.
		if _, err := bra.Peek(1); err != nil {
			t.Fatal(err)
		}

		// other connections come and go meanwhile
		for i := 0; i < 4; i++ {
			cb, err := net.Dial("tcp", addr)
			if err != nil {
				t.Fatal(err)
			}
			cb.SetDeadline(time.Now().Add(5 * time.Second))
			fmt.Fprintf(cb, "POST /b HTTP/1.1\r\nHost: x\r\nContent-Length: %d\r\n\r\n%s", n, bodyB)
			if err := h51ReadResponse(bufio.NewReader(cb)); err != nil {
				t.Fatalf("connection B: %v", err)
			}
			cb.Close()
		}

		// now A's client takes its answer; the server finishes the flush and the trace
		if err := h51ReadResponse(bra); err != nil {
			t.Fatalf("connection A: %v", err)
		}
		select {
		case <-tr.done:
		case <-time.After(10 * time.Second):
			t.Fatal("no Finish for /a")
		}
		ca.Close()

		hmu.Lock()
		handled := handledA[len(handledA)-1]
		hmu.Unlock()
		tr.mu.Lock()
		got := tr.bodyA[len(tr.bodyA)-1]
		tr.mu.Unlock()
		if handled != bodyA {
			t.Fatalf("round %d: the handler of /a did not get the body that was sent", round)
		}
		if got != handled {
			show := got
			if len(show) > 32 {
				show = show[:32] + "..."
			}
			t.Fatalf("round %d: the handler of /a handled a body of %d x 'A'; the tracer's Finish for that request carries a body of %d bytes that starts %q and contains %d x 'B' (the body another connection sent to /b)",
				round, n, len(got), show, strings.Count(got, "B"))
		}
	}
}
