package server

// C19 - "each handled request is bracketed by exactly one start/finish pair whose
// finish carries that request's data".
//
// With server.WithStreamBody(true) a chunked (or long) request body is a *bodyStream
// taken from a process-wide pool. After the response is flushed Serve gives that
// object back to the pool (ext.ReleaseBodyStream) but leaves ctx.Request pointing at
// it, and only THEN delivers the tracer's Finish. Any connection whose request is read
// between those two steps acquires the same object; the first request's Finish then
// holds the body stream of the OTHER connection's request: reading the body of "its"
// request (Request.Body(), BodyWriteTo, PostArgs, ...) consumes the other connection's
// body from the other connection's socket. The tracer sees foreign data and the
// other request's handler finds its body gone.
//
// TestHunt5_2_FinishAfterBodyStreamReleased forces the order with channels (a second
// tracer, finished first, takes its time). Which P's sync.Pool slot the released
// object lands in is not forced, hence a few rounds; with `-cpu 1` the first round hits.
// TestHunt5_2_Race needs no cooperation at all: eight keep-alive connections, run it
// with -race (DATA RACE bodyStream.Read <-> ext.AcquireBodyStream).

import (
	"bufio"
	"context"
	"fmt"
	"io"
	"net"
	"strings"
	"sync"
	"testing"
	"time"

	"github.com/cloudwego/hertz/pkg/app"
	"github.com/cloudwego/hertz/pkg/network/standard"
)

// h52Logger is the tracer under observation: at Finish it looks at the body of the
// request it is told about.
type h52Logger struct {
	mu    sync.Mutex
	bodyA []string
}

func (tr *h52Logger) Start(ctx context.Context, c *app.RequestContext) context.Context {
	return ctx
}

func (tr *h52Logger) Finish(ctx context.Context, c *app.RequestContext) {
	if string(c.Request.URI().Path()) != "/a" {
		return
	}
	b := string(c.Request.Body())
	tr.mu.Lock()
	tr.bodyA = append(tr.bodyA, b)
	tr.mu.Unlock()
}

func (tr *h52Logger) count() int {
	tr.mu.Lock()
	defer tr.mu.Unlock()
	return len(tr.bodyA)
}

// h52Slow is registered behind h52Logger, so its Finish runs first (reverse order):
// a tracer that takes a while (an exporter, a lock).
type h52Slow struct {
	inFinish chan struct{}
	release  chan struct{}
}

func (tr *h52Slow) Start(ctx context.Context, c *app.RequestContext) context.Context {
	return ctx
}

func (tr *h52Slow) Finish(ctx context.Context, c *app.RequestContext) {
	if string(c.Request.URI().Path()) != "/a" {
		return
	}
	tr.inFinish <- struct{}{}
	<-tr.release
}

func h52FreeAddr(t *testing.T) string {
	ln, err := net.Listen("tcp", "127.0.0.1:0")
	if err != nil {
		t.Fatal(err)
	}
	defer ln.Close()
	return ln.Addr().String()
}

func h52ReadResponse(br *bufio.Reader) (string, error) {
	cl := 0
	status := ""
	for {
		line, err := br.ReadString('\n')
		if err != nil {
			return status, err
		}
		if status == "" {
			status = strings.TrimSpace(line)
		}
		l := strings.ToLower(line)
		if strings.HasPrefix(l, "content-length:") {
			fmt.Sscanf(strings.TrimSpace(l[len("content-length:"):]), "%d", &cl)
		}
		if line == "\r\n" {
			break
		}
	}
	_, err := io.CopyN(io.Discard, br, int64(cl))
	return status, err
}

func h52SendChunked(c net.Conn, path, body string) {
	fmt.Fprintf(c, "POST %s HTTP/1.1\r\nHost: x\r\nTransfer-Encoding: chunked\r\n\r\n%x\r\n%s\r\n0\r\n\r\n", path, len(body), body)
}

func h52Wait(h *Hertz) {
	for i := 0; i < 200 && !h.IsRunning(); i++ {
		time.Sleep(10 * time.Millisecond)
	}
	time.Sleep(50 * time.Millisecond)
}

func TestHunt5_2_FinishAfterBodyStreamReleased(t *testing.T) {
	logger := &h52Logger{}
	slow := &h52Slow{inFinish: make(chan struct{}, 1)}
	addr := h52FreeAddr(t)
	h := New(WithHostPorts(addr), WithTracer(logger), WithTracer(slow),
		WithTransport(standard.NewTransporter), WithStreamBody(true),
		WithExitWaitTime(100*time.Millisecond))
	bIn := make(chan struct{}, 1)
	var bGo chan struct{}
	bBody := make(chan string, 1)
	h.POST("/a", func(c context.Context, ctx *app.RequestContext) {
		// a streaming handler: the body goes where it has to go, piece by piece
		io.Copy(io.Discard, ctx.RequestBodyStream()) //nolint:errcheck
		ctx.String(200, "ok")
	})
	h.POST("/b", func(c context.Context, ctx *app.RequestContext) {
		bIn <- struct{}{}
		<-bGo
		b, _ := io.ReadAll(ctx.RequestBodyStream())
		bBody <- string(b)
		ctx.String(200, "ok")
	})
	go h.Spin()
	h52Wait(h)
	defer func() {
		ctx, cancel := context.WithTimeout(context.Background(), time.Second)
		defer cancel()
		h.Shutdown(ctx) //nolint:errcheck
	}()

	bodyA := strings.Repeat("A", 64)
	bodyB := strings.Repeat("B", 64)
	for round := 0; round < 60; round++ {
		slow.release = make(chan struct{})
		bGo = make(chan struct{})

		ca, err := net.Dial("tcp", addr)
		if err != nil {
			t.Fatal(err)
		}
		ca.SetDeadline(time.Now().Add(10 * time.Second))
		h52SendChunked(ca, "/a", bodyA)
		if st, err := h52ReadResponse(bufio.NewReader(ca)); err != nil || !strings.Contains(st, "200") {
			t.Fatalf("connection A: %q %v", st, err)
		}
		<-slow.inFinish // the exchange on A is over, its trace is being finished

		cb, err := net.Dial("tcp", addr)
		if err != nil {
			t.Fatal(err)
		}
		cb.SetDeadline(time.Now().Add(10 * time.Second))
		h52SendChunked(cb, "/b", bodyB)
		<-bIn // B's request was read as far as its body, its handler runs

		before := logger.count()
		close(slow.release) // the slow tracer is done, the logger's Finish for /a follows
		for i := 0; i < 2000 && logger.count() == before; i++ {
			time.Sleep(time.Millisecond)
		}
		if logger.count() == before {
			t.Fatal("no Finish for /a")
		}
		close(bGo) // B's handler reads its body now
		var gotB string
		select {
		case gotB = <-bBody:
		case <-time.After(5 * time.Second):
			t.Fatal("B's handler did not return from reading its body")
		}
		h52ReadResponse(bufio.NewReader(cb)) //nolint:errcheck
		ca.Close()
		cb.Close()

		logger.mu.Lock()
		gotA := logger.bodyA[len(logger.bodyA)-1]
		logger.mu.Unlock()
		if strings.Contains(gotA, "B") || gotB != bodyB {
			t.Fatalf("round %d: the Finish of the request to /a (body sent: 64 x 'A') carries the body %q; the handler of the request to /b on the other connection (body sent: 64 x 'B') read %q",
				round, gotA, gotB)
		}
	}
}

// TestHunt5_2_Race: go test -race. Eight keep-alive connections, a streaming handler,
// a tracer that reads the request body at Finish; nothing is held back artificially.
func TestHunt5_2_Race(t *testing.T) {
	logger := &h52Logger{}
	addr := h52FreeAddr(t)
	h := New(WithHostPorts(addr), WithTracer(logger), WithTransport(standard.NewTransporter),
		WithStreamBody(true), WithExitWaitTime(100*time.Millisecond))
	h.POST("/a", func(c context.Context, ctx *app.RequestContext) {
		io.Copy(io.Discard, ctx.RequestBodyStream()) //nolint:errcheck
		ctx.String(200, "ok")
	})
	go h.Spin()
	h52Wait(h)
	defer func() {
		ctx, cancel := context.WithTimeout(context.Background(), time.Second)
		defer cancel()
		h.Shutdown(ctx) //nolint:errcheck
	}()
	var wg sync.WaitGroup
	for w := 0; w < 8; w++ {
		wg.Add(1)
		go func(w int) {
			defer wg.Done()
			c, err := net.Dial("tcp", addr)
			if err != nil {
				return
			}
			defer c.Close()
			br := bufio.NewReader(c)
			body := strings.Repeat(fmt.Sprintf("c%d;", w), 200)
			for i := 0; i < 1000; i++ {
				c.SetDeadline(time.Now().Add(5 * time.Second))
				h52SendChunked(c, "/a", body)
				if _, err := h52ReadResponse(br); err != nil {
					return
				}
			}
		}(w)
	}
	wg.Wait()
}
