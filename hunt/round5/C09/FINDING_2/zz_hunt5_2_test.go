package server

import (
	"bufio"
	"context"
	"io"
	"net"
	"net/http"
	"sync"
	"sync/atomic"
	"testing"
	"time"

	"github.com/cloudwego/hertz/pkg/app"
	"github.com/cloudwego/hertz/pkg/network/standard"
)

// C09: recycling a context must not be observable by (nor race with) what the previous
// request did with it. RequestContext.Value is the accessor hertz documents for use
// after the response ("In case the Key is reset after response, Value() return nil if
// ctx.Key is nil"; its first line is commented "this ctx has been reset, return nil"),
// and the Keys map has a mutex of its own ("This mutex protect Keys map", taken by
// Set/Get/ForEachKey/Copy). The recycle path, ResetWithoutConn, clears ctx.Keys without
// that mutex, and Value reads ctx.Keys without it: a goroutine that was handed the
// request context as a value carrier and asks it for a key while the server recycles the
// context for the next request of the keep-alive connection races with the recycling
// (and with the next request's ctx.Set).
//
// Run with -race: the race detector reports the race between Value/Get and
// ResetWithoutConn, which fails the test.
func TestHunt5ValueAfterResponseRacesWithRecycling(t *testing.T) {
	l, err := net.Listen("tcp", "127.0.0.1:0")
	if err != nil {
		t.Fatal(err)
	}
	addr := l.Addr().String()
	l.Close()

	h := New(WithHostPorts(addr), WithExitWaitTime(10*time.Millisecond), WithTransport(standard.NewTransporter))
	var wg sync.WaitGroup
	var stop int32
	h.GET("/job", func(c context.Context, ctx *app.RequestContext) {
		ctx.Set("request-id", "r1")
		wg.Add(1)
		// a background job that carries the request context for its values, the way
		// a context.Context is carried
		go func() {
			defer wg.Done()
			for atomic.LoadInt32(&stop) == 0 {
				_ = ctx.Value("request-id")
			}
		}()
	})
	h.GET("/next", func(c context.Context, ctx *app.RequestContext) {
		ctx.Set("request-id", "r2")
	})
	go h.Spin()
	defer h.Close()

	var conn net.Conn
	for i := 0; i < 300; i++ {
		if conn, err = net.Dial("tcp", addr); err == nil {
			break
		}
		time.Sleep(10 * time.Millisecond)
	}
	if err != nil {
		t.Fatal(err)
	}
	defer conn.Close()
	br := bufio.NewReader(conn)
	do := func(path string) {
		conn.SetDeadline(time.Now().Add(5 * time.Second))
		if _, err := conn.Write([]byte("GET " + path + " HTTP/1.1\r\nHost: a\r\n\r\n")); err != nil {
			t.Fatal(err)
		}
		resp, err := http.ReadResponse(br, nil)
		if err != nil {
			t.Fatal(err)
		}
		io.Copy(io.Discard, resp.Body)
		resp.Body.Close()
	}
	do("/job")
	// the context is recycled for every further request of the connection
	for i := 0; i < 20; i++ {
		do("/next")
	}
	atomic.StoreInt32(&stop, 1)
	wg.Wait()
}
