package server

import (
	"bufio"
	"context"
	"fmt"
	"io"
	"net"
	"net/http"
	"os"
	"os/exec"
	"strings"
	"testing"
	"time"

	"github.com/cloudwego/hertz/pkg/app"
	"github.com/cloudwego/hertz/pkg/common/tracer/stats"
)

// C09: a context the server allocates anew must be indistinguishable from one that
// went through the engine's pool.
//
// HERTZ_DISABLE_REQUEST_CONTEXT_POOL=true is hertz's own environment switch: the
// http1 server then allocates a new context for every connection instead of drawing
// a recycled one from the engine's pool. The switch is read in an init function, so
// the test runs itself again as a child process with the variable set.

type hunt5Tracer1 struct{}

func (hunt5Tracer1) Start(ctx context.Context, c *app.RequestContext) context.Context { return ctx }
func (hunt5Tracer1) Finish(ctx context.Context, c *app.RequestContext)                {}

func hunt5FreeAddr1(t *testing.T) string {
	l, err := net.Listen("tcp", "127.0.0.1:0")
	if err != nil {
		t.Fatal(err)
	}
	defer l.Close()
	return l.Addr().String()
}

// what a handler observes through the context the server hands it
func hunt5Observe1(t *testing.T) string {
	addr := hunt5FreeAddr1(t)
	h := New(WithHostPorts(addr), WithExitWaitTime(10*time.Millisecond),
		WithTracer(hunt5Tracer1{}), WithTraceLevel(stats.LevelBase))
	// engine-wide customisation of the context, as documented on RequestContext.ClientIP
	// ("use engine.SetClientIPFunc to inject your own implementation") and FormValue
	h.SetClientIPFunc(func(ctx *app.RequestContext) string { return "ip-from-engine-func" })
	h.SetFormValueFunc(func(ctx *app.RequestContext, key string) []byte { return []byte("form-from-engine-func") })
	h.GET("/see", func(c context.Context, ctx *app.RequestContext) {
		ctx.SetBodyString(fmt.Sprintf("clientip=%s formvalue=%s tracelevel=%d",
			ctx.ClientIP(), ctx.FormValue("k"), ctx.GetTraceInfo().Stats().Level()))
	})
	go h.Spin()
	defer h.Close()

	var conn net.Conn
	var err error
	for i := 0; i < 300; i++ {
		if conn, err = net.Dial("tcp", addr); err == nil {
			break
		}
		time.Sleep(10 * time.Millisecond)
	}
	if err != nil {
		t.Fatal(err)
	}
	defer conn.Close()
	conn.SetDeadline(time.Now().Add(5 * time.Second))
	if _, err = conn.Write([]byte("GET /see?k=v HTTP/1.1\r\nHost: a\r\n\r\n")); err != nil {
		t.Fatal(err)
	}
	resp, err := http.ReadResponse(bufio.NewReader(conn), nil)
	if err != nil {
		t.Fatal(err)
	}
	b, _ := io.ReadAll(resp.Body)
	return string(b)
}

func TestHunt5NewlyAllocatedContextIsSetUpLikeAPooledOne(t *testing.T) {
	const want = "clientip=ip-from-engine-func formvalue=form-from-engine-func tracelevel=1"

	if os.Getenv("HUNT5_C09_CHILD") == "1" {
		// child: the pool is disabled by the environment switch
		if got := hunt5Observe1(t); got != want {
			t.Fatalf("context pool disabled: handler observed %q, want %q", got, want)
		}
		return
	}

	// pooled contexts (the default): this is what the engine's configuration gives
	if got := hunt5Observe1(t); got != want {
		t.Fatalf("pooled context: handler observed %q, want %q", got, want)
	}

	// the same server with HERTZ_DISABLE_REQUEST_CONTEXT_POOL=true
	cmd := exec.Command(os.Args[0], "-test.run=^TestHunt5NewlyAllocatedContextIsSetUpLikeAPooledOne$", "-test.count=1")
	cmd.Env = append(os.Environ(), "HERTZ_DISABLE_REQUEST_CONTEXT_POOL=true", "HUNT5_C09_CHILD=1")
	out, err := cmd.CombinedOutput()
	if err != nil {
		var lines []string
		for _, l := range strings.Split(string(out), "\n") {
			if strings.Contains(l, "handler observed") || strings.Contains(l, "panic") {
				lines = append(lines, strings.TrimSpace(l))
			}
		}
		t.Fatalf("with HERTZ_DISABLE_REQUEST_CONTEXT_POOL=true the newly allocated context differs from a pooled one: %v\n%s",
			err, strings.Join(lines, "\n"))
	}
}
