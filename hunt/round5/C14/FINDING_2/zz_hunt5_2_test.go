package server

// hunt5 / C14 / finding 2
//
// Streaming mode, Content-Length above a MaxRequestBodySize below 1023: on a
// request whose body buffer is new (a new RequestContext, or any context after the
// buffer pool was emptied) the body pre-read takes up to 1024 buffered bytes, the
// pipelined request behind the body among them; that request is never answered and
// the connection is closed ("bytes behind the body were consumed while pre-reading
// it"). The same bytes sent to a context that has served a request before are both
// answered.
//
// The repair "how much of an over-limit body is read ahead does not depend on the
// recycled body buffer" clips dst to limit+1 in readBodyIdentity
// (pkg/protocol/http1/ext/common.go) BEFORE the empty buffer is replaced by one of
// 1024 bytes, so a buffer without capacity is not bounded by the limit.

import (
	"bufio"
	"context"
	"fmt"
	"io"
	"net"
	"net/http"
	"strings"
	"testing"
	"time"

	"github.com/cloudwego/hertz/internal/testutils"
	"github.com/cloudwego/hertz/pkg/app"
	"github.com/cloudwego/hertz/pkg/common/test/mock"
	"github.com/cloudwego/hertz/pkg/network/standard"
	"github.com/cloudwego/hertz/pkg/protocol/http1/ext"
)

const h52Probe = "GET /probe HTTP/1.1\r\nHost: x\r\nConnection: close\r\n\r\n"

// what the pre-read takes from the connection must not depend on the capacity of
// the buffer it is given, and must never reach behind the body
func TestHunt5C14F2PrereadFreshBufferExt(t *testing.T) {
	body := strings.Repeat("b", 20)
	const limit = 10

	grown, err := ext.ReadBodyWithStreaming(mock.NewZeroCopyReader(body+h52Probe), len(body), limit, make([]byte, 0, 64))
	t.Logf("buffer with capacity: %d bytes pre-read, err=%v", len(grown), err)
	fresh, err := ext.ReadBodyWithStreaming(mock.NewZeroCopyReader(body+h52Probe), len(body), limit, nil)
	t.Logf("buffer without capacity: %d bytes pre-read, err=%v", len(fresh), err)

	if len(fresh) > len(body) {
		t.Errorf("the pre-read of a %d byte body (limit %d) took %d bytes from the connection: %q", len(body), limit, len(fresh), fresh)
	}
	if len(fresh) != len(grown) {
		t.Errorf("pre-read with an empty buffer took %d bytes, with a used one %d", len(fresh), len(grown))
	}
}

func h52Exchange(t *testing.T, addr, raw string) (bodies []string, closedEarly bool) {
	c, err := net.Dial("tcp", addr)
	if err != nil {
		t.Fatal(err)
	}
	defer c.Close()
	if _, err = c.Write([]byte(raw)); err != nil {
		t.Fatal(err)
	}
	br := bufio.NewReader(c)
	for {
		c.SetReadDeadline(time.Now().Add(2 * time.Second)) //nolint:errcheck
		r, err := http.ReadResponse(br, nil)
		if err != nil {
			return bodies, true
		}
		b, _ := io.ReadAll(r.Body)
		bodies = append(bodies, fmt.Sprintf("%d %s", r.StatusCode, b))
		if r.Close {
			return bodies, false
		}
	}
}

// the very first request a server process handles has a new body buffer
func TestHunt5C14F2PrereadFreshBufferServer(t *testing.T) {
	h := New(WithHostPorts("127.0.0.1:0"), WithStreamBody(true), WithMaxRequestBodySize(10),
		WithTransport(standard.NewTransporter), WithDisablePrintRoute(true), WithExitWaitTime(10*time.Millisecond))
	h.POST("/upload", func(c context.Context, ctx *app.RequestContext) {
		b, err := io.ReadAll(ctx.RequestBodyStream())
		ctx.SetBodyString(fmt.Sprintf("upload %q err=%v", b, err))
	})
	h.GET("/probe", func(c context.Context, ctx *app.RequestContext) {
		ctx.SetBodyString("probe")
	})
	go h.Spin()
	waitEngineRunning(h)
	defer func() {
		ctx, cancel := context.WithTimeout(context.Background(), 50*time.Millisecond)
		defer cancel()
		_ = h.Shutdown(ctx)
	}()
	addr := testutils.GetListenerAddr(h)

	body := strings.Repeat("b", 20)
	raw := fmt.Sprintf("POST /upload HTTP/1.1\r\nHost: x\r\nContent-Length: %d\r\n\r\n%s", len(body), body) + h52Probe

	first, _ := h52Exchange(t, addr, raw)
	second, _ := h52Exchange(t, addr, raw)
	t.Logf("first connection:  %q", first)
	t.Logf("second connection: %q", second)

	wantUpload := fmt.Sprintf("200 upload %q err=<nil>", body)
	for i, got := range [][]string{first, second} {
		if len(got) == 0 || got[0] != wantUpload {
			t.Errorf("connection %d: upload answered %q, want %q", i+1, got, wantUpload)
			continue
		}
		if len(got) != 2 || got[1] != "200 probe" {
			t.Errorf("connection %d: the request pipelined behind the %d byte body was not answered (responses %q): "+
				"it was taken by the body pre-read and the connection closed", i+1, len(body), got)
		}
	}
}
