package server

// hunt5 / C14 / finding 1
//
// A line feed inside a chunk extension is skipped as extension text.
//
// ParseChunkSize (pkg/common/utils/chunk.go), since the repair that made it skip
// chunk extensions, discards every byte behind ';' up to the next CR. A chunk-size
// line that ends with a bare LF is refused when it has no extension ("5\n..." is
// answered 400), and LF ends a line everywhere else hertz reads lines (header
// block, trailer section). With an extension in front of it the LF and everything
// behind it up to the next CRLF is swallowed: the chunk's data is then taken from a
// place no other reading of the message puts it, the body stream yields bytes that
// are chunk framing for whoever ends that line at the LF, and what that reading
// has as chunk DATA is parsed and served as the next request on the connection.

import (
	"bufio"
	"context"
	"fmt"
	"io"
	"net"
	"net/http"
	"strings"
	"sync"
	"testing"
	"time"

	"github.com/cloudwego/hertz/internal/testutils"
	"github.com/cloudwego/hertz/pkg/app"
	"github.com/cloudwego/hertz/pkg/common/config"
	"github.com/cloudwego/hertz/pkg/network"
	"github.com/cloudwego/hertz/pkg/network/netpoll"
	"github.com/cloudwego/hertz/pkg/network/standard"
)

type h51Served struct {
	mu    sync.Mutex
	paths []string
}

func (s *h51Served) add(p string) {
	s.mu.Lock()
	s.paths = append(s.paths, p)
	s.mu.Unlock()
}

func (s *h51Served) take() []string {
	s.mu.Lock()
	defer s.mu.Unlock()
	p := s.paths
	s.paths = nil
	return p
}

func h51Start(t *testing.T, tr func(*config.Options) network.Transporter, served *h51Served) string {
	h := New(WithHostPorts("127.0.0.1:0"), WithStreamBody(true), WithTransport(tr),
		WithDisablePrintRoute(true), WithExitWaitTime(10*time.Millisecond))
	h.POST("/upload", func(c context.Context, ctx *app.RequestContext) {
		served.add("/upload")
		n := 0 // how much of the body the handler reads: ?read=all|none
		if string(ctx.QueryArgs().Peek("read")) == "all" {
			b, _ := io.ReadAll(ctx.RequestBodyStream())
			n = len(b)
		}
		ctx.SetBodyString(fmt.Sprintf("upload read %d bytes", n))
	})
	h.NoRoute(func(c context.Context, ctx *app.RequestContext) {
		served.add(string(ctx.Request.URI().Path()))
		ctx.SetBodyString("served " + string(ctx.Request.URI().Path()))
	})
	go h.Spin()
	waitEngineRunning(h)
	t.Cleanup(func() {
		ctx, cancel := context.WithTimeout(context.Background(), 50*time.Millisecond)
		defer cancel()
		_ = h.Shutdown(ctx)
	})
	return testutils.GetListenerAddr(h)
}

// h51Send writes raw and returns the status codes of all responses that come back
// until the server closes the connection (or is silent for a second).
func h51Send(t *testing.T, addr, raw string) (codes []int) {
	c, err := net.Dial("tcp", addr)
	if err != nil {
		t.Fatal(err)
	}
	defer c.Close()
	if _, err = c.Write([]byte(raw)); err != nil {
		t.Fatal(err)
	}
	br := bufio.NewReader(c)
	for {
		c.SetReadDeadline(time.Now().Add(time.Second)) //nolint:errcheck
		r, err := http.ReadResponse(br, nil)
		if err != nil {
			return codes
		}
		io.Copy(io.Discard, r.Body) //nolint:errcheck
		codes = append(codes, r.StatusCode)
	}
}

func TestHunt5C14F1LineFeedInChunkExtension(t *testing.T) {
	transports := []struct {
		name string
		new  func(*config.Options) network.Transporter
	}{
		{"standard", standard.NewTransporter},
		{"netpoll", netpoll.NewTransporter},
	}
	for _, tr := range transports {
		served := &h51Served{}
		addr := h51Start(t, tr.new, served)

		smuggled := "GET /smuggled HTTP/1.1\r\nHost: x\r\n\r\n"
		// the second chunk as everybody who ends the first chunk-size line at its LF
		// sees it: 40 bytes of DATA
		data2 := "0\r\n\r\n" + smuggled

		for _, read := range []string{"all", "none"} {
			head := "POST /upload?read=" + read + " HTTP/1.1\r\nHost: x\r\nTransfer-Encoding: chunked\r\n\r\n"

			// sanity: the same chunk-size line without an extension is refused
			served.take()
			codes := h51Send(t, addr, head+
				"5\nAAAAA\r\n"+
				fmt.Sprintf("%05x\r\n", len(data2))+data2+"\r\n"+
				"0\r\n\r\n")
			if p := served.take(); strings.Contains(strings.Join(p, " "), "/smuggled") {
				t.Errorf("%s read=%s: control (no extension): /smuggled was served, responses %v", tr.name, read, codes)
			}

			// the message: chunk-size line "5;x" ended by a bare LF
			//
			//   5;x<LF>AAAAA<CR><LF>          chunk 1: 5 bytes "AAAAA"
			//   00028<CR><LF>                 chunk 2: 0x28 = 40 bytes, namely
			//   0<CR><LF><CR><LF>GET /smuggled HTTP/1.1<CR><LF>Host: x<CR><LF><CR><LF>
			//   <CR><LF>
			//   0<CR><LF><CR><LF>             last chunk
			//
			// Either the line is refused (it is malformed) or it ends at the LF; in
			// no reading is "GET /smuggled" anything but chunk data.
			codes = h51Send(t, addr, head+
				"5;x\nAAAAA\r\n"+
				fmt.Sprintf("%05x\r\n", len(data2))+data2+"\r\n"+
				"0\r\n\r\n")
			paths := served.take()
			t.Logf("%s read=%s: served %v, responses %v", tr.name, read, paths, codes)
			for _, p := range paths {
				if p == "/smuggled" {
					t.Errorf("%s read=%s: chunk data behind a chunk-size line \"5;x<LF>\" was served as the request GET /smuggled "+
						"(requests served on the connection: %v, responses %v); the same line without the extension is refused",
						tr.name, read, paths, codes)
				}
			}
		}
	}
}
