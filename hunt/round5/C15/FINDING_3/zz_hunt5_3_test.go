package binding_test

// C15 hunt round 5, finding 3.
//
// A path parameter that is present with an empty value (a catch-all route "/a/*p"
// asked for "/a/": Params.Get("p") gives "", true) is bound as present by the scalar
// path getter, but the slice getter (pathSlice) drops the existence flag and treats an
// empty value as no value: for a slice field 'required' fails, and a lower-priority
// source wins over the path. Every other source hands an empty value to a slice field
// as one empty element (?q= gives [""]), and the same scalar/slice disagreement was
// repaired for multipart forms (bcac3e8).

import (
	"context"
	"fmt"
	"testing"

	"github.com/cloudwego/hertz/pkg/app"
	"github.com/cloudwego/hertz/pkg/app/server/binding"
	"github.com/cloudwego/hertz/pkg/common/config"
	"github.com/cloudwego/hertz/pkg/common/ut"
	"github.com/cloudwego/hertz/pkg/protocol"
	"github.com/cloudwego/hertz/pkg/route"
	"github.com/cloudwego/hertz/pkg/route/param"
)

func TestHunt5_3_EmptyPathParamAndSliceField(t *testing.T) {
	req := &protocol.Request{}
	req.SetRequestURI("http://a/a/?q=fromquery&e=")
	params := param.Params{{Key: "p", Value: ""}}

	// control: scalar field, the empty path parameter is present
	var s struct {
		P string `path:"p,required"`
	}
	if err := binding.Bind(req, &s, params); err != nil {
		t.Errorf("scalar control: unexpected error %v", err)
	}
	// control: an empty query value is present for a slice field
	var e struct {
		E []string `query:"e,required" header:"X-E"`
	}
	if err := binding.Bind(req, &e, params); err != nil || len(e.E) != 1 || e.E[0] != "" {
		t.Errorf("query control: got %q %v, want [\"\"]", e.E, err)
	}

	var r struct {
		P []string `path:"p,required"`
	}
	if err := binding.Bind(req, &r, params); err != nil {
		t.Errorf("[]string path:\"p,required\" with p present and empty: got error %q, want no error (the scalar field binds it)", err)
	} else if len(r.P) != 1 || r.P[0] != "" {
		t.Errorf("[]string path:\"p,required\" with p present and empty: got %q, want [\"\"]", r.P)
	}

	var o struct {
		P []string `path:"p" query:"q"`
	}
	if err := binding.Bind(req, &o, params); err != nil {
		t.Errorf("unexpected error %v", err)
	} else if len(o.P) != 1 || o.P[0] != "" {
		t.Errorf("[]string path:\"p\" query:\"q\" with p present (empty) and q=fromquery: got %q, want [\"\"]: the path has priority over the query", o.P)
	}
}

// the same through the router, to show that the request is an ordinary one
func TestHunt5_3_EmptyCatchAllThroughRouter(t *testing.T) {
	engine := route.NewEngine(config.NewOptions(nil))
	var out string
	engine.GET("/a/*p", func(c context.Context, ctx *app.RequestContext) {
		pv, ok := ctx.Params.Get("p")
		var s struct {
			P string `path:"p,required"`
		}
		var l struct {
			P []string `path:"p,required"`
		}
		errS := ctx.Bind(&s)
		errL := ctx.Bind(&l)
		out = fmt.Sprintf("param=%q,%v scalarErr=%v sliceErr=%v slice=%q", pv, ok, errS, errL, l.P)
		if !ok || pv != "" {
			t.Errorf("router did not deliver an empty parameter: %q %v", pv, ok)
		}
		if errS != nil {
			t.Errorf("scalar: %v", errS)
		}
		if errL != nil {
			t.Errorf("slice field: got error %q, want [\"\"] and no error", errL)
		}
	})
	ut.PerformRequest(engine, "GET", "/a/", nil)
	t.Log(out)
	if out == "" {
		t.Fatal("handler not reached")
	}
}
