package binding

// C15 hunt round 5, finding 4.
//
// Two fields of one struct that name the SAME json key. For every other source this
// is fine (two fields tagged query:"n" both get the value). For the json source the
// value is put into the struct by the body decoder, and encoding/json (and sonic)
// silently drop all fields that share a name at the same depth: neither field is
// filled. The binder's presence check still finds the key in the body, so it also
// withholds the declared defaults and lets 'required' pass: both fields end up as
// silent zeros - neither the value from the body nor the default, and no error.

import (
	"reflect"
	"testing"

	"github.com/cloudwego/hertz/pkg/protocol"
)

func hunt5JSONRequest4(uri, body string) *protocol.Request {
	req := &protocol.Request{}
	req.SetRequestURI(uri)
	req.Header.SetMethod("POST")
	req.Header.SetContentTypeBytes([]byte("application/json"))
	req.SetBody([]byte(body))
	req.Header.SetContentLength(len(body))
	return req
}

func TestHunt5_4_TwoFieldsWithTheSameJSONName(t *testing.T) {
	// control: the same shape on the query source works
	var q struct {
		A int `query:"n" default:"5"`
		B int `query:"n" default:"6"`
	}
	if err := NewDefaultBinder(nil).Bind(hunt5JSONRequest4("http://a/?n=1", `{}`), &q, nil); err != nil || q.A != 1 || q.B != 1 {
		t.Errorf("query control: got %+v %v, want A=1 B=1", q, err)
	}

	// built at run time (as the property's struct types are; a literal type is fine
	// for the compiler too, only `go vet` remarks on the repeated tag)
	T := reflect.StructOf([]reflect.StructField{
		{Name: "A", Type: reflect.TypeOf(0), Tag: `json:"n" default:"5"`},
		{Name: "B", Type: reflect.TypeOf(0), Tag: `json:"n" default:"6"`},
	})
	v := reflect.New(T)
	if err := NewDefaultBinder(nil).Bind(hunt5JSONRequest4("http://a/", `{"n":1}`), v.Interface(), nil); err != nil {
		t.Fatalf("unexpected error %v", err)
	}
	if a, b := v.Elem().Field(0).Int(), v.Elem().Field(1).Int(); a != 1 || b != 1 {
		t.Errorf(`A json:"n" default:"5", B json:"n" default:"6", body {"n":1}: got A=%d B=%d, want A=1 B=1 (the key is named by both tags and present)`, a, b)
	}
	// control: without the key the defaults are applied
	d := reflect.New(T)
	if err := NewDefaultBinder(nil).Bind(hunt5JSONRequest4("http://a/", `{}`), d.Interface(), nil); err != nil || d.Elem().Field(0).Int() != 5 || d.Elem().Field(1).Int() != 6 {
		t.Errorf("default control: got %+v %v, want A=5 B=6", d.Elem().Interface(), err)
	}
}

func TestHunt5_4_TwoFieldsWithTheSameJSONName_Required(t *testing.T) {
	R := reflect.StructOf([]reflect.StructField{
		{Name: "A", Type: reflect.TypeOf(0), Tag: `json:"n,required"`},
		{Name: "B", Type: reflect.TypeOf(0), Tag: `query:"b,required" json:"n"`},
	})
	r := reflect.New(R)
	err := NewDefaultBinder(nil).Bind(hunt5JSONRequest4("http://a/?x=1", `{"n":1}`), r.Interface(), nil)
	// either the fields get the value of the key they name, or the bind fails:
	// zero without an error is what the property excludes
	if a, b := r.Elem().Field(0).Int(), r.Elem().Field(1).Int(); err == nil && (a != 1 || b != 1) {
		t.Errorf(`required json key "n" shared by two fields, body {"n":1}: got A=%d B=%d and no error, want A=1 B=1`, a, b)
	}
}
