package binding

// C15 hunt round 5, finding 1.
//
// Two fields of one struct whose json names differ only in case (`json:"id"` and
// `json:"ID"`). The body decoder (encoding/json rules, which sonic follows) gives a
// body key to the field that spells it exactly; the other field gets nothing. The
// presence check of the binder (jsonKeyExists) looks at every field in isolation and
// accepts a key that equals the name ignoring case, so the OTHER field is taken as
// present as well: its default is withheld and its 'required' is satisfied, and the
// field ends up as a silent zero.

import (
	"testing"

	"github.com/cloudwego/hertz/pkg/protocol"
)

func hunt5JSONRequest(uri, body string) *protocol.Request {
	req := &protocol.Request{}
	req.SetRequestURI(uri)
	req.Header.SetMethod("POST")
	req.Header.SetContentTypeBytes([]byte("application/json"))
	req.SetBody([]byte(body))
	req.Header.SetContentLength(len(body))
	return req
}

func TestHunt5_1_JSONNamesDifferingOnlyInCase_Default(t *testing.T) {
	type T struct {
		Lower int `json:"id" default:"5"`
		Upper int `json:"ID" default:"6"`
	}
	for _, c := range []struct {
		body         string
		lower, upper int
	}{
		{`{"id":1,"ID":2}`, 1, 2}, // control: both keys in the body
		{`{}`, 5, 6},              // control: none
		{`{"id":1}`, 1, 6},        // only "id": Upper has no value, keeps its default
		{`{"ID":2}`, 5, 2},        // only "ID": Lower has no value, keeps its default
	} {
		var v T
		if err := NewDefaultBinder(nil).Bind(hunt5JSONRequest("http://a/", c.body), &v, nil); err != nil {
			t.Errorf("body %s: unexpected error %v", c.body, err)
			continue
		}
		if v.Lower != c.lower || v.Upper != c.upper {
			t.Errorf("body %s: got Lower=%d Upper=%d, want Lower=%d Upper=%d", c.body, v.Lower, v.Upper, c.lower, c.upper)
		}
	}
}

func TestHunt5_1_JSONNamesDifferingOnlyInCase_Slice(t *testing.T) {
	type T struct {
		Lower []int `json:"ids" default:"[5]"`
		Upper []int `json:"IDS" default:"[6]"`
	}
	var v T
	if err := NewDefaultBinder(nil).Bind(hunt5JSONRequest("http://a/", `{"ids":[1]}`), &v, nil); err != nil {
		t.Fatalf("unexpected error %v", err)
	}
	if len(v.Lower) != 1 || v.Lower[0] != 1 || len(v.Upper) != 1 || v.Upper[0] != 6 {
		t.Errorf("got Lower=%v Upper=%v, want Lower=[1] Upper=[6] (IDS is not in the body: default)", v.Lower, v.Upper)
	}
}

func TestHunt5_1_JSONNamesDifferingOnlyInCase_Required(t *testing.T) {
	type R struct {
		Lower int `json:"id"`
		Upper int `json:"ID,required"`
	}
	var r R
	err := NewDefaultBinder(nil).Bind(hunt5JSONRequest("http://a/", `{"id":1}`), &r, nil)
	if err == nil && r.Upper == 0 {
		t.Errorf("json:\"ID,required\" with body {\"id\":1}: got Upper=0 and no error; the key went to Lower=%d, Upper is missing: want an error", r.Lower)
	}

	// the required tag sits on a higher-priority source, the json tag is not required
	type Q struct {
		Lower int `json:"id"`
		Upper int `query:"u,required" json:"ID"`
	}
	var q Q
	err = NewDefaultBinder(nil).Bind(hunt5JSONRequest("http://a/?x=1", `{"id":1}`), &q, nil)
	if err == nil && q.Upper == 0 {
		t.Errorf("query:\"u,required\" json:\"ID\" with no u and body {\"id\":1}: got Upper=0 and no error, want an error")
	}

	// control: the key is there
	var r2 R
	if err := NewDefaultBinder(nil).Bind(hunt5JSONRequest("http://a/", `{"id":1,"ID":2}`), &r2, nil); err != nil || r2.Upper != 2 || r2.Lower != 1 {
		t.Errorf("control: got %+v %v", r2, err)
	}
}
