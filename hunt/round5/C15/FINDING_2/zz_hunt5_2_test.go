package binding

// C15 hunt round 5, finding 2.
//
// A declared default is only picked up inside the per-source loop of the field
// decoders (defaultValue = tagInfo.Default after a getter ran, or in the json branch).
// When the field has no ACTIVE source at all, nothing ever assigns it and the field
// silently stays zero although it declares a default:
//   - every source tag of the field is "-" and none of them is json
//     (`query:"-" default:"5"`; the json:"-" case was repaired in ced9841, its
//     siblings were not),
//   - the field has only a default tag and the binder runs with DisableDefaultTag
//     (which is documented to switch off the implicit SOURCE tags, not the default).

import (
	"testing"

	"github.com/cloudwego/hertz/pkg/protocol"
)

func hunt5PlainRequest(uri string) *protocol.Request {
	req := &protocol.Request{}
	req.SetRequestURI(uri)
	return req
}

func TestHunt5_2_DefaultOfFieldWhoseSourcesAreAllDashed(t *testing.T) {
	type T struct {
		Ctl1 int    `json:"-" default:"5"`           // control (repaired in ced9841)
		Ctl2 int    `query:"-" json:"-" default:"5"` // control
		Ctl3 int    `query:"c3" default:"5"`         // control
		A    int    `query:"-" default:"5"`
		B    string `header:"-" form:"-" default:"x"`
		C    []int  `cookie:"-" default:"[1]"`
		D    *int   `path:"-" default:"5"`
	}
	var v T
	if err := NewDefaultBinder(nil).Bind(hunt5PlainRequest("http://a/?A=9&B=9"), &v, nil); err != nil {
		t.Fatalf("unexpected error %v", err)
	}
	if v.Ctl1 != 5 || v.Ctl2 != 5 || v.Ctl3 != 5 {
		t.Errorf("controls: got %d %d %d, want 5 5 5", v.Ctl1, v.Ctl2, v.Ctl3)
	}
	if v.A != 5 {
		t.Errorf(`query:"-" default:"5": got %d, want the declared default 5`, v.A)
	}
	if v.B != "x" {
		t.Errorf(`header:"-" form:"-" default:"x": got %q, want the declared default "x"`, v.B)
	}
	if len(v.C) != 1 || v.C[0] != 1 {
		t.Errorf(`cookie:"-" default:"[1]": got %v, want the declared default [1]`, v.C)
	}
	if v.D == nil || *v.D != 5 {
		t.Errorf(`path:"-" default:"5" (*int): got %v, want a pointer to the declared default 5`, v.D)
	}
}

func TestHunt5_2_DefaultWithDisableDefaultTag(t *testing.T) {
	type T struct {
		Ctl int   `query:"c" default:"6"` // control
		A   int   `default:"5"`
		B   []int `default:"[1]"`
	}
	// reference: the stock binder gives the defaults
	var ref T
	if err := NewDefaultBinder(nil).Bind(hunt5PlainRequest("http://a/?x=1"), &ref, nil); err != nil || ref.A != 5 || len(ref.B) != 1 || ref.Ctl != 6 {
		t.Fatalf("reference binder: got %+v %v", ref, err)
	}

	b := NewDefaultBinder(&BindConfig{DisableDefaultTag: true})
	var v T
	if err := b.Bind(hunt5PlainRequest("http://a/?x=1"), &v, nil); err != nil {
		t.Fatalf("unexpected error %v", err)
	}
	if v.Ctl != 6 {
		t.Errorf("control: got %d, want 6", v.Ctl)
	}
	if v.A != 5 {
		t.Errorf(`DisableDefaultTag, field with only default:"5": got %d, want the declared default 5`, v.A)
	}
	if len(v.B) != 1 || v.B[0] != 1 {
		t.Errorf(`DisableDefaultTag, field with only default:"[1]": got %v, want the declared default [1]`, v.B)
	}
}
