package route_test

// C12 hunt, round 5, finding 3.
//
// RedirectFixedPath on (RedirectTrailingSlash off, to keep finding 2 out of it).
// A request "<prefix>/" that matches no route is redirected to "<prefix>",
// which matches no route either: the case-insensitive lookup takes a bare "/"
// that is left over in front of ANY static child beginning with '/' for a
// superfluous trailing slash, without asking whether the node above carries
// handlers.  No handler is entered for the request, the engine-level middleware
// and NoRoute do not run.

import (
	"context"
	"strings"
	"testing"

	"github.com/cloudwego/hertz/pkg/app"
	"github.com/cloudwego/hertz/pkg/common/config"
	"github.com/cloudwego/hertz/pkg/common/ut"
	"github.com/cloudwego/hertz/pkg/route"
)

func TestHunt5C12F3UnmatchedRequestRedirectedToUnroutedPathWithoutSlash(t *testing.T) {
	cases := []struct {
		name   string
		routes []string
		path   string // ends in '/'
	}{
		{"below a parameter", []string{"/:lang/docs/"}, "/en/"},
		{"static routes only", []string{"/x/ab/", "/xy"}, "/x/"},
	}
	for _, tc := range cases {
		tc := tc
		t.Run(tc.name, func(t *testing.T) {
			opt := config.NewOptions([]config.Option{
				{F: func(o *config.Options) {
					o.RedirectFixedPath = true
					o.RedirectTrailingSlash = false
					o.DisablePrintRoute = true
				}},
			})
			e := route.NewEngine(opt)
			var trace []string
			e.Use(func(c context.Context, ctx *app.RequestContext) {
				trace = append(trace, "mw-in")
				ctx.Next(c)
				trace = append(trace, "mw-out")
			})
			e.NoRoute(func(c context.Context, ctx *app.RequestContext) { trace = append(trace, "noroute") })
			for _, pat := range tc.routes {
				pat := pat
				e.GET(pat, func(c context.Context, ctx *app.RequestContext) { trace = append(trace, "route:"+pat) })
			}

			// the path without the slash is not routed: a plain 404 through the chain
			noSlash := strings.TrimSuffix(tc.path, "/")
			trace = nil
			w2 := ut.PerformRequest(e, "GET", noSlash, nil)
			if code, got := w2.Result().StatusCode(), strings.Join(trace, ","); code != 404 || got != "mw-in,noroute,mw-out" {
				t.Fatalf("precondition: GET %s should be a plain 404 through the chain, got %d %q", noSlash, code, got)
			}

			trace = nil
			w := ut.PerformRequest(e, "GET", tc.path, nil)
			code := w.Result().StatusCode()
			got := strings.Join(trace, ",")
			if code != 404 || got != "mw-in,noroute,mw-out" {
				t.Fatalf("GET %s matches no route (nor does %s): want 404 through the not-found chain, trace %q; "+
					"got status %d, Location %q, trace %q",
					tc.path, noSlash, "mw-in,noroute,mw-out", code, w.Result().Header.Peek("Location"), got)
			}
		})
	}
}
