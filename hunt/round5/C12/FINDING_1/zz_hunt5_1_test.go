package route_test

// C12 hunt, round 5, finding 1.
//
// With RedirectFixedPath switched on, a request that matches no route at all
// (or only a route of another method) is answered with a redirect to the very
// path it asked for, as soon as the method's tree holds a catch-all or a
// parameter route anywhere.  The not-found / method-not-allowed chain, and with
// it every engine-level middleware, never runs for such a request, however
// often the client follows the redirect.

import (
	"context"
	"strings"
	"testing"

	"github.com/cloudwego/hertz/pkg/app"
	"github.com/cloudwego/hertz/pkg/common/config"
	"github.com/cloudwego/hertz/pkg/common/ut"
	"github.com/cloudwego/hertz/pkg/route"
)

type hunt5F1Case struct {
	name       string
	routes     [][2]string // method, pattern
	method     string
	path       string
	wantStatus int
	wantTrace  string
}

func TestHunt5C12F1UnmatchedRequestRedirectedToItself(t *testing.T) {
	cases := []hunt5F1Case{
		{
			name:       "catch-all elsewhere, unmatched path",
			routes:     [][2]string{{"GET", "/static/*filepath"}},
			method:     "GET",
			path:       "/nothing/here",
			wantStatus: 404,
			wantTrace:  "mw-in,noroute,mw-out",
		},
		{
			name:       "catch-all elsewhere, wrong method",
			routes:     [][2]string{{"GET", "/r1"}, {"POST", "/upload/*x"}},
			method:     "POST",
			path:       "/r1",
			wantStatus: 405,
			wantTrace:  "mw-in,nomethod,mw-out",
		},
		{
			name:       "parameter route elsewhere, unmatched path",
			routes:     [][2]string{{"GET", "/users/:id/r1"}},
			method:     "GET",
			path:       "/r1",
			wantStatus: 404,
			wantTrace:  "mw-in,noroute,mw-out",
		},
	}
	for _, tc := range cases {
		tc := tc
		t.Run(tc.name, func(t *testing.T) {
			opt := config.NewOptions([]config.Option{
				{F: func(o *config.Options) {
					o.RedirectFixedPath = true
					o.HandleMethodNotAllowed = true
					o.DisablePrintRoute = true
				}},
			})
			e := route.NewEngine(opt)
			var trace []string
			e.Use(func(c context.Context, ctx *app.RequestContext) {
				trace = append(trace, "mw-in")
				ctx.Next(c)
				trace = append(trace, "mw-out")
			})
			e.NoRoute(func(c context.Context, ctx *app.RequestContext) { trace = append(trace, "noroute") })
			e.NoMethod(func(c context.Context, ctx *app.RequestContext) { trace = append(trace, "nomethod") })
			for _, r := range tc.routes {
				pat := r[1]
				e.Handle(r[0], pat, func(c context.Context, ctx *app.RequestContext) { trace = append(trace, "route:"+pat) })
			}

			// follow redirects like a client would, a few times
			path := tc.path
			for hop := 0; hop < 3; hop++ {
				trace = nil
				w := ut.PerformRequest(e, tc.method, path, nil)
				got := strings.Join(trace, ",")
				code := w.Result().StatusCode()
				loc := string(w.Result().Header.Peek("Location"))
				if code >= 300 && code < 400 && got == "" {
					if loc == path {
						t.Fatalf("%s %s: no route matches, yet the answer is %d with Location %q (the path that was asked for); "+
							"no handler was entered, the engine-level middleware never sees this request; want %d with trace %q",
							tc.method, path, code, loc, tc.wantStatus, tc.wantTrace)
					}
					path = loc
					continue
				}
				if code != tc.wantStatus || got != tc.wantTrace {
					t.Fatalf("%s %s: got %d trace %q, want %d trace %q", tc.method, path, code, got, tc.wantStatus, tc.wantTrace)
				}
				return
			}
			t.Fatalf("%s %s: still redirected after 3 hops", tc.method, tc.path)
		})
	}
}
