package route_test

// C12 hunt, round 5, finding 2.
//
// Default options (RedirectTrailingSlash is on by default).  A request that
// matches no route, and whose path with a trailing slash matches no route
// either, is answered "301 -> path + '/'" without any handler being entered:
// the router recommends a trailing-slash redirect whenever the node the search
// ends on has a child whose prefix merely BEGINS with '/', e.g. the "/profile"
// below ":id".  The engine-level middleware and the NoRoute handlers do not run
// for that request; the redirect target then is a plain 404.

import (
	"context"
	"strings"
	"testing"

	"github.com/cloudwego/hertz/pkg/app"
	"github.com/cloudwego/hertz/pkg/common/config"
	"github.com/cloudwego/hertz/pkg/common/ut"
	"github.com/cloudwego/hertz/pkg/route"
)

func TestHunt5C12F2UnmatchedRequestGetsBogusTrailingSlashRedirect(t *testing.T) {
	cases := []struct {
		name   string
		routes []string
		path   string
	}{
		{"below a parameter", []string{"/user/:id/profile"}, "/user/7"},
		{"static routes only", []string{"/docs/intro", "/docsearch"}, "/docs"},
		{"catch-all further down", []string{"/files/a/*rest", "/filesystem"}, "/files"},
	}
	for _, tc := range cases {
		tc := tc
		t.Run(tc.name, func(t *testing.T) {
			opt := config.NewOptions([]config.Option{
				{F: func(o *config.Options) { o.DisablePrintRoute = true }},
			})
			e := route.NewEngine(opt) // RedirectTrailingSlash: true is the default
			var trace []string
			e.Use(func(c context.Context, ctx *app.RequestContext) {
				trace = append(trace, "mw-in")
				ctx.Next(c)
				trace = append(trace, "mw-out")
			})
			e.NoRoute(func(c context.Context, ctx *app.RequestContext) { trace = append(trace, "noroute") })
			for _, pat := range tc.routes {
				pat := pat
				e.GET(pat, func(c context.Context, ctx *app.RequestContext) { trace = append(trace, "route:"+pat) })
			}

			// neither the path nor the path with a slash is routed
			trace = nil
			w2 := ut.PerformRequest(e, "GET", tc.path+"/", nil)
			if code, got := w2.Result().StatusCode(), strings.Join(trace, ","); code != 404 || got != "mw-in,noroute,mw-out" {
				t.Fatalf("precondition: GET %s/ should be a plain 404 through the chain, got %d %q", tc.path, code, got)
			}

			trace = nil
			w := ut.PerformRequest(e, "GET", tc.path, nil)
			code := w.Result().StatusCode()
			got := strings.Join(trace, ",")
			if code != 404 || got != "mw-in,noroute,mw-out" {
				t.Fatalf("GET %s matches no route (nor does %s/): want 404 through the not-found chain, trace %q; "+
					"got status %d, Location %q, trace %q",
					tc.path, tc.path, "mw-in,noroute,mw-out", code, w.Result().Header.Peek("Location"), got)
			}
		})
	}
}
