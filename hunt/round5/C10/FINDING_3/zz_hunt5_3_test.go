package client

import (
	"bufio"
	"context"
	"crypto/tls"
	"fmt"
	"net"
	"strings"
	"sync"
	"testing"
	"time"

	"github.com/cloudwego/hertz/pkg/network"
	"github.com/cloudwego/hertz/pkg/network/standard"
	"github.com/cloudwego/hertz/pkg/protocol"
)

// hunt5Dialer connects every dial to the scripted peer and keeps, per address the
// client asked for, the number of connections that are open at the same time.
type hunt5Dialer struct {
	network.Dialer
	peer string

	mu      sync.Mutex
	open    map[string]int
	maxOpen map[string]int
}

type hunt5Conn struct {
	network.Conn
	d    *hunt5Dialer
	addr string
	once sync.Once
}

func (c *hunt5Conn) Close() error {
	c.once.Do(func() {
		c.d.mu.Lock()
		c.d.open[c.addr]--
		c.d.mu.Unlock()
	})
	return c.Conn.Close()
}

func (d *hunt5Dialer) DialConnection(n, address string, timeout time.Duration, tlsConfig *tls.Config) (network.Conn, error) {
	conn, err := d.Dialer.DialConnection(n, d.peer, timeout, tlsConfig)
	if err != nil {
		return nil, err
	}
	d.mu.Lock()
	d.open[address]++
	if d.open[address] > d.maxOpen[address] {
		d.maxOpen[address] = d.open[address]
	}
	d.mu.Unlock()
	return &hunt5Conn{Conn: conn, d: d, addr: address}, nil
}

// C10: "the number of connections counted per host never exceeds the configured
// maximum."
//
// The client keeps one HostClient (one pool, one counter) per host, and files it
// under the host exactly as the URL spells it. "http://peer.test/" and
// "http://peer.test:80/" are the same host and the same port, both HostClients get
// the address "peer.test:80" to dial, but they are two pools with a maximum of their
// own: with MaxConnsPerHost = 1 two connections to peer.test:80 are open and carry
// requests at the same time.
func TestHunt5_3_DefaultPortSpelledOutIsASecondHost(t *testing.T) {
	ln, err := net.Listen("tcp", "127.0.0.1:0")
	if err != nil {
		t.Fatal(err)
	}
	defer ln.Close()

	// The peer answers a request when a second one is in flight at the same time
	// (which MaxConnsPerHost = 1 rules out), or after 500ms.
	var mu sync.Mutex
	inFlight, maxInFlight := 0, 0
	second := make(chan struct{})
	var secondOnce sync.Once
	go func() {
		for {
			conn, err := ln.Accept()
			if err != nil {
				return
			}
			go func(conn net.Conn) {
				defer conn.Close()
				br := bufio.NewReader(conn)
				for {
					for {
						line, err := br.ReadString('\n')
						if err != nil {
							return
						}
						if strings.TrimSpace(line) == "" {
							break
						}
					}
					mu.Lock()
					inFlight++
					if inFlight > maxInFlight {
						maxInFlight = inFlight
					}
					if inFlight > 1 {
						secondOnce.Do(func() { close(second) })
					}
					mu.Unlock()
					select {
					case <-second:
					case <-time.After(500 * time.Millisecond):
					}
					mu.Lock()
					inFlight--
					mu.Unlock()
					fmt.Fprintf(conn, "HTTP/1.1 200 OK\r\nContent-Length: 2\r\n\r\nok")
				}
			}(conn)
		}
	}()

	d := &hunt5Dialer{Dialer: standard.NewDialer(), peer: ln.Addr().String(), open: map[string]int{}, maxOpen: map[string]int{}}
	c, err := NewClient(WithDialer(d), WithMaxConnsPerHost(1), WithDialTimeout(time.Second), WithClientReadTimeout(3*time.Second))
	if err != nil {
		t.Fatal(err)
	}

	var wg sync.WaitGroup
	for _, u := range []string{"http://peer.test/a", "http://peer.test:80/b"} {
		wg.Add(1)
		go func(u string) {
			defer wg.Done()
			req, resp := protocol.AcquireRequest(), protocol.AcquireResponse()
			defer protocol.ReleaseRequest(req)
			defer protocol.ReleaseResponse(resp)
			req.SetRequestURI(u)
			// with one connection allowed and no waiting, one of the two calls is
			// expected to end with ErrNoFreeConns
			_ = c.Do(context.Background(), req, resp)
		}(u)
	}
	wg.Wait()

	d.mu.Lock()
	defer d.mu.Unlock()
	if len(d.maxOpen) != 1 {
		t.Fatalf("the two URLs were expected to be dialed at one address, got %v", d.maxOpen)
	}
	for addr, n := range d.maxOpen {
		if n > 1 {
			mu.Lock()
			t.Errorf("MaxConnsPerHost=1: %d connections to %s were open at the same time, %d requests in flight at once on the peer", n, addr, maxInFlight)
			mu.Unlock()
		}
	}
}
