package http1

import (
	"bufio"
	"context"
	"fmt"
	"net"
	"strings"
	"sync"
	"testing"
	"time"

	"github.com/cloudwego/hertz/pkg/network/standard"
	"github.com/cloudwego/hertz/pkg/protocol"
)

// C10: "... once all calls have returned, every connection is either idle in the pool
// or closed, no waiter remains queued and the pending-request gauge is zero."
//
// HostClient.WantConnectionCount is the accessor for the number of queued waiters
// (next to ConnectionCount and PendingRequests). Unlike ConnPoolState, which takes
// connsLock and checks connsWait for nil, it reads c.connsWait and the queue's slices
// without the lock: it panics with a nil pointer dereference on a client that has not
// queued a waiter yet, and it races with queueForIdle / releaseConn / decConnsCount,
// which replace and mutate the queue under connsLock (run with -race).

func TestHunt5_4_WantConnectionCountOnFreshClient(t *testing.T) {
	c := NewHostClient(&ClientOptions{Dialer: standard.NewDialer(), MaxConns: 1, MaxConnWaitTimeout: time.Second}).(*HostClient)
	defer func() {
		if r := recover(); r != nil {
			t.Fatalf("WantConnectionCount() on a client without waiters panicked: %v", r)
		}
	}()
	if n := c.WantConnectionCount(); n != 0 {
		t.Fatalf("WantConnectionCount() = %d on a client that was never used", n)
	}
}

func TestHunt5_4_WantConnectionCountRacesWithThePool(t *testing.T) {
	ln, err := net.Listen("tcp", "127.0.0.1:0")
	if err != nil {
		t.Fatal(err)
	}
	defer ln.Close()
	go func() {
		for {
			conn, err := ln.Accept()
			if err != nil {
				return
			}
			go func(conn net.Conn) {
				defer conn.Close()
				br := bufio.NewReader(conn)
				for {
					for {
						line, err := br.ReadString('\n')
						if err != nil {
							return
						}
						if strings.TrimSpace(line) == "" {
							break
						}
					}
					time.Sleep(time.Millisecond) // keeps the other callers waiting
					fmt.Fprintf(conn, "HTTP/1.1 200 OK\r\nContent-Length: 2\r\n\r\nok")
				}
			}(conn)
		}
	}()

	c := NewHostClient(&ClientOptions{
		Dialer:             standard.NewDialer(),
		MaxConns:           1,
		MaxConnWaitTimeout: time.Second,
		ReadTimeout:        2 * time.Second,
		DialTimeout:        time.Second,
	}).(*HostClient)
	c.Addr = ln.Addr().String()

	// a monitor that watches the three gauges while requests run
	stop := make(chan struct{})
	monitorDone := make(chan struct{})
	go func() {
		defer close(monitorDone)
		for {
			select {
			case <-stop:
				return
			default:
			}
			func() {
				defer func() { _ = recover() }() // the nil dereference is the other test's subject
				_ = c.WantConnectionCount()
			}()
			_ = c.ConnectionCount()
			_ = c.PendingRequests()
			time.Sleep(20 * time.Microsecond)
		}
	}()

	var wg sync.WaitGroup
	for g := 0; g < 4; g++ {
		wg.Add(1)
		go func() {
			defer wg.Done()
			for i := 0; i < 15; i++ {
				req, resp := protocol.AcquireRequest(), protocol.AcquireResponse()
				req.SetRequestURI("http://" + ln.Addr().String() + "/")
				if err := c.Do(context.Background(), req, resp); err != nil {
					t.Errorf("Do: %v", err)
				}
				protocol.ReleaseRequest(req)
				protocol.ReleaseResponse(resp)
			}
		}()
	}
	wg.Wait()
	close(stop)
	<-monitorDone
	// all calls have returned, one clean request was the last thing on the pool
	if n := c.PendingRequests(); n != 0 {
		t.Errorf("PendingRequests = %d", n)
	}
}
