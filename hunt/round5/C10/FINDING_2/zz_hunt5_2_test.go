package http1

import (
	"bufio"
	"context"
	"fmt"
	"net"
	"strings"
	"sync/atomic"
	"testing"
	"time"

	"github.com/cloudwego/hertz/pkg/network/standard"
	"github.com/cloudwego/hertz/pkg/protocol"
)

// C10: "A connection is put back for reuse only after its exchange completed cleanly
// (full response read, no Connection: close, no error or timeout)."
//
// The client looks at both sides for the close option (req.ConnectionClose() ||
// resp.ConnectionClose()). On the response side every spelling is recognised by now.
// On the request side the option is only seen when the field value is exactly the
// five bytes "close": a request carrying "Connection: Close" or "Connection: TE, close"
// (connection options are case-insensitive tokens in a list, RFC 9110 7.6.1; hertz
// writes the field to the wire as given) tells the peer that this is the last exchange
// on the connection, and the client nevertheless puts the connection back. The peer
// does what it was asked to do and closes; the next request sent on the pooled
// connection is lost - a POST fails with "the server closed connection before
// returning the first response byte".
func TestHunt5_2_RequestCloseOptionInOtherSpelling(t *testing.T) {
	for _, spelling := range []string{"close", "Close", "TE, close"} {
		t.Run(spelling, func(t *testing.T) {
			ln, err := net.Listen("tcp", "127.0.0.1:0")
			if err != nil {
				t.Fatal(err)
			}
			defer ln.Close()
			var accepted int32
			go func() {
				for {
					conn, err := ln.Accept()
					if err != nil {
						return
					}
					atomic.AddInt32(&accepted, 1)
					go func(conn net.Conn) {
						defer conn.Close()
						br := bufio.NewReader(conn)
						for {
							closeAsked := false
							cl := 0
							for {
								line, err := br.ReadString('\n')
								if err != nil {
									return
								}
								line = strings.TrimSpace(line)
								if line == "" {
									break
								}
								if i := strings.IndexByte(line, ':'); i > 0 {
									k, v := strings.ToLower(line[:i]), strings.TrimSpace(line[i+1:])
									if k == "connection" {
										for _, tok := range strings.Split(v, ",") {
											if strings.EqualFold(strings.TrimSpace(tok), "close") {
												closeAsked = true
											}
										}
									}
									if k == "content-length" {
										fmt.Sscanf(v, "%d", &cl)
									}
								}
							}
							if cl > 0 {
								if _, err := br.Discard(cl); err != nil {
									return
								}
							}
							// a complete response with a length; the peer need not
							// repeat the option the client itself has sent
							fmt.Fprintf(conn, "HTTP/1.1 200 OK\r\nContent-Length: 2\r\n\r\nok")
							if closeAsked {
								return
							}
						}
					}(conn)
				}
			}()

			c := &HostClient{
				ClientOptions: &ClientOptions{
					Dialer:      standard.NewDialer(),
					MaxConns:    2,
					ReadTimeout: 2 * time.Second,
					DialTimeout: time.Second,
				},
				Addr:   ln.Addr().String(),
				closed: make(chan struct{}),
			}

			req, resp := protocol.AcquireRequest(), protocol.AcquireResponse()
			req.SetMethod("GET")
			req.SetRequestURI("http://" + ln.Addr().String() + "/first")
			req.Header.Set("Connection", spelling)
			if err := c.Do(context.Background(), req, resp); err != nil {
				t.Fatalf("first exchange: %v", err)
			}
			if string(resp.Body()) != "ok" {
				t.Fatalf("first exchange: body %q", resp.Body())
			}
			st := c.ConnPoolState()
			if st.PoolConnNum != 0 || st.TotalConnNum != 0 {
				t.Errorf("the request said 'Connection: %s' and its connection was put back for reuse: %d idle in the pool, %d counted",
					spelling, st.PoolConnNum, st.TotalConnNum)
			}

			// give the peer's close time to arrive, then send a request that is not
			// safe to repeat: it must go out on a connection that can carry it
			time.Sleep(50 * time.Millisecond)
			req.Reset()
			resp.Reset()
			req.SetMethod("POST")
			req.SetRequestURI("http://" + ln.Addr().String() + "/second")
			req.SetBodyString("payload")
			if err := c.Do(context.Background(), req, resp); err != nil {
				t.Errorf("POST after an exchange whose request said 'Connection: %s': %v", spelling, err)
			}
		})
	}
}
