package http1

import (
	"bufio"
	"context"
	"net"
	"strings"
	"sync"
	"sync/atomic"
	"testing"
	"time"

	"github.com/cloudwego/hertz/pkg/network/standard"
	"github.com/cloudwego/hertz/pkg/protocol"
)

// C10: "A call given a request or read timeout returns no later than that timeout
// plus scheduling slack", and once all calls have returned the pending-request gauge
// is zero and no waiter remains queued.
//
// The peer closes every connection after it has read the request, before the first
// byte of a response ("close before first byte", on every exchange). MaxConns is 1,
// callers wait for a free connection (MaxConnWaitTimeout), every call has a read
// timeout. Three callers send one GET each.
//
// A connection that fails like this is closed; when a caller waits in the queue the
// slot is not given up, a new connection is dialed for the waiter instead
// (decConnsCount -> dialConnFor). acquireConn hands that brand-new connection out
// with inPool == true, so the EOF on it is taken for the keep-alive shutdown race of
// a pooled connection (ErrBadPoolConn) and the GET is sent again. The caller that
// repeats finds the slot taken by the connection being dialed for the other waiter,
// queues, and is served by the next failure: two callers keep each other in the
// loop for as long as the peer accepts connections. No call returns, no timeout
// applies, and the request goes out again and again.
func TestHunt5_1_FreshConnForWaiterRetriedForever(t *testing.T) {
	ln, err := net.Listen("tcp", "127.0.0.1:0")
	if err != nil {
		t.Fatal(err)
	}
	var requests int32
	go func() {
		for {
			conn, err := ln.Accept()
			if err != nil {
				return
			}
			go func(conn net.Conn) {
				defer conn.Close()
				br := bufio.NewReader(conn)
				for {
					line, err := br.ReadString('\n')
					if err != nil {
						return
					}
					if strings.TrimSpace(line) == "" {
						break // end of the header block (the GET has no body)
					}
				}
				atomic.AddInt32(&requests, 1)
				// close before the first byte of the response (a peer a few
				// milliseconds away)
				time.Sleep(3 * time.Millisecond)
			}(conn)
		}
	}()

	const (
		readTimeout = 200 * time.Millisecond
		waitTimeout = 500 * time.Millisecond
		callers     = 3
	)
	c := &HostClient{
		ClientOptions: &ClientOptions{
			Dialer:             standard.NewDialer(),
			MaxConns:           1,
			MaxConnWaitTimeout: waitTimeout,
			ReadTimeout:        readTimeout,
			DialTimeout:        time.Second,
		},
		Addr:   ln.Addr().String(),
		closed: make(chan struct{}),
	}

	var wg sync.WaitGroup
	var returned int32
	start := time.Now()
	for i := 0; i < callers; i++ {
		wg.Add(1)
		go func(i int) {
			defer wg.Done()
			req, resp := protocol.AcquireRequest(), protocol.AcquireResponse()
			defer protocol.ReleaseRequest(req)
			defer protocol.ReleaseResponse(resp)
			req.SetMethod("GET")
			req.SetRequestURI("http://" + ln.Addr().String() + "/x")
			_ = c.Do(context.Background(), req, resp) // an error is expected: there is no response
			atomic.AddInt32(&returned, 1)
		}(i)
	}
	done := make(chan struct{})
	go func() { wg.Wait(); close(done) }()

	// Every attempt is bounded by waitTimeout + readTimeout. A caller may repeat once
	// per connection that was really pooled (there never is one here: no exchange
	// completes). Six times the sum is far beyond scheduling slack.
	limit := 6 * (readTimeout + waitTimeout)
	select {
	case <-done:
	case <-time.After(limit):
		t.Errorf("after %v only %d of %d calls have returned; the peer has received %d requests for %d calls; PendingRequests=%d",
			time.Since(start).Round(time.Millisecond), atomic.LoadInt32(&returned), callers,
			atomic.LoadInt32(&requests), callers, c.PendingRequests())
	}
	// let the stuck callers go: with the listener closed the dial for the next waiter fails
	ln.Close()
	select {
	case <-done:
	case <-time.After(5 * time.Second):
		t.Fatalf("calls still running 5s after the peer stopped listening")
	}
	if t.Failed() {
		return
	}
	if n := atomic.LoadInt32(&requests); n > 2*callers {
		t.Errorf("the peer received %d requests for %d calls on connections none of which had ever been idle in the pool", n, callers)
	}
	if n := c.PendingRequests(); n != 0 {
		t.Errorf("PendingRequests=%d after all calls returned", n)
	}
}
