package binding

import (
	"testing"
)

// C20: evaluation never panics, whatever the field values are (nil pointers included).
// A rule below a struct member that is absent (nil pointer) is not applied: the
// validator looks the parent member up when a rule came out false. For a parent
// reached through a multi-level pointer member that look-up (the reflect getter of
// a merged child field) walks all pointer levels without a nil check - its twin,
// the value getter, got that check in the repair of the "(Addr.City)$" panic.

type h54Leaf struct {
	V int `vd:"$>0"`
}

type h54Mid struct {
	L h54Leaf
}

// control group: one pointer level, or a rule directly below the pointer member
type h54One struct {
	P *h54Mid
}
type h54TwoDirect struct {
	P **h54Leaf
}
type h54Two struct {
	P **h54Mid
}

type h54Three struct {
	P ***h54Mid
}

func h54Validate(v interface{}) (err error, panicked interface{}) {
	defer func() { panicked = recover() }()
	return Validate(v), nil
}

func TestHunt5C20_4_AbsentParentBehindMultiLevelPointer(t *testing.T) {
	// control: an absent parent switches the rule off, no error, no panic
	for name, v := range map[string]interface{}{
		"*Mid nil":      &h54One{},
		"**Leaf nil":    &h54TwoDirect{},
		"**Mid nil":     &h54Two{},
		"**Mid -> nil":  &h54Two{P: new(*h54Mid)},
		"***Mid -> nil": &h54Three{P: new(**h54Mid)},
	} {
		if err, p := h54Validate(v); err != nil || p != nil {
			t.Fatalf("control %s: err=%v panic=%v", name, err, p)
		}
	}
	// control: a present parent is checked through all pointer levels
	mid := &h54Mid{}
	pmid := &mid
	if err, p := h54Validate(&h54Three{P: &pmid}); err == nil || p != nil {
		t.Fatalf("control ***Mid present, V==0: err=%v panic=%v", err, p)
	}
	mid.L.V = 1
	if err, p := h54Validate(&h54Three{P: &pmid}); err != nil || p != nil {
		t.Fatalf("control ***Mid present, V==1: err=%v panic=%v", err, p)
	}

	// the outermost level of a three-level pointer is nil
	if err, p := h54Validate(&h54Three{}); p != nil {
		t.Errorf("***Mid nil: binding.Validate panicked: %v", p)
	} else if err != nil {
		t.Errorf("***Mid nil: the parent is absent, its rule does not apply: %v", err)
	}

	// the struct that carries a two-level pointer member is itself absent (a nil
	// element of a slice member); the one-level twin accepts the same shape
	type holderOne struct {
		Es []*h54One
	}
	type holderTwo struct {
		Es []*h54Two
	}
	if err, p := h54Validate(&holderOne{Es: []*h54One{nil}}); err != nil || p != nil {
		t.Fatalf("control nil element, *Mid member: err=%v panic=%v", err, p)
	}
	if err, p := h54Validate(&holderTwo{Es: []*h54Two{nil}}); p != nil {
		t.Errorf("nil element, **Mid member: binding.Validate panicked: %v", p)
	} else if err != nil {
		t.Errorf("nil element, **Mid member: rejected (%v) although the *Mid twin is accepted", err)
	}
}
