package binding

import (
	"fmt"
	"testing"
)

// C20: evaluation never panics, whatever the field values are (nil pointers included).
// "(X)$['A']" is the documented reference to the sub-field A of the struct member X.
// When A is promoted from an embedded pointer that is nil, the sub-field is absent
// (nil, like an element index out of range or a missing map key); instead the
// evaluation panics inside reflect.Value.FieldByName.

type H53Base struct {
	ID int
}

type h53Item struct {
	*H53Base
	Name string
}

type h53Req struct {
	Item h53Item `vd:"$['ID']==nil || $['ID']>0"`
}

type h53ReqIface struct {
	Item interface{} `vd:"$['ID']==nil || $['ID']>0"`
}

func h53Validate(v interface{}) (err error, panicked interface{}) {
	defer func() { panicked = recover() }()
	return Validate(v), nil
}

func TestHunt5C20_3_SubFieldBehindNilEmbeddedPointer(t *testing.T) {
	// control: with the embedded pointer set the rule works as documented
	if err, p := h53Validate(&h53Req{Item: h53Item{H53Base: &H53Base{ID: 1}}}); err != nil || p != nil {
		t.Fatalf("ID=1: err=%v panic=%v", err, p)
	}
	if err, p := h53Validate(&h53Req{Item: h53Item{H53Base: &H53Base{ID: -1}}}); err == nil || p != nil {
		t.Fatalf("ID=-1 must be rejected: err=%v panic=%v", err, p)
	}
	// control: other absent sub-values are nil, the rule accepts them
	type viaMap struct {
		Item map[string]int `vd:"$['ID']==nil || $['ID']>0"`
	}
	if err, p := h53Validate(&viaMap{Item: map[string]int{}}); err != nil || p != nil {
		t.Fatalf("missing map key: err=%v panic=%v", err, p)
	}

	for name, v := range map[string]interface{}{
		"struct member":              &h53Req{Item: h53Item{Name: "x"}},
		"struct in interface member": &h53ReqIface{Item: h53Item{Name: "x"}},
	} {
		err, p := h53Validate(v)
		if p != nil {
			t.Errorf("%s: binding.Validate panicked: %v", name, fmt.Sprint(p))
			continue
		}
		if err != nil {
			t.Errorf("%s: $['ID'] is absent, \"$['ID']==nil || ...\" is true, yet the value was rejected: %v", name, err)
		}
	}
}
