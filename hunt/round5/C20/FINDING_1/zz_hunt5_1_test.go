package binding

import (
	"testing"
)

// C20: a value is accepted exactly when its rule evaluates to true.
// The rule "$>0" below is false (V == 0) in every value; binding.Validate has to
// reject each of them. It rejects the value when the struct with the rule sits in a
// []interface{} / map[K]int member or at the top level, and accepts it when the same
// element sits one container level deeper inside a struct member.

type h51Rule struct {
	V int `vd:"$>0"`
}

// paths that work (the control group)
type h51Flat struct {
	Rows []interface{}
}
type h51FlatKey struct {
	Idx map[h51Rule]int
}

// an interface element behind two container levels of one member
type h51SliceSlice struct {
	Rows [][]interface{}
}
type h51SliceMap struct {
	Rows []map[string]interface{}
}
type h51MapSlice struct {
	Rows map[string][]interface{}
}

// a struct used as the key of an inner map of one member
type h51InnerKey struct {
	Idx [][]map[h51Rule]int
}
type h51InnerKey2 struct {
	Idx map[string]map[string]map[h51Rule]int
}

// (one level less is a path that works)
type h51DirectKey struct {
	Idx []map[h51Rule]int
}

func TestHunt5C20_1_NestedContainerMember(t *testing.T) {
	bad := &h51Rule{V: 0}
	good := &h51Rule{V: 1}

	// control: the same rule, the same element, is found on these paths
	for name, v := range map[string]interface{}{
		"member []interface{}":         &h51Flat{Rows: []interface{}{bad}},
		"member map[Rule]int":          &h51FlatKey{Idx: map[h51Rule]int{*bad: 1}},
		"member []map[Rule]int":        &h51DirectKey{Idx: []map[h51Rule]int{{*bad: 1}}},
		"top-level [][]interface{}":    [][]interface{}{{bad}},
		"top-level [][]map[Rule]int":   [][]map[h51Rule]int{{{*bad: 1}}},
		"top-level []map[Rule]int":     []map[h51Rule]int{{*bad: 1}},
		"top-level []map[string]iface": []map[string]interface{}{{"a": bad}},
	} {
		if err := Validate(v); err == nil {
			t.Errorf("control %s: V==0 violates $>0, yet the value was accepted", name)
		}
	}
	// and valid values pass
	for name, v := range map[string]interface{}{
		"[][]interface{}":          &h51SliceSlice{Rows: [][]interface{}{{good}}},
		"[]map[string]interface{}": &h51SliceMap{Rows: []map[string]interface{}{{"a": good}}},
		"[][]map[Rule]int":         &h51InnerKey{Idx: [][]map[h51Rule]int{{{*good: 1}}}},
	} {
		if err := Validate(v); err != nil {
			t.Errorf("valid %s: rejected: %v", name, err)
		}
	}

	for name, v := range map[string]interface{}{
		"member [][]interface{}":                    &h51SliceSlice{Rows: [][]interface{}{{bad}}},
		"member []map[string]interface{}":           &h51SliceMap{Rows: []map[string]interface{}{{"a": bad}}},
		"member map[string][]interface{}":           &h51MapSlice{Rows: map[string][]interface{}{"a": {bad}}},
		"member [][]map[Rule]int":                   &h51InnerKey{Idx: [][]map[h51Rule]int{{{*bad: 1}}}},
		"member map[string]map[string]map[Rule]int": &h51InnerKey2{Idx: map[string]map[string]map[h51Rule]int{"a": {"b": {*bad: 1}}}},
	} {
		if err := Validate(v); err == nil {
			t.Errorf("%s: the element has V==0, its rule $>0 is false, yet binding.Validate accepted the value", name)
		}
	}
}
