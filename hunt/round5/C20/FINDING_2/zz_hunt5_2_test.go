package binding

import (
	"reflect"
	"testing"

	"github.com/cloudwego/hertz/pkg/protocol"
	"github.com/cloudwego/hertz/pkg/route/param"
)

// C20: struct validation accepts a value exactly when its rules evaluate to true.
// BindAndValidate decides while it builds the field decoders whether a type has to
// be validated at all. b1c61ce made that decision look at the tag of an unexported
// field, of an embedded non-struct field and at map keys; the types those fields
// are made of, and a type that has a customized decoder, are still not looked at.
// Each request type below carries the rule "$>0" on a value that is 0 after binding:
// binding.Validate rejects the bound value, BindAndValidate returns nil.

type h52Item struct {
	V int `json:"V" vd:"$>0"`
}

// an embedded (exported) slice type: encoding/json fills it under its type name
type H52Items []h52Item

type h52EmbeddedSlice struct {
	A int `query:"a"`
	H52Items
}

// unexported members: nothing is bound to them, the validator checks them anyway
type h52UnexportedStruct struct {
	A    int `query:"a"`
	item h52Item
}

type h52UnexportedSlice struct {
	A     int `query:"a"`
	items []h52Item
}

// a struct type with rules of its own and a customized decoder
type h52Money struct {
	Amount int `vd:"$>0"`
}

type h52Custom struct {
	A int      `query:"a"`
	M h52Money `query:"m"`
}

func h52JSONReq(body string) *protocol.Request {
	req := protocol.NewRequest("POST", "http://x/?a=1&m=0", nil)
	req.SetBody([]byte(body))
	req.Header.SetContentTypeBytes([]byte("application/json"))
	req.Header.SetContentLength(len(body))
	return req
}

func TestHunt5C20_2_BindAndValidateSkips(t *testing.T) {
	check := func(name string, b Binder, req *protocol.Request, obj interface{}) {
		t.Helper()
		var err error
		if b == nil {
			err = BindAndValidate(req, obj, param.Params{})
		} else {
			err = b.BindAndValidate(req, obj, param.Params{})
		}
		verr := Validate(obj)
		if verr == nil {
			t.Fatalf("%s: test premise broken: binding.Validate accepts %+v", name, obj)
		}
		if err == nil {
			t.Errorf("%s: BindAndValidate returned nil for %+v, binding.Validate of the same value: %v", name, obj, verr)
		}
	}

	es := &h52EmbeddedSlice{}
	check("embedded slice type filled from the json body", nil, h52JSONReq(`{"H52Items":[{"V":0}]}`), es)
	if len(es.H52Items) != 1 {
		t.Fatalf("test premise broken: the body was not bound: %+v", es)
	}

	check("unexported struct member", nil, h52JSONReq(`{}`), &h52UnexportedStruct{})
	check("unexported slice member", nil, h52JSONReq(`{}`), &h52UnexportedSlice{items: []h52Item{{V: 0}}})

	cfg := NewBindConfig()
	cfg.MustRegTypeUnmarshal(reflect.TypeOf(h52Money{}), func(req *protocol.Request, params param.Params, text string) (reflect.Value, error) {
		return reflect.ValueOf(h52Money{Amount: len(text) - 1}), nil // "0" -> Amount 0
	})
	cu := &h52Custom{}
	check("type with a customized decoder", NewDefaultBinder(cfg), h52JSONReq(`{}`), cu)
}
