package server

// hunt5 / C01 / finding 1
//
// With server.WithDisableHeaderNamesNormalizing(true) a declared trailer field
// reaches the handler only if the name in the "Trailer:" declaration and the
// name on the trailer line are spelled with exactly the same letter case.
// Field names are case-insensitive (RFC 7230 3.2); "Trailer: x-checksum"
// followed by the trailer line "X-Checksum: abc123" is one and the same field.
// hertz matches the two with bytes.Equal and drops the value silently.

import (
	"bufio"
	"context"
	"fmt"
	"io"
	"net"
	"net/http"
	"strings"
	"sync"
	"testing"
	"time"

	"github.com/cloudwego/hertz/pkg/app"
	"github.com/cloudwego/hertz/pkg/common/config"
	"github.com/cloudwego/hertz/pkg/network/netpoll"
	"github.com/cloudwego/hertz/pkg/network/standard"
)

type h51Seen struct {
	target  string
	body    string
	trailer map[string]string // lower-cased name -> value
}

func h51FreeAddr(t *testing.T) string {
	l, err := net.Listen("tcp", "127.0.0.1:0")
	if err != nil {
		t.Fatal(err)
	}
	defer l.Close()
	return l.Addr().String()
}

func h51Start(t *testing.T, opts ...config.Option) (addr string, seen func() []h51Seen, stop func()) {
	addr = h51FreeAddr(t)
	opts = append([]config.Option{WithHostPorts(addr), WithExitWaitTime(10 * time.Millisecond)}, opts...)
	h := New(opts...)
	var mu sync.Mutex
	var list []h51Seen
	h.Use(func(c context.Context, ctx *app.RequestContext) {
		e := h51Seen{target: string(ctx.Request.Header.RequestURI()), trailer: map[string]string{}}
		// the whole body first (in streaming mode the trailer section is read at its end)
		if ctx.Request.IsBodyStream() {
			b, _ := io.ReadAll(ctx.RequestBodyStream())
			e.body = string(b)
		} else {
			e.body = string(ctx.Request.Body())
		}
		ctx.Request.Header.Trailer().VisitAll(func(k, v []byte) {
			e.trailer[strings.ToLower(string(k))] = string(v)
		})
		mu.Lock()
		list = append(list, e)
		mu.Unlock()
		ctx.AbortWithStatus(200)
	})
	go h.Spin()
	for i := 0; i < 300; i++ {
		c, err := net.Dial("tcp", addr)
		if err == nil {
			c.Close()
			break
		}
		time.Sleep(10 * time.Millisecond)
	}
	time.Sleep(20 * time.Millisecond)
	return addr, func() []h51Seen {
			mu.Lock()
			defer mu.Unlock()
			return append([]h51Seen(nil), list...)
		}, func() {
			ctx, cancel := context.WithTimeout(context.Background(), 200*time.Millisecond)
			defer cancel()
			_ = h.Shutdown(ctx)
		}
}

func h51Exchange(t *testing.T, addr, stream string, n int) []int {
	c, err := net.Dial("tcp", addr)
	if err != nil {
		t.Fatal(err)
	}
	defer c.Close()
	if _, err = c.Write([]byte(stream)); err != nil {
		t.Fatal(err)
	}
	_ = c.SetReadDeadline(time.Now().Add(10 * time.Second))
	br := bufio.NewReader(c)
	var codes []int
	for i := 0; i < n; i++ {
		r, err := http.ReadResponse(br, &http.Request{Method: "GET"})
		if err != nil {
			t.Errorf("response %d: %v", i, err)
			return codes
		}
		_, _ = io.Copy(io.Discard, r.Body)
		r.Body.Close()
		codes = append(codes, r.StatusCode)
	}
	return codes
}

func TestHunt5_1_DeclaredTrailerLostWithoutNameNormalizing(t *testing.T) {
	// one chunked request with a declared trailer, one request behind it
	stream := "POST /upload HTTP/1.1\r\nHost: h\r\nTransfer-Encoding: chunked\r\nTrailer: x-checksum\r\n\r\n" +
		"5\r\nhello\r\n0\r\nX-Checksum: abc123\r\n\r\n" +
		"GET /next HTTP/1.1\r\nHost: h\r\n\r\n"

	for _, cfg := range []struct {
		name string
		opts []config.Option
	}{
		{"standard/buffered", []config.Option{WithTransport(standard.NewTransporter)}},
		{"standard/streaming", []config.Option{WithTransport(standard.NewTransporter), WithStreamBody(true)}},
		{"netpoll/buffered", []config.Option{WithTransport(netpoll.NewTransporter)}},
		{"netpoll/streaming", []config.Option{WithTransport(netpoll.NewTransporter), WithStreamBody(true)}},
	} {
		for _, disable := range []bool{false, true} {
			name := fmt.Sprintf("%s/disableNormalizing=%v", cfg.name, disable)
			opts := append([]config.Option{}, cfg.opts...)
			opts = append(opts, WithDisableHeaderNamesNormalizing(disable))
			addr, seen, stop := h51Start(t, opts...)
			codes := h51Exchange(t, addr, stream, 2)
			stop()
			got := seen()
			if len(codes) != 2 || codes[0] != 200 || codes[1] != 200 || len(got) != 2 {
				t.Errorf("%s: responses %v, handler calls %d; want two requests served", name, codes, len(got))
				continue
			}
			if got[0].target != "/upload" || got[0].body != "hello" || got[1].target != "/next" {
				t.Errorf("%s: framing: %+v", name, got)
				continue
			}
			v, ok := got[0].trailer["x-checksum"]
			if !ok || v != "abc123" {
				t.Errorf("%s: the handler sees the trailer fields %q; the request carries the declared trailer field X-Checksum: abc123",
					name, got[0].trailer)
			}
		}
	}
}
