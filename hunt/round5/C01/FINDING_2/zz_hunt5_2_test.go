package server

// hunt5 / C01 / finding 2
//
// The request header parser takes a request for "the last one on this
// connection" only if the value of a Connection field is, byte for byte,
// "close" - and forgets it again when another Connection line follows.
// Connection is a comma separated list of case-insensitive options that may be
// spread over several field lines (RFC 7230 6.1, 3.2.2). "Connection: Close",
// "Connection: close, TE", "Connection: TE, close" or "Connection: close" +
// "Connection: TE" all carry the close option: the wire says that the
// connection ends with this request (RFC 7230 6.6: exactly one final response,
// the connection is closed, "the server MUST NOT process any further requests
// received on that connection"). hertz answers without "Connection: close",
// keeps the connection, and runs the handlers for the bytes behind the request.

import (
	"bufio"
	"context"
	"io"
	"net"
	"net/http"
	"strings"
	"sync"
	"testing"
	"time"

	"github.com/cloudwego/hertz/pkg/app"
	"github.com/cloudwego/hertz/pkg/common/config"
	"github.com/cloudwego/hertz/pkg/network/netpoll"
	"github.com/cloudwego/hertz/pkg/network/standard"
)

func h52FreeAddr(t *testing.T) string {
	l, err := net.Listen("tcp", "127.0.0.1:0")
	if err != nil {
		t.Fatal(err)
	}
	defer l.Close()
	return l.Addr().String()
}

func h52Start(t *testing.T, opts ...config.Option) (addr string, seen func() []string, stop func()) {
	addr = h52FreeAddr(t)
	opts = append([]config.Option{WithHostPorts(addr), WithExitWaitTime(10 * time.Millisecond)}, opts...)
	h := New(opts...)
	var mu sync.Mutex
	var list []string
	h.Use(func(c context.Context, ctx *app.RequestContext) {
		mu.Lock()
		list = append(list, string(ctx.Request.Header.RequestURI()))
		mu.Unlock()
		ctx.AbortWithStatus(200)
		ctx.Response.SetBodyString(string(ctx.Request.Header.RequestURI()))
	})
	go h.Spin()
	for i := 0; i < 300; i++ {
		c, err := net.Dial("tcp", addr)
		if err == nil {
			c.Close()
			break
		}
		time.Sleep(10 * time.Millisecond)
	}
	time.Sleep(20 * time.Millisecond)
	return addr, func() []string {
			mu.Lock()
			defer mu.Unlock()
			return append([]string(nil), list...)
		}, func() {
			ctx, cancel := context.WithTimeout(context.Background(), 200*time.Millisecond)
			defer cancel()
			_ = h.Shutdown(ctx)
		}
}

type h52Resp struct {
	status int
	body   string
	close  bool // the response carries the close connection option
}

// h52Exchange writes the stream and reads final responses until the server
// closes the connection (or at most max responses).
func h52Exchange(t *testing.T, addr, stream string, max int) (resps []h52Resp, closed bool) {
	c, err := net.Dial("tcp", addr)
	if err != nil {
		t.Fatal(err)
	}
	defer c.Close()
	if _, err = c.Write([]byte(stream)); err != nil {
		t.Fatal(err)
	}
	_ = c.SetReadDeadline(time.Now().Add(5 * time.Second))
	br := bufio.NewReader(c)
	for len(resps) < max {
		r, err := http.ReadResponse(br, &http.Request{Method: "GET"})
		if err != nil {
			closed = err == io.EOF || err == io.ErrUnexpectedEOF || strings.Contains(err.Error(), "reset")
			return resps, closed
		}
		b, _ := io.ReadAll(r.Body)
		r.Body.Close()
		resps = append(resps, h52Resp{r.StatusCode, string(b), r.Close})
	}
	return resps, false
}

func TestHunt5_2_CloseConnectionOptionSpellings(t *testing.T) {
	// how a client may say "this is my last request on this connection"
	spellings := []struct{ name, lines string }{
		{"close (control)", "Connection: close\r\n"},
		{"Close", "Connection: Close\r\n"},
		{"CLOSE", "Connection: CLOSE\r\n"},
		{"close, TE", "Connection: close, TE\r\nTE: trailers\r\n"},
		{"TE, close", "Connection: TE, close\r\nTE: trailers\r\n"},
		{"keep-alive, close", "Connection: keep-alive, close\r\n"},
		{"two lines, close first", "Connection: close\r\nConnection: TE\r\nTE: trailers\r\n"},
	}
	for _, cfg := range []struct {
		name string
		opts []config.Option
	}{
		{"standard", []config.Option{WithTransport(standard.NewTransporter)}},
		{"netpoll", []config.Option{WithTransport(netpoll.NewTransporter)}},
	} {
		addr, seen, stop := h52Start(t, cfg.opts...)
		calls := 0
		for _, sp := range spellings {
			stream := "POST /last HTTP/1.1\r\nHost: h\r\n" + sp.lines + "Content-Length: 3\r\n\r\nabc" +
				"POST /behind HTTP/1.1\r\nHost: h\r\nContent-Length: 3\r\n\r\nxyz"
			resps, closed := h52Exchange(t, addr, stream, 2)
			all := seen()
			got := all[calls:]
			calls = len(all)

			if len(resps) == 0 || resps[0].status != 200 || resps[0].body != "/last" {
				t.Errorf("%s / %q: first response %+v", cfg.name, sp.name, resps)
				continue
			}
			if !resps[0].close {
				t.Errorf("%s / %q: the response to a request that carries the close option does not say 'Connection: close'", cfg.name, sp.name)
			}
			if len(resps) != 1 || !closed {
				t.Errorf("%s / %q: the request carries the close option, the connection ends with its response; got %d responses %+v (closed=%v)",
					cfg.name, sp.name, len(resps), resps, closed)
			}
			if len(got) != 1 || got[0] != "/last" {
				t.Errorf("%s / %q: handlers ran for %q; nothing behind the request with the close option may be processed", cfg.name, sp.name, got)
			}
		}
		stop()
	}
}
