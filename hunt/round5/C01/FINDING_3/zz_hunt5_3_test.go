package server

// hunt5 / C01 / finding 3
//
// chunk-size = 1*HEXDIG (RFC 7230 4.1): leading zeros do not change the size
// of a chunk, and some senders write the size with a fixed width
// (e.g. "%016x"). ReadHexInt counts digits instead of looking at the value:
// a chunk-size line of 16 or more hex digits is refused as "too large hex
// number" even when it says 5. In buffered mode the request is answered 400
// and the connection is closed, in streaming mode the handler is invoked and
// its body stream fails; either way the requests behind it are never served.

import (
	"bufio"
	"context"
	"io"
	"net"
	"net/http"
	"strings"
	"sync"
	"testing"
	"time"

	"github.com/cloudwego/hertz/pkg/app"
	"github.com/cloudwego/hertz/pkg/common/config"
	"github.com/cloudwego/hertz/pkg/network/netpoll"
	"github.com/cloudwego/hertz/pkg/network/standard"
)

func h53FreeAddr(t *testing.T) string {
	l, err := net.Listen("tcp", "127.0.0.1:0")
	if err != nil {
		t.Fatal(err)
	}
	defer l.Close()
	return l.Addr().String()
}

func h53Start(t *testing.T, opts ...config.Option) (addr string, seen func() []string, stop func()) {
	addr = h53FreeAddr(t)
	opts = append([]config.Option{WithHostPorts(addr), WithExitWaitTime(10 * time.Millisecond)}, opts...)
	h := New(opts...)
	var mu sync.Mutex
	var list []string
	h.Use(func(c context.Context, ctx *app.RequestContext) {
		var body []byte
		var err error
		if ctx.Request.IsBodyStream() {
			body, err = io.ReadAll(ctx.RequestBodyStream())
		} else {
			body = ctx.Request.Body()
		}
		s := string(ctx.Request.Header.RequestURI()) + " " + string(body)
		if err != nil {
			s += " ERR " + err.Error()
		}
		mu.Lock()
		list = append(list, s)
		mu.Unlock()
		ctx.AbortWithStatus(200)
	})
	go h.Spin()
	for i := 0; i < 300; i++ {
		c, err := net.Dial("tcp", addr)
		if err == nil {
			c.Close()
			break
		}
		time.Sleep(10 * time.Millisecond)
	}
	time.Sleep(20 * time.Millisecond)
	return addr, func() []string {
			mu.Lock()
			defer mu.Unlock()
			return append([]string(nil), list...)
		}, func() {
			ctx, cancel := context.WithTimeout(context.Background(), 200*time.Millisecond)
			defer cancel()
			_ = h.Shutdown(ctx)
		}
}

func h53Exchange(t *testing.T, addr, stream string, n int) (codes []int, err error) {
	c, err := net.Dial("tcp", addr)
	if err != nil {
		t.Fatal(err)
	}
	defer c.Close()
	if _, err = c.Write([]byte(stream)); err != nil {
		t.Fatal(err)
	}
	_ = c.SetReadDeadline(time.Now().Add(5 * time.Second))
	br := bufio.NewReader(c)
	for i := 0; i < n; i++ {
		r, err := http.ReadResponse(br, &http.Request{Method: "GET"})
		if err != nil {
			return codes, err
		}
		_, _ = io.Copy(io.Discard, r.Body)
		r.Body.Close()
		codes = append(codes, r.StatusCode)
	}
	return codes, nil
}

func TestHunt5_3_ChunkSizeWithLeadingZeros(t *testing.T) {
	for _, cfg := range []struct {
		name string
		opts []config.Option
	}{
		{"standard/buffered", []config.Option{WithTransport(standard.NewTransporter)}},
		{"standard/streaming", []config.Option{WithTransport(standard.NewTransporter), WithStreamBody(true)}},
		{"netpoll/buffered", []config.Option{WithTransport(netpoll.NewTransporter)}},
		{"netpoll/streaming", []config.Option{WithTransport(netpoll.NewTransporter), WithStreamBody(true)}},
	} {
		addr, seen, stop := h53Start(t, cfg.opts...)
		calls := 0
		// the same chunk size, 5, written with 1, 8, 15 (controls), 16, 17 and 32 hex digits;
		// also the last-chunk written as sixteen zeros
		for _, width := range []int{1, 8, 15, 16, 17, 32, -16} {
			size, last := "5", "0"
			if width > 0 {
				size = strings.Repeat("0", width-1) + "5"
			} else {
				last = strings.Repeat("0", -width)
			}
			stream := "POST /chunked HTTP/1.1\r\nHost: h\r\nTransfer-Encoding: chunked\r\n\r\n" +
				size + "\r\nhello\r\n" + last + "\r\n\r\n" +
				"GET /next HTTP/1.1\r\nHost: h\r\n\r\n"
			codes, err := h53Exchange(t, addr, stream, 2)
			all := seen()
			got := all[calls:]
			calls = len(all)
			ok := err == nil && len(codes) == 2 && codes[0] == 200 && codes[1] == 200 &&
				len(got) == 2 && got[0] == "/chunked hello" && got[1] == "/next "
			if !ok {
				t.Errorf("%s: chunk-size %q, last-chunk %q: responses %v (%v), handlers saw %q; want [200 200] and [\"/chunked hello\" \"/next \"]",
					cfg.name, size, last, codes, err, got)
			}
		}
		stop()
	}
}
