//go:build verif

package http1

// C02 hunt round 5, finding 1.
//
// The same TLS byte stream (a request, then the peer's close_notify) is handed to the
// server's standard connection either in one network read or cut at the record
// boundary (or byte by byte). Nothing else differs: the raw transport below TLS
// reports the end of the stream as a separate (0, io.EOF) read in every variant.
//
// crypto/tls answers a Read with (n, io.EOF) when the close_notify record is already
// buffered behind the data, and with (n, nil) ... (0, io.EOF) when it arrives later.
// standard.Conn treats the two differently (an error that came with data is kept and
// later handed out by Peek together with the buffered bytes, an error that came alone
// makes Peek return nothing and leaves the buffered bytes behind), and the http1
// readers decide on that difference.
//
// Run with: go test -tags verif -run TestHunt5C02EOFDeliveredWithLastBytes ./pkg/protocol/http1/

import (
	"bytes"
	"context"
	"crypto/ecdsa"
	"crypto/elliptic"
	"crypto/rand"
	"crypto/tls"
	"crypto/x509"
	"crypto/x509/pkix"
	"errors"
	"fmt"
	"io"
	"math/big"
	"net"
	"regexp"
	"strings"
	"sync"
	"testing"
	"time"

	"github.com/cloudwego/hertz/pkg/app"
	"github.com/cloudwego/hertz/pkg/common/hlog"
	"github.com/cloudwego/hertz/pkg/network"
	"github.com/cloudwego/hertz/pkg/network/standard"
	"github.com/cloudwego/hertz/pkg/protocol"
)

// h5Half is one direction of an in-memory connection. Every element of segs is
// handed out by exactly one Read (a "network read"). In staged mode written bytes
// are collected and made readable later, cut where the test wants them cut.
type h5Half struct {
	mu       sync.Mutex
	cond     *sync.Cond
	segs     [][]byte
	eof      bool
	staged   bool
	stage    []byte
	stageEOF bool
}

func newH5Half() *h5Half {
	h := &h5Half{}
	h.cond = sync.NewCond(&h.mu)
	return h
}

func (h *h5Half) write(b []byte) {
	h.mu.Lock()
	defer h.mu.Unlock()
	if h.staged {
		h.stage = append(h.stage, b...)
		return
	}
	h.segs = append(h.segs, append([]byte(nil), b...))
	h.cond.Broadcast()
}

func (h *h5Half) closeWrite() {
	h.mu.Lock()
	defer h.mu.Unlock()
	if h.staged {
		h.stageEOF = true
		return
	}
	h.eof = true
	h.cond.Broadcast()
}

func (h *h5Half) read(b []byte) (int, error) {
	h.mu.Lock()
	defer h.mu.Unlock()
	for len(h.segs) == 0 && !h.eof {
		h.cond.Wait()
	}
	if len(h.segs) == 0 {
		return 0, io.EOF // the end of the stream always comes alone, as on TCP
	}
	n := copy(b, h.segs[0])
	if n == len(h.segs[0]) {
		h.segs = h.segs[1:]
	} else {
		h.segs[0] = h.segs[0][n:]
	}
	return n, nil
}

// release makes the staged bytes readable, cut at the given offsets.
func (h *h5Half) release(cuts []int) {
	h.mu.Lock()
	defer h.mu.Unlock()
	prev := 0
	for _, c := range append(append([]int(nil), cuts...), len(h.stage)) {
		if c > prev {
			h.segs = append(h.segs, append([]byte(nil), h.stage[prev:c]...))
			prev = c
		}
	}
	h.eof = h.stageEOF
	h.staged = false
	h.cond.Broadcast()
}

type h5Raw struct {
	r, w *h5Half
}

func (c *h5Raw) Read(b []byte) (int, error)         { return c.r.read(b) }
func (c *h5Raw) Write(b []byte) (int, error)        { c.w.write(b); return len(b), nil }
func (c *h5Raw) Close() error                       { c.w.closeWrite(); return nil }
func (c *h5Raw) LocalAddr() net.Addr                { return &net.TCPAddr{} }
func (c *h5Raw) RemoteAddr() net.Addr               { return &net.TCPAddr{} }
func (c *h5Raw) SetDeadline(t time.Time) error      { return nil }
func (c *h5Raw) SetReadDeadline(t time.Time) error  { return nil }
func (c *h5Raw) SetWriteDeadline(t time.Time) error { return nil }

// h5Tap records what the server writes (plaintext, above TLS).
type h5Tap struct {
	net.Conn
	mu  sync.Mutex
	out bytes.Buffer
}

func (t *h5Tap) Write(b []byte) (int, error) {
	t.mu.Lock()
	t.out.Write(b)
	t.mu.Unlock()
	return t.Conn.Write(b)
}

func h5Cert(t *testing.T) tls.Certificate {
	key, err := ecdsa.GenerateKey(elliptic.P256(), rand.Reader)
	if err != nil {
		t.Fatal(err)
	}
	tmpl := &x509.Certificate{
		SerialNumber: big.NewInt(1),
		Subject:      pkix.Name{CommonName: "hunt5"},
		NotBefore:    time.Unix(0, 0),
		NotAfter:     time.Unix(4000000000, 0),
		KeyUsage:     x509.KeyUsageDigitalSignature,
		ExtKeyUsage:  []x509.ExtKeyUsage{x509.ExtKeyUsageServerAuth},
	}
	der, err := x509.CreateCertificate(rand.Reader, tmpl, tmpl, &key.PublicKey, key)
	if err != nil {
		t.Fatal(err)
	}
	return tls.Certificate{Certificate: [][]byte{der}, PrivateKey: key}
}

// the Date of an error response is a time stamp, not part of the comparison
var h5Date = regexp.MustCompile(`Date: [^\r]*\r\n`)

type h5Result struct {
	log string // what the handler saw
	out string // what the server wrote (plaintext)
}

// h5Run serves one TLS connection. plaintext is written by the client in one record,
// followed by close_notify; the resulting ciphertext is delivered to the server cut
// by cut(dataRecordLen, totalLen).
func h5Run(t *testing.T, cert tls.Certificate, streaming bool, plaintext string, cut func(dataLen, total int) []int) h5Result {
	t.Helper()
	c2s, s2c := newH5Half(), newH5Half()
	clientRaw := &h5Raw{r: s2c, w: c2s}
	serverRaw := &h5Raw{r: c2s, w: s2c}

	var logmu sync.Mutex
	var log bytes.Buffer
	s := NewServer()
	s.IdleTimeout = time.Second
	s.NoDefaultDate = true
	s.StreamRequestBody = streaming
	s.Core = &mockCore{
		ctxPool:   &sync.Pool{New: func() interface{} { return app.NewContext(0) }},
		isRunning: true,
		mockHandler: func(c context.Context, ctx *app.RequestContext) {
			logmu.Lock()
			defer logmu.Unlock()
			fmt.Fprintf(&log, "REQ %s %s\n", ctx.Method(), ctx.Request.Header.RequestURI())
			var body []byte
			if ctx.Request.IsBodyStream() {
				var err error
				body, err = io.ReadAll(ctx.RequestBodyStream())
				fmt.Fprintf(&log, "  body stream ended with error: %v\n", err != nil)
			} else {
				body = ctx.Request.Body()
			}
			fmt.Fprintf(&log, "  body %q\n", body)
			ctx.Response.SetBodyString(fmt.Sprintf("got %d bytes", len(body)))
		},
	}

	tap := &h5Tap{Conn: tls.Server(serverRaw, &tls.Config{Certificates: []tls.Certificate{cert}, MaxVersion: tls.VersionTLS12})}
	conn := standard.NewConnForVerif(tap, 4096)
	done := make(chan struct{})
	go func() {
		defer close(done)
		s.Serve(context.Background(), conn) //nolint:errcheck
	}()

	client := tls.Client(clientRaw, &tls.Config{InsecureSkipVerify: true, MaxVersion: tls.VersionTLS12})
	if err := client.Handshake(); err != nil {
		t.Fatalf("handshake: %v", err)
	}
	// from here on the client's bytes are collected and cut by the test
	c2s.mu.Lock()
	c2s.staged = true
	c2s.mu.Unlock()
	if _, err := client.Write([]byte(plaintext)); err != nil {
		t.Fatalf("client write: %v", err)
	}
	c2s.mu.Lock()
	dataLen := len(c2s.stage)
	c2s.mu.Unlock()
	if err := client.CloseWrite(); err != nil { // close_notify
		t.Fatalf("close_notify: %v", err)
	}
	clientRaw.Close() // FIN
	c2s.mu.Lock()
	total := len(c2s.stage)
	c2s.mu.Unlock()
	c2s.release(cut(dataLen, total))

	select {
	case <-done:
	case <-time.After(30 * time.Second):
		t.Fatalf("Serve did not return")
	}
	tap.mu.Lock()
	out := h5Date.ReplaceAllString(tap.out.String(), "")
	tap.mu.Unlock()
	logmu.Lock()
	defer logmu.Unlock()
	return h5Result{log: log.String(), out: out}
}

func TestHunt5C02EOFDeliveredWithLastBytes(t *testing.T) {
	cert := h5Cert(t)
	whole := func(dataLen, total int) []int { return nil }
	atRecord := func(dataLen, total int) []int { return []int{dataLen} }
	bytewise := func(dataLen, total int) []int {
		var c []int
		for i := 1; i < total; i++ {
			c = append(c, i)
		}
		return c
	}
	cuts := []struct {
		name string
		f    func(int, int) []int
	}{{"cut between the data record and close_notify", atRecord}, {"byte by byte", bytewise}}

	cases := []struct {
		name      string
		streaming bool
		plaintext string
	}{
		// a request followed by empty lines (which hertz skips in front of a request line)
		{"request followed by two empty lines", false, "GET /a HTTP/1.1\r\nHost: x\r\n\r\n\r\n\r\n"},
		// nothing but an empty line on a new connection
		{"empty line only", false, "\r\n"},
		// an upload that is given up inside a chunk
		{"chunked upload cut short, streaming", true, "POST /up HTTP/1.1\r\nHost: x\r\nTransfer-Encoding: chunked\r\n\r\n5\r\nhel"},
	}
	for _, tc := range cases {
		ref := h5Run(t, cert, tc.streaming, tc.plaintext, whole)
		for _, c := range cuts {
			got := h5Run(t, cert, tc.streaming, tc.plaintext, c.f)
			if got.log != ref.log {
				t.Errorf("%s: the handler saw different requests.\n--- ciphertext in one read:\n%s--- %s:\n%s", tc.name, ref.log, c.name, got.log)
			}
			if got.out != ref.out {
				t.Errorf("%s: the server wrote different responses.\n--- ciphertext in one read:\n%q\n--- %s:\n%q", tc.name, ref.out, c.name, got.out)
			}
		}
	}
}

// ---------------------------------------------------------------------------
// the other direction: a response read by the client

type h5Dialer struct {
	conn network.Conn
}

func (d *h5Dialer) DialConnection(n, address string, timeout time.Duration, tlsConfig *tls.Config) (network.Conn, error) {
	if d.conn == nil {
		return nil, errors.New("only one connection in this test")
	}
	c := d.conn
	d.conn = nil
	return c, nil
}

func (d *h5Dialer) DialTimeout(n, address string, timeout time.Duration, tlsConfig *tls.Config) (net.Conn, error) {
	return nil, errors.New("not used")
}

func (d *h5Dialer) AddTLS(conn network.Conn, tlsConfig *tls.Config) (network.Conn, error) {
	return conn, nil
}

// h5RunClient lets the hertz client send a GET over TLS to a scripted peer that
// answers with plaintext (one record) and close_notify; the answer's ciphertext
// reaches the client cut by cut(dataRecordLen, totalLen).
func h5RunClient(t *testing.T, cert tls.Certificate, stream bool, plaintext string, cut func(dataLen, total int) []int) string {
	t.Helper()
	c2s, s2c := newH5Half(), newH5Half()
	clientRaw := &h5Raw{r: s2c, w: c2s}
	serverRaw := &h5Raw{r: c2s, w: s2c}

	srvErr := make(chan error, 1)
	go func() {
		srv := tls.Server(serverRaw, &tls.Config{Certificates: []tls.Certificate{cert}, MaxVersion: tls.VersionTLS12})
		if err := srv.Handshake(); err != nil {
			srvErr <- err
			return
		}
		var req []byte
		buf := make([]byte, 4096)
		for !bytes.Contains(req, []byte("\r\n\r\n")) {
			n, err := srv.Read(buf)
			req = append(req, buf[:n]...)
			if err != nil {
				srvErr <- err
				return
			}
		}
		s2c.mu.Lock()
		s2c.staged = true
		s2c.mu.Unlock()
		if _, err := srv.Write([]byte(plaintext)); err != nil {
			srvErr <- err
			return
		}
		s2c.mu.Lock()
		dataLen := len(s2c.stage)
		s2c.mu.Unlock()
		if err := srv.CloseWrite(); err != nil {
			srvErr <- err
			return
		}
		serverRaw.Close()
		s2c.mu.Lock()
		total := len(s2c.stage)
		s2c.mu.Unlock()
		s2c.release(cut(dataLen, total))
		srvErr <- nil
	}()

	c := &HostClient{
		ClientOptions: &ClientOptions{
			Dialer: &h5Dialer{conn: standard.NewConnForVerif(
				tls.Client(clientRaw, &tls.Config{InsecureSkipVerify: true, MaxVersion: tls.VersionTLS12}), 4096)},
			ResponseBodyStream: stream,
		},
		Addr: "hunt5:443",
	}
	req, resp := protocol.AcquireRequest(), protocol.AcquireResponse()
	defer protocol.ReleaseRequest(req)
	defer protocol.ReleaseResponse(resp)
	req.SetRequestURI("http://hunt5/x")
	done := make(chan error, 1)
	go func() { done <- c.Do(context.Background(), req, resp) }()
	var err error
	select {
	case err = <-done:
	case <-time.After(30 * time.Second):
		t.Fatalf("Do did not return")
	}
	if e := <-srvErr; e != nil {
		t.Fatalf("scripted peer: %v", e)
	}
	if err != nil {
		// errors are compared by what they are, not by the buffer dump in their text
		switch {
		case err == errConnectionClosed:
			return "error: errConnectionClosed (\"the server closed connection before returning the first response byte\")"
		case errors.Is(err, io.ErrUnexpectedEOF):
			return "error: unexpected EOF"
		case strings.HasPrefix(err.Error(), "error when reading response headers"):
			return "error: error when reading response headers"
		}
		return "error: " + err.Error()
	}
	var body []byte
	var rerr error
	if resp.IsBodyStream() {
		body, rerr = io.ReadAll(resp.BodyStream())
	} else {
		body = resp.Body()
	}
	return fmt.Sprintf("status=%d body=%q bodyReadFailed=%v", resp.StatusCode(), body, rerr != nil)
}

func TestHunt5C02EOFDeliveredWithLastBytesClient(t *testing.T) {
	hlog.SetLevel(hlog.LevelFatal)
	cert := h5Cert(t)
	whole := func(dataLen, total int) []int { return nil }
	atRecord := func(dataLen, total int) []int { return []int{dataLen} }
	cases := []struct {
		name      string
		stream    bool
		plaintext string
	}{
		{"header block cut short", false, "HTTP/1.1 200 OK\r\nContent-Length: 5\r\nX-A"},
		{"chunk cut short, streaming", true, "HTTP/1.1 200 OK\r\nTransfer-Encoding: chunked\r\n\r\n5\r\nhel"},
	}
	for _, tc := range cases {
		ref := h5RunClient(t, cert, tc.stream, tc.plaintext, whole)
		got := h5RunClient(t, cert, tc.stream, tc.plaintext, atRecord)
		if got != ref {
			t.Errorf("%s: the client returned different results.\n--- ciphertext in one read:                        %s\n--- cut between the data record and close_notify: %s", tc.name, ref, got)
		}
	}
}
