package client

import (
	"bufio"
	"context"
	"net"
	"strings"
	"testing"
	"time"
)

// C03: whatever bytes a peer sends, hertz never emits bytes that are not well-formed
// HTTP. Here the peer is a server that answers 302 with a Location whose query
// contains a space (and a byte above 0x7f). The hertz client follows the redirect
// (client.Get does so by itself) and must send a request line of the form
//
//	method SP request-target SP HTTP-version
//
// i.e. the target it writes must not contain a raw space (RFC 9112 section 3.2: "No
// whitespace is allowed in the request-target").
func TestHunt5RedirectTargetWithSpace(t *testing.T) {
	ln, err := net.Listen("tcp", "127.0.0.1:0")
	if err != nil {
		t.Fatal(err)
	}
	defer ln.Close()

	requestLines := make(chan string, 8)
	go func() {
		for {
			c, err := ln.Accept()
			if err != nil {
				return
			}
			go func(c net.Conn) {
				defer c.Close()
				br := bufio.NewReader(c)
				for {
					c.SetReadDeadline(time.Now().Add(3 * time.Second)) //nolint:errcheck
					first := ""
					for {
						l, err := br.ReadString('\n')
						if err != nil {
							return
						}
						if first == "" {
							first = strings.TrimRight(l, "\r\n")
						}
						if l == "\r\n" {
							break
						}
					}
					requestLines <- first
					if strings.HasPrefix(first, "GET /start ") {
						// nothing exotic: an unencoded space in the query, as sloppy (or hostile) servers send it
						c.Write([]byte("HTTP/1.1 302 Found\r\nLocation: /next?msg=hello world&x=1\r\nContent-Length: 0\r\n\r\n")) //nolint:errcheck
					} else {
						c.Write([]byte("HTTP/1.1 200 OK\r\nContent-Length: 2\r\n\r\nok")) //nolint:errcheck
					}
				}
			}(c)
		}
	}()

	c, err := NewClient()
	if err != nil {
		t.Fatal(err)
	}
	status, body, err := c.Get(context.Background(), nil, "http://"+ln.Addr().String()+"/start")
	if err != nil {
		t.Fatalf("Get: %v", err)
	}
	t.Logf("final answer: %d %q", status, body)

	var lines []string
	for len(lines) < 2 {
		select {
		case l := <-requestLines:
			lines = append(lines, l)
		case <-time.After(3 * time.Second):
			t.Fatalf("the redirect was not followed, request lines seen: %q", lines)
		}
	}
	follow := lines[1]
	t.Logf("request line after the redirect: %q", follow)
	if fields := strings.Split(follow, " "); len(fields) != 3 || fields[0] != "GET" || fields[2] != "HTTP/1.1" {
		t.Fatalf("the client wrote a request line that is not 'method SP request-target SP HTTP-version': %q (%d fields)", follow, len(fields))
	}
	for i := 0; i < len(follow); i++ {
		if follow[i] < 0x21 && follow[i] != ' ' || follow[i] == 0x7f {
			t.Fatalf("control byte in the request line: %q", follow)
		}
	}
}
