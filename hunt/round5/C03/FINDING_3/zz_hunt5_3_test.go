//go:build verif

package route

import (
	"bufio"
	"bytes"
	"context"
	"io"
	"net"
	"net/http"
	"sync"
	"sync/atomic"
	"testing"
	"time"

	"github.com/cloudwego/hertz/pkg/app"
	"github.com/cloudwego/hertz/pkg/common/config"
	"github.com/cloudwego/hertz/pkg/network/standard"
)

// hunt5f3Conn hands the whole input to the first Read. Every later Read means "the
// server asks the peer for more bytes": the conn notes how much the server had
// written by then and reports EOF (the peer, which has sent a complete header block
// and waits for the answer, has nothing more to say).
type hunt5f3Conn struct {
	mu               sync.Mutex
	in               []byte
	out              bytes.Buffer
	closed           bool
	askedMore        bool
	writtenWhenAsked int
}

func (c *hunt5f3Conn) Read(b []byte) (int, error) {
	c.mu.Lock()
	defer c.mu.Unlock()
	if len(c.in) > 0 {
		n := copy(b, c.in)
		c.in = c.in[n:]
		return n, nil
	}
	if !c.askedMore {
		c.askedMore = true
		c.writtenWhenAsked = c.out.Len()
	}
	return 0, io.EOF
}

func (c *hunt5f3Conn) Write(b []byte) (int, error) {
	c.mu.Lock()
	defer c.mu.Unlock()
	return c.out.Write(b)
}
func (c *hunt5f3Conn) Close() error                       { c.mu.Lock(); c.closed = true; c.mu.Unlock(); return nil }
func (c *hunt5f3Conn) LocalAddr() net.Addr                { return &net.TCPAddr{IP: net.IPv4(127, 0, 0, 1), Port: 1} }
func (c *hunt5f3Conn) RemoteAddr() net.Addr               { return &net.TCPAddr{IP: net.IPv4(127, 0, 0, 1), Port: 2} }
func (c *hunt5f3Conn) SetDeadline(t time.Time) error      { return nil }
func (c *hunt5f3Conn) SetReadDeadline(t time.Time) error  { return nil }
func (c *hunt5f3Conn) SetWriteDeadline(t time.Time) error { return nil }

// C03: bad input gets a clean 4xx. The header block below is complete (it ends with
// the empty line, ext.ReadRawHeaders finds its end) and malformed: one line has no
// colon. The server must answer it with one 4xx + Connection: close and close, like it
// does for "Bad Header: x". Instead the header scanner reports "need more" for a line
// without colon, and Serve goes back to the connection for more bytes: the request is
// neither served nor rejected for as long as the peer says nothing (on the standard
// transport the first request of a connection has no read deadline at all).
func TestHunt5ColonlessHeaderLineIsRejectedAtOnce(t *testing.T) {
	for _, in := range []string{
		"GET / HTTP/1.1\r\nHost: a\r\nBad Header: x\r\n\r\n", // control: refused from what was received
		"GET / HTTP/1.1\r\nHost: a\r\nfoo\r\n\r\n",
		"GET / HTTP/1.1\r\nfoo\r\nHost: a\r\n\r\nGET / HTTP/1.1\r\nHost: a\r\n\r\n", // control: with a colon somewhere behind the line the same line is refused at once
		"POST / HTTP/1.1\r\nHost: a\r\nContent-Length: 3\r\nfoo\r\n\r\nabc",
	} {
		opt := config.NewOptions(nil)
		opt.DisablePrintRoute = true
		e := NewEngine(opt)
		atomic.StoreUint32(&e.status, statusRunning)
		e.Init()
		atomic.StoreUint32(&e.status, statusRunning)
		var handled int32
		e.Any("/", func(c context.Context, ctx *app.RequestContext) {
			atomic.AddInt32(&handled, 1)
			ctx.String(200, "ok")
		})
		c := &hunt5f3Conn{in: []byte(in)}
		e.Serve(context.Background(), standard.NewConnForVerif(c, 0)) //nolint:errcheck

		c.mu.Lock()
		out, asked, written, closed := append([]byte(nil), c.out.Bytes()...), c.askedMore, c.writtenWhenAsked, c.closed
		c.mu.Unlock()
		if handled != 0 {
			t.Fatalf("%q: a handler ran", in)
		}
		if asked && written == 0 {
			t.Errorf("%q: the header block is complete and malformed, but the server went back to the connection for more input before it had written a single byte (it answers only once the peer closes or sends something else); final output %q", in, out)
			continue
		}
		resp, err := http.ReadResponse(bufio.NewReader(bytes.NewReader(out)), nil)
		if err != nil {
			t.Fatalf("%q: not a response: %v (%q)", in, err, out)
		}
		if resp.StatusCode < 400 || resp.StatusCode > 499 || !resp.Close || !closed {
			t.Fatalf("%q: want one 4xx with Connection: close and a closed connection, got %q closed=%v", in, out, closed)
		}
	}
}
