package server

import (
	"bufio"
	"bytes"
	"context"
	"crypto/ecdsa"
	"crypto/elliptic"
	"crypto/rand"
	"crypto/tls"
	"crypto/x509"
	"crypto/x509/pkix"
	"io"
	"math/big"
	"net"
	"net/http"
	"testing"
	"time"

	"github.com/cloudwego/hertz/pkg/app"
	"github.com/cloudwego/hertz/pkg/network/standard"
)

// C03: bad input gets a clean 4xx. A peer that sends a plain HTTP request to a hertz
// server that is configured with TLS (the default: no ALPN) is refused by the HTTP/1
// server - Serve calls writeErrorResponse with a 400 - but the 400 is written into the
// TLS layer whose handshake has just failed, so not a single byte reaches the peer:
// the connection is closed without any answer. The very same engine with
// WithALPN(true) answers "HTTP/1.0 400 Bad Request ... Client sent an HTTP request to
// an HTTPS server." through the raw connection (route.Engine.Serve, ALPN branch); the
// two paths are written separately and only one of them delivers the rejection.
func TestHunt5PlainRequestToTLSServerGets4xx(t *testing.T) {
	key, _ := ecdsa.GenerateKey(elliptic.P256(), rand.Reader)
	tmpl := &x509.Certificate{SerialNumber: big.NewInt(1), Subject: pkix.Name{CommonName: "x"},
		NotBefore: time.Now().Add(-time.Hour), NotAfter: time.Now().Add(time.Hour), DNSNames: []string{"localhost"}}
	der, err := x509.CreateCertificate(rand.Reader, tmpl, tmpl, &key.PublicKey, key)
	if err != nil {
		t.Fatal(err)
	}
	cert := tls.Certificate{Certificate: [][]byte{der}, PrivateKey: key}

	ln, err := net.Listen("tcp", "127.0.0.1:0")
	if err != nil {
		t.Fatal(err)
	}
	addr := ln.Addr().String()
	ln.Close()

	handled := make(chan struct{}, 4)
	h := New(WithHostPorts(addr), WithTransport(standard.NewTransporter), WithDisablePrintRoute(true),
		WithExitWaitTime(10*time.Millisecond), WithTLS(&tls.Config{Certificates: []tls.Certificate{cert}}))
	h.GET("/", func(c context.Context, ctx *app.RequestContext) {
		handled <- struct{}{}
		ctx.String(200, "ok")
	})
	go h.Run() //nolint:errcheck
	defer h.Close()
	for i := 0; i < 300; i++ {
		c, err := net.Dial("tcp", addr)
		if err == nil {
			c.Close()
			break
		}
		time.Sleep(10 * time.Millisecond)
	}

	// control: the server works over TLS
	tc, err := tls.Dial("tcp", addr, &tls.Config{InsecureSkipVerify: true})
	if err != nil {
		t.Fatalf("tls dial: %v", err)
	}
	tc.Write([]byte("GET / HTTP/1.1\r\nHost: a\r\nConnection: close\r\n\r\n")) //nolint:errcheck
	tc.SetReadDeadline(time.Now().Add(3 * time.Second))                        //nolint:errcheck
	ctl, _ := io.ReadAll(tc)
	tc.Close()
	if !bytes.HasPrefix(ctl, []byte("HTTP/1.1 200")) {
		t.Fatalf("control request over TLS failed: %q", ctl)
	}
	<-handled

	// the peer speaks plain HTTP to the TLS port
	c, err := net.Dial("tcp", addr)
	if err != nil {
		t.Fatal(err)
	}
	defer c.Close()
	c.Write([]byte("GET / HTTP/1.1\r\nHost: a\r\n\r\n")) //nolint:errcheck
	c.SetReadDeadline(time.Now().Add(3 * time.Second))  //nolint:errcheck
	out, rerr := io.ReadAll(c)
	t.Logf("server sent %q (read ended with %v)", out, rerr)

	select {
	case <-handled:
		t.Fatalf("a handler ran for the plain request")
	default:
	}
	if len(out) == 0 {
		t.Fatalf("the request was refused (connection closed) without any response: the property demands one 4xx")
	}
	resp, err := http.ReadResponse(bufio.NewReader(bytes.NewReader(out)), nil)
	if err != nil {
		t.Fatalf("what the server sent is not an HTTP response: %v (%q)", err, out)
	}
	if resp.StatusCode < 400 || resp.StatusCode > 499 {
		t.Fatalf("status %d, want a 4xx", resp.StatusCode)
	}
	if !resp.Close {
		t.Fatalf("the 4xx does not announce the close of the connection: %q", out)
	}
	if rerr != nil {
		t.Fatalf("the connection was not closed after the 4xx: %v", rerr)
	}
}
