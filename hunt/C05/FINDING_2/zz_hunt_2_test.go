package protocol

// C05 hunt, finding 2.
//
// The choke point appendHeaderLine "validates the name" with a loop over the
// name's bytes. For the empty name the loop body never runs, so the field is
// neither dropped nor made valid: the line ": value" is written. That is not
// a header line (field-name = 1*tchar), so a strict parser reading the message
// back rejects the whole message instead of finding the fields that were set.
// Trailer.Set/Add, by contrast, refuse an empty name.

import (
	"bufio"
	"bytes"
	"fmt"
	"net/http"
	"strings"
	"testing"
)

func zzStrictHead(msg []byte) (start string, fields [][2]string, err error) {
	end := bytes.Index(msg, []byte("\r\n\r\n"))
	if end < 0 {
		return "", nil, fmt.Errorf("no end of header block")
	}
	lines := bytes.Split(msg[:end], []byte("\r\n"))
	start = string(lines[0])
	for _, l := range lines[1:] {
		if bytes.ContainsAny(l, "\r\n") {
			return start, fields, fmt.Errorf("bare CR/LF in line %q", l)
		}
		i := bytes.IndexByte(l, ':')
		if i <= 0 {
			return start, fields, fmt.Errorf("not a header line: %q", l)
		}
		for _, c := range l[:i] {
			if c <= ' ' || c >= 0x7f || strings.IndexByte("()<>@,;:\\\"/[]?={}", c) >= 0 {
				return start, fields, fmt.Errorf("bad field name in line %q", l)
			}
		}
		fields = append(fields, [2]string{string(l[:i]), strings.TrimSpace(string(l[i+1:]))})
	}
	return start, fields, nil
}

func TestZZHuntC05_2_EmptyHeaderNameIsSerialised(t *testing.T) {
	type setter struct {
		name string
		req  func(h *RequestHeader)
		resp func(h *ResponseHeader)
	}
	setters := []setter{
		{"Set", func(h *RequestHeader) { h.Set("", "v") }, func(h *ResponseHeader) { h.Set("", "v") }},
		{"Add", func(h *RequestHeader) { h.Add("", "v") }, func(h *ResponseHeader) { h.Add("", "v") }},
		{"SetBytesKV/SetBytesV", func(h *RequestHeader) { h.SetBytesKV(nil, []byte("v")) }, func(h *ResponseHeader) { h.SetBytesV("", []byte("v")) }},
		{"SetArgBytes", func(h *RequestHeader) { h.SetArgBytes(nil, []byte("v"), ArgsHasValue) }, func(h *ResponseHeader) { h.SetArgBytes(nil, []byte("v"), ArgsHasValue) }},
	}
	for _, s := range setters {
		// request written by the client
		var rq RequestHeader
		rq.SetMethod("GET")
		rq.SetRequestURI("/")
		rq.SetHost("example.com")
		rq.Set("X-Before", "1")
		s.req(&rq)
		rq.Set("X-After", "2")
		out := append([]byte(nil), rq.Header()...)
		_, fields, err := zzStrictHead(out)
		if err != nil {
			t.Errorf("C05 request/%s: a strict parser cannot read the message back: %v\n  wire: %q", s.name, err, out)
		} else if len(fields) < 3 || len(fields) > 4 { // Host, X-Before, X-After (+ the field itself, unless it is dropped)
			t.Errorf("C05 request/%s: unexpected number of fields %d: %v", s.name, len(fields), fields)
		}
		if _, err = http.ReadRequest(bufio.NewReader(bytes.NewReader(out))); err != nil {
			t.Errorf("C05 request/%s: net/http refuses the request hertz serialised: %v", s.name, err)
		}

		// response written by the server
		var rs ResponseHeader
		rs.Set("X-Before", "1")
		s.resp(&rs)
		rs.Set("X-After", "2")
		rs.SetContentLength(0)
		out = append([]byte(nil), rs.Header()...)
		_, fields, err = zzStrictHead(out)
		if err != nil {
			t.Errorf("C05 response/%s: a strict parser cannot read the message back: %v\n  wire: %q", s.name, err, out)
		} else {
			n := 0
			for _, f := range fields {
				if f[0] == "X-Before" || f[0] == "X-After" {
					n++
				}
			}
			if n != 2 {
				t.Errorf("C05 response/%s: fields lost: %v", s.name, fields)
			}
		}
		if _, err = http.ReadResponse(bufio.NewReader(bytes.NewReader(out)), nil); err != nil {
			t.Errorf("C05 response/%s: net/http refuses the response hertz serialised: %v", s.name, err)
		}
	}

	// the trailer API shows the intended treatment: an empty name is refused
	var tr Trailer
	if err := tr.Set("", "v"); err == nil {
		t.Errorf("Trailer.Set accepted an empty name")
	}
}
