package server

// C05 hunt, finding 1.
//
// A response header block of 4096 bytes or more is handed to the connection
// writer BY REFERENCE (network.Writer.WriteBinary keeps the slice until Flush),
// and that slice is ResponseHeader.bufKV.value - the very scratch buffer that
// ResponseHeader.Set / ctx.Header use to stage the *raw* value of the next
// header. With a hijacked (chunked) response writer the header block is
// serialised on the first body write, but not flushed. Any header call made
// before the flush (for example a middleware that sets a header after
// c.Next()) overwrites the first bytes of the already serialised message with
// the raw, unfiltered value: CR/LF included.

import (
	"bytes"
	"context"
	"fmt"
	"io/ioutil"
	"net"
	"strings"
	"testing"
	"time"

	"github.com/cloudwego/hertz/internal/testutils"
	"github.com/cloudwego/hertz/pkg/app"
	"github.com/cloudwego/hertz/pkg/protocol/http1/resp"
)

// zzStrictHeaderParse splits a serialised message head the way a strict
// parser does: lines end with CRLF only, a bare CR or LF is an error, every
// header line is `token ":" value`.
func zzStrictHeaderParse(msg []byte) (start string, fields [][2]string, err error) {
	end := bytes.Index(msg, []byte("\r\n\r\n"))
	if end < 0 {
		return "", nil, fmt.Errorf("no end of header block")
	}
	lines := bytes.Split(msg[:end], []byte("\r\n"))
	start = string(lines[0])
	if strings.ContainsAny(start, "\r\n") {
		return start, nil, fmt.Errorf("bare CR/LF in start line %q", start)
	}
	for _, l := range lines[1:] {
		if bytes.ContainsAny(l, "\r\n") {
			return start, fields, fmt.Errorf("bare CR/LF in line %q", l)
		}
		i := bytes.IndexByte(l, ':')
		if i <= 0 {
			return start, fields, fmt.Errorf("not a header line: %q", l)
		}
		for _, c := range l[:i] {
			if c <= ' ' || c >= 0x7f || strings.IndexByte("()<>@,;:\\\"/[]?={}", c) >= 0 {
				return start, fields, fmt.Errorf("bad field name in line %q", l)
			}
		}
		fields = append(fields, [2]string{string(l[:i]), strings.TrimSpace(string(l[i+1:]))})
	}
	return start, fields, nil
}

func TestZZHuntC05_1_LateHeaderValueOverwritesSerialisedHeaderBlock(t *testing.T) {
	// what the application passes as a header VALUE
	evil := "HTTP/1.1 200 OK\r\nSet-Cookie: session=attacker\r\nX-Pad: "
	big := strings.Repeat("a", 4096) // makes the header block >= 4096 bytes

	h := New(WithHostPorts("127.0.0.1:0"))
	// a middleware that adds a header after the handler ran - a very common pattern
	h.Use(func(c context.Context, ctx *app.RequestContext) {
		ctx.Next(c)
		ctx.Header("X-Late", evil)
	})
	h.GET("/stream", func(c context.Context, ctx *app.RequestContext) {
		ctx.Response.HijackWriter(resp.NewChunkedBodyWriter(&ctx.Response, ctx.GetWriter()))
		ctx.Header("X-Big", big)
		ctx.Write([]byte("hello")) //nolint:errcheck // serialises the header block, no flush yet
	})
	go h.Spin()
	waitEngineRunning(h)
	defer h.Close()

	conn, err := net.Dial("tcp", testutils.GetListenerAddr(h))
	if err != nil {
		t.Fatal(err)
	}
	defer conn.Close()
	conn.SetDeadline(time.Now().Add(5 * time.Second)) //nolint:errcheck
	if _, err = conn.Write([]byte("GET /stream HTTP/1.1\r\nHost: x\r\nConnection: close\r\n\r\n")); err != nil {
		t.Fatal(err)
	}
	raw, _ := ioutil.ReadAll(conn)
	if len(raw) == 0 {
		t.Fatal("no response")
	}
	head := raw
	if len(head) > 160 {
		head = head[:160]
	}
	t.Logf("response starts with: %q", head)

	start, fields, err := zzStrictHeaderParse(raw)
	if err != nil {
		t.Fatalf("C05: serialised response is not parseable by a strict parser: %v", err)
	}
	if start != "HTTP/1.1 200 OK" {
		t.Errorf("C05: start line is %q", start)
	}
	var names []string
	for _, f := range fields {
		names = append(names, f[0])
		switch f[0] {
		case "Set-Cookie":
			// the application never set a cookie; this line exists only because the CR/LF
			// of a header value reached the wire as a line break
			t.Errorf("C05: response carries a header line the application never set: %q: %q", f[0], f[1])
		case "X-Pad":
			t.Errorf("C05: response carries a header line the application never set: %q: %q", f[0], f[1])
		case "X-Big":
			if f[1] != big {
				t.Errorf("C05: X-Big value changed on the wire")
			}
		case "X-Late":
			if strings.ContainsAny(f[1], "\r\n") {
				t.Errorf("C05: CR/LF in X-Late value")
			}
		}
	}
	// Server-independent count: everything the handler/middleware set is X-Big (and, if the
	// framework chooses to still send it, X-Late). The framework itself adds Date, Content-Type,
	// Transfer-Encoding, Connection (and Server, if configured).
	allowed := map[string]bool{"Date": true, "Content-Type": true, "Transfer-Encoding": true, "Connection": true, "Server": true, "X-Big": true, "X-Late": true}
	for _, n := range names {
		if !allowed[n] {
			t.Errorf("C05: unexpected field %q in serialised response (fields: %v)", n, names)
		}
	}
}
