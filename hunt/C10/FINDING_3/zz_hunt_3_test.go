//go:build verif

package http1

import (
	"bufio"
	"context"
	"net"
	"sync/atomic"
	"testing"
	"time"

	"github.com/cloudwego/hertz/pkg/network/standard"
	"github.com/cloudwego/hertz/pkg/protocol"
)

// Property C10: "once all calls have returned, every connection is either idle
// in the pool or closed, no waiter remains queued ..." (and a caller that is
// willing to wait for a free connection must not be starved while a connection
// sits idle in the pool).
//
// Schedule (MaxConns=1, MaxConnWaitTimeout=300ms, wait-for-free-connection on):
//   A holds the only connection.
//   B enters acquireConn, sees "no idle connection, count == max", leaves connsLock
//     and is pre-empted at the yield point "acquire:unlocked" (before queueForIdle).
//   A finishes: releaseConn finds an empty waiter queue and parks the connection
//     in the idle list.
//   B resumes, queues itself and waits - nobody will ever deliver to it.
// B fails with ErrNoFreeConns after the full MaxConnWaitTimeout although the
// connection was idle the whole time, and its dead waiter stays in the queue
// after every call has returned.
func TestHunt3_LostWakeupBetweenPoolCheckAndQueue(t *testing.T) {
	ln, err := net.Listen("tcp", "127.0.0.1:0")
	if err != nil {
		t.Fatal(err)
	}
	defer ln.Close()
	answerA := make(chan struct{})
	go func() {
		for {
			conn, err := ln.Accept()
			if err != nil {
				return
			}
			go func(conn net.Conn) {
				defer conn.Close()
				br := bufio.NewReader(conn)
				first := true
				for {
					for {
						line, err := br.ReadString('\n')
						if err != nil {
							return
						}
						if line == "\r\n" {
							break
						}
					}
					if first {
						<-answerA
						first = false
					}
					conn.Write([]byte("HTTP/1.1 200 OK\r\nContent-Length: 2\r\n\r\nok"))
				}
			}(conn)
		}
	}()

	c := &HostClient{
		Addr: ln.Addr().String(),
		ClientOptions: &ClientOptions{
			Dialer:             standard.NewDialer(),
			MaxConns:           1,
			MaxConnWaitTimeout: 300 * time.Millisecond,
			ReadTimeout:        5 * time.Second,
		},
	}

	var armed int32
	bParked := make(chan struct{})
	bResume := make(chan struct{})
	VerifYield = func(point string) {
		if point == "acquire:unlocked" && atomic.CompareAndSwapInt32(&armed, 1, 2) {
			close(bParked)
			<-bResume
		}
	}
	defer func() { VerifYield = nil }()

	do := func(path string) error {
		req := protocol.AcquireRequest()
		resp := protocol.AcquireResponse()
		defer protocol.ReleaseRequest(req)
		defer protocol.ReleaseResponse(resp)
		req.SetRequestURI("http://" + ln.Addr().String() + path)
		return c.Do(context.Background(), req, resp)
	}

	aDone := make(chan error, 1)
	go func() { aDone <- do("/a") }()
	// wait until A owns the connection
	for i := 0; ; i++ {
		c.connsLock.Lock()
		n := c.connsCount
		c.connsLock.Unlock()
		if n == 1 {
			break
		}
		if i > 1000 {
			t.Fatal("A never got a connection")
		}
		time.Sleep(time.Millisecond)
	}
	time.Sleep(20 * time.Millisecond)

	atomic.StoreInt32(&armed, 1)
	bDone := make(chan error, 1)
	go func() { bDone <- do("/b") }()
	<-bParked

	// A completes while B is between the pool check and queueForIdle
	close(answerA)
	if err := <-aDone; err != nil {
		t.Fatalf("A: %v", err)
	}
	close(bResume)

	errB := <-bDone

	// every call has returned
	st := c.ConnPoolState()
	t.Logf("B: err=%v; pool state after all calls returned: %+v", errB, st)
	if errB != nil {
		t.Errorf("B waited for a free connection and failed with %v although the only connection was idle in the pool during its whole wait", errB)
	}
	if st.WaitConnNum != 0 {
		t.Errorf("all calls have returned but %d waiter(s) remain queued (idle=%d total=%d)", st.WaitConnNum, st.PoolConnNum, st.TotalConnNum)
	}
}
