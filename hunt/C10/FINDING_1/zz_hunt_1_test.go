package http1

import (
	"bufio"
	"context"
	"io"
	"net"
	"strings"
	"sync/atomic"
	"testing"
	"time"

	"github.com/cloudwego/hertz/pkg/network/standard"
	"github.com/cloudwego/hertz/pkg/protocol"
)

// Property C10: "A connection is put back for reuse only after its exchange
// completed cleanly (full response read, no Connection: close, no error or
// timeout)".
//
// Trigger: ResponseBodyStream=true, the peer announces Content-Length: 20000,
// sends 10000 body bytes (more than the 8 KiB the client pre-reads) and closes
// the connection ("close mid-body"). The caller reads the stream, gets
// io.ErrUnexpectedEOF, closes the stream. The connection - whose exchange ended
// with an error and which is at EOF - is put back in the idle pool and handed
// to the next request.
func TestHunt1_StreamCloseMidBodyConnIsPooled(t *testing.T) {
	ln, err := net.Listen("tcp", "127.0.0.1:0")
	if err != nil {
		t.Fatal(err)
	}
	defer ln.Close()

	var accepted int32
	go func() {
		for {
			conn, err := ln.Accept()
			if err != nil {
				return
			}
			n := atomic.AddInt32(&accepted, 1)
			go func(conn net.Conn, n int32) {
				defer conn.Close()
				br := bufio.NewReader(conn)
				for {
					// read one request (no body)
					for {
						line, err := br.ReadString('\n')
						if err != nil {
							return
						}
						if line == "\r\n" {
							break
						}
					}
					if n == 1 {
						// first connection: close in the middle of the body
						conn.Write([]byte("HTTP/1.1 200 OK\r\nContent-Length: 20000\r\n\r\n" + strings.Repeat("a", 10000)))
						return
					}
					conn.Write([]byte("HTTP/1.1 200 OK\r\nContent-Length: 2\r\n\r\nok"))
				}
			}(conn, n)
		}
	}()

	c := &HostClient{
		Addr: ln.Addr().String(),
		ClientOptions: &ClientOptions{
			Dialer:             standard.NewDialer(),
			MaxConns:           2,
			ResponseBodyStream: true,
			ReadTimeout:        2 * time.Second,
		},
	}

	req := protocol.AcquireRequest()
	resp := protocol.AcquireResponse()
	req.SetRequestURI("http://" + ln.Addr().String() + "/first")
	req.Header.SetMethod("GET")
	if err := c.Do(context.Background(), req, resp); err != nil {
		t.Fatalf("first Do: %v", err)
	}
	body, rerr := io.ReadAll(resp.BodyStream())
	if rerr == nil {
		t.Fatalf("expected the truncated body to be reported, got %d bytes and no error", len(body))
	}
	t.Logf("stream read: %d bytes, err=%v", len(body), rerr)
	// the caller is done with the response
	if err := resp.CloseBodyStream(); err != nil {
		t.Logf("CloseBodyStream: %v", err)
	}

	// All calls have returned. The exchange ended with an error (peer closed
	// mid-body), so the connection must be closed, not idle in the pool.
	c.connsLock.Lock()
	idle, total := len(c.conns), c.connsCount
	c.connsLock.Unlock()
	if idle != 0 || total != 0 {
		t.Errorf("connection whose exchange failed mid-body was put back for reuse: idle=%d connsCount=%d, want 0/0", idle, total)
	}

	// Consequence for the next caller: a non-idempotent request is handed the dead
	// connection and fails although the server is perfectly reachable.
	req2 := protocol.AcquireRequest()
	resp2 := protocol.AcquireResponse()
	req2.SetRequestURI("http://" + ln.Addr().String() + "/second")
	req2.Header.SetMethod("POST")
	req2.SetBodyString("x=1")
	err = c.Do(context.Background(), req2, resp2)
	if err != nil {
		t.Errorf("POST after the failed exchange was given the dead connection: %v", err)
	} else {
		resp2.CloseBodyStream()
	}
}
