package http1

import (
	"bufio"
	"context"
	"net"
	"strings"
	"testing"
	"time"

	"github.com/cloudwego/hertz/pkg/network/standard"
	"github.com/cloudwego/hertz/pkg/protocol"
)

func hunt6Server(t *testing.T, respFor func(path string) string) (addr string, stop func()) {
	ln, err := net.Listen("tcp", "127.0.0.1:0")
	if err != nil {
		t.Fatal(err)
	}
	go func() {
		for {
			conn, err := ln.Accept()
			if err != nil {
				return
			}
			go func(conn net.Conn) {
				defer conn.Close()
				br := bufio.NewReader(conn)
				for {
					first, err := br.ReadString('\n')
					if err != nil {
						return
					}
					for {
						line, err := br.ReadString('\n')
						if err != nil {
							return
						}
						if line == "\r\n" {
							break
						}
					}
					parts := strings.Split(first, " ")
					if len(parts) < 2 {
						return
					}
					conn.Write([]byte(respFor(parts[1])))
				}
			}(conn)
		}
	}()
	return ln.Addr().String(), func() { ln.Close() }
}

// Property C10: "the response returned to a caller is the response to that
// caller's request"; a pooled connection is "never reused dirty" and is "put
// back for reuse only after its exchange completed cleanly (full response
// read ...)".
//
// Trigger: the peer sends an interim 1xx response other than 100 before the
// final one (103 Early Hints, RFC 8297; 102 Processing behaves the same). The
// client skips only "100 Continue": it hands the 103 to the caller as the
// response, and puts the connection back with the real response still unread.
// The next caller on that connection receives the previous caller's response.
func TestHunt6_InterimResponseLeavesFinalResponseOnPooledConn(t *testing.T) {
	addr, stop := hunt6Server(t, func(path string) string {
		if path == "/a" {
			return "HTTP/1.1 103 Early Hints\r\nLink: </style.css>; rel=preload\r\n\r\n" +
				"HTTP/1.1 200 OK\r\nContent-Length: 6\r\n\r\nfrom-a"
		}
		return "HTTP/1.1 200 OK\r\nContent-Length: 6\r\n\r\nfrom-b"
	})
	defer stop()

	c := &HostClient{
		Addr: addr,
		ClientOptions: &ClientOptions{
			Dialer:      standard.NewDialer(),
			MaxConns:    1,
			ReadTimeout: 2 * time.Second,
		},
	}

	reqA := protocol.AcquireRequest()
	respA := protocol.AcquireResponse()
	reqA.SetRequestURI("http://" + addr + "/a")
	if err := c.Do(context.Background(), reqA, respA); err != nil {
		t.Fatalf("Do /a: %v", err)
	}
	if respA.StatusCode() != 200 || string(respA.Body()) != "from-a" {
		t.Errorf("caller of /a received %d %q, want the final response 200 %q", respA.StatusCode(), respA.Body(), "from-a")
	}

	reqB := protocol.AcquireRequest()
	respB := protocol.AcquireResponse()
	reqB.SetRequestURI("http://" + addr + "/b")
	if err := c.Do(context.Background(), reqB, respB); err != nil {
		t.Fatalf("Do /b: %v", err)
	}
	if got := string(respB.Body()); got != "from-b" {
		t.Errorf("caller of /b received %q, the response to the previous caller's request (want %q)", got, "from-b")
	}
}
