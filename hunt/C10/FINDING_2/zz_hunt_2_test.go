//go:build !windows

package http1

import (
	"bufio"
	"context"
	"net"
	"testing"
	"time"

	"github.com/cloudwego/hertz/pkg/network/dialer"
	"github.com/cloudwego/hertz/pkg/protocol"
)

// Property C10: "A call given a request or read timeout returns no later than
// that timeout plus scheduling slack however the peer stalls".
//
// Trigger: the default dialer (netpoll on linux/darwin), a whole-request timeout
// of 400ms (DoTimeout), and a peer that delivers the response in slices, stalling
// 300ms (less than the timeout) before each slice and stalling for good in the
// middle of the body. Every blocking read of the client gets the full 400ms
// again, so the call returns after about 300+300+300+400 = 1300ms.
func TestHunt2_RequestTimeoutRestartsOnEveryRead(t *testing.T) {
	ln, err := net.Listen("tcp", "127.0.0.1:0")
	if err != nil {
		t.Fatal(err)
	}
	defer ln.Close()
	done := make(chan struct{})
	defer close(done)

	go func() {
		for {
			conn, err := ln.Accept()
			if err != nil {
				return
			}
			go func(conn net.Conn) {
				defer conn.Close()
				br := bufio.NewReader(conn)
				for {
					line, err := br.ReadString('\n')
					if err != nil {
						return
					}
					if line == "\r\n" {
						break
					}
				}
				slices := []string{
					"HTTP/1.1 200 OK\r\n",
					"Content-Length: 10\r\n\r\n",
					"01234",
				}
				for _, s := range slices {
					select {
					case <-done:
						return
					case <-time.After(300 * time.Millisecond):
					}
					conn.Write([]byte(s))
				}
				// stall for good in the middle of the body
				<-done
			}(conn)
		}
	}()

	const timeout = 400 * time.Millisecond
	const slack = 300 * time.Millisecond

	c := &HostClient{
		Addr: ln.Addr().String(),
		ClientOptions: &ClientOptions{
			Dialer:   dialer.DefaultDialer(),
			MaxConns: 1,
		},
	}
	t.Logf("dialer: %T", c.Dialer)

	req := protocol.AcquireRequest()
	resp := protocol.AcquireResponse()
	req.SetRequestURI("http://" + ln.Addr().String() + "/")
	req.Header.SetMethod("GET")

	start := time.Now()
	err = c.DoTimeout(context.Background(), req, resp, timeout)
	elapsed := time.Since(start)
	t.Logf("DoTimeout(%v) returned after %v, err=%v", timeout, elapsed, err)
	if err == nil {
		t.Fatalf("the peer never completed the response, expected a timeout error")
	}
	if elapsed > timeout+slack {
		t.Errorf("DoTimeout(%v) returned after %v: later than the request timeout plus %v slack", timeout, elapsed, slack)
	}

	// the same with the per-request read timeout option
	c2 := &HostClient{
		Addr: ln.Addr().String(),
		ClientOptions: &ClientOptions{
			Dialer:      dialer.DefaultDialer(),
			MaxConns:    1,
			ReadTimeout: timeout,
		},
	}
	start = time.Now()
	err = c2.Do(context.Background(), req, resp)
	elapsed = time.Since(start)
	t.Logf("Do with ReadTimeout=%v returned after %v, err=%v", timeout, elapsed, err)
	if err == nil {
		t.Fatalf("the peer never completed the response, expected a timeout error")
	}
	if elapsed > timeout+slack {
		t.Errorf("Do with ReadTimeout=%v returned after %v: later than the read timeout plus %v slack", timeout, elapsed, slack)
	}
}
