package http1

import (
	"bufio"
	"context"
	"net"
	"strings"
	"testing"
	"time"

	"github.com/cloudwego/hertz/pkg/network/standard"
	"github.com/cloudwego/hertz/pkg/protocol"
)

// hunt4Server answers every request with "200 OK", the given Connection header
// line(s) and a 2 byte body, and then closes the connection, as the header
// announces.
func hunt4Server(t *testing.T, connHdr string) (addr string, stop func()) {
	ln, err := net.Listen("tcp", "127.0.0.1:0")
	if err != nil {
		t.Fatal(err)
	}
	go func() {
		for {
			conn, err := ln.Accept()
			if err != nil {
				return
			}
			go func(conn net.Conn) {
				defer conn.Close()
				br := bufio.NewReader(conn)
				cl := 0
				for {
					line, err := br.ReadString('\n')
					if err != nil {
						return
					}
					if strings.HasPrefix(strings.ToLower(line), "content-length: ") {
						for _, ch := range strings.TrimSpace(line[16:]) {
							cl = cl*10 + int(ch-'0')
						}
					}
					if line == "\r\n" {
						break
					}
				}
				for ; cl > 0; cl-- {
					if _, err := br.ReadByte(); err != nil {
						return
					}
				}
				conn.Write([]byte("HTTP/1.1 200 OK\r\n" + connHdr + "\r\nContent-Length: 2\r\n\r\nok"))
				// Connection: close => the server closes after this response
			}(conn)
		}
	}()
	return ln.Addr().String(), func() { ln.Close() }
}

// Property C10: "A connection is put back for reuse only after its exchange
// completed cleanly (full response read, no Connection: close, no error or
// timeout)".
//
// Trigger: fault "ok + Connection: close" where the peer spells the header in
// another legal way: connection options are case-insensitive and the field is
// a comma separated list that may be split over several field lines
// (RFC 7230 section 6.1). The client only recognises the exact bytes
// "close" as the whole value of the last Connection line; otherwise it
// puts the connection back in the idle pool.
func TestHunt4_ConnectionCloseSpellings(t *testing.T) {
	cases := []string{
		"Connection: close", // control: handled
		"Connection: Close",
		"Connection: CLOSE",
		"Connection: foo, close",
		"Connection: close\r\nConnection: foo",
	}
	for _, hdr := range cases {
		hdr := hdr
		t.Run(strings.ReplaceAll(hdr, "\r\n", " | "), func(t *testing.T) {
			addr, stop := hunt4Server(t, hdr)
			defer stop()
			c := &HostClient{
				Addr: addr,
				ClientOptions: &ClientOptions{
					Dialer:      standard.NewDialer(),
					MaxConns:    2,
					ReadTimeout: 2 * time.Second,
				},
			}
			req := protocol.AcquireRequest()
			resp := protocol.AcquireResponse()
			req.SetRequestURI("http://" + addr + "/a")
			if err := c.Do(context.Background(), req, resp); err != nil {
				t.Fatalf("Do: %v", err)
			}
			if string(resp.Body()) != "ok" {
				t.Fatalf("body %q", resp.Body())
			}
			c.connsLock.Lock()
			idle, total := len(c.conns), c.connsCount
			c.connsLock.Unlock()
			if idle != 0 || total != 0 {
				t.Errorf("response carried %q but the connection was put back for reuse: idle=%d connsCount=%d, want 0/0", hdr, idle, total)
			}

			// consequence: the next non-idempotent request is handed the
			// connection the server has closed and fails
			time.Sleep(20 * time.Millisecond)
			req.Reset()
			req.SetRequestURI("http://" + addr + "/b")
			req.Header.SetMethod("POST")
			req.SetBodyString("x=1")
			if err := c.Do(context.Background(), req, resp); err != nil {
				t.Errorf("POST following the %q response failed: %v", hdr, err)
			}
		})
	}
}
