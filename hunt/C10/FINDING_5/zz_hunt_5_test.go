package http1

import (
	"bufio"
	"context"
	"fmt"
	"net"
	"strings"
	"testing"
	"time"

	"github.com/cloudwego/hertz/pkg/network/standard"
	"github.com/cloudwego/hertz/pkg/protocol"
)

// scripted keep-alive peer: answers every request on a connection with
// respFor(path).
func hunt5Server(t *testing.T, respFor func(path string) string) (addr string, stop func()) {
	ln, err := net.Listen("tcp", "127.0.0.1:0")
	if err != nil {
		t.Fatal(err)
	}
	go func() {
		for {
			conn, err := ln.Accept()
			if err != nil {
				return
			}
			go func(conn net.Conn) {
				defer conn.Close()
				br := bufio.NewReader(conn)
				for {
					first, err := br.ReadString('\n')
					if err != nil {
						return
					}
					for {
						line, err := br.ReadString('\n')
						if err != nil {
							return
						}
						if line == "\r\n" {
							break
						}
					}
					parts := strings.Split(first, " ")
					if len(parts) < 2 {
						return
					}
					conn.Write([]byte(respFor(parts[1])))
				}
			}(conn)
		}
	}()
	return ln.Addr().String(), func() { ln.Close() }
}

// Property C10: a pooled connection is "never reused dirty"; "the response
// returned to a caller is the response to that caller's request"; "A connection
// is put back for reuse only after its exchange completed cleanly (full
// response read ...)".
//
// Trigger: the caller sets resp.SkipBody = true (public field which the host
// client deliberately preserves: "backing up SkipBody in case it was set
// explicitly") on a GET. The peer answers "ok keep-alive" with a body; the
// client does not read the body and still puts the connection back. The next
// request on that connection gets the left-over body bytes as its response.
func TestHunt5_SkipBodyLeavesBodyOnPooledConn(t *testing.T) {
	addr, stop := hunt5Server(t, func(path string) string {
		if path == "/a" {
			// the body of /a happens to look like a complete response
			inner := "HTTP/1.1 200 OK\r\nContent-Length: 6\r\n\r\nfrom-a"
			return fmt.Sprintf("HTTP/1.1 200 OK\r\nContent-Length: %d\r\n\r\n%s", len(inner), inner)
		}
		return "HTTP/1.1 200 OK\r\nContent-Length: 6\r\n\r\nfrom-b"
	})
	defer stop()

	c := &HostClient{
		Addr: addr,
		ClientOptions: &ClientOptions{
			Dialer:      standard.NewDialer(),
			MaxConns:    1,
			ReadTimeout: 2 * time.Second,
		},
	}

	req := protocol.AcquireRequest()
	resp := protocol.AcquireResponse()
	req.SetRequestURI("http://" + addr + "/a")
	req.Header.SetMethod("GET")
	resp.SkipBody = true
	if err := c.Do(context.Background(), req, resp); err != nil {
		t.Fatalf("first Do: %v", err)
	}
	if resp.StatusCode() != 200 {
		t.Fatalf("status %d", resp.StatusCode())
	}

	c.connsLock.Lock()
	idle := len(c.conns)
	c.connsLock.Unlock()
	// (either reading the body off the wire or closing the connection is fine)
	t.Logf("idle connections after the exchange whose body the caller skipped: %d", idle)

	// second caller, own request and response objects, asks for /b
	req2 := protocol.AcquireRequest()
	resp2 := protocol.AcquireResponse()
	req2.SetRequestURI("http://" + addr + "/b")
	req2.Header.SetMethod("GET")
	err := c.Do(context.Background(), req2, resp2)
	if err != nil {
		t.Fatalf("second Do failed on a reused dirty connection: %v", err)
	}
	if got := string(resp2.Body()); got != "from-b" {
		t.Errorf("caller of /b received %q: the unread body of the previous exchange was served as its response (want %q)", got, "from-b")
	}
}
