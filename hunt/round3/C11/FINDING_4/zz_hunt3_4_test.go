package client_test

// C11 hunt round 3, finding 4.
//
// The length given to Request.SetBodyStream lives only in the request header.
// When the header loses it afterwards - req.Header.Del("Content-Length") (to
// get chunked framing), or a set of default header fields copied over the
// header (tmpl.CopyTo(&req.Header)) - the header says "length 0" without a
// Content-Length field, and the request serialiser takes that for a known
// length of zero: the request leaves without Content-Length, without
// Transfer-Encoding and WITHOUT ITS BODY; Do returns nil and the stream is
// closed unread. The same defect on the response side was repaired by 2774e39
// ("a body stream whose declared length was deleted from the header is sent
// chunked"); req.writeBodyStream was left as it was.
//
// The property demands that the body given as a stream reaches the server:
// one well-formed request that the hertz parser and an independent parser
// decode to the same method, target, Host and body.

import (
	"bufio"
	"bytes"
	"context"
	"io"
	"net"
	"net/http"
	"strings"
	"sync"
	"testing"
	"time"

	"github.com/cloudwego/hertz/pkg/app/client"
	"github.com/cloudwego/hertz/pkg/common/test/mock"
	"github.com/cloudwego/hertz/pkg/protocol"
	"github.com/cloudwego/hertz/pkg/protocol/http1/req"
)

// captureServer4 answers every request as soon as its header block has arrived
// (with "Connection: close") and then reads on until the client closes: what it
// has collected for a connection is exactly what the client sent for that exchange.
type captureServer4 struct {
	ln   net.Listener
	mu   sync.Mutex
	caps [][]byte
	done chan struct{}
}

func newCaptureServer4(t *testing.T) *captureServer4 {
	ln, err := net.Listen("tcp", "127.0.0.1:0")
	if err != nil {
		t.Fatal(err)
	}
	s := &captureServer4{ln: ln, done: make(chan struct{}, 16)}
	go func() {
		for {
			c, err := ln.Accept()
			if err != nil {
				return
			}
			go s.serve(c)
		}
	}()
	return s
}

func (s *captureServer4) serve(c net.Conn) {
	defer c.Close()
	var got []byte
	buf := make([]byte, 4096)
	answered := false
	c.SetReadDeadline(time.Now().Add(20 * time.Second)) //nolint:errcheck
	for {
		n, err := c.Read(buf)
		got = append(got, buf[:n]...)
		if !answered && bytes.Contains(got, []byte("\r\n\r\n")) {
			answered = true
			c.Write([]byte("HTTP/1.1 200 OK\r\nContent-Length: 2\r\nConnection: close\r\n\r\nok")) //nolint:errcheck
		}
		if err != nil {
			break
		}
	}
	s.mu.Lock()
	s.caps = append(s.caps, got)
	s.mu.Unlock()
	s.done <- struct{}{}
}

func (s *captureServer4) waitCapture(t *testing.T, i int) []byte {
	select {
	case <-s.done:
	case <-time.After(30 * time.Second):
		t.Fatal("capture server did not see the end of the connection")
	}
	s.mu.Lock()
	defer s.mu.Unlock()
	return s.caps[i]
}

type decoded4 struct {
	method, target, host, body string
}

func decodeNetHTTP4(raw []byte) (d decoded4, rest int, err error) {
	rd := bytes.NewReader(raw)
	br := bufio.NewReader(rd)
	r, err := http.ReadRequest(br)
	if err != nil {
		return d, 0, err
	}
	b, err := io.ReadAll(r.Body)
	if err != nil {
		return d, 0, err
	}
	d = decoded4{r.Method, r.RequestURI, r.Host, string(b)}
	return d, br.Buffered() + rd.Len(), nil
}

func decodeHertz4(raw []byte) (d decoded4, rest int, err error) {
	var r protocol.Request
	zr := mock.NewZeroCopyReader(string(raw))
	if err = req.Read(&r, zr); err != nil {
		return d, 0, err
	}
	d = decoded4{string(r.Method()), string(r.RequestURI()), string(r.Header.Host()), string(r.Body())}
	return d, zr.Len(), nil
}

func checkSent4(t *testing.T, raw []byte, want decoded4) {
	t.Helper()
	t.Logf("bytes sent by the client:\n%q", raw)
	dn, restN, errN := decodeNetHTTP4(raw)
	if errN != nil {
		t.Errorf("net/http cannot decode the request: %v", errN)
	} else if dn != want || restN != 0 {
		t.Errorf("net/http decodes %+v (bytes left over: %d), want %+v", dn, restN, want)
	}
	dh, restH, errH := decodeHertz4(raw)
	if errH != nil {
		t.Errorf("hertz cannot decode the request: %v", errH)
	} else if dh != want || restH != 0 {
		t.Errorf("hertz decodes %+v (bytes left over: %d), want %+v", dh, restH, want)
	}
}

type readCounter4 struct {
	r io.Reader
	n int
}

func (rc *readCounter4) Read(p []byte) (int, error) {
	n, err := rc.r.Read(p)
	rc.n += n
	return n, err
}

func TestHunt3_4_RequestBodyStreamLostWhenLengthLeavesHeader(t *testing.T) {
	t.Run("Header.Del", func(t *testing.T) {
		s := newCaptureServer4(t)
		defer s.ln.Close()
		c, _ := client.NewClient()
		rq, rs := protocol.AcquireRequest(), protocol.AcquireResponse()
		addr := s.ln.Addr().String()
		body := &readCounter4{r: strings.NewReader("hello")}
		rq.SetRequestURI("http://" + addr + "/upload")
		rq.SetMethod("POST")
		rq.SetBodyStream(body, 5)
		rq.Header.Del("Content-Length") // "send it chunked"
		err := c.Do(context.Background(), rq, rs)
		if err != nil {
			// refusing the request would be in line with the property; losing the body silently is not
			t.Skipf("Do refused the request: %v", err)
		}
		checkSent4(t, s.waitCapture(t, 0), decoded4{"POST", "/upload", addr, "hello"})
		if body.n != 5 {
			t.Errorf("Do returned nil, but only %d of the 5 body bytes were read from the stream", body.n)
		}
	})

	t.Run("default-headers-copied-over", func(t *testing.T) {
		s := newCaptureServer4(t)
		defer s.ln.Close()
		c, _ := client.NewClient()
		rq, rs := protocol.AcquireRequest(), protocol.AcquireResponse()
		addr := s.ln.Addr().String()

		var tmpl protocol.RequestHeader // the application's default header fields
		tmpl.SetMethod("POST")
		tmpl.Set("Authorization", "Bearer t")
		tmpl.Set("X-App", "demo")

		body := &readCounter4{r: strings.NewReader("hello")}
		rq.SetBodyStream(body, -1)
		tmpl.CopyTo(&rq.Header)
		rq.SetRequestURI("http://" + addr + "/upload")
		err := c.Do(context.Background(), rq, rs)
		if err != nil {
			t.Skipf("Do refused the request: %v", err)
		}
		checkSent4(t, s.waitCapture(t, 0), decoded4{"POST", "/upload", addr, "hello"})
		if body.n != 5 {
			t.Errorf("Do returned nil, but only %d of the 5 body bytes were read from the stream", body.n)
		}
	})
}
