package client_test

// C11 hunt round 3, finding 2.
//
// The framing header fields of a request (Content-Length, Transfer-Encoding:
// chunked) are written into the request header by the client itself when it
// serialises the request. When the same Request object is used for the next
// exchange with a GET (or HEAD) and no body - SetMethod("GET") + ResetBody(),
// a very ordinary way of using one Request for a sequence of exchanges - the
// serialiser skips the framing update ("GET has no body") and the field of the
// previous exchange stays: the GET leaves with "Content-Length: 5" (or
// "Transfer-Encoding: chunked") and no body at all. A server waits for a body
// that never comes, or, on a keep-alive connection, takes the first bytes of
// the following request for it.
// The same happens in a single step with SetBodyStream(protocol.NoBody, -1)
// on a GET (NoBody is documented as "explicitly zero bytes").
//
// The property demands one well-formed request that the hertz parser and an
// independent parser decode to the same method, target, Host and body.

import (
	"bufio"
	"bytes"
	"context"
	"io"
	"net"
	"net/http"
	"strings"
	"sync"
	"testing"
	"time"

	"github.com/cloudwego/hertz/pkg/app/client"
	"github.com/cloudwego/hertz/pkg/common/test/mock"
	"github.com/cloudwego/hertz/pkg/protocol"
	"github.com/cloudwego/hertz/pkg/protocol/http1/req"
)

// captureServer2 answers every request as soon as its header block has arrived
// (with "Connection: close") and then reads on until the client closes: what it
// has collected for a connection is exactly what the client sent for that exchange.
type captureServer2 struct {
	ln   net.Listener
	mu   sync.Mutex
	caps [][]byte
	done chan struct{}
}

func newCaptureServer2(t *testing.T) *captureServer2 {
	ln, err := net.Listen("tcp", "127.0.0.1:0")
	if err != nil {
		t.Fatal(err)
	}
	s := &captureServer2{ln: ln, done: make(chan struct{}, 16)}
	go func() {
		for {
			c, err := ln.Accept()
			if err != nil {
				return
			}
			go s.serve(c)
		}
	}()
	return s
}

func (s *captureServer2) serve(c net.Conn) {
	defer c.Close()
	var got []byte
	buf := make([]byte, 4096)
	answered := false
	c.SetReadDeadline(time.Now().Add(20 * time.Second)) //nolint:errcheck
	for {
		n, err := c.Read(buf)
		got = append(got, buf[:n]...)
		if !answered && bytes.Contains(got, []byte("\r\n\r\n")) {
			answered = true
			c.Write([]byte("HTTP/1.1 200 OK\r\nContent-Length: 2\r\nConnection: close\r\n\r\nok")) //nolint:errcheck
		}
		if err != nil {
			break
		}
	}
	s.mu.Lock()
	s.caps = append(s.caps, got)
	s.mu.Unlock()
	s.done <- struct{}{}
}

func (s *captureServer2) waitCapture(t *testing.T, i int) []byte {
	select {
	case <-s.done:
	case <-time.After(30 * time.Second):
		t.Fatal("capture server did not see the end of the connection")
	}
	s.mu.Lock()
	defer s.mu.Unlock()
	return s.caps[i]
}

type decoded2 struct {
	method, target, host, body string
}

func decodeNetHTTP2(raw []byte) (d decoded2, rest int, err error) {
	rd := bytes.NewReader(raw)
	br := bufio.NewReader(rd)
	r, err := http.ReadRequest(br)
	if err != nil {
		return d, 0, err
	}
	b, err := io.ReadAll(r.Body)
	if err != nil {
		return d, 0, err
	}
	d = decoded2{r.Method, r.RequestURI, r.Host, string(b)}
	return d, br.Buffered() + rd.Len(), nil
}

func decodeHertz2(raw []byte) (d decoded2, rest int, err error) {
	var r protocol.Request
	zr := mock.NewZeroCopyReader(string(raw))
	if err = req.Read(&r, zr); err != nil {
		return d, 0, err
	}
	d = decoded2{string(r.Method()), string(r.RequestURI()), string(r.Header.Host()), string(r.Body())}
	return d, zr.Len(), nil
}

func checkSent2(t *testing.T, raw []byte, want decoded2) {
	t.Helper()
	t.Logf("bytes sent by the client:\n%q", raw)
	dn, restN, errN := decodeNetHTTP2(raw)
	if errN != nil {
		t.Errorf("net/http cannot decode the request: %v", errN)
	} else if dn != want || restN != 0 {
		t.Errorf("net/http decodes %+v (bytes left over: %d), want %+v", dn, restN, want)
	}
	dh, restH, errH := decodeHertz2(raw)
	if errH != nil {
		t.Errorf("hertz cannot decode the request: %v", errH)
	} else if dh != want || restH != 0 {
		t.Errorf("hertz decodes %+v (bytes left over: %d), want %+v", dh, restH, want)
	}
}

func TestHunt3_2_BodilessGetKeepsFramingOfPreviousExchange(t *testing.T) {
	t.Run("post-bytes-then-get", func(t *testing.T) {
		s := newCaptureServer2(t)
		defer s.ln.Close()
		c, _ := client.NewClient()
		rq, rs := protocol.AcquireRequest(), protocol.AcquireResponse()
		addr := s.ln.Addr().String()

		rq.SetRequestURI("http://" + addr + "/login")
		rq.SetMethod("POST")
		rq.SetBodyString("hello")
		if err := c.Do(context.Background(), rq, rs); err != nil {
			t.Fatalf("POST: %v", err)
		}
		checkSent2(t, s.waitCapture(t, 0), decoded2{"POST", "/login", addr, "hello"})
		if t.Failed() {
			t.Fatal("the first exchange is already wrong")
		}

		// next exchange with the same Request object
		rq.SetRequestURI("http://" + addr + "/data")
		rq.SetMethod("GET")
		rq.ResetBody()
		if err := c.Do(context.Background(), rq, rs); err != nil {
			t.Fatalf("GET: %v", err)
		}
		checkSent2(t, s.waitCapture(t, 1), decoded2{"GET", "/data", addr, ""})
	})

	t.Run("post-stream-then-get", func(t *testing.T) {
		s := newCaptureServer2(t)
		defer s.ln.Close()
		c, _ := client.NewClient()
		rq, rs := protocol.AcquireRequest(), protocol.AcquireResponse()
		addr := s.ln.Addr().String()

		rq.SetRequestURI("http://" + addr + "/login")
		rq.SetMethod("POST")
		rq.SetBodyStream(strings.NewReader("hello"), -1)
		if err := c.Do(context.Background(), rq, rs); err != nil {
			t.Fatalf("POST: %v", err)
		}
		checkSent2(t, s.waitCapture(t, 0), decoded2{"POST", "/login", addr, "hello"})
		if t.Failed() {
			t.Fatal("the first exchange is already wrong")
		}

		// the stream has been consumed and detached by the first exchange
		rq.SetRequestURI("http://" + addr + "/data")
		rq.SetMethod("GET")
		if err := c.Do(context.Background(), rq, rs); err != nil {
			t.Fatalf("GET: %v", err)
		}
		checkSent2(t, s.waitCapture(t, 1), decoded2{"GET", "/data", addr, ""})
	})

	t.Run("get-with-NoBody-stream", func(t *testing.T) {
		s := newCaptureServer2(t)
		defer s.ln.Close()
		c, _ := client.NewClient()
		rq, rs := protocol.AcquireRequest(), protocol.AcquireResponse()
		addr := s.ln.Addr().String()

		rq.SetRequestURI("http://" + addr + "/data")
		rq.SetMethod("GET")
		rq.SetBodyStream(protocol.NoBody, -1)
		if err := c.Do(context.Background(), rq, rs); err != nil {
			t.Fatalf("GET: %v", err)
		}
		checkSent2(t, s.waitCapture(t, 0), decoded2{"GET", "/data", addr, ""})
	})
}
