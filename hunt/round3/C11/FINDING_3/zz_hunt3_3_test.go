package client_test

// C11 hunt round 3, finding 3.
//
// Request.SetMultipartField(param, fileName, contentType, reader) (and
// SetMultipartFields) lets the caller give a part its own Content-Type. For a
// part WITHOUT a file name - the usual way to send a JSON or XML document next
// to a file ("metadata" part, Spring @RequestPart, Google/AWS style multipart
// uploads) - the Content-Type never reaches the wire: the serialiser first
// writes the parts correctly, then parses its own output with
// mime/multipart.ReadForm, which keeps nothing but name and value of parts
// without a file name, and marshals that form again. The request is sent
// without error, the part arrives as an untyped text field.
// (A part with a file name keeps its header; a part given with an empty
// name is dropped from the request altogether by the same round trip.)
//
// The property demands that a multipart request expressed through the client
// API reaches the server intact.

import (
	"bufio"
	"bytes"
	"context"
	"io"
	"net"
	"net/http"
	"strings"
	"sync"
	"testing"
	"time"

	"github.com/cloudwego/hertz/pkg/app/client"
	"github.com/cloudwego/hertz/pkg/common/test/mock"
	"github.com/cloudwego/hertz/pkg/protocol"
	"github.com/cloudwego/hertz/pkg/protocol/http1/req"
)

// captureServer3 answers every request as soon as its header block has arrived
// (with "Connection: close") and then reads on until the client closes: what it
// has collected for a connection is exactly what the client sent for that exchange.
type captureServer3 struct {
	ln   net.Listener
	mu   sync.Mutex
	caps [][]byte
	done chan struct{}
}

func newCaptureServer3(t *testing.T) *captureServer3 {
	ln, err := net.Listen("tcp", "127.0.0.1:0")
	if err != nil {
		t.Fatal(err)
	}
	s := &captureServer3{ln: ln, done: make(chan struct{}, 16)}
	go func() {
		for {
			c, err := ln.Accept()
			if err != nil {
				return
			}
			go s.serve(c)
		}
	}()
	return s
}

func (s *captureServer3) serve(c net.Conn) {
	defer c.Close()
	var got []byte
	buf := make([]byte, 4096)
	answered := false
	c.SetReadDeadline(time.Now().Add(20 * time.Second)) //nolint:errcheck
	for {
		n, err := c.Read(buf)
		got = append(got, buf[:n]...)
		if !answered && bytes.Contains(got, []byte("\r\n\r\n")) {
			answered = true
			c.Write([]byte("HTTP/1.1 200 OK\r\nContent-Length: 2\r\nConnection: close\r\n\r\nok")) //nolint:errcheck
		}
		if err != nil {
			break
		}
	}
	s.mu.Lock()
	s.caps = append(s.caps, got)
	s.mu.Unlock()
	s.done <- struct{}{}
}

func (s *captureServer3) waitCapture(t *testing.T, i int) []byte {
	select {
	case <-s.done:
	case <-time.After(30 * time.Second):
		t.Fatal("capture server did not see the end of the connection")
	}
	s.mu.Lock()
	defer s.mu.Unlock()
	return s.caps[i]
}

type part3 struct {
	name, fileName, contentType, body string
}

func TestHunt3_3_MultipartFieldContentTypeIsDropped(t *testing.T) {
	s := newCaptureServer3(t)
	defer s.ln.Close()
	c, _ := client.NewClient()
	rq, rs := protocol.AcquireRequest(), protocol.AcquireResponse()
	rq.SetRequestURI("http://" + s.ln.Addr().String() + "/upload")
	rq.SetMethod("POST")
	rq.SetMultipartField("meta", "", "application/json", strings.NewReader(`{"a":1}`))
	rq.SetMultipartField("doc", "x.bin", "application/x-thing", strings.NewReader("data"))
	if err := c.Do(context.Background(), rq, rs); err != nil {
		t.Fatalf("Do: %v", err)
	}
	raw := s.waitCapture(t, 0)
	t.Logf("bytes sent by the client:\n%s", raw)

	// independent parser
	r, err := http.ReadRequest(bufio.NewReader(bytes.NewReader(raw)))
	if err != nil {
		t.Fatalf("net/http cannot decode the request: %v", err)
	}
	mr, err := r.MultipartReader()
	if err != nil {
		t.Fatalf("net/http: not a multipart request: %v", err)
	}
	got := map[string]part3{}
	for {
		p, err := mr.NextPart()
		if err == io.EOF {
			break
		}
		if err != nil {
			t.Fatalf("net/http: reading parts: %v", err)
		}
		b, _ := io.ReadAll(p)
		got[p.FormName()] = part3{p.FormName(), p.FileName(), p.Header.Get("Content-Type"), string(b)}
	}
	want := map[string]part3{
		"meta": {"meta", "", "application/json", `{"a":1}`},
		"doc":  {"doc", "x.bin", "application/x-thing", "data"},
	}
	for name, w := range want {
		if g, ok := got[name]; !ok {
			t.Errorf("part %q did not arrive", name)
		} else if g != w {
			t.Errorf("part %q arrived as %+v, was given as %+v", name, g, w)
		}
	}
	if len(got) != len(want) {
		t.Errorf("%d parts arrived, %d were given", len(got), len(want))
	}

	// the hertz decoder agrees about what it can see of the form
	var hr protocol.Request
	if err = req.Read(&hr, mock.NewZeroCopyReader(string(raw))); err != nil {
		t.Fatalf("hertz cannot decode the request: %v", err)
	}
	f, err := hr.MultipartForm()
	if err != nil {
		t.Fatalf("hertz: not a multipart request: %v", err)
	}
	if v := f.Value["meta"]; len(v) != 1 || v[0] != `{"a":1}` {
		t.Errorf("hertz: field meta = %q", v)
	}
	if fh := f.File["doc"]; len(fh) != 1 || fh[0].Filename != "x.bin" || fh[0].Header.Get("Content-Type") != "application/x-thing" {
		t.Errorf("hertz: file doc = %+v", fh)
	}
}
