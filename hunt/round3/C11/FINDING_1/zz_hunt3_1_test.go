package client_test

// C11 hunt round 3, finding 1.
//
// A request whose body is a stream of unknown length (SetBodyStream(r, -1)) and
// whose Content-Length is then given through the header API
// (req.Header.Set("Content-Length", "5"), as one does when the length is known
// from elsewhere, or when headers are copied from another message) leaves the
// client with BOTH "Content-Length: 5" and "Transfer-Encoding: chunked", and
// the body is written raw (not chunked). Every parser takes the message for
// chunked (Transfer-Encoding wins) and fails on the first body byte.
//
// The property demands one well-formed request that the hertz parser and an
// independent parser decode to the same method, target, Host and body.

import (
	"bufio"
	"bytes"
	"context"
	"io"
	"net"
	"net/http"
	"strings"
	"sync"
	"testing"
	"time"

	"github.com/cloudwego/hertz/pkg/app/client"
	"github.com/cloudwego/hertz/pkg/common/test/mock"
	"github.com/cloudwego/hertz/pkg/protocol"
	"github.com/cloudwego/hertz/pkg/protocol/http1/req"
)

// captureServer1 answers every request as soon as its header block has arrived
// (with "Connection: close") and then reads on until the client closes: what it
// has collected for a connection is exactly what the client sent for that exchange.
type captureServer1 struct {
	ln   net.Listener
	mu   sync.Mutex
	caps [][]byte
	done chan struct{}
}

func newCaptureServer1(t *testing.T) *captureServer1 {
	ln, err := net.Listen("tcp", "127.0.0.1:0")
	if err != nil {
		t.Fatal(err)
	}
	s := &captureServer1{ln: ln, done: make(chan struct{}, 16)}
	go func() {
		for {
			c, err := ln.Accept()
			if err != nil {
				return
			}
			go s.serve(c)
		}
	}()
	return s
}

func (s *captureServer1) serve(c net.Conn) {
	defer c.Close()
	var got []byte
	buf := make([]byte, 4096)
	answered := false
	c.SetReadDeadline(time.Now().Add(20 * time.Second)) //nolint:errcheck
	for {
		n, err := c.Read(buf)
		got = append(got, buf[:n]...)
		if !answered && bytes.Contains(got, []byte("\r\n\r\n")) {
			answered = true
			c.Write([]byte("HTTP/1.1 200 OK\r\nContent-Length: 2\r\nConnection: close\r\n\r\nok")) //nolint:errcheck
		}
		if err != nil {
			break
		}
	}
	s.mu.Lock()
	s.caps = append(s.caps, got)
	s.mu.Unlock()
	s.done <- struct{}{}
}

func (s *captureServer1) waitCapture(t *testing.T, i int) []byte {
	select {
	case <-s.done:
	case <-time.After(30 * time.Second):
		t.Fatal("capture server did not see the end of the connection")
	}
	s.mu.Lock()
	defer s.mu.Unlock()
	return s.caps[i]
}

type decoded1 struct {
	method, target, host, body string
}

func decodeNetHTTP1(raw []byte) (d decoded1, rest int, err error) {
	rd := bytes.NewReader(raw)
	br := bufio.NewReader(rd)
	r, err := http.ReadRequest(br)
	if err != nil {
		return d, 0, err
	}
	b, err := io.ReadAll(r.Body)
	if err != nil {
		return d, 0, err
	}
	d = decoded1{r.Method, r.RequestURI, r.Host, string(b)}
	return d, br.Buffered() + rd.Len(), nil
}

func decodeHertz1(raw []byte) (d decoded1, rest int, err error) {
	var r protocol.Request
	zr := mock.NewZeroCopyReader(string(raw))
	if err = req.Read(&r, zr); err != nil {
		return d, 0, err
	}
	d = decoded1{string(r.Method()), string(r.RequestURI()), string(r.Header.Host()), string(r.Body())}
	return d, zr.Len(), nil
}

func TestHunt3_1_ContentLengthSetAfterChunkedStream(t *testing.T) {
	s := newCaptureServer1(t)
	defer s.ln.Close()

	c, err := client.NewClient()
	if err != nil {
		t.Fatal(err)
	}
	rq, rs := protocol.AcquireRequest(), protocol.AcquireResponse()
	rq.SetRequestURI("http://" + s.ln.Addr().String() + "/upload?x=1")
	rq.SetMethod("POST")
	rq.SetBodyStream(strings.NewReader("hello"), -1) // length not known here
	rq.Header.Set("Content-Length", "5")             // ... but given as a header field
	if err = c.Do(context.Background(), rq, rs); err != nil {
		t.Fatalf("Do: %v", err)
	}
	raw := s.waitCapture(t, 0)
	t.Logf("bytes sent by the client:\n%q", raw)

	want := decoded1{"POST", "/upload?x=1", s.ln.Addr().String(), "hello"}

	dn, restN, errN := decodeNetHTTP1(raw)
	if errN != nil {
		t.Errorf("net/http cannot decode the request: %v", errN)
	} else if dn != want || restN != 0 {
		t.Errorf("net/http decodes %+v (bytes left over: %d), want %+v", dn, restN, want)
	}
	dh, restH, errH := decodeHertz1(raw)
	if errH != nil {
		t.Errorf("hertz cannot decode the request: %v", errH)
	} else if dh != want || restH != 0 {
		t.Errorf("hertz decodes %+v (bytes left over: %d), want %+v", dh, restH, want)
	}

	head := raw
	if i := bytes.Index(raw, []byte("\r\n\r\n")); i >= 0 {
		head = raw[:i]
	}
	lower := bytes.ToLower(head)
	if bytes.Contains(lower, []byte("\r\ncontent-length:")) && bytes.Contains(lower, []byte("\r\ntransfer-encoding:")) {
		t.Errorf("the request carries both Content-Length and Transfer-Encoding")
	}
}
