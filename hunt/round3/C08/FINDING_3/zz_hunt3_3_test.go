package app

import (
	"bytes"
	"compress/gzip"
	"context"
	"io"
	"os"
	"path/filepath"
	"testing"
	"time"
)

func hunt3Gzip(b []byte) []byte {
	var buf bytes.Buffer
	zw := gzip.NewWriter(&buf)
	zw.Write(b) //nolint:errcheck
	zw.Close()
	return buf.Bytes()
}

func hunt3Get(h HandlerFunc, path string) (int, string, []byte) {
	ctx := NewContext(0)
	ctx.Request.SetRequestURI("http://host" + path)
	ctx.Request.Header.Set("Accept-Encoding", "gzip")
	h(context.Background(), ctx)
	ce := string(ctx.Response.Header.Peek("Content-Encoding"))
	body, _ := ctx.Response.BodyE()
	if ce == "gzip" {
		if zr, err := gzip.NewReader(bytes.NewReader(body)); err == nil {
			body, _ = io.ReadAll(zr)
		}
	}
	return ctx.Response.StatusCode(), ce, body
}

// C08: the handler never serves anything outside the root. With FS.Compress a
// request for a DIRECTORY from a client that accepts gzip first looks for the
// "compressed copy" <directory><suffix>. For the root directory itself (request
// path "/") that name lies next to the root, outside of it.
func TestHunt3CompressedCopyOfTheRootDirectory(t *testing.T) {
	secret := []byte("SECRET: this file lies next to the root directory, not under it\n")

	setup := func(t *testing.T, sameTime bool) (HandlerFunc, string) {
		parent := t.TempDir()
		root := filepath.Join(parent, "www")
		if err := os.Mkdir(root, 0o755); err != nil {
			t.Fatal(err)
		}
		if err := os.WriteFile(filepath.Join(root, "hello.txt"), []byte("hello"), 0o644); err != nil {
			t.Fatal(err)
		}
		outside := root + ".hertz.gz" // <parent>/www.hertz.gz
		if err := os.WriteFile(outside, hunt3Gzip(secret), 0o644); err != nil {
			t.Fatal(err)
		}
		mt := time.Date(2024, 1, 2, 3, 4, 5, 0, time.UTC)
		os.Chtimes(root, mt, mt) //nolint:errcheck
		if !sameTime {
			mt = mt.Add(time.Hour)
		}
		os.Chtimes(outside, mt, mt) //nolint:errcheck
		fs := &FS{Root: root, Compress: true, GenerateIndexPages: true}
		return fs.NewRequestHandler(), outside
	}

	t.Run("served", func(t *testing.T) {
		h, _ := setup(t, true)
		st, ce, body := hunt3Get(h, "/")
		if bytes.Contains(body, secret[:20]) {
			t.Fatalf("GET / with Accept-Encoding: gzip was answered %d (Content-Encoding %q) with the bytes of <root>.hertz.gz, a file outside the root: %q", st, ce, body)
		}
		// what is expected: the generated index page of the root directory
		if st != 200 || !bytes.Contains(body, []byte("hello.txt")) {
			t.Fatalf("GET /: status %d body %q; want the index page of the root", st, body)
		}
	})

	t.Run("removed", func(t *testing.T) {
		h, outside := setup(t, false)
		st, _, body := hunt3Get(h, "/")
		if _, err := os.Stat(outside); err != nil {
			t.Fatalf("GET / with Accept-Encoding: gzip (answered %d): the file %s, outside the root, is gone: %v", st, outside, err)
		}
		if st != 200 || !bytes.Contains(body, []byte("hello.txt")) {
			t.Fatalf("GET /: status %d body %q; want the index page of the root", st, body)
		}
	})
}
