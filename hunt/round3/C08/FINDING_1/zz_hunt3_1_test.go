package app

import (
	"bytes"
	"context"
	"fmt"
	"os"
	"path/filepath"
	"strings"
	"testing"
)

// C08: a Range header that is valid and satisfiable (RFC 7233 section 2.1: a
// byte-range-set is a LIST of range specs; section 3.1: a range unit the server
// does not understand MUST be ignored) is answered with the requested bytes or,
// if the server does not want to honour it, with the whole file. 416 is for
// ranges that cannot be satisfied.
func TestHunt3RangeListAndUnit(t *testing.T) {
	root := t.TempDir()
	data := []byte("0123456789abcdefghijklmnopqrstuvwxyz")
	if err := os.WriteFile(filepath.Join(root, "f.bin"), data, 0o644); err != nil {
		t.Fatal(err)
	}
	fs := &FS{Root: root, AcceptByteRange: true}
	h := fs.NewRequestHandler()

	type tc struct {
		rng string
		// the single range the value denotes, if it denotes exactly one (-1: none)
		start, end int
	}
	cases := []tc{
		{"bytes=0-1,3-4", -1, -1},   // two ranges
		{"bytes=0-1, 3-4", -1, -1},  // the same with optional whitespace
		{"bytes=0-1,-2", -1, -1},    // a range and a suffix range
		{"bytes=0-1,", 0, 1},        // list with an empty element: one range
		{"bytes=,0-1", 0, 1},        //
		{"bytes=0-1 , ", 0, 1},      //
		{"Bytes=0-1", 0, 1},         // the unit token is case-insensitive
		{"items=0-1", -1, -1},       // another unit: MUST be ignored
		{"lines=1-2", -1, -1},       //
	}
	for _, method := range []string{"GET", "HEAD"} {
		for _, c := range cases {
			t.Run(fmt.Sprintf("%s/%s", method, c.rng), func(t *testing.T) {
				ctx := NewContext(0)
				ctx.Request.SetRequestURI("http://host/f.bin")
				ctx.Request.Header.SetMethod(method)
				ctx.Request.Header.Set("Range", c.rng)
				h(context.Background(), ctx)

				st := ctx.Response.StatusCode()
				cl := ctx.Response.Header.ContentLength()
				cr := string(ctx.Response.Header.Peek("Content-Range"))
				ct := string(ctx.Response.Header.Peek("Content-Type"))
				body, err := ctx.Response.BodyE()
				if err != nil {
					t.Fatalf("reading the body: %v", err)
				}
				switch {
				case st == 200:
					// the Range header was ignored: the whole file
					if cl != len(data) || cr != "" || (method == "GET" && !bytes.Equal(body, data)) {
						t.Fatalf("200 with Content-Length %d, Content-Range %q, body %q: not the whole file", cl, cr, body)
					}
				case st == 206 && strings.HasPrefix(ct, "multipart/byteranges"):
					// all ranges in one multipart body: fine, not checked further
				case st == 206 && c.start >= 0:
					want := data[c.start : c.end+1]
					wcr := fmt.Sprintf("bytes %d-%d/%d", c.start, c.end, len(data))
					if cl != len(want) || cr != wcr || (method == "GET" && !bytes.Equal(body, want)) {
						t.Fatalf("206 with Content-Length %d, Content-Range %q, body %q; want %q %q", cl, cr, body, wcr, want)
					}
				default:
					t.Fatalf("Range %q on a file of %d bytes (valid and satisfiable, or to be ignored): status %d, Content-Range %q, body %q; "+
						"want 206 with the requested bytes or 200 with the whole file", c.rng, len(data), st, cr, body)
				}
			})
		}
	}
}
