package app

import (
	"bytes"
	"context"
	"fmt"
	"net/http"
	"os"
	"path/filepath"
	"testing"
	"time"
)

// C08: the handler answers with the whole file or with the range RFC 7233
// prescribes. For a request that carries If-Range next to Range, RFC 7233
// section 3.2 prescribes the range only if the validator matches the file as it
// is now; otherwise the Range header MUST be ignored and the whole file sent
// (200). The handler never sends an entity-tag, so no entity-tag can match; a
// date matches only if it is exactly the Last-Modified date.
func TestHunt3IfRange(t *testing.T) {
	root := t.TempDir()
	data := bytes.Repeat([]byte("0123456789"), 2000) // a big file
	small := []byte("0123456789abcdefghijklmnopqrstuvwxyz")
	mtime := time.Date(2024, 5, 6, 7, 8, 9, 0, time.UTC)
	for name, b := range map[string][]byte{"big.bin": data, "small.bin": small} {
		p := filepath.Join(root, name)
		if err := os.WriteFile(p, b, 0o644); err != nil {
			t.Fatal(err)
		}
		if err := os.Chtimes(p, mtime, mtime); err != nil {
			t.Fatal(err)
		}
	}
	fs := &FS{Root: root, AcceptByteRange: true}
	h := fs.NewRequestHandler()

	do := func(name, method, ifRange string) (int, int, string, []byte) {
		ctx := NewContext(0)
		ctx.Request.SetRequestURI("http://host/" + name)
		ctx.Request.Header.SetMethod(method)
		ctx.Request.Header.Set("Range", "bytes=2-5")
		if ifRange != "" {
			ctx.Request.Header.Set("If-Range", ifRange)
		}
		h(context.Background(), ctx)
		st := ctx.Response.StatusCode()
		cl := ctx.Response.Header.ContentLength()
		cr := string(ctx.Response.Header.Peek("Content-Range"))
		body, err := ctx.Response.BodyE()
		if err != nil {
			t.Fatalf("reading the body: %v", err)
		}
		return st, cl, cr, body
	}

	for name, content := range map[string][]byte{"big.bin": data, "small.bin": small} {
		// control: the validator is the file's own Last-Modified date: the range
		lm := mtime.Format(http.TimeFormat)
		st, cl, cr, body := do(name, "GET", lm)
		if st != 206 || cl != 4 || !bytes.Equal(body, content[2:6]) || cr != fmt.Sprintf("bytes 2-5/%d", len(content)) {
			t.Errorf("%s, If-Range: %s (the Last-Modified date): status %d, Content-Length %d, Content-Range %q; want 206 with bytes 2-5", name, lm, st, cl, cr)
		}

		for _, v := range []string{
			`"v1-of-the-file"`,                               // strong entity-tag of another copy
			`W/"v1"`,                                         // weak entity-tag: never matches for If-Range
			mtime.Add(-24 * time.Hour).Format(http.TimeFormat), // the client's copy is a day older than the file
			mtime.Add(time.Second).Format(http.TimeFormat),   // not the Last-Modified date either
		} {
			for _, method := range []string{"GET", "HEAD"} {
				st, cl, cr, body := do(name, method, v)
				if st != 200 || cl != len(content) || cr != "" || (method == "GET" && !bytes.Equal(body, content)) {
					t.Errorf("%s %s, Range: bytes=2-5, If-Range: %s (does not match; Last-Modified is %s): status %d, Content-Length %d, Content-Range %q, %d body bytes; "+
						"want 200 and the whole file (%d bytes)", method, name, v, lm, st, cl, cr, len(body), len(content))
				}
			}
		}
	}
}
