package server

import (
	"bufio"
	"context"
	"io"
	"net"
	"net/http"
	"strings"
	"testing"
	"time"

	"github.com/cloudwego/hertz/internal/testutils"
	"github.com/cloudwego/hertz/pkg/app"
	"github.com/cloudwego/hertz/pkg/common/config"
	"github.com/cloudwego/hertz/pkg/network"
	"github.com/cloudwego/hertz/pkg/network/netpoll"
	"github.com/cloudwego/hertz/pkg/network/standard"
)

// C18: a request that is being handled when Shutdown is called must get a
// complete, untruncated response.
//
// One keep-alive connection. Request 1 is in its handler. The client has
// already put the beginning of its next request on the same connection (HTTP/1.1
// pipelining; a partial request line is enough). Shutdown is called, then the
// handler returns a 1 MiB body. The client is a slow reader: it starts reading
// only after Shutdown has returned, that is after the server has finished with
// the connection. Nothing here depends on how long anything takes.
//
// The response to request 1 is marked "Connection: close", so the server does
// not serve the next request; that is fine. But it must still deliver the whole
// response to request 1.
func TestHunt3C18_ResponseOfRequestInProgressIsCutWhenClientSentMoreBytes(t *testing.T) {
	const size = 1 << 20
	for _, tr := range []struct {
		name string
		f    func(options *config.Options) network.Transporter
	}{
		{"standard", standard.NewTransporter},
		{"netpoll", netpoll.NewTransporter},
	} {
		for _, next := range []struct{ name, bytes string }{
			{"whole-next-request", "GET /big HTTP/1.1\r\nHost: a\r\n\r\n"},
			{"begun-next-request", "GET /bi"},
		} {
			t.Run(tr.name+"/"+next.name, func(t *testing.T) {
				h := New(WithHostPorts("127.0.0.1:0"), WithTransport(tr.f), WithExitWaitTime(5*time.Second))
				entered := make(chan struct{}, 2)
				release := make(chan struct{})
				h.GET("/big", func(c context.Context, ctx *app.RequestContext) {
					entered <- struct{}{}
					<-release
					ctx.SetBodyString(strings.Repeat("x", size))
				})
				go h.Run()
				waitEngineRunning(h)
				defer h.Close()

				conn, err := net.Dial("tcp", testutils.GetListenerAddr(h))
				if err != nil {
					t.Fatal(err)
				}
				defer conn.Close()

				if _, err = conn.Write([]byte("GET /big HTTP/1.1\r\nHost: a\r\n\r\n")); err != nil {
					t.Fatal(err)
				}
				select {
				case <-entered:
				case <-time.After(5 * time.Second):
					t.Fatal("request 1 did not reach its handler")
				}
				// request 1 is in progress; the client goes on with its next request
				if _, err = conn.Write([]byte(next.bytes)); err != nil {
					t.Fatal(err)
				}

				shutdownDone := make(chan error, 1)
				go func() { shutdownDone <- h.Shutdown(context.Background()) }()
				// the handler returns after shutdown began
				for h.IsRunning() {
					time.Sleep(time.Millisecond)
				}
				close(release)

				// slow reader: does not touch the socket before Shutdown is back
				if err = <-shutdownDone; err != nil {
					t.Fatalf("Shutdown: %v", err)
				}

				conn.SetReadDeadline(time.Now().Add(10 * time.Second))
				resp, err := http.ReadResponse(bufio.NewReader(conn), nil)
				if err != nil {
					t.Fatalf("reading the response to request 1: %v", err)
				}
				body, err := io.ReadAll(resp.Body)
				if err != nil || len(body) != size {
					t.Fatalf("request 1 was in progress when Shutdown was called, its response is cut: got %d of %d body bytes, err=%v", len(body), size, err)
				}
				if !resp.Close {
					t.Errorf("response to request 1 carries no Connection: close")
				}
			})
		}
	}
}
