package server

// C03 hunt round 3, finding 1.
//
// A HEAD request that the protocol layer rejects while it reads the header block (bad
// Content-Length, a header name with a space, an invalid byte in a value...) is answered
// with "400 Bad Request" AND the 26 byte text "Error when parsing request". A response
// to HEAD ends with its header block; the 26 bytes are not part of any HTTP message.
//
// Commit 257105b ("the error response to a HEAD request whose body is refused carries no
// body") repaired exactly this for rejections that happen after the header has been read
// (413, malformed chunked body): Serve takes the method once req.ReadHeader has succeeded.
// When ReadHeader itself fails, the request line "HEAD /foo HTTP/1.1" has been parsed as
// well (the method is known, it is even printed in the error that is logged), but
// ReadHeader resets the header before it returns, isHead stays false and
// writeErrorResponse writes the body.

import (
	"bufio"
	"bytes"
	"context"
	"io"
	"net"
	"net/http"
	"testing"
	"time"

	"github.com/cloudwego/hertz/pkg/app"
	"github.com/cloudwego/hertz/pkg/common/config"
	"github.com/cloudwego/hertz/pkg/network"
	"github.com/cloudwego/hertz/pkg/network/netpoll"
	"github.com/cloudwego/hertz/pkg/network/standard"
)

func zzHunt31Exchange(t *testing.T, addr, request string) []byte {
	c, err := net.Dial("tcp", addr)
	if err != nil {
		t.Fatal(err)
	}
	defer c.Close()
	if _, err = c.Write([]byte(request)); err != nil {
		t.Fatal(err)
	}
	c.SetReadDeadline(time.Now().Add(5 * time.Second)) //nolint:errcheck
	out, _ := io.ReadAll(c)                            // the server closes after a rejection
	return out
}

func zzHunt31Run(t *testing.T, transporter func(options *config.Options) network.Transporter) {
	ln, err := net.Listen("tcp", "127.0.0.1:0")
	if err != nil {
		t.Fatal(err)
	}
	addr := ln.Addr().String()
	ln.Close()

	h := New(WithHostPorts(addr), WithTransport(transporter), WithExitWaitTime(10*time.Millisecond), WithDisablePrintRoute(true))
	handlerRuns := 0
	h.Any("/foo", func(c context.Context, ctx *app.RequestContext) {
		handlerRuns++
		ctx.String(http.StatusOK, "ok")
	})
	go h.Spin()
	defer h.Shutdown(context.Background()) //nolint:errcheck
	for i := 0; i < 300; i++ {
		c, err := net.Dial("tcp", addr)
		if err == nil {
			c.Close()
			break
		}
		time.Sleep(10 * time.Millisecond)
	}

	cases := []struct{ name, request string }{
		// control: rejected after the header has been read - repaired by 257105b
		{"control: body over the limit (413)", "HEAD /foo HTTP/1.1\r\nHost: example.com\r\nContent-Length: 99999999\r\n\r\n"},
		// rejected while the header block is read
		{"Content-Length that is not a number", "HEAD /foo HTTP/1.1\r\nHost: example.com\r\nContent-Length: x\r\n\r\n"},
		{"space in a header name", "HEAD /foo HTTP/1.1\r\nHost: example.com\r\nBad Name: x\r\n\r\n"},
		{"control byte in a header value", "HEAD /foo HTTP/1.1\r\nHost: example.com\r\nX-A: a\x01b\r\n\r\n"},
		{"forbidden trailer announced", "HEAD /foo HTTP/1.1\r\nHost: example.com\r\nTrailer: Content-Length\r\n\r\n"},
	}
	for _, tc := range cases {
		out := zzHunt31Exchange(t, addr, tc.request)
		br := bufio.NewReader(bytes.NewReader(out))
		// read the answer the way every client reads the answer to a HEAD request
		resp, err := http.ReadResponse(br, &http.Request{Method: http.MethodHead})
		if err != nil {
			t.Errorf("%s: the answer is not an HTTP response: %v\nreceived: %q", tc.name, err, out)
			continue
		}
		resp.Body.Close()
		if resp.StatusCode < 400 || resp.StatusCode > 499 {
			t.Errorf("%s: status %d, want a 4xx", tc.name, resp.StatusCode)
		}
		if !resp.Close {
			t.Errorf("%s: the %d does not carry Connection: close", tc.name, resp.StatusCode)
		}
		rest, _ := io.ReadAll(br)
		if len(rest) != 0 {
			t.Errorf("%s: the %d that answers a HEAD request is followed by %d bytes that belong to no HTTP message: %q\nreceived: %q",
				tc.name, resp.StatusCode, len(rest), rest, out)
		}
	}
	if handlerRuns != 0 {
		t.Errorf("the handler ran %d times for rejected requests", handlerRuns)
	}
}

func TestZZHunt3_1_HeadRejectedInHeaderBlock_Standard(t *testing.T) {
	zzHunt31Run(t, standard.NewTransporter)
}

func TestZZHunt3_1_HeadRejectedInHeaderBlock_Netpoll(t *testing.T) {
	zzHunt31Run(t, netpoll.NewTransporter)
}
