package protocol

import (
	"testing"
)

// C17 / hunt3 / finding 1
//
// URI.Update is one of the setters a URI is assembled with (a Location header, a link,
// a redirect target go through it: client.getRedirectURL is Update(base) + UpdateBytes(location)).
// Its documentation names the accepted reference forms:
//
//   - "Missing host, i.e. /aaa/bb?cc . In this case only RequestURI part of the original uri is replaced."
//   - "Relative path, i.e. xx?yy=abc . In this case the original RequestURI is updated according to the new relative path."
//   - "Absolute without scheme, i.e. //foobar.com/aaa/bb?cc. In this case the original scheme is preserved."
//
// updateBytes decides "absolute" by looking for "//" ANYWHERE in the reference, and for the
// scheme-less form it glues the raw scheme field (empty when the scheme is the implicit http)
// in front. The string form of the URI assembled this way parses back to another host/path.

type hunt3UpdateCase struct {
	name                          string
	build                         func(u *URI)
	ref                           string
	scheme, host, path, query, fr string
}

func TestHunt3_1_UpdateReferenceWithDoubleSlash(t *testing.T) {
	fromSetters := func(u *URI) {
		u.SetScheme("http")
		u.SetHost("a.com")
		u.SetPath("/dir/start")
	}
	cases := []hunt3UpdateCase{
		// a "//" that is not at the start of the reference does not introduce an authority
		{"host-less reference with a URL in its query", fromSetters, "/login?next=http://a.com/home", "http", "a.com", "/login", "next=http://a.com/home", ""},
		{"host-less reference with an empty path segment", fromSetters, "/x//y", "http", "a.com", "/x/y", "", ""},
		{"relative reference with // in its query", fromSetters, "page?u=//cdn.example/z", "http", "a.com", "/dir/page", "u=//cdn.example/z", ""},
		{"query-only reference with // in it", fromSetters, "?u=//cdn.example/z", "http", "a.com", "/dir/start", "u=//cdn.example/z", ""},
		{"fragment-only reference with // in it", fromSetters, "#sec//2", "http", "a.com", "/dir/start", "", "sec//2"},
		// the documented scheme-less absolute form on a URI whose scheme is the implicit one
		// (no SetScheme call; the same state a server-side request URI is in: Parse(host, "/p"))
		{"scheme-less absolute reference, scheme never set", func(u *URI) {
			u.SetHost("a.com")
			u.SetPath("/p")
		}, "//b.com/x?k=v", "http", "b.com", "/x", "k=v", ""},
		{"scheme-less absolute reference, URI parsed from Host + request target", func(u *URI) {
			u.Parse([]byte("a.com"), []byte("/p"))
		}, "//b.com/x?k=v", "http", "b.com", "/x", "k=v", ""},
	}
	for _, c := range cases {
		c := c
		t.Run(c.name, func(t *testing.T) {
			u := &URI{}
			c.build(u)
			u.Update(c.ref)
			full := append([]byte(nil), u.FullURI()...)

			var p URI
			p.Parse(nil, full)
			if string(p.Scheme()) != c.scheme || string(p.Host()) != c.host || string(p.Path()) != c.path ||
				string(p.QueryString()) != c.query || string(p.Hash()) != c.fr {
				t.Errorf("Update(%q): string form %q parses to scheme=%q host=%q path=%q query=%q fragment=%q,\nwant scheme=%q host=%q path=%q query=%q fragment=%q",
					c.ref, full, p.Scheme(), p.Host(), p.Path(), p.QueryString(), p.Hash(),
					c.scheme, c.host, c.path, c.query, c.fr)
			}
		})
	}
}
