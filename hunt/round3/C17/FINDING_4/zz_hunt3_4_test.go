package protocol

import (
	"testing"
)

// C17 / hunt3 / finding 4
//
// Cookie.AppendBytes writes the value verbatim; the parser (decodeCookieArg) trims outer
// spaces and then removes one pair of surrounding double quotes. hertz's own validity table for
// cookie values (bytesconv.ValidCookieValueTable, "equal to net/http validCookieValueByte")
// accepts the space, so SetValue does not even warn; net/http, from which the table was taken,
// writes such a value inside double quotes exactly so that it survives. A value that is itself
// a quoted string (a JSON string, an entity tag) loses its quotes the same way. None of this
// involves SetPath or percent-decoding (the known D93): the value is never decoded.

func TestHunt3_4_CookieValueWithOuterSpaceOrQuotes(t *testing.T) {
	for _, v := range []string{
		"a ",          // trailing space: valid per ValidCookieValueTable, no warning
		" a",          // leading space
		"two words ",  // a value net/http would write inside double quotes
		`"abc"`,       // a quoted string as the value, e.g. json.Marshal("abc") or an entity tag
		`"two words"`, // quotes and an inner space
	} {
		var c Cookie
		c.SetKey("k")
		c.SetValue(v)
		c.SetDomain("example.com")
		c.SetSecure(true)
		held := string(c.Value())
		s := append([]byte(nil), c.Cookie()...)

		var p Cookie
		if err := p.ParseBytes(s); err != nil {
			t.Errorf("value %q: string form %q does not parse: %v", v, s, err)
			continue
		}
		if got := string(p.Value()); got != held {
			t.Errorf("value %q: the cookie holds %q, its string form %q parses back with the value %q", v, held, s, got)
		}
		if string(p.Key()) != "k" || string(p.Domain()) != "example.com" || !p.Secure() {
			t.Errorf("value %q: %q: key/domain/secure parse back as %q %q %v", v, s, p.Key(), p.Domain(), p.Secure())
		}

		// the same string as a Set-Cookie header of a response
		var h ResponseHeader
		h.SetCookie(&c)
		var byKey Cookie
		byKey.SetKey("k")
		if !h.Cookie(&byKey) || string(byKey.Value()) != held {
			t.Errorf("value %q: read back from the response header the value is %q, want %q", v, byKey.Value(), held)
		}
	}
}
