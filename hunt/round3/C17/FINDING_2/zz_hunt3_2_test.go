package protocol

import (
	"testing"
)

// C17 / hunt3 / finding 2
//
// A URI has two views of its query: the raw string (SetQueryString / QueryString) and the
// argument list (QueryArgs). Since a3d9a85 ("URI.RequestURI writes the current query, not a
// stale one") the string form is written from whichever view is current. The getter
// URI.QueryString() (and Request.QueryString(), which forwards to it) was left behind: once
// QueryArgs() has been used it keeps returning the raw string from before the edits. The URI's
// own query getter then disagrees with the URI's own string form, and parsing the string form
// does not yield "the same query".

func TestHunt3_2_QueryStringGetterIsStaleAfterQueryArgsEdits(t *testing.T) {
	type step func(u *URI)
	cases := []struct {
		name  string
		steps []step
	}{
		{"argument deleted through QueryArgs", []step{
			func(u *URI) { u.SetQueryString("token=secret&a=1") },
			func(u *URI) { u.QueryArgs().Del("token") },
		}},
		{"query assembled only through QueryArgs", []step{
			func(u *URI) { u.QueryArgs().Add("a", "1") },
			func(u *URI) { u.QueryArgs().Add("b", "x y") },
		}},
		{"argument added to a raw query", []step{
			func(u *URI) { u.SetQueryString("a=1") },
			func(u *URI) { u.QueryArgs().Add("b", "2") },
		}},
		{"argument replaced through QueryArgs", []step{
			func(u *URI) { u.SetQueryString("page=1") },
			func(u *URI) { u.QueryArgs().Set("page", "2") },
		}},
		{"all arguments removed", []step{
			func(u *URI) { u.SetQueryString("a=1") },
			func(u *URI) { u.QueryArgs().Reset() },
		}},
	}
	for _, c := range cases {
		c := c
		t.Run(c.name, func(t *testing.T) {
			u := &URI{}
			u.SetScheme("http")
			u.SetHost("example.com")
			u.SetPath("/p")
			for _, s := range c.steps {
				s(u)
			}
			own := string(u.QueryString())
			full := append([]byte(nil), u.FullURI()...)

			var p URI
			p.Parse(nil, full)
			if got := string(p.QueryString()); got != own {
				t.Errorf("the URI says its query is %q (QueryString()), its string form is %q, and parsing that yields the query %q", own, full, got)
			}
		})
	}
}
