package protocol

import (
	"testing"
	"time"
)

// C17 / hunt3 / finding 3
//
// Max-Age is one of the cookie's attributes and SetMaxAge takes any int. A value below zero is
// the usual way to say "expire this cookie now" (net/http: MaxAge<0 is written as "Max-Age=0";
// gin: c.SetCookie(name, "", -1, ...); RFC 6265 5.2.2: delta-seconds <= 0 is the earliest time).
// Cookie.AppendBytes writes the attribute only when maxAge > 0, so the string form of such a
// cookie carries no expiry at all: parsing it back yields MaxAge 0 and no Expires, a session
// cookie. (The parser has the matching gap: "Max-Age=-1" makes ParseBytes fail with
// "unexpected trailing char" and drop every attribute that follows.)

func TestHunt3_3_NegativeMaxAgeIsLostInTheStringForm(t *testing.T) {
	for _, seconds := range []int{-1, -3600} {
		var c Cookie
		c.SetKey("session")
		c.SetValue("")
		c.SetMaxAge(seconds)
		c.SetPath("/")
		c.SetHTTPOnly(true)
		s := append([]byte(nil), c.Cookie()...)

		var p Cookie
		if err := p.ParseBytes(s); err != nil {
			t.Errorf("SetMaxAge(%d): string form %q does not parse: %v", seconds, s, err)
			continue
		}
		// "the same attribute": a cookie that is held as already expired parses back as already
		// expired (whatever number a repair settles on for "in the past": net/http reads -1)
		expired := func(x *Cookie) bool {
			return x.MaxAge() < 0 || (!x.Expire().IsZero() && x.Expire().Before(time.Now()))
		}
		if expired(&c) != expired(&p) {
			t.Errorf("SetMaxAge(%d): the cookie holds MaxAge()=%d, its string form %q parses back with MaxAge()=%d, Expire()=%v (no expiry at all)",
				seconds, c.MaxAge(), s, p.MaxAge(), p.Expire())
		}
		if string(p.Path()) != "/" || !p.HTTPOnly() {
			t.Errorf("SetMaxAge(%d): %q: the other attributes parse back as path=%q httponly=%v", seconds, s, p.Path(), p.HTTPOnly())
		}
	}
}
