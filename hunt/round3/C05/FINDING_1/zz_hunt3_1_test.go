package zzhunt3

// C05 hunt 3, finding 1.
//
// The trailer section of a chunked message is handed to the connection with
// WriteBinary(t.Header()): t.Header() is the Trailer's own scratch buffer
// (t.bufKV.value), and a block of 4 KiB or more is kept BY REFERENCE until the flush.
// Between that write and the flush hertz calls the Close method of the body stream
// (application code). Trailer.Set / Trailer.Add stage the RAW value in the very same
// buffer (initHeaderKV(&t.bufKV, ...)), so a trailer set there - with CR LF in the
// value - overwrites the beginning of the trailer section that is still waiting to be
// sent: the value reaches the wire unfiltered, line breaks included.
//
// The header block had exactly this defect and was repaired (resp.WriteHeader and
// req.WriteHeader copy the block); ext.WriteTrailer was left out.

import (
	"bufio"
	"bytes"
	"context"
	"fmt"
	"io"
	"net"
	"strings"
	"testing"
	"time"

	"github.com/cloudwego/hertz/pkg/app"
	"github.com/cloudwego/hertz/pkg/app/client"
	"github.com/cloudwego/hertz/pkg/app/server"
	"github.com/cloudwego/hertz/pkg/common/config"
	"github.com/cloudwego/hertz/pkg/network/standard"
	"github.com/cloudwego/hertz/pkg/protocol"
)

const lateValue = "v\r\nX-Injected: 1\r\n\r\nHTTP/1.1 200 OK\r\nContent-Length: 3\r\n\r\nabc"

// closeStream is a body stream whose Close sets one more trailer (too late to be
// sent, which is fine - but its bytes must not reach the wire as line breaks).
type closeStream struct {
	r       io.Reader
	onClose func()
}

func (s *closeStream) Read(p []byte) (int, error) { return s.r.Read(p) }
func (s *closeStream) Close() error                { s.onClose(); return nil }

func isTokenByte(c byte) bool {
	if c >= 'a' && c <= 'z' || c >= 'A' && c <= 'Z' || c >= '0' && c <= '9' {
		return true
	}
	return strings.IndexByte("!#$%&'*+-.^_`|~", c) >= 0
}

// checkTrailerSection reads, strictly, what follows the last chunk: field lines ended
// by CRLF up to an empty line, and then nothing. It returns the field names.
func checkTrailerSection(t *testing.T, who string, afterLastChunk []byte) {
	t.Helper()
	rest := afterLastChunk
	var names []string
	for {
		i := bytes.Index(rest, []byte("\r\n"))
		if i < 0 {
			t.Fatalf("%s: trailer section is not terminated: %q", who, snippet(rest))
		}
		line := rest[:i]
		rest = rest[i+2:]
		if len(line) == 0 {
			break
		}
		if bytes.ContainsAny(line, "\r\n") {
			t.Fatalf("%s: bare CR or LF inside a trailer line: %q", who, snippet(line))
		}
		c := bytes.IndexByte(line, ':')
		if c <= 0 {
			t.Fatalf("%s: a line of the trailer section is not a field line: %q", who, snippet(line))
		}
		for _, b := range line[:c] {
			if !isTokenByte(b) {
				t.Fatalf("%s: a line of the trailer section is not a field line: %q", who, snippet(line))
			}
		}
		names = append(names, string(line[:c]))
	}
	for _, n := range names {
		if n != "X-Sig" && n != "X-Late" {
			t.Errorf("%s: the trailer section has a field %q that the application never set (fields: %v)", who, n, names)
		}
	}
	if len(rest) != 0 {
		t.Errorf("%s: %d bytes follow the end of the message, beginning with %q", who, len(rest), snippet(rest))
	}
}

func snippet(b []byte) string {
	if len(b) > 100 {
		return string(b[:100]) + "..."
	}
	return string(b)
}

func freeAddr(t *testing.T) string {
	l, err := net.Listen("tcp", "127.0.0.1:0")
	if err != nil {
		t.Fatal(err)
	}
	defer l.Close()
	return l.Addr().String()
}

// The response written by the server.
func TestHunt3_1_ResponseTrailerSetInStreamClose(t *testing.T) {
	for _, tr := range []string{"default", "standard"} {
		t.Run(tr, func(t *testing.T) {
			addr := freeAddr(t)
			opts := []config.Option{server.WithHostPorts(addr), server.WithExitWaitTime(10 * time.Millisecond)}
			if tr == "standard" {
				opts = append(opts, server.WithTransport(standard.NewTransporter))
			}
			h := server.New(opts...)
			h.GET("/s", func(c context.Context, ctx *app.RequestContext) {
				// e.g. a signature over the body
				ctx.Response.Header.Trailer().Set("X-Sig", strings.Repeat("s", 5000))
				ctx.SetBodyStream(&closeStream{r: strings.NewReader("hello"), onClose: func() {
					ctx.Response.Header.Trailer().Set("X-Late", lateValue)
				}}, -1)
			})
			go h.Spin()
			defer h.Shutdown(context.Background())

			var conn net.Conn
			var err error
			for i := 0; i < 300; i++ {
				if conn, err = net.Dial("tcp", addr); err == nil {
					break
				}
				time.Sleep(10 * time.Millisecond)
			}
			if err != nil {
				t.Fatal(err)
			}
			defer conn.Close()
			fmt.Fprintf(conn, "GET /s HTTP/1.1\r\nHost: x\r\nConnection: close\r\n\r\n")
			conn.SetReadDeadline(time.Now().Add(10 * time.Second))
			wire, _ := io.ReadAll(conn)
			i := bytes.Index(wire, []byte("\r\n5\r\nhello\r\n0\r\n"))
			if i < 0 {
				t.Fatalf("unexpected response: %q", snippet(wire))
			}
			checkTrailerSection(t, "response", wire[i+len("\r\n5\r\nhello\r\n0\r\n"):])
		})
	}
}

// The request written by the client.
func TestHunt3_1_RequestTrailerSetInStreamClose(t *testing.T) {
	l, err := net.Listen("tcp", "127.0.0.1:0")
	if err != nil {
		t.Fatal(err)
	}
	defer l.Close()
	wireCh := make(chan []byte, 1)
	go func() {
		c, err := l.Accept()
		if err != nil {
			return
		}
		defer c.Close()
		// read up to the end of the declared trailer (5000 's'), then answer; the rest
		// of what the client sent on this connection is collected until it closes
		var wire []byte
		br := bufio.NewReader(c)
		buf := make([]byte, 4096)
		answered := false
		for {
			c.SetReadDeadline(time.Now().Add(3 * time.Second))
			n, err := br.Read(buf)
			wire = append(wire, buf[:n]...)
			if !answered && bytes.Contains(wire, []byte("\r\n0\r\n")) && bytes.HasSuffix(wire, []byte("\r\n\r\n")) {
				answered = true
				io.WriteString(c, "HTTP/1.1 200 OK\r\nContent-Length: 0\r\nConnection: close\r\n\r\n")
			}
			if err != nil {
				break
			}
		}
		wireCh <- wire
	}()

	c, err := client.NewClient(client.WithDialer(standard.NewDialer()))
	if err != nil {
		t.Fatal(err)
	}
	req, resp := protocol.AcquireRequest(), protocol.AcquireResponse()
	req.SetRequestURI("http://" + l.Addr().String() + "/upload")
	req.Header.SetMethod("POST")
	req.SetConnectionClose()
	req.Header.Trailer().Set("X-Sig", strings.Repeat("s", 5000))
	req.SetBodyStream(&closeStream{r: strings.NewReader("hello"), onClose: func() {
		req.Header.Trailer().Set("X-Late", lateValue)
	}}, -1)
	if err := c.Do(context.Background(), req, resp); err != nil {
		t.Logf("Do: %v", err)
	}
	c.CloseIdleConnections()
	var wire []byte
	select {
	case wire = <-wireCh:
	case <-time.After(10 * time.Second):
		t.Fatal("the peer did not finish reading")
	}
	i := bytes.Index(wire, []byte("\r\n5\r\nhello\r\n0\r\n"))
	if i < 0 {
		t.Fatalf("unexpected request: %q", snippet(wire))
	}
	checkTrailerSection(t, "request", wire[i+len("\r\n5\r\nhello\r\n0\r\n"):])
}
