package binding

import (
	"testing"

	"github.com/cloudwego/hertz/pkg/common/test/mock"
	"github.com/cloudwego/hertz/pkg/protocol"
	"github.com/cloudwego/hertz/pkg/protocol/http1/req"
)

func hunt3_3_request(t *testing.T, raw string) *protocol.Request {
	t.Helper()
	r := &protocol.Request{}
	if err := req.Read(r, mock.NewZeroCopyReader(raw)); err != nil {
		t.Fatalf("cannot parse the request: %v", err)
	}
	return r
}

// C15: a field is filled from the first source that is named in its tags AND
// present in the request. The query string is a source of its own (tag `query`).
// The scalar form getter nevertheless answers a `form:"a"` tag from the query
// string, so a value from a source the field does not name beats the sources it
// does name. The slice getter for the very same tag does not do that.
func TestHunt3_3_ScalarFormFieldIsFilledFromTheQueryString(t *testing.T) {
	// a urlencoded body without "a"; "a" only in the query string; the cookie carries "c"
	const raw = "POST /p?a=from-query&b=from-b HTTP/1.1\r\nHost: example.com\r\nCookie: c=from-cookie\r\n" +
		"Content-Type: application/x-www-form-urlencoded\r\nContent-Length: 7\r\n\r\nother=1"

	type Slices struct {
		A []string `form:"a" cookie:"c"`
	}
	var s Slices
	if err := Bind(hunt3_3_request(t, raw), &s, nil); err != nil {
		t.Fatal(err)
	}
	if len(s.A) != 1 || s.A[0] != "from-cookie" {
		t.Errorf("[]string `form:\"a\" cookie:\"c\"`: got %q, want [from-cookie]", s.A)
	}

	type Scalars struct {
		A string  `form:"a" cookie:"c"`
		P *string `form:"a" cookie:"c"`
		B string  `form:"a" query:"b"`
		Z string  `form:"a"`
	}
	var v Scalars
	if err := Bind(hunt3_3_request(t, raw), &v, nil); err != nil {
		t.Fatal(err)
	}
	if v.A != "from-cookie" {
		t.Errorf("string `form:\"a\" cookie:\"c\"`: no form value \"a\", cookie c present: got %q, want \"from-cookie\"", v.A)
	}
	if v.P == nil || *v.P != "from-cookie" {
		got := "<nil>"
		if v.P != nil {
			got = *v.P
		}
		t.Errorf("*string `form:\"a\" cookie:\"c\"`: got %q, want \"from-cookie\"", got)
	}
	if v.B != "from-b" {
		t.Errorf("string `form:\"a\" query:\"b\"`: no form value \"a\", query b present: got %q, want \"from-b\"", v.B)
	}
	if v.Z != "" {
		t.Errorf("string `form:\"a\"`: the request has no form value \"a\": got %q, want the zero value", v.Z)
	}

	type Must struct {
		A int `form:"a,required"`
	}
	var m Must
	rawInt := "POST /p?a=5 HTTP/1.1\r\nHost: example.com\r\nContent-Type: application/x-www-form-urlencoded\r\nContent-Length: 7\r\n\r\nother=1"
	if err := Bind(hunt3_3_request(t, rawInt), &m, nil); err == nil {
		t.Errorf("int `form:\"a,required\"`: the form has no \"a\": want a 'required' error, got nil and A=%d (taken from the query string)", m.A)
	}
	type MustSlice struct {
		A []int `form:"a,required"`
	}
	var ms MustSlice
	if err := Bind(hunt3_3_request(t, rawInt), &ms, nil); err == nil {
		t.Errorf("[]int `form:\"a,required\"`: want a 'required' error, got nil and %v", ms.A)
	}
}
