package binding

import (
	"fmt"
	"testing"

	"github.com/cloudwego/hertz/pkg/common/test/mock"
	"github.com/cloudwego/hertz/pkg/protocol"
	"github.com/cloudwego/hertz/pkg/protocol/http1/req"
)

func hunt3_4_request(t *testing.T, target, extraHeaders, body string) *protocol.Request {
	t.Helper()
	raw := fmt.Sprintf("POST %s HTTP/1.1\r\nHost: example.com\r\n%sContent-Type: application/json\r\nContent-Length: %d\r\n\r\n%s",
		target, extraHeaders, len(body), body)
	r := &protocol.Request{}
	if err := req.Read(r, mock.NewZeroCopyReader(raw)); err != nil {
		t.Fatalf("cannot parse the request: %v", err)
	}
	return r
}

// C15: a field is filled from the first source that is NAMED IN ITS TAGS and
// present; a field whose tags name only the header (query, cookie, path) has
// nothing to do with the JSON body. The binder decodes the body into the whole
// struct before it looks at the tags, and the JSON decoder matches untagged fields
// by their Go name (case-insensitively): any client can fill a header-only,
// cookie-only or query-only field from the body.
func TestHunt3_4_JSONBodyFillsFieldsThatDoNotNameJSON(t *testing.T) {
	type Req struct {
		UserID  int64    `header:"X-User-Id"`
		Role    string   `cookie:"role"`
		Page    *int     `query:"page"`
		Tenants []string `path:"tenant"`
		Limit   int      `query:"limit" default:"20"`
		Note    string   `json:"note"`
	}
	body := `{"userid":1,"Role":"admin","page":9,"TENANTS":["t1","t2"],"limit":100000,"note":"hello"}`
	var v Req
	if err := Bind(hunt3_4_request(t, "/orders", "", body), &v, nil); err != nil {
		t.Fatalf("unexpected error: %v", err)
	}
	if v.Note != "hello" {
		t.Errorf("sanity: the json-tagged field: got %q, want \"hello\"", v.Note)
	}
	if v.UserID != 0 {
		t.Errorf("int64 `header:\"X-User-Id\"`: the request has no such header: got %d, want 0", v.UserID)
	}
	if v.Role != "" {
		t.Errorf("string `cookie:\"role\"`: the request has no cookie: got %q, want \"\"", v.Role)
	}
	if v.Page != nil {
		t.Errorf("*int `query:\"page\"`: the request has no query string: got %d, want nil", *v.Page)
	}
	if v.Tenants != nil {
		t.Errorf("[]string `path:\"tenant\"`: there are no path parameters: got %q, want nil", v.Tenants)
	}
	if v.Limit != 20 {
		t.Errorf("int `query:\"limit\" default:\"20\"`: no query string: got %d, want the default 20", v.Limit)
	}

	// the sources that ARE named still win when present, which shows the binder knows the tags
	var w Req
	if err := Bind(hunt3_4_request(t, "/orders?page=2&limit=5", "X-User-Id: 42\r\nCookie: role=user\r\n", body), &w, nil); err != nil {
		t.Fatalf("unexpected error: %v", err)
	}
	if w.UserID != 42 || w.Role != "user" || w.Page == nil || *w.Page != 2 || w.Limit != 5 {
		t.Errorf("named sources present: got %+v", w)
	}
}
