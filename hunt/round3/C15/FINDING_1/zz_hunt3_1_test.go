package route

import (
	"context"
	"sync/atomic"
	"testing"

	"github.com/cloudwego/hertz/pkg/app"
	"github.com/cloudwego/hertz/pkg/common/config"
	"github.com/cloudwego/hertz/pkg/common/test/mock"
	"github.com/cloudwego/hertz/pkg/protocol/consts"
)

// C15: a field tagged `header:"X-Token"` is bound from the X-Token header of the
// request. Header field names are case-insensitive, so "x-token: v" carries it.
// On a server started with WithDisableHeaderNamesNormalizing(true) the slice getter
// (repaired to compare case-insensitively) finds the header, the scalar getter
// (RequestHeader.Peek, exact match when normalizing is off) does not.
func hunt3ServeOnce(t *testing.T, disableNormalizing bool, raw string, h app.HandlerFunc) {
	t.Helper()
	opts := config.NewOptions([]config.Option{{F: func(o *config.Options) {
		// what server.WithDisableHeaderNamesNormalizing(disableNormalizing) does
		o.DisableHeaderNamesNormalizing = disableNormalizing
	}}})
	engine := NewEngine(opts)
	atomic.StoreUint32(&engine.status, statusRunning)
	engine.Init()
	engine.GET("/bind", h)
	conn := mock.NewConn(raw)
	_ = engine.Serve(context.Background(), conn) // "Connection: close": returns after one request
}

func TestHunt3_1_ScalarHeaderFieldWithHeaderNamesNormalizingDisabled(t *testing.T) {
	type Req struct {
		Token  string   `header:"X-Token"`
		Tokens []string `header:"X-Token"`
	}
	type ReqMust struct {
		Must *string `header:"X-Token,required"`
	}
	const raw = "GET /bind HTTP/1.1\r\nHost: example.com\r\nx-token: secret\r\nConnection: close\r\n\r\n"

	for _, disable := range []bool{false, true} {
		var (
			called bool
			got    Req
			must   ReqMust
			err    error
			errM   error
		)
		hunt3ServeOnce(t, disable, raw, func(c context.Context, ctx *app.RequestContext) {
			called = true
			err = ctx.Bind(&got)
			errM = ctx.Bind(&must)
			ctx.String(consts.StatusOK, "ok")
		})
		if !called {
			t.Fatalf("DisableHeaderNamesNormalizing=%v: handler not called", disable)
		}
		if err != nil {
			t.Errorf("DisableHeaderNamesNormalizing=%v: the request carries x-token, Bind must not fail: %v", disable, err)
			continue
		}
		if len(got.Tokens) != 1 || got.Tokens[0] != "secret" {
			t.Errorf("DisableHeaderNamesNormalizing=%v: []string field: got %q, want [secret]", disable, got.Tokens)
		}
		if got.Token != "secret" {
			t.Errorf("DisableHeaderNamesNormalizing=%v: string field with the same tag: got %q, want \"secret\"", disable, got.Token)
		}
		if errM != nil {
			t.Errorf("DisableHeaderNamesNormalizing=%v: *string required field: the header is there, got error: %v", disable, errM)
		} else if must.Must == nil || *must.Must != "secret" {
			t.Errorf("DisableHeaderNamesNormalizing=%v: *string required field: got %v, want \"secret\"", disable, must.Must)
		}
	}
}
