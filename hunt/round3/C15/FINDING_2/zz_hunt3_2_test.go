package binding

import (
	"fmt"
	"testing"

	"github.com/cloudwego/hertz/pkg/common/test/mock"
	"github.com/cloudwego/hertz/pkg/protocol"
	"github.com/cloudwego/hertz/pkg/protocol/http1/req"
)

func hunt3_2_request(t *testing.T, body string) *protocol.Request {
	t.Helper()
	raw := fmt.Sprintf("POST /u HTTP/1.1\r\nHost: example.com\r\nContent-Type: application/json\r\nContent-Length: %d\r\n\r\n%s", len(body), body)
	r := &protocol.Request{}
	if err := req.Read(r, mock.NewZeroCopyReader(raw)); err != nil {
		t.Fatalf("cannot parse the request: %v", err)
	}
	return r
}

// C15: a missing required value is an error, not a silent zero. A field tagged
// `header:"X-User-Id,required" json:"-"` names one source, the header; `json:"-"`
// says the field is NOT taken from the JSON body (and the body decoder obeys).
// Yet a body key spelled like the Go field name makes the binder drop the
// pending 'required' error: Bind returns nil and the field is zero.
func TestHunt3_2_SkippedJSONTagSatisfiesRequired(t *testing.T) {
	type Req struct {
		UserID int `header:"X-User-Id,required" json:"-"`
	}
	// sanity: without the body key the missing header is reported
	var r0 Req
	if err := Bind(hunt3_2_request(t, `{"name":"x"}`), &r0, nil); err == nil {
		t.Fatalf("sanity: missing required header not reported, got %+v", r0)
	}

	var r1 Req
	err := Bind(hunt3_2_request(t, `{"UserID":7}`), &r1, nil)
	if err == nil {
		t.Errorf("int field: header X-User-Id is absent and json is \"-\": want a 'required' error, got nil and %+v", r1)
	}

	type ReqPtr struct {
		UserID *string `query:"uid,required" json:"-"`
	}
	var r2 ReqPtr
	err = Bind(hunt3_2_request(t, `{"UserID":"7"}`), &r2, nil)
	if err == nil {
		t.Errorf("*string field: query uid is absent and json is \"-\": want a 'required' error, got nil and UserID=%v", r2.UserID)
	}

	type ReqSlice struct {
		IDs []int `query:"id,required" json:"-"`
	}
	var r3 ReqSlice
	err = Bind(hunt3_2_request(t, `{"IDs":[1,2]}`), &r3, nil)
	if err == nil {
		t.Errorf("[]int field: query id is absent and json is \"-\": want a 'required' error, got nil and %+v", r3)
	}
}

// Same cause, other symptom: the declared default is withheld because of a body
// key the field is not bound from.
func TestHunt3_2_SkippedJSONTagWithholdsDefault(t *testing.T) {
	type Req struct {
		Limit int `query:"limit" json:"-" default:"20"`
	}
	var r0 Req
	if err := Bind(hunt3_2_request(t, `{"x":1}`), &r0, nil); err != nil || r0.Limit != 20 {
		t.Fatalf("sanity: want Limit=20, got %+v err=%v", r0, err)
	}
	var r1 Req
	err := Bind(hunt3_2_request(t, `{"Limit":500}`), &r1, nil)
	if err != nil {
		t.Fatalf("unexpected error: %v", err)
	}
	if r1.Limit != 20 {
		t.Errorf("no source named in the tags carries a value: want the default 20, got %d", r1.Limit)
	}
}
