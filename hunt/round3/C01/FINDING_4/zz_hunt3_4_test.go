package server

// hunt3 / C01 / finding 4
//
// Optional whitespace is SP / HTAB, also around the elements of a list field
// (RFC 7230 7: #element => element *( OWS "," OWS element )). The header scanner
// was taught to strip tabs around a whole field value, but Trailer.SetTrailers
// still trims only blanks around the names of the Trailer list. With
// "Trailer: X-A,<TAB>X-B" the second name is declared as "<TAB>X-B": the value of
// the trailer field X-B that arrives behind the chunked body matches no declared
// name and is dropped, the handler gets X-A only (and a Trailer header that names
// "\tx-B").

import (
	"bufio"
	"context"
	"fmt"
	"io"
	"net"
	"net/http"
	"strings"
	"testing"
	"time"

	"github.com/cloudwego/hertz/internal/testutils"
	"github.com/cloudwego/hertz/pkg/app"
	"github.com/cloudwego/hertz/pkg/network/netpoll"
	"github.com/cloudwego/hertz/pkg/network/standard"
)

func h3f4Run(t *testing.T, h *Hertz, wire string, want int) []string {
	h.Any("/*p", func(c context.Context, ctx *app.RequestContext) {
		var body []byte
		if ctx.Request.IsBodyStream() {
			// the trailer section is read when the stream reaches its end
			body, _ = io.ReadAll(ctx.RequestBodyStream())
		} else {
			body = ctx.Request.Body()
		}
		tr := ctx.Request.Header.Trailer()
		ctx.SetBodyString(fmt.Sprintf("%s body=%q x-a=%q x-b=%q", ctx.Request.Header.RequestURI(), body, tr.Peek("X-A"), tr.Peek("X-B")))
	})
	go h.Spin()
	waitEngineRunning(h)
	defer func() {
		ctx, cancel := context.WithTimeout(context.Background(), time.Second)
		defer cancel()
		_ = h.Shutdown(ctx)
	}()
	c, err := net.Dial("tcp", testutils.GetListenerAddr(h))
	if err != nil {
		t.Fatal(err)
	}
	defer c.Close()
	if _, err = c.Write([]byte(wire)); err != nil {
		t.Fatal(err)
	}
	_ = c.SetReadDeadline(time.Now().Add(3 * time.Second))
	br := bufio.NewReader(c)
	var got []string
	for len(got) < want {
		resp, err := http.ReadResponse(br, nil)
		if err != nil {
			break
		}
		b, _ := io.ReadAll(resp.Body)
		got = append(got, fmt.Sprintf("%d %s", resp.StatusCode, b))
	}
	return got
}

func TestHunt3TabInTrailerList(t *testing.T) {
	// first request: HTAB as optional whitespace in the list; second (control): SP
	wire := "POST /one HTTP/1.1\r\nHost: x\r\nTrailer: X-A,\tX-B\r\nTransfer-Encoding: chunked\r\n\r\n" +
		"3\r\nabc\r\n0\r\nX-A: 1\r\nX-B: 2\r\n\r\n" +
		"POST /two HTTP/1.1\r\nHost: x\r\nTrailer: X-A, X-B\r\nTransfer-Encoding: chunked\r\n\r\n" +
		"3\r\nabc\r\n0\r\nX-A: 1\r\nX-B: 2\r\n\r\n"
	want := []string{
		`200 /one body="abc" x-a="1" x-b="2"`,
		`200 /two body="abc" x-a="1" x-b="2"`,
	}
	cases := []struct {
		name string
		h    func() *Hertz
	}{
		{"standard-buffered", func() *Hertz {
			return New(WithHostPorts("127.0.0.1:0"), WithTransport(standard.NewTransporter), WithExitWaitTime(10*time.Millisecond))
		}},
		{"standard-streaming", func() *Hertz {
			return New(WithHostPorts("127.0.0.1:0"), WithTransport(standard.NewTransporter), WithStreamBody(true), WithExitWaitTime(10*time.Millisecond))
		}},
		{"netpoll-streaming", func() *Hertz {
			return New(WithHostPorts("127.0.0.1:0"), WithTransport(netpoll.NewTransporter), WithStreamBody(true), WithExitWaitTime(10*time.Millisecond))
		}},
	}
	for _, tc := range cases {
		got := h3f4Run(t, tc.h(), wire, len(want))
		if strings.Join(got, "\n") != strings.Join(want, "\n") {
			t.Errorf("%s: handler saw\n  %s\nwant\n  %s", tc.name, strings.Join(got, "\n  "), strings.Join(want, "\n  "))
		}
	}
}
