package server

// hunt3 / C01 / finding 3
//
// hertz unfolds obs-folded header values ("X-A: v\r\n cont"), but when the
// continuation line contains a ':' the header scanner takes it for the next
// header line. Its "name" then starts with the blank of the fold, the request is
// answered 400 and the connection closed: the handler never sees a well-formed
// request, and the pipelined request behind it is lost.

import (
	"bufio"
	"context"
	"fmt"
	"io"
	"net"
	"net/http"
	"strings"
	"testing"
	"time"

	"github.com/cloudwego/hertz/internal/testutils"
	"github.com/cloudwego/hertz/pkg/app"
	"github.com/cloudwego/hertz/pkg/network/netpoll"
	"github.com/cloudwego/hertz/pkg/network/standard"
)

func h3f3Run(t *testing.T, h *Hertz, wire string, want int) []string {
	h.Any("/*p", func(c context.Context, ctx *app.RequestContext) {
		var body []byte
		if ctx.Request.IsBodyStream() {
			body, _ = io.ReadAll(ctx.RequestBodyStream())
		} else {
			body = ctx.Request.Body()
		}
		ctx.SetBodyString(fmt.Sprintf("%s %s body=%q x-info=%q", ctx.Request.Header.Method(), ctx.Request.Header.RequestURI(), body, ctx.Request.Header.Peek("X-Info")))
	})
	go h.Spin()
	waitEngineRunning(h)
	defer func() {
		ctx, cancel := context.WithTimeout(context.Background(), time.Second)
		defer cancel()
		_ = h.Shutdown(ctx)
	}()
	c, err := net.Dial("tcp", testutils.GetListenerAddr(h))
	if err != nil {
		t.Fatal(err)
	}
	defer c.Close()
	if _, err = c.Write([]byte(wire)); err != nil {
		t.Fatal(err)
	}
	_ = c.SetReadDeadline(time.Now().Add(3 * time.Second))
	br := bufio.NewReader(c)
	var got []string
	for len(got) < want {
		resp, err := http.ReadResponse(br, nil)
		if err != nil {
			break
		}
		b, _ := io.ReadAll(resp.Body)
		got = append(got, fmt.Sprintf("%d %s", resp.StatusCode, b))
	}
	return got
}

func TestHunt3FoldedValueWithColon(t *testing.T) {
	wire := "POST /one HTTP/1.1\r\nHost: x\r\nX-Info: crawler/1.0\r\n (+http://example.com/bot)\r\nContent-Length: 3\r\n\r\nabc" +
		"GET /two HTTP/1.1\r\nHost: x\r\n\r\n"
	want := []string{
		`200 POST /one body="abc" x-info="crawler/1.0 (+http://example.com/bot)"`,
		`200 GET /two body="" x-info=""`,
	}
	cases := []struct {
		name string
		h    func() *Hertz
	}{
		{"standard-buffered", func() *Hertz {
			return New(WithHostPorts("127.0.0.1:0"), WithTransport(standard.NewTransporter), WithExitWaitTime(10*time.Millisecond))
		}},
		{"standard-streaming", func() *Hertz {
			return New(WithHostPorts("127.0.0.1:0"), WithTransport(standard.NewTransporter), WithStreamBody(true), WithExitWaitTime(10*time.Millisecond))
		}},
		{"netpoll-buffered", func() *Hertz {
			return New(WithHostPorts("127.0.0.1:0"), WithTransport(netpoll.NewTransporter), WithExitWaitTime(10*time.Millisecond))
		}},
	}
	for _, tc := range cases {
		got := h3f3Run(t, tc.h(), wire, len(want))
		if strings.Join(got, "\n") != strings.Join(want, "\n") {
			t.Errorf("%s: the two pipelined requests were answered\n  %s\nwant\n  %s", tc.name, strings.Join(got, "\n  "), strings.Join(want, "\n  "))
		}
	}

	// control: the same fold without a colon in the continuation line is accepted
	ctl := strings.Replace(wire, "http://", "http//", 1)
	got := h3f3Run(t, cases[0].h(), ctl, 2)
	if len(got) != 2 || !strings.HasPrefix(got[0], "200 ") {
		t.Logf("control (no colon in the continuation line) answered %v", got)
	}
}
