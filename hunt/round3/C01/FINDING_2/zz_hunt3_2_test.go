package server

// hunt3 / C01 / finding 2
//
// A header field may be repeated; for a list field such as Trailer the lines
// combine (RFC 7230 3.2.2): "Trailer: X-A" + "Trailer: X-B" declares both.
// parseHeaders hands every Trailer line to Trailer.SetTrailers, which starts by
// forgetting what was declared before. Only the names of the last Trailer line
// survive, and because the trailer section is matched against the declared names,
// the value of every trailer field declared on an earlier line is dropped: the
// handler sees "Trailer: X-B, X-C" and no X-A at all, although all three were sent.

import (
	"bufio"
	"context"
	"fmt"
	"io"
	"net"
	"net/http"
	"strings"
	"testing"
	"time"

	"github.com/cloudwego/hertz/internal/testutils"
	"github.com/cloudwego/hertz/pkg/app"
	"github.com/cloudwego/hertz/pkg/network/netpoll"
	"github.com/cloudwego/hertz/pkg/network/standard"
)

func h3f2Run(t *testing.T, h *Hertz, wire string, want int) []string {
	h.Any("/*p", func(c context.Context, ctx *app.RequestContext) {
		var body []byte
		if ctx.Request.IsBodyStream() {
			// the trailer section is read when the stream reaches its end
			body, _ = io.ReadAll(ctx.RequestBodyStream())
		} else {
			body = ctx.Request.Body()
		}
		tr := ctx.Request.Header.Trailer()
		ctx.SetBodyString(fmt.Sprintf("%s body=%q x-a=%q x-b=%q x-c=%q", ctx.Request.Header.RequestURI(), body,
			tr.Peek("X-A"), tr.Peek("X-B"), tr.Peek("X-C")))
	})
	go h.Spin()
	waitEngineRunning(h)
	defer func() {
		ctx, cancel := context.WithTimeout(context.Background(), time.Second)
		defer cancel()
		_ = h.Shutdown(ctx)
	}()
	c, err := net.Dial("tcp", testutils.GetListenerAddr(h))
	if err != nil {
		t.Fatal(err)
	}
	defer c.Close()
	if _, err = c.Write([]byte(wire)); err != nil {
		t.Fatal(err)
	}
	_ = c.SetReadDeadline(time.Now().Add(3 * time.Second))
	br := bufio.NewReader(c)
	var got []string
	for len(got) < want {
		resp, err := http.ReadResponse(br, nil)
		if err != nil {
			break
		}
		b, _ := io.ReadAll(resp.Body)
		got = append(got, fmt.Sprintf("%d %s", resp.StatusCode, b))
	}
	return got
}

func TestHunt3RepeatedTrailerHeader(t *testing.T) {
	// first request: the declaration is spread over two Trailer lines;
	// second request (control): the same declaration on one line
	wire := "POST /one HTTP/1.1\r\nHost: x\r\nTrailer: X-A\r\nTrailer: X-B, X-C\r\nTransfer-Encoding: chunked\r\n\r\n" +
		"3\r\nabc\r\n0\r\nX-A: 1\r\nX-B: 2\r\nX-C: 3\r\n\r\n" +
		"POST /two HTTP/1.1\r\nHost: x\r\nTrailer: X-A, X-B, X-C\r\nTransfer-Encoding: chunked\r\n\r\n" +
		"3\r\nabc\r\n0\r\nX-A: 1\r\nX-B: 2\r\nX-C: 3\r\n\r\n"
	want := []string{
		`200 /one body="abc" x-a="1" x-b="2" x-c="3"`,
		`200 /two body="abc" x-a="1" x-b="2" x-c="3"`,
	}
	cases := []struct {
		name string
		h    func() *Hertz
	}{
		{"standard-buffered", func() *Hertz {
			return New(WithHostPorts("127.0.0.1:0"), WithTransport(standard.NewTransporter), WithExitWaitTime(10*time.Millisecond))
		}},
		{"standard-streaming", func() *Hertz {
			return New(WithHostPorts("127.0.0.1:0"), WithTransport(standard.NewTransporter), WithStreamBody(true), WithExitWaitTime(10*time.Millisecond))
		}},
		{"netpoll-streaming", func() *Hertz {
			return New(WithHostPorts("127.0.0.1:0"), WithTransport(netpoll.NewTransporter), WithStreamBody(true), WithExitWaitTime(10*time.Millisecond))
		}},
	}
	for _, tc := range cases {
		got := h3f2Run(t, tc.h(), wire, len(want))
		if strings.Join(got, "\n") != strings.Join(want, "\n") {
			t.Errorf("%s: handler saw\n  %s\nwant\n  %s", tc.name, strings.Join(got, "\n  "), strings.Join(want, "\n  "))
		}
	}
}
