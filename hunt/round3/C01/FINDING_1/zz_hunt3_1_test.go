package server

// hunt3 / C01 / finding 1
//
// A Content-Length field whose value starts on an obs-fold continuation line
//
//	Content-Length:\r\n 3\r\n
//
// is a well-formed (RFC 7230 3.2.4: field-value = *( field-content / obs-fold ))
// and unambiguous framing header: unfolded it reads "Content-Length: 3". hertz
// accepts folded values in general, but here it answers 400 and closes the
// connection, so the handler is not invoked and the pipelined request behind the
// message is lost. The same defect leaves a leading blank in the value of any other
// field folded that way ("X-A:\r\n v" is delivered as " v").

import (
	"bufio"
	"context"
	"fmt"
	"io"
	"net"
	"net/http"
	"strings"
	"testing"
	"time"

	"github.com/cloudwego/hertz/internal/testutils"
	"github.com/cloudwego/hertz/pkg/app"
	"github.com/cloudwego/hertz/pkg/network/netpoll"
	"github.com/cloudwego/hertz/pkg/network/standard"
)

func h3f1Run(t *testing.T, h *Hertz, wire string, want int) []string {
	h.Any("/*p", func(c context.Context, ctx *app.RequestContext) {
		var body []byte
		if ctx.Request.IsBodyStream() {
			body, _ = io.ReadAll(ctx.RequestBodyStream())
		} else {
			body = ctx.Request.Body()
		}
		ctx.SetBodyString(fmt.Sprintf("%s %s body=%q x-a=%q", ctx.Request.Header.Method(), ctx.Request.Header.RequestURI(), body, ctx.Request.Header.Peek("X-A")))
	})
	go h.Spin()
	waitEngineRunning(h)
	defer func() {
		ctx, cancel := context.WithTimeout(context.Background(), time.Second)
		defer cancel()
		_ = h.Shutdown(ctx)
	}()
	c, err := net.Dial("tcp", testutils.GetListenerAddr(h))
	if err != nil {
		t.Fatal(err)
	}
	defer c.Close()
	if _, err = c.Write([]byte(wire)); err != nil {
		t.Fatal(err)
	}
	_ = c.SetReadDeadline(time.Now().Add(3 * time.Second))
	br := bufio.NewReader(c)
	var got []string
	for len(got) < want {
		resp, err := http.ReadResponse(br, nil)
		if err != nil {
			break
		}
		b, _ := io.ReadAll(resp.Body)
		got = append(got, fmt.Sprintf("%d %s", resp.StatusCode, b))
	}
	return got
}

func TestHunt3FoldedContentLength(t *testing.T) {
	wire := "POST /one HTTP/1.1\r\nHost: x\r\nX-A:\r\n v\r\nContent-Length:\r\n 3\r\n\r\nabc" +
		"GET /two HTTP/1.1\r\nHost: x\r\n\r\n"
	want := []string{
		`200 POST /one body="abc" x-a="v"`,
		`200 GET /two body="" x-a=""`,
	}
	cases := []struct {
		name string
		h    func() *Hertz
	}{
		{"standard-buffered", func() *Hertz {
			return New(WithHostPorts("127.0.0.1:0"), WithTransport(standard.NewTransporter), WithExitWaitTime(10*time.Millisecond))
		}},
		{"standard-streaming", func() *Hertz {
			return New(WithHostPorts("127.0.0.1:0"), WithTransport(standard.NewTransporter), WithStreamBody(true), WithExitWaitTime(10*time.Millisecond))
		}},
		{"netpoll-buffered", func() *Hertz {
			return New(WithHostPorts("127.0.0.1:0"), WithTransport(netpoll.NewTransporter), WithExitWaitTime(10*time.Millisecond))
		}},
	}
	for _, tc := range cases {
		got := h3f1Run(t, tc.h(), wire, len(want))
		if strings.Join(got, "\n") != strings.Join(want, "\n") {
			t.Errorf("%s: the two pipelined requests were answered\n  %s\nwant\n  %s", tc.name, strings.Join(got, "\n  "), strings.Join(want, "\n  "))
		}
	}
}
