package http1_test

// C10 hunt 3, finding 3: a response without Content-Length and without chunked framing is
// delimited by the end of the connection. When such a response says "Connection: keep-alive"
// the buffered client reads the body until the read FAILS (EOF, or the read timeout, which
// readBodyIdentity swallows) and then puts that connection back into the pool.
// With ResponseBodyStream the same response closes the connection.

import (
	"bufio"
	"context"
	"fmt"
	"net"
	"strings"
	"sync"
	"testing"
	"time"

	"github.com/cloudwego/hertz/pkg/network"
	"github.com/cloudwego/hertz/pkg/network/netpoll"
	"github.com/cloudwego/hertz/pkg/network/standard"
	"github.com/cloudwego/hertz/pkg/protocol"
	"github.com/cloudwego/hertz/pkg/protocol/http1"
)

type h33Peer struct {
	ln    net.Listener
	mu    sync.Mutex
	conns []net.Conn
}

func h33NewPeer(t *testing.T, handler func(i int, c net.Conn, br *bufio.Reader)) *h33Peer {
	ln, err := net.Listen("tcp", "127.0.0.1:0")
	if err != nil {
		t.Fatal(err)
	}
	p := &h33Peer{ln: ln}
	go func() {
		for i := 0; ; i++ {
			c, err := ln.Accept()
			if err != nil {
				return
			}
			p.mu.Lock()
			p.conns = append(p.conns, c)
			p.mu.Unlock()
			go handler(i, c, bufio.NewReader(c))
		}
	}()
	t.Cleanup(func() {
		ln.Close()
		p.mu.Lock()
		for _, c := range p.conns {
			c.Close()
		}
		p.mu.Unlock()
	})
	return p
}

// reads one request (head and Content-Length body), returns the request line
func h33ReadReq(br *bufio.Reader) (string, error) {
	first, cl := "", 0
	for {
		l, err := br.ReadString('\n')
		if err != nil {
			return first, err
		}
		if first == "" {
			first = strings.TrimSpace(l)
		}
		if strings.HasPrefix(strings.ToLower(l), "content-length:") {
			fmt.Sscanf(strings.TrimSpace(l[len("content-length:"):]), "%d", &cl)
		}
		if l == "\r\n" {
			break
		}
	}
	for ; cl > 0; cl-- {
		if _, err := br.ReadByte(); err != nil {
			return first, err
		}
	}
	return first, nil
}

func h33Dialers() map[string]network.Dialer {
	return map[string]network.Dialer{"standard": standard.NewDialer(), "netpoll": netpoll.NewDialer()}
}

// The peer answers the first request without any length, "Connection: keep-alive", and
// ends the body the only way it can: it closes. The client has read that EOF. It must not
// keep the connection; it does, and the next request (a POST, not repeatable) is sent
// into the dead connection and fails.
func TestHunt3C10_3_ConnectionClosedByPeerGoesBackToPool(t *testing.T) {
	for name, d := range h33Dialers() {
		d := d
		t.Run(name, func(t *testing.T) {
			p := h33NewPeer(t, func(i int, c net.Conn, br *bufio.Reader) {
				for {
					line, err := h33ReadReq(br)
					if err != nil {
						return
					}
					if strings.Contains(line, "/nolength") {
						fmt.Fprintf(c, "HTTP/1.1 200 OK\r\nConnection: keep-alive\r\n\r\nhello")
						c.Close()
						return
					}
					fmt.Fprintf(c, "HTTP/1.1 200 OK\r\nContent-Length: 2\r\n\r\nok")
				}
			})
			hc := http1.NewHostClient(&http1.ClientOptions{Dialer: d, MaxConns: 2}).(*http1.HostClient)
			hc.Addr = p.ln.Addr().String()
			base := "http://" + hc.Addr

			req, resp := protocol.AcquireRequest(), protocol.AcquireResponse()
			req.SetRequestURI(base + "/nolength")
			if err := hc.Do(context.Background(), req, resp); err != nil {
				t.Fatalf("first call: %v", err)
			}
			if string(resp.Body()) != "hello" {
				t.Fatalf("first call: body %q", resp.Body())
			}
			if st := hc.ConnPoolState(); st.PoolConnNum != 0 || st.TotalConnNum != 0 {
				t.Errorf("the body was ended by the peer closing the connection, and the connection is kept for reuse: "+
					"idle in pool=%d, counted=%d (want 0, 0)", st.PoolConnNum, st.TotalConnNum)
			}
			req.Reset()
			req.SetRequestURI(base + "/post")
			req.Header.SetMethod("POST")
			req.SetBodyString("a=1")
			if err := hc.Do(context.Background(), req, resp); err != nil {
				t.Errorf("the next call (POST) was given the dead connection: %v", err)
			}
		})
	}
}

// Same response, but the peer stalls inside the body for longer than the read timeout.
// The timeout is swallowed: Do returns nil with the part of the body that had arrived and
// the connection, on which that exchange is still going on, is put back. The next call is
// answered with what the peer goes on sending for the FIRST request.
func TestHunt3C10_3_ConnectionGoesBackToPoolAfterReadTimeout(t *testing.T) {
	p := h33NewPeer(t, func(i int, c net.Conn, br *bufio.Reader) {
		for {
			line, err := h33ReadReq(br)
			if err != nil {
				return
			}
			if strings.Contains(line, "/nolength") {
				fmt.Fprintf(c, "HTTP/1.1 200 OK\r\nConnection: keep-alive\r\n\r\nfirst part of body one;")
				time.Sleep(1500 * time.Millisecond) // read timeout is 200 ms
				// body one goes on (any bytes are body bytes here), then the peer closes
				fmt.Fprintf(c, "HTTP/1.1 200 OK\r\nContent-Length: 30\r\n\r\nthis is still part of body one")
				time.Sleep(1500 * time.Millisecond)
				c.Close()
				return
			}
			fmt.Fprintf(c, "HTTP/1.1 200 OK\r\nContent-Length: 8\r\n\r\nbody two")
		}
	})
	hc := http1.NewHostClient(&http1.ClientOptions{Dialer: standard.NewDialer(), MaxConns: 2,
		ReadTimeout: 200 * time.Millisecond}).(*http1.HostClient)
	hc.Addr = p.ln.Addr().String()
	base := "http://" + hc.Addr

	req, resp := protocol.AcquireRequest(), protocol.AcquireResponse()
	req.SetRequestURI(base + "/nolength")
	err1 := hc.Do(context.Background(), req, resp)
	st := hc.ConnPoolState()
	if st.PoolConnNum != 0 {
		t.Errorf("first call returned err=%v body=%q after the read timed out inside the body, "+
			"and its connection was put back for reuse (idle in pool=%d)", err1, resp.Body(), st.PoolConnNum)
	}
	// let the rest of body one arrive, then ask for something else
	time.Sleep(1700 * time.Millisecond)
	req.Reset()
	req.SetRequestURI(base + "/two")
	if err := hc.DoTimeout(context.Background(), req, resp, 3*time.Second); err != nil {
		t.Errorf("second call: %v", err)
	} else if string(resp.Body()) != "body two" {
		t.Errorf("second call (GET /two) returned body %q, want \"body two\": it was answered with bytes of the first exchange", resp.Body())
	}
}
