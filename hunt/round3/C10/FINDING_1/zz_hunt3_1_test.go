package http1_test

// C10 hunt 3, finding 1: GetTimeout / GetDeadline (HostClient and pkg/app/client.Client,
// both through protocol/client.GetURLDeadline) abandon the exchange at the deadline
// instead of ending it. The exchange goes on in a goroutine of its own, without any
// timeout, on the caller's dst buffer.

import (
	"bufio"
	"context"
	"fmt"
	"net"
	"strings"
	"sync"
	"testing"
	"time"

	"github.com/cloudwego/hertz/pkg/network"
	"github.com/cloudwego/hertz/pkg/network/netpoll"
	"github.com/cloudwego/hertz/pkg/network/standard"
	"github.com/cloudwego/hertz/pkg/protocol"
	"github.com/cloudwego/hertz/pkg/protocol/http1"
)

type h31Peer struct {
	ln    net.Listener
	mu    sync.Mutex
	conns []net.Conn
}

func h31NewPeer(t *testing.T, handler func(i int, c net.Conn, br *bufio.Reader)) *h31Peer {
	ln, err := net.Listen("tcp", "127.0.0.1:0")
	if err != nil {
		t.Fatal(err)
	}
	p := &h31Peer{ln: ln}
	go func() {
		for i := 0; ; i++ {
			c, err := ln.Accept()
			if err != nil {
				return
			}
			p.mu.Lock()
			p.conns = append(p.conns, c)
			p.mu.Unlock()
			go handler(i, c, bufio.NewReader(c))
		}
	}()
	t.Cleanup(func() {
		ln.Close()
		p.mu.Lock()
		for _, c := range p.conns {
			c.Close()
		}
		p.mu.Unlock()
	})
	return p
}

// h31ReadHead reads one request without body and returns its request line.
func h31ReadHead(br *bufio.Reader) (string, error) {
	first := ""
	for {
		l, err := br.ReadString('\n')
		if err != nil {
			return first, err
		}
		if first == "" {
			first = strings.TrimSpace(l)
		}
		if l == "\r\n" {
			return first, nil
		}
	}
}

func h31Dialers() map[string]network.Dialer {
	return map[string]network.Dialer{"standard": standard.NewDialer(), "netpoll": netpoll.NewDialer()}
}

func h31Settled(hc *http1.HostClient) (bool, string) {
	st := hc.ConnPoolState()
	ok := hc.PendingRequests() == 0 && st.TotalConnNum == st.PoolConnNum && st.WaitConnNum == 0
	return ok, fmt.Sprintf("PendingRequests=%d counted connections=%d idle in pool=%d waiters=%d",
		hc.PendingRequests(), st.TotalConnNum, st.PoolConnNum, st.WaitConnNum)
}

// The peer takes the request and says nothing ("stall past the read timeout"). The call
// returns errTimeout at its deadline, as it must. From then on no call is running, yet the
// connection stays counted and busy and the pending-request gauge stays at 1 for as long as
// the peer keeps the connection: with MaxConns = 1 every later call is refused.
func TestHunt3C10_1_GetTimeoutLeavesExchangeRunning(t *testing.T) {
	for name, d := range h31Dialers() {
		d := d
		t.Run(name, func(t *testing.T) {
			p := h31NewPeer(t, func(i int, c net.Conn, br *bufio.Reader) {
				for {
					line, err := h31ReadHead(br)
					if err != nil {
						return
					}
					if strings.Contains(line, "/stall") {
						select {} // never answers, never closes
					}
					fmt.Fprintf(c, "HTTP/1.1 200 OK\r\nContent-Length: 2\r\n\r\nok")
				}
			})
			hc := http1.NewHostClient(&http1.ClientOptions{Dialer: d, MaxConns: 1}).(*http1.HostClient)
			hc.Addr = p.ln.Addr().String()
			base := "http://" + hc.Addr

			_, _, err := hc.GetTimeout(context.Background(), nil, base+"/stall", 200*time.Millisecond)
			if err == nil {
				t.Fatalf("the peer never answered, GetTimeout returned no error")
			}
			// every call has returned: the pool has to settle
			deadline := time.Now().Add(3 * time.Second)
			ok, desc := h31Settled(hc)
			for !ok && time.Now().Before(deadline) {
				time.Sleep(20 * time.Millisecond)
				ok, desc = h31Settled(hc)
			}
			if !ok {
				t.Errorf("3 s after GetTimeout(200 ms) returned %q and with no call running: %s "+
					"(want: gauge 0, every counted connection idle in the pool or closed)", err, desc)
			}
			req, resp := protocol.AcquireRequest(), protocol.AcquireResponse()
			req.SetRequestURI(base + "/next")
			if err := hc.DoTimeout(context.Background(), req, resp, 2*time.Second); err != nil {
				t.Errorf("the next call to the same host (MaxConns=1): %v", err)
			}
		})
	}
}

// Same helper, second consequence. The call that timed out has returned, its dst buffer is
// the caller's again; the caller uses it for the next call, which succeeds. Then the slow
// response of the FIRST request arrives and the abandoned exchange reads it into that
// buffer: the body the second call returned turns into the body of the first request.
func TestHunt3C10_1_GetTimeoutWritesCallersBufferAfterReturn(t *testing.T) {
	release := make(chan struct{})
	p := h31NewPeer(t, func(i int, c net.Conn, br *bufio.Reader) {
		for {
			line, err := h31ReadHead(br)
			if err != nil {
				return
			}
			if strings.Contains(line, "/slow") {
				<-release
				fmt.Fprintf(c, "HTTP/1.1 200 OK\r\nContent-Length: 8\r\n\r\nAAAAAAAA")
				continue
			}
			fmt.Fprintf(c, "HTTP/1.1 200 OK\r\nContent-Length: 8\r\n\r\nBBBBBBBB")
		}
	})
	hc := http1.NewHostClient(&http1.ClientOptions{Dialer: standard.NewDialer(), MaxConns: 2}).(*http1.HostClient)
	hc.Addr = p.ln.Addr().String()
	base := "http://" + hc.Addr

	buf := make([]byte, 0, 64)
	_, _, err := hc.GetTimeout(context.Background(), buf, base+"/slow", 200*time.Millisecond)
	if err == nil {
		t.Fatalf("first call: expected a timeout")
	}
	_, body, err := hc.GetTimeout(context.Background(), buf[:0], base+"/fast", 5*time.Second)
	if err != nil {
		t.Fatalf("second call: %v", err)
	}
	if string(body) != "BBBBBBBB" {
		t.Fatalf("second call returned %q", body)
	}
	// now the answer to the first request comes in
	close(release)
	deadline := time.Now().Add(3 * time.Second)
	for hc.PendingRequests() != 0 && time.Now().Before(deadline) {
		time.Sleep(10 * time.Millisecond)
	}
	time.Sleep(50 * time.Millisecond)
	if string(body) != "BBBBBBBB" {
		t.Errorf("the body returned for /fast was \"BBBBBBBB\" and now reads %q: the exchange of the call "+
			"that had timed out (and returned) wrote the response to /slow into the caller's buffer", body)
	}
}
