package http1_test

// C10 hunt 3, finding 2: an https request through a proxy (HostClient.ProxyURI set, IsTLS).
// The CONNECT exchange and the TLS handshake with the target run inside the dial
// (proxy.SetupProxy, dialer.AddTLS) and are bounded by none of the client's timeouts;
// when the handshake fails the connection to the proxy is not closed.

import (
	"bufio"
	"context"
	"crypto/tls"
	"net"
	"sync"
	"testing"
	"time"

	"github.com/cloudwego/hertz/pkg/network/standard"
	"github.com/cloudwego/hertz/pkg/protocol"
	"github.com/cloudwego/hertz/pkg/protocol/http1"
)

type h32Peer struct {
	ln    net.Listener
	mu    sync.Mutex
	conns []net.Conn
}

func h32NewPeer(t *testing.T, handler func(c net.Conn, br *bufio.Reader)) *h32Peer {
	ln, err := net.Listen("tcp", "127.0.0.1:0")
	if err != nil {
		t.Fatal(err)
	}
	p := &h32Peer{ln: ln}
	go func() {
		for {
			c, err := ln.Accept()
			if err != nil {
				return
			}
			p.mu.Lock()
			p.conns = append(p.conns, c)
			p.mu.Unlock()
			go handler(c, bufio.NewReader(c))
		}
	}()
	t.Cleanup(func() {
		ln.Close()
		p.mu.Lock()
		for _, c := range p.conns {
			c.Close()
		}
		p.mu.Unlock()
	})
	return p
}

func h32ReadHead(br *bufio.Reader) error {
	for {
		l, err := br.ReadString('\n')
		if err != nil {
			return err
		}
		if l == "\r\n" {
			return nil
		}
	}
}

func h32Client(proxyAddr string, o *http1.ClientOptions) *http1.HostClient {
	o.Dialer = standard.NewDialer() // the dialer that supports TLS
	o.TLSConfig = &tls.Config{InsecureSkipVerify: true}
	hc := http1.NewHostClient(o).(*http1.HostClient)
	hc.Addr = "target.invalid:443"
	hc.IsTLS = true
	hc.ProxyURI = protocol.ParseURI("http://" + proxyAddr)
	return hc
}

// Every timeout the client has is set to 300 ms: dial, read, write and the whole-request
// timeout of DoTimeout. The proxy (or the target behind the tunnel) stalls. The call has
// to come back after about 300 ms; it is still blocked after 5 s (1 minute when CONNECT
// is not answered, for ever when the tunnel is open and the target does not start TLS).
func TestHunt3C10_2_ProxyStallIgnoresEveryTimeout(t *testing.T) {
	for _, mode := range []string{"CONNECT is not answered", "tunnel open, no TLS ServerHello"} {
		mode := mode
		t.Run(mode, func(t *testing.T) {
			p := h32NewPeer(t, func(c net.Conn, br *bufio.Reader) {
				if h32ReadHead(br) != nil {
					return
				}
				if mode != "CONNECT is not answered" {
					c.Write([]byte("HTTP/1.1 200 Connection established\r\n\r\n"))
				}
				select {} // stall, keep the connection
			})
			hc := h32Client(p.ln.Addr().String(), &http1.ClientOptions{
				MaxConns:     1,
				DialTimeout:  300 * time.Millisecond,
				ReadTimeout:  300 * time.Millisecond,
				WriteTimeout: 300 * time.Millisecond,
			})
			req, resp := protocol.AcquireRequest(), protocol.AcquireResponse()
			req.SetRequestURI("https://target.invalid/x")
			done := make(chan error, 1)
			start := time.Now()
			go func() { done <- hc.DoTimeout(context.Background(), req, resp, 300*time.Millisecond) }()
			select {
			case err := <-done:
				if err == nil {
					t.Fatalf("no error from a peer that never answered")
				}
				t.Logf("returned %v after %v", err, time.Since(start))
			case <-time.After(5 * time.Second):
				st := hc.ConnPoolState()
				t.Errorf("DoTimeout(300 ms) with DialTimeout = ReadTimeout = WriteTimeout = 300 ms has not returned after 5 s "+
					"(PendingRequests=%d, counted connections=%d of MaxConns=1)", hc.PendingRequests(), st.TotalConnNum)
			}
		})
	}
}

// The tunnel is open, what comes through it is not TLS (the same path is taken when the
// certificate of the target is refused). Do returns the handshake error; the connection
// to the proxy is neither in the pool nor closed: the proxy never sees it end.
func TestHunt3C10_2_ProxyTLSFailureLeavesConnectionOpen(t *testing.T) {
	ended := make(chan error, 1)
	p := h32NewPeer(t, func(c net.Conn, br *bufio.Reader) {
		if h32ReadHead(br) != nil {
			return
		}
		c.Write([]byte("HTTP/1.1 200 Connection established\r\n\r\n"))
		c.Write([]byte("this is not a TLS record at all\r\n\r\n"))
		buf := make([]byte, 4096)
		for {
			if _, err := br.Read(buf); err != nil {
				ended <- err // EOF or reset: the client gave the connection up
				return
			}
		}
	})
	hc := h32Client(p.ln.Addr().String(), &http1.ClientOptions{MaxConns: 1})
	req, resp := protocol.AcquireRequest(), protocol.AcquireResponse()
	req.SetRequestURI("https://target.invalid/x")
	err := hc.Do(context.Background(), req, resp)
	if err == nil {
		t.Fatalf("expected a TLS handshake error")
	}
	st := hc.ConnPoolState()
	if st.TotalConnNum != 0 || st.PoolConnNum != 0 {
		t.Fatalf("unexpected pool state %+v", st)
	}
	select {
	case <-ended:
	case <-time.After(3 * time.Second):
		t.Errorf("Do returned %q, the pool counts no connection, and 3 s later the TCP connection to the proxy is still open "+
			"(neither idle in the pool nor closed)", err)
	}
}
