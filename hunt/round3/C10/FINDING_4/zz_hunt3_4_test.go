package http1_test

// C10 hunt 3, finding 4: with a retry configuration (RetryConfig + RetryIfFunc) the pause
// between two attempts is a plain time.Sleep that does not look at the whole-request
// timeout: DoTimeout / WithRequestTimeout returns after the sum of the retry delays.

import (
	"bufio"
	"context"
	"net"
	"sync"
	"sync/atomic"
	"testing"
	"time"

	"github.com/cloudwego/hertz/pkg/app/client/retry"
	"github.com/cloudwego/hertz/pkg/network"
	"github.com/cloudwego/hertz/pkg/network/netpoll"
	"github.com/cloudwego/hertz/pkg/network/standard"
	"github.com/cloudwego/hertz/pkg/protocol"
	"github.com/cloudwego/hertz/pkg/protocol/http1"
)

// The peer takes the request and closes before the first response byte. The client is
// configured to retry failed GETs twice, 3 s apart. The call is given 300 ms
// (DoTimeout). It has to return after about 300 ms; it returns after 6 s: it sleeps 3 s,
// finds its time used up (errTimeout without sending), asks the retry function again,
// sleeps another 3 s.
func TestHunt3C10_4_RetryDelayIgnoresRequestTimeout(t *testing.T) {
	for name, d := range map[string]network.Dialer{"standard": standard.NewDialer(), "netpoll": netpoll.NewDialer()} {
		d := d
		t.Run(name, func(t *testing.T) {
			ln, err := net.Listen("tcp", "127.0.0.1:0")
			if err != nil {
				t.Fatal(err)
			}
			defer ln.Close()
			var sent int32
			var wg sync.WaitGroup
			go func() {
				for {
					c, err := ln.Accept()
					if err != nil {
						return
					}
					wg.Add(1)
					go func() {
						defer wg.Done()
						br := bufio.NewReader(c)
						for {
							l, err := br.ReadString('\n')
							if err != nil {
								break
							}
							if l == "\r\n" {
								atomic.AddInt32(&sent, 1)
								break
							}
						}
						c.Close() // close before first byte
					}()
				}
			}()

			hc := http1.NewHostClient(&http1.ClientOptions{
				Dialer:   d,
				MaxConns: 1,
				RetryConfig: &retry.Config{
					MaxAttemptTimes: 3,
					Delay:           3 * time.Second,
					DelayPolicy:     retry.FixedDelayPolicy,
				},
				RetryIfFunc: func(req *protocol.Request, resp *protocol.Response, err error) bool {
					return err != nil && req.Header.IsGet()
				},
			}).(*http1.HostClient)
			hc.Addr = ln.Addr().String()

			req, resp := protocol.AcquireRequest(), protocol.AcquireResponse()
			req.SetRequestURI("http://" + hc.Addr + "/x")
			start := time.Now()
			err = hc.DoTimeout(context.Background(), req, resp, 300*time.Millisecond)
			elapsed := time.Since(start)
			if err == nil {
				t.Fatalf("expected an error")
			}
			// 2 s is far beyond any scheduling slack on 300 ms, and the 3 s pause is a hard lower
			// bound of what the unchanged code takes: load on the machine cannot explain the outcome
			if elapsed > 2*time.Second {
				t.Errorf("DoTimeout(300 ms) returned %q after %v (request written %d time(s))", err, elapsed.Round(10*time.Millisecond), atomic.LoadInt32(&sent))
			}
		})
	}
}
