package server

// C14 hunt round 3, finding 1.
//
// With request-body streaming enabled a handler (or a middleware and then the
// handler) may ask for the body with ctx.Body() more than once. When the first
// call fails in the middle of the body (the peer went away inside it, or the read
// timeout struck while the rest was still on its way) it returns the error, but a
// second ctx.Body() returns the part that happened to be copied so far with a nil
// error: a truncated body is handed out as the complete body.
//
// The property demands that end-of-stream is reported exactly at the end of the
// body: once the stream has failed inside the body, no later read of the same
// request may report a clean end there.

import (
	"context"
	"fmt"
	"io"
	"net"
	"strings"
	"testing"
	"time"

	"github.com/cloudwego/hertz/pkg/app"
	"github.com/cloudwego/hertz/pkg/common/config"
	"github.com/cloudwego/hertz/pkg/network/netpoll"
	"github.com/cloudwego/hertz/pkg/network/standard"
)

func h31FreeAddr(t *testing.T) string {
	ln, err := net.Listen("tcp", "127.0.0.1:0")
	if err != nil {
		t.Fatal(err)
	}
	defer ln.Close()
	return ln.Addr().String()
}

func h31Start(t *testing.T, opts ...config.Option) string {
	addr := h31FreeAddr(t)
	o := append([]config.Option{
		WithHostPorts(addr), WithStreamBody(true),
		WithExitWaitTime(10 * time.Millisecond), WithDisablePrintRoute(true),
	}, opts...)
	h := New(o...)
	h.POST("/twice", func(c context.Context, ctx *app.RequestContext) {
		b1, e1 := ctx.Body() // e.g. a logging / verifying middleware
		b2, e2 := ctx.Body() // the business handler
		ctx.String(200, "first=%d/%v second=%d/%v", len(b1), e1 != nil, len(b2), e2 != nil)
	})
	go h.Spin()
	for i := 0; i < 300; i++ {
		c, err := net.Dial("tcp", addr)
		if err == nil {
			c.Close()
			break
		}
		time.Sleep(10 * time.Millisecond)
	}
	t.Cleanup(func() {
		ctx, cancel := context.WithTimeout(context.Background(), 200*time.Millisecond)
		defer cancel()
		_ = h.Shutdown(ctx)
	})
	return addr
}

// h31Exchange writes the given pieces (pausing before each but the first), optionally
// half-closes, and returns the body of the first response.
func h31Exchange(t *testing.T, addr string, pieces []string, pause time.Duration, halfClose bool) string {
	c, err := net.Dial("tcp", addr)
	if err != nil {
		t.Fatal(err)
	}
	defer c.Close()
	go func() {
		for i, p := range pieces {
			if i > 0 {
				time.Sleep(pause)
			}
			c.Write([]byte(p)) //nolint:errcheck
		}
		if halfClose {
			c.(*net.TCPConn).CloseWrite() //nolint:errcheck
		}
	}()
	c.SetReadDeadline(time.Now().Add(10 * time.Second)) //nolint:errcheck
	var out []byte
	buf := make([]byte, 4096)
	for {
		n, err := c.Read(buf)
		out = append(out, buf[:n]...)
		if i := strings.Index(string(out), "\r\n\r\n"); i >= 0 && strings.Contains(string(out[i:]), "second=") {
			// the answer is short, it arrives in one piece with its header
			return string(out[i+4:])
		}
		if err != nil {
			if err != io.EOF {
				t.Logf("read: %v", err)
			}
			return string(out)
		}
	}
}

func h31Check(t *testing.T, answer string, n int) {
	t.Helper()
	var l1, l2 int
	var f1, f2 bool
	if _, err := fmt.Sscanf(answer, "first=%d/%t second=%d/%t", &l1, &f1, &l2, &f2); err != nil {
		t.Fatalf("unexpected answer %q: %v", answer, err)
	}
	t.Logf("body of %d bytes: first Body() -> %d bytes, failed=%v; second Body() -> %d bytes, failed=%v", n, l1, f1, l2, f2)
	if !f1 {
		// the stream did not fail: then both calls have to deliver the whole body
		if l1 != n || l2 != n {
			t.Errorf("no error, but %d and %d bytes of a body of %d", l1, l2, n)
		}
		return
	}
	if !f2 && l2 != n {
		t.Errorf("the body stream failed inside the body (first Body() returned the error), "+
			"but a second Body() reports a complete body of %d bytes without error; the body has %d bytes", l2, n)
	}
}

func h31Body(n int) string {
	return strings.Repeat("0123456789abcdef", n/16+1)[:n]
}

func TestHunt3C14BodyAfterFailedBodyPretendsComplete(t *testing.T) {
	const n = 20000
	body := h31Body(n)
	fixed := fmt.Sprintf("POST /twice HTTP/1.1\r\nHost: x\r\nContent-Length: %d\r\n\r\n%s", n, body)
	chunked := fmt.Sprintf("POST /twice HTTP/1.1\r\nHost: x\r\nTransfer-Encoding: chunked\r\n\r\n%x\r\n%s\r\n0\r\n\r\n", n, body)

	// the peer sends 12000 of the 20000 body bytes and ends its side of the connection
	t.Run("standard/peer-ends-inside-fixed-body", func(t *testing.T) {
		addr := h31Start(t, WithTransport(standard.NewTransporter))
		h31Check(t, h31Exchange(t, addr, []string{fixed[:len(fixed)-8000]}, 0, true), n)
	})
	t.Run("standard/peer-ends-inside-chunk", func(t *testing.T) {
		addr := h31Start(t, WithTransport(standard.NewTransporter))
		h31Check(t, h31Exchange(t, addr, []string{chunked[:len(chunked)-8000]}, 0, true), n)
	})
	// a correct body whose second half arrives after the read timeout: the first Body()
	// reports the timeout, the second one must not present the first half as the body
	t.Run("netpoll/read-timeout-inside-fixed-body", func(t *testing.T) {
		addr := h31Start(t, WithTransport(netpoll.NewTransporter), WithReadTimeout(200*time.Millisecond))
		cut := len(fixed) - 8000
		h31Check(t, h31Exchange(t, addr, []string{fixed[:cut], fixed[cut:]}, 1500*time.Millisecond, false), n)
	})
}
