package server

// C14 hunt round 3, finding 2.
//
// With request-body streaming enabled the first part of a body of known length
// (up to 8 KiB) is read ahead into the request's body buffer before the handler
// runs. The body stream reads from a copy of these bytes, but they also stay in
// the body buffer. As soon as the stream is taken off the request after it has
// delivered the whole body (Request.BodyWriteTo, which a logging or digest
// middleware uses to pass the body on, or CloseBodyStream), ctx.Body() /
// Request.Body() returns that left-over: the first 8192 bytes of a 20000 byte
// body, with a nil error, as "the body".
//
// The property demands that what the handler reads is the body, and that its end
// is reported at its end: after the stream has delivered all 20000 bytes there is
// nothing more to read (or, Body() being an accessor, the same 20000 bytes
// again) - but never a body that ends after 8192 bytes.
//
// With a Content-Length above MaxRequestBodySize the read-ahead takes whatever is
// buffered, also the bytes of the next pipelined request: Body() then hands the
// handler the next request of the connection as part of this request's body
// (second test below).

import (
	"bytes"
	"context"
	"fmt"
	"io"
	"net"
	"strings"
	"testing"
	"time"

	"github.com/cloudwego/hertz/pkg/app"
	"github.com/cloudwego/hertz/pkg/common/config"
	"github.com/cloudwego/hertz/pkg/network/netpoll"
	"github.com/cloudwego/hertz/pkg/network/standard"
)

func h32Start(t *testing.T, opts ...config.Option) string {
	ln, err := net.Listen("tcp", "127.0.0.1:0")
	if err != nil {
		t.Fatal(err)
	}
	addr := ln.Addr().String()
	ln.Close()
	o := append([]config.Option{
		WithHostPorts(addr), WithStreamBody(true),
		WithExitWaitTime(10 * time.Millisecond), WithDisablePrintRoute(true),
	}, opts...)
	h := New(o...)
	// a middleware passes the body on (to a digest, an audit log ...), the handler asks for the body
	h.POST("/writeto", func(c context.Context, ctx *app.RequestContext) {
		var sink bytes.Buffer
		e1 := ctx.Request.BodyWriteTo(&sink)
		b2, e2 := ctx.Body()
		ctx.String(200, "first=%d/%t second=%d/%t prefix=%t", sink.Len(), e1 != nil, len(b2), e2 != nil, bytes.HasPrefix(sink.Bytes(), b2))
	})
	// the handler reads the stream to its end, lets go of it and something later asks for the body
	h.POST("/readall", func(c context.Context, ctx *app.RequestContext) {
		b1, e1 := io.ReadAll(ctx.RequestBodyStream())
		ctx.Request.CloseBodyStream() //nolint:errcheck
		b2, e2 := ctx.Body()
		ctx.String(200, "first=%d/%t second=%d/%t prefix=%t", len(b1), e1 != nil, len(b2), e2 != nil, bytes.HasPrefix(b1, b2))
	})
	go h.Spin()
	for i := 0; i < 300; i++ {
		c, err := net.Dial("tcp", addr)
		if err == nil {
			c.Close()
			break
		}
		time.Sleep(10 * time.Millisecond)
	}
	t.Cleanup(func() {
		ctx, cancel := context.WithTimeout(context.Background(), 200*time.Millisecond)
		defer cancel()
		_ = h.Shutdown(ctx)
	})
	return addr
}

func h32Do(t *testing.T, addr, req string) string {
	c, err := net.Dial("tcp", addr)
	if err != nil {
		t.Fatal(err)
	}
	defer c.Close()
	go c.Write([]byte(req))                             //nolint:errcheck
	c.SetReadDeadline(time.Now().Add(10 * time.Second)) //nolint:errcheck
	var out []byte
	buf := make([]byte, 4096)
	for {
		n, err := c.Read(buf)
		out = append(out, buf[:n]...)
		if i := strings.Index(string(out), "\r\n\r\n"); i >= 0 && strings.Contains(string(out[i:]), "prefix=") {
			return string(out[i+4:])
		}
		if err != nil {
			t.Fatalf("no answer: %v (%q)", err, out)
		}
	}
}

func TestHunt3C14BodyAfterStreamIsThePreReadPart(t *testing.T) {
	for _, tr := range []struct {
		name string
		opt  config.Option
	}{
		{"standard", WithTransport(standard.NewTransporter)},
		{"netpoll", WithTransport(netpoll.NewTransporter)},
	} {
		addr := h32Start(t, tr.opt)
		for _, path := range []string{"/writeto", "/readall"} {
			for _, n := range []int{8192, 8193, 20000} {
				t.Run(fmt.Sprintf("%s%s/%d", tr.name, path, n), func(t *testing.T) {
					body := strings.Repeat("0123456789abcdef", n/16+1)[:n]
					answer := h32Do(t, addr, fmt.Sprintf("POST %s HTTP/1.1\r\nHost: x\r\nContent-Length: %d\r\n\r\n%s", path, n, body))
					var l1, l2 int
					var f1, f2, prefix bool
					if _, err := fmt.Sscanf(answer, "first=%d/%t second=%d/%t prefix=%t", &l1, &f1, &l2, &f2, &prefix); err != nil {
						t.Fatalf("unexpected answer %q: %v", answer, err)
					}
					t.Logf("body of %d bytes: the stream delivered %d (failed=%v); Body() afterwards: %d bytes (failed=%v)", n, l1, f1, l2, f2)
					if f1 || l1 != n {
						t.Fatalf("the stream did not deliver the body: %d of %d bytes, failed=%v", l1, n, f1)
					}
					// the stream is at its end. Nothing more, an error, or (accessor semantics) the whole body again are
					// consistent with the body; a body that ends somewhere in the middle is not.
					if !f2 && l2 != 0 && l2 != n {
						t.Errorf("after the stream has delivered all %d bytes, Body() reports without error a body of %d bytes "+
							"(the part that was read ahead): end of body reported inside the body", n, l2)
					}
				})
			}
		}
	}
}

func TestHunt3C14BodyAfterStreamHoldsNextRequest(t *testing.T) {
	// 101 body bytes against a limit of 100: in streaming mode the handler still gets the stream
	addr := h32Start(t, WithTransport(standard.NewTransporter), WithMaxRequestBodySize(100))
	const n = 101
	body := strings.Repeat("0123456789abcdef", n/16+1)[:n]
	next := "GET /secret-of-the-next-request HTTP/1.1\r\nHost: x\r\n\r\n"
	answer := h32Do(t, addr, fmt.Sprintf("POST /writeto HTTP/1.1\r\nHost: x\r\nContent-Length: %d\r\n\r\n%s", n, body)+next)
	var l1, l2 int
	var f1, f2, prefix bool
	if _, err := fmt.Sscanf(answer, "first=%d/%t second=%d/%t prefix=%t", &l1, &f1, &l2, &f2, &prefix); err != nil {
		t.Fatalf("unexpected answer %q: %v", answer, err)
	}
	t.Logf("body of %d bytes: the stream delivered %d (failed=%v); Body() afterwards: %d bytes (failed=%v), part of the body: %v", n, l1, f1, l2, f2, prefix)
	if f1 || l1 != n {
		t.Fatalf("the stream did not deliver the body: %d of %d bytes, failed=%v", l1, n, f1)
	}
	if !f2 && (l2 > n || !prefix) {
		t.Errorf("Body() returns %d bytes for a body of %d bytes: the bytes behind the body (the next request on the connection) are handed to the handler as body", l2, n)
	}
}
