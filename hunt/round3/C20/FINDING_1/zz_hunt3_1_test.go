package validator_test

import (
	"testing"

	vd "github.com/cloudwego/hertz/internal/tagexpr/validator"
)

// A tree-shaped type: every node must carry a positive V.
// The three types differ only in the order in which the fields are declared /
// in the container that holds the children.

type h3RuleFirst struct {
	V        int `vd:"$>0"`
	Children []*h3RuleFirst
}

type h3RuleLast struct {
	Children []*h3RuleLast
	V        int `vd:"$>0"`
}

type h3MapRuleLast struct {
	Children map[string]h3MapRuleLast
	V        int `vd:"$>0"`
}

type h3ArrayRuleLast struct {
	Children [1]*h3ArrayRuleLast
	V        int `vd:"$>0"`
}

// The rule of a child node ("$>0" with V == 0) evaluates to false, so struct
// validation has to reject the tree, wherever the rule field is declared.
func TestHunt3SelfReferentialElementRules(t *testing.T) {
	// reference: rule declared before the children (works)
	if err := vd.New("vd").Validate(&h3RuleFirst{V: 1, Children: []*h3RuleFirst{{V: 0}}}); err == nil {
		t.Errorf("rule declared first: child with V==0 accepted")
	}
	if err := vd.New("vd").Validate(&h3RuleFirst{V: 1, Children: []*h3RuleFirst{{V: 1}}}); err != nil {
		t.Errorf("rule declared first: valid tree rejected: %v", err)
	}

	// same type, rule declared after the children
	if err := vd.New("vd").Validate(&h3RuleLast{V: 1, Children: []*h3RuleLast{{V: 0}}}); err == nil {
		t.Errorf("[]*T declared before the rule: child with V==0 accepted, its rule $>0 is false")
	}
	if err := vd.New("vd").Validate(&h3RuleLast{V: 1, Children: []*h3RuleLast{{V: 1}}}); err != nil {
		t.Errorf("[]*T declared before the rule: valid tree rejected: %v", err)
	}

	if err := vd.New("vd").Validate(&h3MapRuleLast{V: 1, Children: map[string]h3MapRuleLast{"a": {V: 0}}}); err == nil {
		t.Errorf("map[string]T declared before the rule: child with V==0 accepted, its rule $>0 is false")
	}

	if err := vd.New("vd").Validate(&h3ArrayRuleLast{V: 1, Children: [1]*h3ArrayRuleLast{{V: 0}}}); err == nil {
		t.Errorf("[1]*T declared before the rule: child with V==0 accepted, its rule $>0 is false")
	}
}

// Mutually recursive types: the rule sits first in its struct, and still the
// verdict on one and the same value depends on which of the two types the
// validator happened to see first.
type h3Order struct{ Items []h3Item }

type h3Item struct {
	Qty  int `vd:"$>0"`
	Subs []h3Order
}

func TestHunt3MutuallyRecursiveElementRules(t *testing.T) {
	bad := &h3Order{Items: []h3Item{{Qty: 1, Subs: []h3Order{{Items: []h3Item{{Qty: 0}}}}}}}

	cold := vd.New("vd")
	if err := cold.Validate(bad); err == nil {
		t.Errorf("fresh validator: Items[0].Subs[0].Items[0].Qty==0 accepted, its rule $>0 is false")
	}

	warm := vd.New("vd")
	if err := warm.Validate(&h3Item{Qty: 1}); err != nil {
		t.Fatalf("valid item rejected: %v", err)
	}
	if err := warm.Validate(bad); err == nil {
		t.Errorf("validator that saw h3Item first: Qty==0 accepted")
	}
}

// Related, same half-built type description: a pointer to the type itself that is
// declared before the rule. (Not part of demo_cmd: a repair of the element case
// need not cover it.)
type h3ParentFirst struct {
	Parent *h3ParentFirst
	Name   string `vd:"len($)>0"`
}

type h3NameFirst struct {
	Name   string `vd:"len($)>0"`
	Parent *h3NameFirst
}

func TestHunt3SelfPointerRuleOrder(t *testing.T) {
	if err := vd.New("vd").Validate(&h3NameFirst{Name: "a", Parent: &h3NameFirst{Name: ""}}); err == nil {
		t.Errorf("rule declared first: parent with empty name accepted")
	}
	if err := vd.New("vd").Validate(&h3ParentFirst{Name: "a", Parent: &h3ParentFirst{Name: ""}}); err == nil {
		t.Errorf("*T declared before the rule: parent with empty name accepted, its rule len($)>0 is false")
	}
}
