package binding

import (
	"testing"

	"github.com/cloudwego/hertz/pkg/protocol"
)

type h3Payload struct {
	Amount int `json:"amount" vd:"$>0"`
}

// An envelope whose payload type is chosen by the handler before binding.
type h3Envelope struct {
	Kind    string      `json:"kind"`
	Payload interface{} `json:"payload"`
}

type h3Outer struct {
	Env h3Envelope `json:"env"`
}

func h3JSONReq4(body string) *protocol.Request {
	req := protocol.NewRequest("POST", "/", nil)
	req.SetBody([]byte(body))
	req.Header.SetContentTypeBytes([]byte("application/json"))
	req.Header.SetContentLength(len(body))
	return req
}

// The rules sit in the struct behind an interface field. binding.Validate walks
// into it and rejects; BindAndValidate decides from the field tags alone that
// the type needs no validation at all.
func TestHunt3BindAndValidateInterfaceField(t *testing.T) {
	env := h3Envelope{Payload: &h3Payload{}}
	err := BindAndValidate(h3JSONReq4(`{"kind":"pay","payload":{"amount":0}}`), &env, nil)
	p, _ := env.Payload.(*h3Payload)
	if p == nil || env.Kind != "pay" {
		t.Fatalf("body not bound into the payload: %#v (err=%v)", env, err)
	}
	if Validate(&env) == nil {
		t.Fatalf("test premise: Validate accepts the bound value")
	}
	if err == nil {
		t.Errorf("BindAndValidate accepted payload.amount=0 although $>0 is false (Validate says: %v)", Validate(&env))
	}

	ok := h3Envelope{Payload: &h3Payload{}}
	if err := BindAndValidate(h3JSONReq4(`{"kind":"pay","payload":{"amount":3}}`), &ok, nil); err != nil {
		t.Errorf("valid envelope rejected: %v", err)
	}

	// the same one struct level further down
	out := h3Outer{Env: h3Envelope{Payload: &h3Payload{}}}
	err = BindAndValidate(h3JSONReq4(`{"env":{"kind":"pay","payload":{"amount":-1}}}`), &out, nil)
	if p, _ := out.Env.Payload.(*h3Payload); p == nil || p.Amount != -1 {
		t.Fatalf("body not bound into the nested payload: %#v (err=%v)", out, err)
	}
	if err == nil {
		t.Errorf("BindAndValidate accepted env.payload.amount=-1 although $>0 is false (Validate says: %v)", Validate(&out))
	}
}
