package validator_test

import (
	"fmt"
	"testing"

	vd "github.com/cloudwego/hertz/internal/tagexpr/validator"
)

// Key must name an entry of Labels whose value is 'x'.
type h3Lookup struct {
	Labels map[interface{}]string
	Key    interface{} `vd:"(Labels)$[$]=='x'"`
}

// The same rule with the key computed from a slice-typed field.
type h3LookupBySlice struct {
	Labels map[interface{}]string
	Path   []int `vd:"(Labels)$[$]=='x'"`
}

func h3Validate(v interface{}) (err error, panicked interface{}) {
	defer func() { panicked = recover() }()
	return vd.New("vd").Validate(v), nil
}

// An element selector (M)$[key] on a map whose key type is an interface: the
// verdict depends on the field values only, and no field value may make the
// evaluation panic. A key value of an unhashable dynamic type (slice, map) is
// simply not a key of the map: the selector is absent (nil), nil=='x' is false.
func TestHunt3MapSelectorWithUnhashableKey(t *testing.T) {
	labels := map[interface{}]string{"a": "x", "b": "y", 1.0: "x"}

	if err, p := h3Validate(&h3Lookup{Labels: labels, Key: "a"}); p != nil || err != nil {
		t.Errorf("Key=\"a\": want accepted, got err=%v panic=%v", err, p)
	}
	if err, p := h3Validate(&h3Lookup{Labels: labels, Key: "b"}); p != nil || err == nil {
		t.Errorf("Key=\"b\": want rejected, got err=%v panic=%v", err, p)
	}
	if err, p := h3Validate(&h3Lookup{Labels: labels, Key: "zz"}); p != nil || err == nil {
		t.Errorf("Key=\"zz\": want rejected, got err=%v panic=%v", err, p)
	}

	for _, key := range []interface{}{[]int{1}, []interface{}{"a"}, map[string]interface{}{"a": 1}} {
		err, p := h3Validate(&h3Lookup{Labels: labels, Key: key})
		if p != nil {
			t.Errorf("Key=%s: validation panicked: %v", fmt.Sprintf("%#v", key), p)
		} else if err == nil {
			t.Errorf("Key=%#v: accepted although it names no entry", key)
		}
	}

	err, p := h3Validate(&h3LookupBySlice{Labels: labels, Path: []int{1}})
	if p != nil {
		t.Errorf("Path=[]int{1}: validation panicked: %v", p)
	} else if err == nil {
		t.Errorf("Path=[]int{1}: accepted although it names no entry")
	}
}
