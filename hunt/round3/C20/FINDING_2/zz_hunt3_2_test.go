package binding

import (
	"testing"

	"github.com/cloudwego/hertz/pkg/protocol"
)

type h3BatchItem struct {
	ID  int    `json:"id" vd:"$>0"`
	Tag string `json:"tag" vd:"len($)>0 && regexp('^[a-z]+$')"`
}

func h3JSONRequest(body string) *protocol.Request {
	req := protocol.NewRequest("POST", "/", nil)
	req.SetBody([]byte(body))
	req.Header.SetContentTypeBytes([]byte("application/json"))
	req.Header.SetContentLength(len(body))
	return req
}

// BindAndValidate with a receiver that is a pointer to a slice (or map) of
// structs: the body is bound, the rules of the elements are never evaluated.
func TestHunt3BindAndValidateSliceReceiver(t *testing.T) {
	var items []h3BatchItem
	err := BindAndValidate(h3JSONRequest(`[{"id":1,"tag":"ok"},{"id":0,"tag":"UPPER"}]`), &items, nil)
	if len(items) != 2 {
		t.Fatalf("body not bound: %+v (err=%v)", items, err)
	}
	if verr := Validate(&items); verr == nil {
		t.Fatalf("test premise: Validate accepts the bound value")
	}
	if err == nil {
		t.Errorf("BindAndValidate(&[]T) accepted %+v although $>0 is false for items[1].ID (Validate says: %v)", items, Validate(&items))
	}

	var good []h3BatchItem
	if err := BindAndValidate(h3JSONRequest(`[{"id":1,"tag":"ok"}]`), &good, nil); err != nil {
		t.Errorf("valid batch rejected: %v", err)
	}
}

func TestHunt3BindAndValidateMapReceiver(t *testing.T) {
	var byName map[string]*h3BatchItem
	err := BindAndValidate(h3JSONRequest(`{"a":{"id":-5,"tag":"ok"}}`), &byName, nil)
	if byName["a"] == nil {
		t.Fatalf("body not bound (err=%v)", err)
	}
	if err == nil {
		t.Errorf("BindAndValidate(&map[string]*T) accepted id=-5 although $>0 is false (Validate says: %v)", Validate(&byName))
	}
}
