package server

// C19 / hunt round 3 / finding 2
//
// WithStreamBody(true): Serve hands the request's body stream object back to the
// process-wide bodyStreamPool (ext.ReleaseBodyStream) right after the response
// was flushed, but the request keeps pointing to it until the context is reset -
// and the hijack handler and the tracer's Finish run in between. The next
// connection that starts a streamed request takes that very object out of the
// pool. A Finish that looks at the body of the request it finishes
// (c.Request.Body(), or anything that parses it: PostArgs, FormValue ...) then
// reads from the OTHER connection: the Finish of request /a carries the body of
// request /b, and /b - a perfectly ordinary request on another connection - is
// handled with an empty body and finished with an empty body.
//
// GOMAXPROCS(1) only makes the hand-over of the pooled object deterministic (a
// sync.Pool keeps the last Put in a per-P slot); with 16 Ps the same history
// showed the same result in 1 run out of 8. It is a schedule, not a precondition.

import (
	"bytes"
	"context"
	"fmt"
	"io"
	"net"
	"runtime"
	"sync"
	"testing"
	"time"

	"github.com/cloudwego/hertz/internal/testutils"
	"github.com/cloudwego/hertz/pkg/app"
	"github.com/cloudwego/hertz/pkg/network"
	"github.com/cloudwego/hertz/pkg/network/standard"
)

type hunt3C19F2Tracer struct {
	mu     sync.Mutex
	calls  map[string][]string // per connection (remote address)
	bodies map[string][]byte   // path -> body seen in Finish
}

func (x *hunt3C19F2Tracer) Start(ctx context.Context, c *app.RequestContext) context.Context {
	x.mu.Lock()
	k := c.GetConn().RemoteAddr().String()
	x.calls[k] = append(x.calls[k], "S")
	x.mu.Unlock()
	return ctx
}

func (x *hunt3C19F2Tracer) Finish(ctx context.Context, c *app.RequestContext) {
	path := string(c.Request.URI().Path())
	body := append([]byte(nil), c.Request.Body()...) // what an audit / access-log tracer does
	x.mu.Lock()
	k := c.GetConn().RemoteAddr().String()
	x.calls[k] = append(x.calls[k], "F")
	x.bodies[path] = body
	x.mu.Unlock()
}

func (x *hunt3C19F2Tracer) finished(path string) ([]byte, bool) {
	x.mu.Lock()
	defer x.mu.Unlock()
	b, ok := x.bodies[path]
	return b, ok
}

func TestHunt3C19FinishReadsTheBodyStreamOfAnotherConnection(t *testing.T) {
	defer runtime.GOMAXPROCS(runtime.GOMAXPROCS(1)) // a schedule, see above

	tr := &hunt3C19F2Tracer{calls: map[string][]string{}, bodies: map[string][]byte{}}
	h := New(WithHostPorts("127.0.0.1:0"), WithTransport(standard.NewTransporter),
		WithTracer(tr), WithStreamBody(true))

	var (
		aSaw, bSaw    []byte
		inHijack      = make(chan struct{})
		releaseHijack = make(chan struct{})
		inB           = make(chan struct{})
		releaseB      = make(chan struct{})
	)
	// /a: consumes its body the streaming way, then takes the connection over
	h.POST("/a", func(c context.Context, ctx *app.RequestContext) {
		aSaw, _ = io.ReadAll(ctx.RequestBodyStream())
		ctx.Hijack(func(conn network.Conn) {
			close(inHijack)
			<-releaseHijack
		})
	})
	// /b: an ordinary handler that is a little slow before it looks at its body
	h.POST("/b", func(c context.Context, ctx *app.RequestContext) {
		close(inB)
		<-releaseB
		bSaw = append([]byte(nil), ctx.Request.Body()...)
		ctx.String(200, "ok")
	})
	go h.Spin()
	waitEngineRunning(h)
	defer h.Close()
	addr := testutils.GetListenerAddr(h)

	wait := func(ch chan struct{}, what string) {
		select {
		case <-ch:
		case <-time.After(5 * time.Second):
			t.Fatalf("timed out waiting for %s", what)
		}
	}

	// connection A: request /a, handled, answered, hijacked; the hijack handler is running
	ca, err := net.Dial("tcp", addr)
	if err != nil {
		t.Fatal(err)
	}
	defer ca.Close()
	fmt.Fprintf(ca, "POST /a HTTP/1.1\r\nHost: x\r\nContent-Length: 5\r\n\r\nAAAAA")
	wait(inHijack, "the hijack handler of /a")

	// connection B: request /b, complete on the wire, its handler is running
	cb, err := net.Dial("tcp", addr)
	if err != nil {
		t.Fatal(err)
	}
	defer cb.Close()
	fmt.Fprintf(cb, "POST /b HTTP/1.1\r\nHost: x\r\nTransfer-Encoding: chunked\r\n\r\n5\r\nBBBBB\r\n0\r\n\r\n")
	wait(inB, "the handler of /b")

	// the hijack handler of A returns: /a is finished now
	close(releaseHijack)
	var aFin []byte
	for i, ok := 0, false; !ok; i++ {
		if aFin, ok = tr.finished("/a"); !ok {
			if i > 500 {
				t.Fatal("no Finish for /a")
			}
			time.Sleep(10 * time.Millisecond)
		}
	}
	// then /b goes on
	close(releaseB)
	var bFin []byte
	for i, ok := 0, false; !ok; i++ {
		if bFin, ok = tr.finished("/b"); !ok {
			if i > 500 {
				t.Fatal("no Finish for /b")
			}
			time.Sleep(10 * time.Millisecond)
		}
	}

	tr.mu.Lock()
	for conn, calls := range tr.calls {
		if got := fmt.Sprint(calls); got != "[S F]" {
			t.Errorf("tracer calls on connection %s = %v, want [S F]", conn, got)
		}
	}
	tr.mu.Unlock()

	if string(aSaw) != "AAAAA" {
		t.Fatalf("precondition: handler of /a read %q from its body stream", aSaw)
	}
	// /a's Finish must carry /a's data: its body was AAAAA (consumed by the handler through
	// the stream, so an empty body is acceptable too) - never bytes of another request
	if len(aFin) != 0 && !bytes.Equal(aFin, []byte("AAAAA")) {
		t.Errorf("the Finish of request /a (connection A) carries body %q: that is the body of request /b on connection B", aFin)
	}
	if !bytes.Equal(bSaw, []byte("BBBBB")) {
		t.Errorf("request /b (connection B) was sent with body \"BBBBB\" but handled with body %q: the tracer Finish of /a on connection A consumed it", bSaw)
	}
	if !bytes.Equal(bFin, []byte("BBBBB")) {
		t.Errorf("the Finish of the handled request /b must carry that request's data, its body is %q, want \"BBBBB\"", bFin)
	}
}
