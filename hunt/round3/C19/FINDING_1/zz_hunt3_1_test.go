package server

// C19 / hunt round 3 / finding 1
//
// "each handled request is bracketed by exactly one start/finish pair whose
// finish carries that request's data" - outcome "hijack", ONE connection, no
// concurrency, no timing: the tracer's Finish of a hijacked request sees a
// request body made of the bytes the hijack handler read from the connection
// afterwards, not the body that was sent and that the handler saw.
//
// Serve releases the connection's read buffers (zr.Release()) before it
// flushes the response, runs the hijack handler after that, and delivers the
// tracer Finish last. A fixed-length body is kept zero-copy (SetBodyRaw of the
// peeked slice), so whatever the hijack handler reads from the connection
// lands in the buffer the finished request's body still points into.

import (
	"bytes"
	"context"
	"fmt"
	"io"
	"net"
	"strings"
	"sync"
	"testing"
	"time"

	"github.com/cloudwego/hertz/internal/testutils"
	"github.com/cloudwego/hertz/pkg/app"
	"github.com/cloudwego/hertz/pkg/network"
	"github.com/cloudwego/hertz/pkg/network/standard"
)

type hunt3C19F1Tracer struct {
	mu       sync.Mutex
	calls    []string
	finished []hunt3C19F1Rec
}

type hunt3C19F1Rec struct {
	method, path string
	body         []byte
}

func (x *hunt3C19F1Tracer) Start(ctx context.Context, c *app.RequestContext) context.Context {
	x.mu.Lock()
	x.calls = append(x.calls, "S")
	x.mu.Unlock()
	return ctx
}

// Finish does what an access-log / audit tracer does: it looks at the request it finishes.
func (x *hunt3C19F1Tracer) Finish(ctx context.Context, c *app.RequestContext) {
	x.mu.Lock()
	x.calls = append(x.calls, "F")
	x.finished = append(x.finished, hunt3C19F1Rec{
		method: string(c.Request.Method()),
		path:   string(c.Request.URI().Path()),
		body:   append([]byte(nil), c.Request.Body()...),
	})
	x.mu.Unlock()
}

func TestHunt3C19FinishOfHijackedRequestCarriesItsBody(t *testing.T) {
	tr := &hunt3C19F1Tracer{}
	h := New(WithHostPorts("127.0.0.1:0"), WithTransport(standard.NewTransporter), WithTracer(tr))

	reqBody := strings.Repeat("A", 64) // the request that asks for the protocol switch
	frames := strings.Repeat("B", 512) // what the client speaks after the switch

	var seenByHandler []byte
	var readByHijack []byte
	hijackDone := make(chan struct{})
	h.POST("/switch", func(c context.Context, ctx *app.RequestContext) {
		seenByHandler = append([]byte(nil), ctx.Request.Body()...)
		ctx.SetStatusCode(200)
		ctx.Hijack(func(conn network.Conn) {
			defer close(hijackDone)
			conn.SetReadTimeout(5 * time.Second) //nolint:errcheck
			b, err := conn.Peek(len(frames))
			if err != nil {
				return
			}
			readByHijack = append([]byte(nil), b...)
			conn.Skip(len(b))                  //nolint:errcheck
			conn.WriteBinary([]byte("done\n")) //nolint:errcheck
			conn.Flush()                       //nolint:errcheck
		})
	})
	go h.Spin()
	waitEngineRunning(h)
	defer h.Close()

	c, err := net.Dial("tcp", testutils.GetListenerAddr(h))
	if err != nil {
		t.Fatal(err)
	}
	defer c.Close()
	c.SetDeadline(time.Now().Add(10 * time.Second)) //nolint:errcheck

	// 1. the request, with a body
	fmt.Fprintf(c, "POST /switch HTTP/1.1\r\nHost: x\r\nContent-Length: %d\r\n\r\n%s", len(reqBody), reqBody)
	// 2. wait for the response head: the exchange is over, the connection is the hijacker's now
	head := make([]byte, 0, 256)
	one := make([]byte, 1)
	for !bytes.HasSuffix(head, []byte("\r\n\r\n")) {
		if _, err := io.ReadFull(c, one); err != nil {
			t.Fatalf("reading the response: %v (got %q)", err, head)
		}
		head = append(head, one[0])
	}
	// 3. the hijacked protocol
	if _, err := c.Write([]byte(frames)); err != nil {
		t.Fatal(err)
	}
	select {
	case <-hijackDone:
	case <-time.After(8 * time.Second):
		t.Fatal("hijack handler did not return")
	}

	// the tracer's Finish comes after the hijack handler returned
	deadline := time.Now().Add(5 * time.Second)
	for {
		tr.mu.Lock()
		n := len(tr.finished)
		tr.mu.Unlock()
		if n > 0 || time.Now().After(deadline) {
			break
		}
		time.Sleep(10 * time.Millisecond)
	}

	tr.mu.Lock()
	defer tr.mu.Unlock()
	if got := strings.Join(tr.calls, " "); got != "S F" {
		t.Fatalf("tracer calls = %q, want \"S F\"", got)
	}
	if string(seenByHandler) != reqBody {
		t.Fatalf("precondition: handler saw body %q", seenByHandler)
	}
	if string(readByHijack) != frames {
		t.Fatalf("precondition: hijack handler read %q", readByHijack)
	}
	rec := tr.finished[0]
	if rec.method != "POST" || rec.path != "/switch" {
		t.Fatalf("Finish carries %s %s, want POST /switch", rec.method, rec.path)
	}
	if string(rec.body) != reqBody {
		t.Fatalf("the Finish of the handled request POST /switch must carry that request's data, but its body is not the %d x 'A' that was sent and that the handler saw:\n  body seen in Finish = %q\n  (%d of its %d bytes are 'B', i.e. bytes the hijack handler read from the connection after the exchange)",
			len(reqBody), rec.body, bytes.Count(rec.body, []byte("B")), len(rec.body))
	}
}
