package server_test

// C09 hunt 3, finding 1.
//
// Streaming mode, request body longer than MaxRequestBodySize: the part of the body
// that is read ahead (ext.ReadBodyWithStreaming -> readBodyIdentity) is as large as
// the CAPACITY of the request's body buffer. A new context has an empty buffer
// (1 KiB is allocated, the pre-read stops at limit+1 bytes); a recycled context
// keeps the buffer an earlier request has grown (ctx.Request.Body() on a streamed
// body collects the whole body into it), so the pre-read swallows everything that
// is buffered on the connection, the pipelined request behind the body included,
// and the connection is closed (errPrereadPastBody) instead of answering it.

import (
	"bufio"
	"context"
	"fmt"
	"io"
	"net"
	"net/http"
	"strings"
	"testing"
	"time"

	"github.com/cloudwego/hertz/pkg/app"
	"github.com/cloudwego/hertz/pkg/app/server"
	"github.com/cloudwego/hertz/pkg/common/config"
	"github.com/cloudwego/hertz/pkg/network"
	"github.com/cloudwego/hertz/pkg/network/netpoll"
	"github.com/cloudwego/hertz/pkg/network/standard"
)

func hunt3FreeAddr(t *testing.T) string {
	l, err := net.Listen("tcp", "127.0.0.1:0")
	if err != nil {
		t.Fatal(err)
	}
	addr := l.Addr().String()
	l.Close()
	return addr
}

func hunt3StartStreamServer(t *testing.T, tr func(options *config.Options) network.Transporter) (addr string, stop func()) {
	addr = hunt3FreeAddr(t)
	h := server.New(
		server.WithHostPorts(addr),
		server.WithTransport(tr),
		server.WithStreamBody(true),
		server.WithMaxRequestBodySize(1024),
		server.WithDisablePrintRoute(true),
		server.WithExitWaitTime(10*time.Millisecond),
	)
	h.POST("/up", func(c context.Context, ctx *app.RequestContext) {
		// the everyday way to get at a body
		b := ctx.Request.Body()
		ctx.String(200, "up:%d", len(b))
	})
	h.GET("/probe", func(c context.Context, ctx *app.RequestContext) {
		ctx.String(200, "probe-ok")
	})
	go h.Spin()
	for i := 0; i < 200; i++ {
		c, err := net.Dial("tcp", addr)
		if err == nil {
			c.Close()
			break
		}
		time.Sleep(10 * time.Millisecond)
	}
	return addr, func() { _ = h.Shutdown(context.Background()) }
}

// exchange writes raw in ONE write and reads n responses; it returns their bodies.
func hunt3Exchange(t *testing.T, conn net.Conn, br *bufio.Reader, raw string, n int) []string {
	t.Helper()
	conn.SetDeadline(time.Now().Add(5 * time.Second))
	if _, err := conn.Write([]byte(raw)); err != nil {
		t.Fatalf("write: %v", err)
	}
	var out []string
	for i := 0; i < n; i++ {
		resp, err := http.ReadResponse(br, nil)
		if err != nil {
			out = append(out, "ERR:"+err.Error())
			return out
		}
		b, _ := io.ReadAll(resp.Body)
		resp.Body.Close()
		out = append(out, fmt.Sprintf("%d %s", resp.StatusCode, b))
	}
	return out
}

func hunt3Run(t *testing.T, tr func(options *config.Options) network.Transporter) {
	body := strings.Repeat("x", 3000) // longer than MaxRequestBodySize (1024), shorter than one read
	post := "POST /up HTTP/1.1\r\nHost: a\r\nContent-Length: 3000\r\n\r\n" + body
	probe := "GET /probe HTTP/1.1\r\nHost: a\r\n\r\n"
	pipelined := post + probe

	// (1) a new server, a new connection, a new context: POST and GET pipelined in one write
	addr, stop := hunt3StartStreamServer(t, tr)
	c1, err := net.Dial("tcp", addr)
	if err != nil {
		t.Fatal(err)
	}
	fresh := hunt3Exchange(t, c1, bufio.NewReader(c1), pipelined, 2)
	c1.Close()
	stop()

	// (2) another new server: the same bytes, but the connection (and its context) has
	// served one POST before
	addr, stop = hunt3StartStreamServer(t, tr)
	defer stop()
	c2, err := net.Dial("tcp", addr)
	if err != nil {
		t.Fatal(err)
	}
	defer c2.Close()
	br := bufio.NewReader(c2)
	first := hunt3Exchange(t, c2, br, post, 1)
	if len(first) != 1 || first[0] != "200 up:3000" {
		t.Fatalf("warm-up request: %v", first)
	}
	recycled := hunt3Exchange(t, c2, br, pipelined, 2)

	t.Logf("new context     : %q", fresh)
	t.Logf("recycled context: %q", recycled)
	want := []string{"200 up:3000", "200 probe-ok"}
	if fmt.Sprint(fresh) != fmt.Sprint(want) {
		t.Fatalf("new context: got %q, want %q", fresh, want)
	}
	if fmt.Sprint(recycled) != fmt.Sprint(fresh) {
		t.Fatalf("the same two pipelined requests are answered differently by a recycled context:\n new:      %q\n recycled: %q", fresh, recycled)
	}
}

func TestHunt3C09_1_PrereadDependsOnRecycledBodyBufferCapacity(t *testing.T) {
	hunt3Run(t, standard.NewTransporter)
}

// the default transport on linux
func TestHunt3C09_1_PrereadDependsOnRecycledBodyBufferCapacity_Netpoll(t *testing.T) {
	hunt3Run(t, netpoll.NewTransporter)
}
