package route

// C04 hunt 3, finding 4: when Close of a response body stream returns an error, the
// chunked response that was written from it loses its last two bytes.
//
// writeBodyStream closes the stream after the body and reports the error of Close
// as the error of the write. At that point the whole body, the last-chunk "0\r\n"
// (flushed with every chunk) and - only into the output buffer - the CRLF that ends
// the trailer section have been written. Serve takes the error for a failed write and
// returns without flushing: the message on the wire stops after "0\r\n", a client
// waits for the end of the trailer section and gets the end of the connection.

import (
	"bufio"
	"bytes"
	"context"
	"errors"
	"io"
	"net/http"
	"strings"
	"sync/atomic"
	"testing"

	"github.com/cloudwego/hertz/pkg/app"
	"github.com/cloudwego/hertz/pkg/common/config"
	"github.com/cloudwego/hertz/pkg/common/test/mock"
)

func hunt3Wire4(t *testing.T, engine *Engine, request string) []byte {
	t.Helper()
	conn := mock.NewConn(request)
	engine.Serve(context.Background(), conn) //nolint:errcheck
	rec := conn.WriterRecorder()
	var wire []byte
	for {
		b, err := rec.ReadByte()
		if err != nil {
			break
		}
		wire = append(wire, b)
	}
	return wire
}

// hunt3Source4 delivers all of its data; releasing it afterwards fails (a file that
// something else has closed already, a decompressor that finds a bad checksum at
// the very end, an upstream connection that cannot be given back...).
type hunt3Source4 struct{ io.Reader }

func (hunt3Source4) Close() error { return errors.New("release failed") }

func TestHunt3_BodyStreamWhoseCloseFails(t *testing.T) {
	for name, size := range map[string]int{
		"known length (control)": 3,
		"unknown length":         -1,
	} {
		size := size
		t.Run(name, func(t *testing.T) {
			engine := NewEngine(config.NewOptions(nil))
			atomic.StoreUint32(&engine.status, statusRunning)
			engine.Init()
			engine.GET("/s", func(c context.Context, ctx *app.RequestContext) {
				ctx.SetBodyStream(hunt3Source4{strings.NewReader("abc")}, size)
			})
			wire := hunt3Wire4(t, engine, "GET /s HTTP/1.1\r\nHost: a\r\nConnection: close\r\n\r\n")

			resp, err := http.ReadResponse(bufio.NewReader(bytes.NewReader(wire)), &http.Request{Method: "GET"})
			if err != nil {
				t.Fatalf("the bytes on the wire are not a response: %v\nwire: %q", err, wire)
			}
			body, err := io.ReadAll(resp.Body)
			if err != nil {
				t.Errorf("the response on the wire is not a complete message: reading its body: %v\nwire: %q", err, wire)
			}
			if string(body) != "abc" {
				t.Errorf("body: got %q, want %q", body, "abc")
			}
		})
	}
}
