package route

// C04 hunt 3, finding 3: the body of a NoRoute (or NoMethod) handler that answers
// through the chunked body writer gets the router's default text appended.
//
// serveError runs the NoRoute chain and then decides whether the handler has
// produced a body by looking at the body buffer and the body stream only. A body
// sent through the hijacked chunked writer is in neither, so the default message
// ("404 page not found" / "405 method not allowed") is "set" as the body, and
// Response.SetBody hands it to the installed writer: it goes out as one more chunk
// behind the handler's own body.

import (
	"bufio"
	"bytes"
	"context"
	"io"
	"net/http"
	"sync/atomic"
	"testing"

	"github.com/cloudwego/hertz/pkg/app"
	"github.com/cloudwego/hertz/pkg/common/config"
	"github.com/cloudwego/hertz/pkg/common/test/mock"
	"github.com/cloudwego/hertz/pkg/protocol/http1/resp"
)

func hunt3Wire3(t *testing.T, engine *Engine, request string) []byte {
	t.Helper()
	conn := mock.NewConn(request)
	engine.Serve(context.Background(), conn) //nolint:errcheck
	rec := conn.WriterRecorder()
	var wire []byte
	for {
		b, err := rec.ReadByte()
		if err != nil {
			break
		}
		wire = append(wire, b)
	}
	return wire
}

func hunt3Decode3(t *testing.T, wire []byte) (int, string) {
	t.Helper()
	r, err := http.ReadResponse(bufio.NewReader(bytes.NewReader(wire)), &http.Request{Method: "GET"})
	if err != nil {
		t.Fatalf("the bytes on the wire are not a response: %v\nwire: %q", err, wire)
	}
	body, err := io.ReadAll(r.Body)
	if err != nil {
		t.Fatalf("the response on the wire is not a complete message: %v\nwire: %q", err, wire)
	}
	return r.StatusCode, string(body)
}

func TestHunt3_NoRouteHandlerAnsweringThroughTheChunkedWriter(t *testing.T) {
	const page = "<html>nothing here, try /index</html>"

	streamed := func(c context.Context, ctx *app.RequestContext) {
		ctx.Response.HijackWriter(resp.NewChunkedBodyWriter(&ctx.Response, ctx.GetWriter()))
		ctx.WriteString(page) //nolint:errcheck
		ctx.Flush()           //nolint:errcheck
	}
	buffered := func(c context.Context, ctx *app.RequestContext) {
		ctx.WriteString(page) //nolint:errcheck
	}

	t.Run("404 buffered (control)", func(t *testing.T) {
		engine := NewEngine(config.NewOptions(nil))
		atomic.StoreUint32(&engine.status, statusRunning)
		engine.Init()
		engine.NoRoute(buffered)
		status, body := hunt3Decode3(t, hunt3Wire3(t, engine, "GET /nope HTTP/1.1\r\nHost: a\r\nConnection: close\r\n\r\n"))
		if status != 404 || body != page {
			t.Errorf("got %d %q, want 404 %q", status, body, page)
		}
	})

	t.Run("404 through the chunked writer", func(t *testing.T) {
		engine := NewEngine(config.NewOptions(nil))
		atomic.StoreUint32(&engine.status, statusRunning)
		engine.Init()
		engine.NoRoute(streamed)
		wire := hunt3Wire3(t, engine, "GET /nope HTTP/1.1\r\nHost: a\r\nConnection: close\r\n\r\n")
		status, body := hunt3Decode3(t, wire)
		if status != 404 || body != page {
			t.Errorf("got %d %q, want 404 %q\nwire: %q", status, body, page, wire)
		}
	})

	t.Run("405 through the chunked writer", func(t *testing.T) {
		opt := config.NewOptions(nil)
		opt.HandleMethodNotAllowed = true
		engine := NewEngine(opt)
		atomic.StoreUint32(&engine.status, statusRunning)
		engine.Init()
		engine.POST("/only-post", func(c context.Context, ctx *app.RequestContext) {})
		engine.NoMethod(streamed)
		wire := hunt3Wire3(t, engine, "GET /only-post HTTP/1.1\r\nHost: a\r\nConnection: close\r\n\r\n")
		status, body := hunt3Decode3(t, wire)
		if status != 405 || body != page {
			t.Errorf("got %d %q, want 405 %q\nwire: %q", status, body, page, wire)
		}
	})
}
