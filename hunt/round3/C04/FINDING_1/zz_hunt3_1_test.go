package route

// C04 hunt 3, finding 1: a body stream handed over as an io.LimitedReader whose
// source ends before the limit is announced with Content-Length = the limit.
//
// SetBodyStream(r, -1) is documented as "bodyStream is read until io.EOF". An
// io.LimitReader(r, n) yields AT MOST n bytes; hertz takes n for the exact length of
// the body, writes "Content-Length: n", copies what the reader has, notices the
// shortfall and drops the connection: the client receives a message that never ends.

import (
	"bufio"
	"bytes"
	"context"
	"io"
	"math"
	"net/http"
	"strings"
	"sync/atomic"
	"testing"

	"github.com/cloudwego/hertz/pkg/app"
	"github.com/cloudwego/hertz/pkg/common/config"
	"github.com/cloudwego/hertz/pkg/common/test/mock"
)

// hunt3Wire1 serves one request on an in-memory connection and returns every byte
// the server flushed to it.
func hunt3Wire1(t *testing.T, engine *Engine, request string) []byte {
	t.Helper()
	conn := mock.NewConn(request)
	engine.Serve(context.Background(), conn) //nolint:errcheck
	rec := conn.WriterRecorder()
	var wire []byte
	for {
		b, err := rec.ReadByte()
		if err != nil {
			break
		}
		wire = append(wire, b)
	}
	return wire
}

func hunt3Engine1() *Engine {
	engine := NewEngine(config.NewOptions(nil))
	atomic.StoreUint32(&engine.status, statusRunning)
	engine.Init()
	return engine
}

func TestHunt3_LimitedReaderIsAnUpperBound(t *testing.T) {
	for name, limit := range map[string]int64{
		"cap of 1 MiB":                1 << 20,
		"no limit (math.MaxInt64)":    math.MaxInt64,
		"one byte more than is there": 6,
	} {
		limit := limit
		t.Run(name, func(t *testing.T) {
			engine := hunt3Engine1()
			engine.GET("/capped", func(c context.Context, ctx *app.RequestContext) {
				// "send this source, but never more than limit bytes of it"
				ctx.SetBodyStream(io.LimitReader(strings.NewReader("hello"), limit), -1)
			})
			wire := hunt3Wire1(t, engine, "GET /capped HTTP/1.1\r\nHost: a\r\nConnection: close\r\n\r\n")

			resp, err := http.ReadResponse(bufio.NewReader(bytes.NewReader(wire)), &http.Request{Method: "GET"})
			if err != nil {
				t.Fatalf("the bytes on the wire are not a response: %v\nwire: %q", err, wire)
			}
			body, err := io.ReadAll(resp.Body)
			if err != nil {
				t.Errorf("the response on the wire is not a complete message: reading its body: %v\nwire: %q", err, wire)
			}
			if string(body) != "hello" {
				t.Errorf("body: got %q, want %q", body, "hello")
			}
			if cl := resp.Header.Get("Content-Length"); cl != "" && cl != "5" {
				t.Errorf("Content-Length %s announced for a body of 5 bytes", cl)
			}
		})
	}
}
