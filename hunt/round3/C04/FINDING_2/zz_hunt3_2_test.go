package route

// C04 hunt 3, finding 2: a body stream of unknown length whose Read once returns
// (0, nil) ends the response in the middle of the chunked body.
//
// io.Reader allows Read to return 0, nil ("callers should treat a return of 0 and nil
// as indicating that nothing happened; in particular it does not indicate EOF"), and
// io.Pipe does so for every zero-length Write of the other end. The writer of a
// body of known length goes on reading; the chunked writer panics
// ("BUG: io.Reader returned 0, nil"), the panic is turned into a write error, and the
// connection is dropped after the header block and the chunks written so far:
// no last-chunk, the rest of the body is lost.

import (
	"bufio"
	"bytes"
	"context"
	"io"
	"net/http"
	"sync/atomic"
	"testing"

	"github.com/cloudwego/hertz/pkg/app"
	"github.com/cloudwego/hertz/pkg/common/config"
	"github.com/cloudwego/hertz/pkg/common/test/mock"
)

func hunt3Wire2(t *testing.T, engine *Engine, request string) []byte {
	t.Helper()
	conn := mock.NewConn(request)
	engine.Serve(context.Background(), conn) //nolint:errcheck
	rec := conn.WriterRecorder()
	var wire []byte
	for {
		b, err := rec.ReadByte()
		if err != nil {
			break
		}
		wire = append(wire, b)
	}
	return wire
}

// hunt3Pipe2 is a producer that hands its data over through an io.Pipe; one of its
// writes is empty (a flush of an empty buffer, an empty record...).
func hunt3Pipe2() io.Reader {
	pr, pw := io.Pipe()
	go func() {
		pw.Write([]byte("hello, ")) //nolint:errcheck
		pw.Write(nil)               //nolint:errcheck // the reader's Read returns 0, nil
		pw.Write([]byte("world"))   //nolint:errcheck
		pw.Close()
	}()
	return pr
}

func TestHunt3_StreamThatReadsZeroBytesOnce(t *testing.T) {
	for name, size := range map[string]int{
		"known length (control)": len("hello, world"),
		"unknown length":         -1,
	} {
		size := size
		t.Run(name, func(t *testing.T) {
			engine := NewEngine(config.NewOptions(nil))
			atomic.StoreUint32(&engine.status, statusRunning)
			engine.Init()
			engine.GET("/pipe", func(c context.Context, ctx *app.RequestContext) {
				ctx.SetBodyStream(hunt3Pipe2(), size)
			})
			wire := hunt3Wire2(t, engine, "GET /pipe HTTP/1.1\r\nHost: a\r\nConnection: close\r\n\r\n")

			resp, err := http.ReadResponse(bufio.NewReader(bytes.NewReader(wire)), &http.Request{Method: "GET"})
			if err != nil {
				t.Fatalf("the bytes on the wire are not a response: %v\nwire: %q", err, wire)
			}
			body, err := io.ReadAll(resp.Body)
			if err != nil {
				t.Errorf("the response on the wire is not a complete message: reading its body: %v\nwire: %q", err, wire)
			}
			if string(body) != "hello, world" {
				t.Errorf("body: got %q, want %q", body, "hello, world")
			}
		})
	}
}
