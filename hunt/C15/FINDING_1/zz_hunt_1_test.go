package server

import (
	"bufio"
	"context"
	"fmt"
	"io"
	"net"
	"strings"
	"testing"
	"time"

	"github.com/cloudwego/hertz/internal/testutils"
	"github.com/cloudwego/hertz/pkg/app"
)

// Property C15: Bind sets each field to the value found in the first source that is
// named in the field's tags and present in the request (here: the JSON body), and a
// missing required value is an error rather than a silent zero.
//
// Trigger: server option WithStreamBody(true) + a request whose JSON body is sent with
// "Transfer-Encoding: chunked". The streamed request keeps Header.ContentLength() == -1,
// and defaultBinder.preBindBody returns early on "ContentLength() <= 0", so the JSON body
// is never decoded into the struct. The 'required' check (checkRequireJSON) reads
// req.Body() directly, finds the key and reports no error => silent zero values.
func huntC15BindOverWire(t *testing.T, streamBody bool) string {
	type T struct {
		A int    `json:"a"`
		B string `json:"b,required"`
	}
	h := New(WithStreamBody(streamBody), WithHostPorts("127.0.0.1:0"))
	h.POST("/bind", func(ctx context.Context, c *app.RequestContext) {
		var v T
		err := c.Bind(&v)
		c.String(200, "A=%d B=%q err=%v", v.A, v.B, err)
	})
	go h.Spin()
	waitEngineRunning(h)
	defer h.Close()

	conn, err := net.Dial("tcp", testutils.GetListenerAddr(h))
	if err != nil {
		t.Fatal(err)
	}
	defer conn.Close()
	body := `{"a":7,"b":"x"}`
	raw := fmt.Sprintf("POST /bind HTTP/1.1\r\nHost: h\r\nContent-Type: application/json\r\n"+
		"Transfer-Encoding: chunked\r\nConnection: close\r\n\r\n%x\r\n%s\r\n0\r\n\r\n", len(body), body)
	if _, err = conn.Write([]byte(raw)); err != nil {
		t.Fatal(err)
	}
	conn.SetReadDeadline(time.Now().Add(5 * time.Second))
	all, _ := io.ReadAll(bufio.NewReader(conn))
	s := string(all)
	i := strings.Index(s, "\r\n\r\n")
	if i < 0 {
		t.Fatalf("bad response %q", s)
	}
	return s[i+4:]
}

func TestHuntC15_1_StreamedChunkedJSONBodyIsNotBound(t *testing.T) {
	const want = `A=7 B="x" err=<nil>`

	// control: same bytes on the wire, default (non streaming) server
	if got := huntC15BindOverWire(t, false); !strings.Contains(got, want) {
		t.Fatalf("control (WithStreamBody(false)) unexpectedly wrong: got %q want %q", got, want)
	}

	// the request carries a=7 and the required b="x" in its JSON body; Bind must
	// either fill both fields or return an error - never succeed with zero values.
	got := huntC15BindOverWire(t, true)
	if !strings.Contains(got, want) {
		t.Fatalf("WithStreamBody(true) + chunked JSON body: Bind result %q, property demands %q "+
			"(fields tagged json and present in the body must be filled; a required value must not silently stay zero)", got, want)
	}
}
