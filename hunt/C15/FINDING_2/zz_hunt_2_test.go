package binding

import (
	"fmt"
	"testing"

	"github.com/cloudwego/hertz/pkg/common/test/mock"
	"github.com/cloudwego/hertz/pkg/protocol"
	"github.com/cloudwego/hertz/pkg/protocol/http1/req"
)

func huntC15ParseReq2(t *testing.T, raw string) *protocol.Request {
	r := &protocol.Request{}
	if err := req.Read(r, mock.NewZeroCopyReader(raw)); err != nil {
		t.Fatalf("cannot parse request: %v", err)
	}
	return r
}

// Property C15: a field is set to the value found in the JSON body when that is the first
// tagged source carrying it; the declared default is only for fields with NO value; a
// required value is only "missing" when no tagged source carries it.
//
// Trigger: media types are case-insensitive (RFC 9110 8.3.1). With
// "Content-Type: Application/JSON" preBindBody (which lower-cases the type) decodes the body
// into the struct, but decoder.keyExist compares the type case-sensitively and therefore
// reports "key not in body" for every key.
func TestHuntC15_2_ContentTypeCaseMakesDefaultOverwriteJSONValue(t *testing.T) {
	type WithDefault struct {
		A int `json:"a" default:"5"`
	}
	type QueryOrJSON struct {
		A int `query:"q,required" json:"a"`
	}
	body := `{"a":7}`
	for _, ct := range []string{"application/json", "Application/JSON", "application/JSON; charset=utf-8"} {
		raw := fmt.Sprintf("POST /x HTTP/1.1\r\nHost: h\r\nContent-Type: %s\r\nContent-Length: %d\r\n\r\n%s", ct, len(body), body)

		var v WithDefault
		err := Bind(huntC15ParseReq2(t, raw), &v, nil)
		if err != nil {
			t.Errorf("Content-Type %q: unexpected error %v", ct, err)
		}
		if v.A != 7 {
			t.Errorf("Content-Type %q: body carries a=7 but A=%d; the default must only be used when no source carries a value", ct, v.A)
		}

		var u QueryOrJSON
		err = Bind(huntC15ParseReq2(t, raw), &u, nil)
		if err != nil || u.A != 7 {
			t.Errorf("Content-Type %q: body carries a=7 (json is a tagged source), want A=7 and no error; got A=%d err=%v", ct, u.A, err)
		}
	}
}
