package binding

import (
	"reflect"
	"testing"

	"github.com/cloudwego/hertz/pkg/common/test/mock"
	"github.com/cloudwego/hertz/pkg/protocol"
	"github.com/cloudwego/hertz/pkg/protocol/http1/req"
)

func huntC15ParseReq3(t *testing.T, raw string) *protocol.Request {
	r := &protocol.Request{}
	if err := req.Read(r, mock.NewZeroCopyReader(raw)); err != nil {
		t.Fatalf("cannot parse request: %v", err)
	}
	return r
}

// Property C15: a field whose tags name the header source, and whose header is present in the
// request, is set from it - for scalar kinds and for slices thereof alike, and a required value
// that is present is not an error.
//
// Trigger: a header tag whose name is not written in canonical form (e.g. header:"x-token").
// The scalar getter uses RequestHeader.Peek (which normalizes the key) and finds the value;
// decoder.headerSlice compares the tag name byte-for-byte with the normalized stored key
// ("X-Token") and never finds it.
func TestHuntC15_3_SliceFieldIgnoresHeaderWithNonCanonicalTagName(t *testing.T) {
	type T struct {
		Scalar string   `header:"x-token"`
		Slice  []string `header:"x-token"`
		Ints   []int    `header:"x-num"`
	}
	raw := "GET /x HTTP/1.1\r\nHost: h\r\nx-token: abc\r\nx-num: 4\r\n\r\n"
	var v T
	if err := Bind(huntC15ParseReq3(t, raw), &v, nil); err != nil {
		t.Fatalf("unexpected error: %v", err)
	}
	if v.Scalar != "abc" {
		t.Fatalf("scalar header field: got %q want %q", v.Scalar, "abc")
	}
	if !reflect.DeepEqual(v.Slice, []string{"abc"}) {
		t.Errorf("[]string `header:\"x-token\"`: request carries the header (the string field with the same tag got %q) but slice field is %v, want [abc]", v.Scalar, v.Slice)
	}
	if !reflect.DeepEqual(v.Ints, []int{4}) {
		t.Errorf("[]int `header:\"x-num\"`: request carries x-num: 4 but field is %v, want [4]", v.Ints)
	}

	type R struct {
		Slice []string `header:"x-token,required"`
	}
	var r R
	if err := Bind(huntC15ParseReq3(t, raw), &r, nil); err != nil {
		t.Errorf("required header is present in the request, yet Bind fails: %v", err)
	}
}
