package validator

import "testing"

// Repair 47d93db stops the value getter of a multi-level pointer member at a nil inner
// level, so `$==nil` is true for it. The member rules of the struct behind the pointer
// are still run against the absent struct: the "parent is nil, ignore" check in Validate
// looks at the outermost pointer level only. A **T / ***T member whose inner level is nil
// is rejected for T's rules, a nil *T is accepted.

type hunt7Elem struct {
	A int `vd:"$>0"`
}

func TestHunt7_3_NilInnerLevelOfMultiLevelPointerIsAbsent(t *testing.T) {
	v := New("vd")
	// reference: a nil *T is absent, T's rules do not apply
	if err := v.Validate(&struct{ F *hunt7Elem }{}); err != nil {
		t.Fatalf("nil *T: %v", err)
	}
	var inner *hunt7Elem
	// the case of the commit message: the member says itself that nil is what it wants
	if err := v.Validate(&struct {
		F **hunt7Elem `vd:"$==nil"`
	}{&inner}); err != nil {
		t.Errorf("**T with a nil inner level and the rule $==nil: got %v, want no error ($==nil holds, there is no T whose rules could fail)", err)
	}
	mid := &inner
	if err := v.Validate(&struct{ F ***hunt7Elem }{&mid}); err != nil {
		t.Errorf("***T with a nil inner level: got %v, want no error as for a nil *T", err)
	}
}
