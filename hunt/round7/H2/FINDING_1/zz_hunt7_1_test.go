package binding

import "testing"

// Repair f4b8513 made the members of an embedded struct without a json name be looked up
// as keys of the enclosing object. encoding/json (and sonic) give such a key to the
// SHALLOWEST member only: when the enclosing struct declares a member with the same json
// name, the embedded member is never filled from the body. The presence lookup does not
// know that: the outer member's key now counts as "the embedded member is present" and
// the embedded member's declared default is dropped. Before f4b8513 the lookup asked for
// 'Hunt7Base.kind' (absent), and the default was applied.

type Hunt7Base struct {
	Kind string `json:"kind" default:"base"`
}

type hunt7Shadow struct {
	Hunt7Base
	Kind string `json:"kind"`
}

func TestHunt7_1_ShadowedEmbeddedMemberKeepsItsDefault(t *testing.T) {
	var r hunt7Shadow
	req := newMockRequest().SetRequestURI("http://foobar.com/x").SetJSONContentType().SetBody([]byte(`{"kind":"outer"}`))
	if err := DefaultBinder().Bind(req.Req, &r, nil); err != nil {
		t.Fatal(err)
	}
	if r.Kind != "outer" {
		t.Fatalf("outer member: got %q, want %q", r.Kind, "outer")
	}
	// the body decoder gives "kind" to the outer member only; nothing was bound to the
	// embedded one, so its declared default has to be applied (as it was before f4b8513)
	if r.Hunt7Base.Kind != "base" {
		t.Fatalf("embedded member shadowed by an outer member of the same json name: got %q, want its default %q (the key in the body belongs to the outer member)", r.Hunt7Base.Kind, "base")
	}
}
