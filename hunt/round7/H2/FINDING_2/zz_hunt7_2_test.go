package binding

import "testing"

// Repair 1ef46ae makes the declared default the field's default even when every source
// tag is "-". For a field without a json tag the decoders have no json TagInfo, so
// nothing checks whether the body decoder has already bound the field: the default now
// overwrites a value that came from the JSON body. Before the repair
// `query:"-" default:"5"` with the body {"N":7} gave N == 7.

type hunt7SkipDefault struct {
	N int `query:"-" default:"5"`
}

func TestHunt7_2_DefaultOfSkippedTagDoesNotOverwriteBodyValue(t *testing.T) {
	var r hunt7SkipDefault
	req := newMockRequest().SetRequestURI("http://foobar.com/x").SetJSONContentType().SetBody([]byte(`{"N":7}`))
	if err := DefaultBinder().Bind(req.Req, &r, nil); err != nil {
		t.Fatal(err)
	}
	if r.N != 7 {
		t.Fatalf("N is in the JSON body (7) and `query:\"-\"` only excludes the query string: got %d, want 7 (a default is for an absent value)", r.N)
	}
	// the repaired case itself still has to hold
	var r2 hunt7SkipDefault
	req = newMockRequest().SetRequestURI("http://foobar.com/x").SetJSONContentType().SetBody([]byte(`{}`))
	if err := DefaultBinder().Bind(req.Req, &r2, nil); err != nil {
		t.Fatal(err)
	}
	if r2.N != 5 {
		t.Fatalf("absent value: got %d, want the default 5", r2.N)
	}
}
