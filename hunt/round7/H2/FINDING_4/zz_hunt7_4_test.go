package binding

import "testing"

// Repair 7cab293 restricts the case twins of a json name to "members the body decoder can
// fill", but hasCaseTwin still looks at the direct members of the struct only. Since
// f4b8513 the binder knows that the members of an embedded struct without a json name are
// keys of the enclosing object - they are members the decoder fills, and they claim
// their exactly spelled key. A promoted member "id" is not seen as the twin of "ID":
// the key "id" (bound to the promoted member) counts as presence of "ID", whose default
// is dropped although nothing was bound to it.

type Hunt7Promoted struct {
	Id int `json:"id"`
}

type hunt7TwinReq struct {
	Hunt7Promoted
	ID int `json:"ID" default:"3"`
}

// the same two members side by side: handled since 845c439
type hunt7TwinFlat struct {
	Id int `json:"id"`
	ID int `json:"ID" default:"3"`
}

func TestHunt7_4_PromotedMemberIsACaseTwin(t *testing.T) {
	body := []byte(`{"id":7}`)
	var flat hunt7TwinFlat
	req := newMockRequest().SetRequestURI("http://foobar.com/x").SetJSONContentType().SetBody(body)
	if err := DefaultBinder().Bind(req.Req, &flat, nil); err != nil {
		t.Fatal(err)
	}
	if flat.Id != 7 || flat.ID != 3 {
		t.Fatalf("reference (direct siblings): got Id=%d ID=%d, want 7 and 3", flat.Id, flat.ID)
	}
	var r hunt7TwinReq
	req = newMockRequest().SetRequestURI("http://foobar.com/x").SetJSONContentType().SetBody(body)
	if err := DefaultBinder().Bind(req.Req, &r, nil); err != nil {
		t.Fatal(err)
	}
	if r.Id != 7 {
		t.Fatalf("promoted member: got %d, want 7", r.Id)
	}
	if r.ID != 3 {
		t.Fatalf("the key \"id\" was bound to the promoted member Id, nothing to ID: got ID=%d, want its default 3", r.ID)
	}
}
