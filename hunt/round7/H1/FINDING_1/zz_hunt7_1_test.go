package http1

import (
	"bufio"
	"context"
	"net"
	"strings"
	"testing"
	"time"

	"github.com/cloudwego/hertz/pkg/network/dialer"
	"github.com/cloudwego/hertz/pkg/protocol"
)

// A 101 answer whose Connection options are spelled as two header lines
//
//	Connection: keep-alive
//	Connection: Upgrade
//
// is the same list as "Connection: keep-alive, Upgrade" (RFC 9110 5.3). The client
// must not pool the connection (it speaks the other protocol from now on) and
// Response.Hijack must hand it out. 3e7f561 repaired the one-line spelling only:
// ConnectionUpgrade looks at Peek("Connection"), which is the first line.
func hunt7UpgradeServer(t *testing.T, head string) (addr string, accepted chan int, stop func()) {
	ln, err := net.Listen("tcp", "127.0.0.1:0")
	if err != nil {
		t.Fatal(err)
	}
	accepted = make(chan int, 16)
	go func() {
		n := 0
		for {
			conn, err := ln.Accept()
			if err != nil {
				return
			}
			n++
			accepted <- n
			go func(conn net.Conn) {
				defer conn.Close()
				br := bufio.NewReader(conn)
				// read one request head
				for {
					line, err := br.ReadString('\n')
					if err != nil {
						return
					}
					if line == "\r\n" {
						break
					}
				}
				conn.Write([]byte(head)) //nolint:errcheck
				// from here on the connection speaks "the other protocol": every
				// line that arrives is answered with "echo:<line>"
				for {
					line, err := br.ReadString('\n')
					if err != nil {
						return
					}
					conn.Write([]byte("echo:" + line)) //nolint:errcheck
				}
			}(conn)
		}
	}()
	return ln.Addr().String(), accepted, func() { ln.Close() }
}

func hunt7Upgrade(t *testing.T, head string) {
	addr, _, stop := hunt7UpgradeServer(t, head)
	defer stop()

	c := &HostClient{
		Addr: addr,
		ClientOptions: &ClientOptions{
			Dialer:      dialer.DefaultDialer(),
			ReadTimeout: 2 * time.Second,
		},
	}
	req := protocol.AcquireRequest()
	resp := protocol.AcquireResponse()
	req.SetRequestURI("http://" + addr + "/ws")
	req.Header.Set("Connection", "Upgrade")
	req.Header.Set("Upgrade", "echo")
	if err := c.Do(context.Background(), req, resp); err != nil {
		t.Fatalf("Do: %v", err)
	}
	if resp.StatusCode() != 101 {
		t.Fatalf("status %d", resp.StatusCode())
	}
	if _, err := resp.Hijack(); err != nil {
		t.Errorf("Hijack after 101 with the upgrade option: %v (want the connection)", err)
	}
	if n := c.ConnPoolState().PoolConnNum; n != 0 {
		t.Errorf("the upgraded connection went back to the pool (%d pooled conns); the next request of this host is written into it", n)
	}

	// the consequence: the next HTTP request of the host is written into the
	// upgraded connection and answered by the other protocol
	req2 := protocol.AcquireRequest()
	resp2 := protocol.AcquireResponse()
	req2.SetRequestURI("http://" + addr + "/plain")
	err := c.Do(context.Background(), req2, resp2)
	if err != nil && strings.Contains(err.Error(), "echo:") {
		t.Errorf("second request was sent into the upgraded connection: %v", err)
	}
}

func TestHunt7_101_OneLineList_Control(t *testing.T) {
	hunt7Upgrade(t, "HTTP/1.1 101 Switching Protocols\r\nUpgrade: echo\r\nConnection: keep-alive, Upgrade\r\n\r\n")
}

func TestHunt7_101_TwoConnectionLines(t *testing.T) {
	hunt7Upgrade(t, "HTTP/1.1 101 Switching Protocols\r\nUpgrade: echo\r\nConnection: keep-alive\r\nConnection: Upgrade\r\n\r\n")
}
