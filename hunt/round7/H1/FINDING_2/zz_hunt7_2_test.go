package protocol

import (
	"errors"
	"io"
	"testing"
)

// a4540c2: "every body setter forgets it" (the remembered error of a body stream that
// failed). That was done for Response only. Request remembers the error in the same way
// (cdb9429), and of its setters only the ones that go through ResetBody (SetBodyStream,
// SetBodyRaw) forget it: after SetBody / SetBodyString / AppendBody / AppendBodyString /
// BodyWriter().Write / SwapBody the request HAS a new body, but Body() returns nil and
// BodyE() the old error.

type hunt7FailingReader struct{ n int }

var errHunt7Cut = errors.New("hunt7: stream cut")

func (r *hunt7FailingReader) Read(p []byte) (int, error) {
	if r.n == 0 {
		r.n++
		return copy(p, "part"), nil
	}
	return 0, errHunt7Cut
}

func hunt7FailedRequest(t *testing.T) *Request {
	req := &Request{}
	req.SetBodyStream(&hunt7FailingReader{}, -1)
	if _, err := req.BodyE(); !errors.Is(err, errHunt7Cut) {
		t.Fatalf("setup: BodyE err = %v", err)
	}
	return req
}

func hunt7FailedResponse(t *testing.T) *Response {
	resp := &Response{}
	resp.SetBodyStream(&hunt7FailingReader{}, -1)
	if _, err := resp.BodyE(); !errors.Is(err, errHunt7Cut) {
		t.Fatalf("setup: BodyE err = %v", err)
	}
	return resp
}

func TestHunt7_RequestBodySettersForgetStreamError(t *testing.T) {
	setters := []struct {
		name string
		set  func(req *Request)
	}{
		{"SetBody", func(req *Request) { req.SetBody([]byte("new body")) }},
		{"SetBodyString", func(req *Request) { req.SetBodyString("new body") }},
		{"AppendBody", func(req *Request) { req.AppendBody([]byte("new body")) }},
		{"AppendBodyString", func(req *Request) { req.AppendBodyString("new body") }},
		{"BodyWriter", func(req *Request) { io.WriteString(req.BodyWriter(), "new body") }}, //nolint:errcheck
		{"SwapBody", func(req *Request) { req.SwapBody([]byte("new body")) }},
		// controls: these go through ResetBody and work
		{"SetBodyRaw(control)", func(req *Request) { req.SetBodyRaw([]byte("new body")) }},
	}
	for _, s := range setters {
		t.Run(s.name, func(t *testing.T) {
			req := hunt7FailedRequest(t)
			s.set(req)
			body, err := req.BodyE()
			if err != nil || string(body) != "new body" {
				t.Errorf("Request.%s after a failed body stream: BodyE() = %q, %v; want \"new body\", <nil> "+
					"(BodyBytes() = %q: the body is there, Body()/BodyE() keep reporting the old stream's error)",
					s.name, body, err, req.BodyBytes())
			}
		})
	}
}

// the response side as repaired by a4540c2, for comparison (passes)
func TestHunt7_ResponseBodySettersForgetStreamError_Control(t *testing.T) {
	setters := []struct {
		name string
		set  func(resp *Response)
	}{
		{"SetBody", func(resp *Response) { resp.SetBody([]byte("new body")) }},
		{"SetBodyString", func(resp *Response) { resp.SetBodyString("new body") }},
		{"AppendBody", func(resp *Response) { resp.AppendBody([]byte("new body")) }},
		{"AppendBodyString", func(resp *Response) { resp.AppendBodyString("new body") }},
		{"BodyWriter", func(resp *Response) { io.WriteString(resp.BodyWriter(), "new body") }}, //nolint:errcheck
	}
	for _, s := range setters {
		t.Run(s.name, func(t *testing.T) {
			resp := hunt7FailedResponse(t)
			s.set(resp)
			body, err := resp.BodyE()
			if err != nil || string(body) != "new body" {
				t.Errorf("Response.%s: BodyE() = %q, %v", s.name, body, err)
			}
		})
	}
}
