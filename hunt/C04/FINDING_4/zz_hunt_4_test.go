package server

// C04 hunt, finding 4: the Content-Length / chunked decision of a streamed body is
// taken when SetBodyStream is called, against the status code of THAT moment, and is
// not revisited when the message is written.
//   (a) status 204 (or 304 / 1xx) first, SetBodyStream, then status 200:
//       a "200 OK" without Content-Length and without Transfer-Encoding on a
//       keep-alive connection, and the body is silently dropped.
//   (b) SetBodyStream first, then status 204: "204 No Content" with
//       "Content-Length: 10" / "Transfer-Encoding: chunked" and no body.

import (
	"bufio"
	"context"
	"io"
	"net"
	"net/http"
	"strings"
	"testing"
	"time"

	"github.com/cloudwego/hertz/internal/testutils"
	"github.com/cloudwego/hertz/pkg/app"
	"github.com/cloudwego/hertz/pkg/network/standard"
)

func TestZZHunt4_StreamFramingDependsOnCallOrder(t *testing.T) {
	const body = "0123456789"
	h := New(WithHostPorts("127.0.0.1:0"), WithTransport(standard.NewTransporter), WithExitWaitTime(10*time.Millisecond))
	h.GET("/a/:size", func(ctx context.Context, c *app.RequestContext) {
		c.SetStatusCode(204) // e.g. a default put in place by a middleware
		size := len(body)
		if c.Param("size") == "unknown" {
			size = -1
		}
		c.SetBodyStream(strings.NewReader(body), size)
		c.SetStatusCode(200) // final decision of the handler
	})
	h.GET("/b/:size", func(ctx context.Context, c *app.RequestContext) {
		size := len(body)
		if c.Param("size") == "unknown" {
			size = -1
		}
		c.SetBodyStream(strings.NewReader(body), size)
		c.SetStatusCode(204)
	})
	go h.Spin()
	defer h.Close() // nolint:errcheck
	for i := 0; i < 200 && !h.IsRunning(); i++ {
		time.Sleep(10 * time.Millisecond)
	}
	time.Sleep(50 * time.Millisecond)

	fetch := func(path string) (*http.Response, []byte, error) {
		conn, err := net.Dial("tcp", testutils.GetListenerAddr(h))
		if err != nil {
			t.Fatal(err)
		}
		defer conn.Close()
		conn.SetDeadline(time.Now().Add(time.Second)) // nolint:errcheck
		conn.Write([]byte("GET " + path + " HTTP/1.1\r\nHost: x\r\n\r\n")) // nolint:errcheck
		req, _ := http.NewRequest("GET", "http://x"+path, nil)
		r, err := http.ReadResponse(bufio.NewReader(conn), req)
		if err != nil {
			t.Fatalf("%s: %v", path, err)
		}
		b, err := io.ReadAll(r.Body)
		return r, b, err
	}

	for _, p := range []string{"/a/known", "/a/unknown"} {
		r, b, err := fetch(p)
		if r.StatusCode != 200 {
			t.Errorf("%s: status %d, want 200", p, r.StatusCode)
		}
		if r.ContentLength < 0 && len(r.TransferEncoding) == 0 {
			t.Errorf("%s: 200 response on a keep-alive connection has neither Content-Length nor Transfer-Encoding: its end is undefined (client waits for close: err=%v)", p, err)
		}
		if string(b) != body {
			t.Errorf("%s: handler streamed %q with status 200, client decoded body %q", p, body, b)
		}
	}
	for _, p := range []string{"/b/known", "/b/unknown"} {
		r, b, _ := fetch(p)
		if r.StatusCode != 204 || len(b) != 0 {
			t.Errorf("%s: status %d body %q, want 204 without body", p, r.StatusCode, b)
		}
		if cl := r.Header.Get("Content-Length"); cl != "" && cl != "0" {
			t.Errorf("%s: 204 response announces Content-Length: %s but sends 0 bytes (RFC 9110 8.6: MUST NOT send Content-Length with 204)", p, cl)
		}
		if len(r.TransferEncoding) != 0 || r.Header.Get("Transfer-Encoding") != "" {
			t.Errorf("%s: 204 response announces Transfer-Encoding: chunked but sends no chunks (RFC 9112 6.1: MUST NOT)", p)
		}
	}
}
