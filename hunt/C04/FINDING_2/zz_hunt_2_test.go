package server

// C04 hunt, finding 2: RequestContext.Write / Response.AppendBody / Response.SetBody
// promise "it is safe re-using p after the function returns", but with the chunked
// body writer installed a write of >= 4096 bytes (standard transport; > 4096 with
// netpoll) is only referenced, not copied, until the next flush. A handler that
// re-uses its buffer - e.g. io.Copy(c, src) - sends a corrupted body.

import (
	"bufio"
	"bytes"
	"context"
	"io"
	"net"
	"net/http"
	"testing"
	"time"

	"github.com/cloudwego/hertz/internal/testutils"
	"github.com/cloudwego/hertz/pkg/app"
	"github.com/cloudwego/hertz/pkg/common/config"
	"github.com/cloudwego/hertz/pkg/network"
	"github.com/cloudwego/hertz/pkg/network/netpoll"
	"github.com/cloudwego/hertz/pkg/network/standard"
	"github.com/cloudwego/hertz/pkg/protocol/http1/resp"
)

// every blk-sized block of the payload has its own letter
func zzHunt2Payload(blk, blocks int) []byte {
	b := make([]byte, blk*blocks)
	for i := range b {
		b[i] = byte('A' + (i/blk)%26)
	}
	return b
}

func zzHunt2Summary(b []byte, blk int) string {
	var s []byte
	for i := 0; i < len(b); i += blk {
		s = append(s, b[i])
	}
	return string(s)
}

func TestZZHunt2_ChunkedWriterKeepsCallerBuffer(t *testing.T) {
	const blk = 4096 // the "copy below / reference from" threshold of standard.Conn.WriteBinary
	small := zzHunt2Payload(blk, 3)
	const ioCopyBuf = 32 * 1024 // buffer size used by io.Copy
	big := zzHunt2Payload(ioCopyBuf, 3)

	transports := []struct {
		name string
		f    func(*config.Options) network.Transporter
	}{
		{"standard", standard.NewTransporter},
		{"netpoll", netpoll.NewTransporter},
	}
	for _, tr := range transports {
		h := New(WithHostPorts("127.0.0.1:0"), WithTransport(tr.f), WithExitWaitTime(10*time.Millisecond))
		// (a) explicit loop with a re-used buffer, as the doc of Write/AppendBody allows
		h.GET("/loop/:n", func(ctx context.Context, c *app.RequestContext) {
			n := blk
			if c.Param("n") == "4095" {
				n = blk - 1
			}
			c.Response.HijackWriter(resp.NewChunkedBodyWriter(&c.Response, c.GetWriter()))
			src := bytes.NewReader(small)
			buf := make([]byte, n)
			for {
				m, err := src.Read(buf)
				if m > 0 {
					c.Write(buf[:m]) // nolint:errcheck   "It is safe re-using p after the function returns."
				}
				if err != nil {
					return
				}
			}
		})
		// (b) the idiomatic form: RequestContext is an io.Writer
		h.GET("/iocopy", func(ctx context.Context, c *app.RequestContext) {
			c.Response.HijackWriter(resp.NewChunkedBodyWriter(&c.Response, c.GetWriter()))
			// struct{io.Reader} hides WriterTo so that io.Copy uses (and re-uses) its own 32 KiB buffer,
			// exactly as it does for a file, a pipe or an upstream response body
			io.Copy(c, struct{ io.Reader }{bytes.NewReader(big)}) // nolint:errcheck
		})
		go h.Spin()
		for i := 0; i < 200 && !h.IsRunning(); i++ {
			time.Sleep(10 * time.Millisecond)
		}
		time.Sleep(50 * time.Millisecond)

		get := func(path string) []byte {
			conn, err := net.Dial("tcp", testutils.GetListenerAddr(h))
			if err != nil {
				t.Fatal(err)
			}
			defer conn.Close()
			conn.SetDeadline(time.Now().Add(3 * time.Second))                  // nolint:errcheck
			conn.Write([]byte("GET " + path + " HTTP/1.1\r\nHost: x\r\n\r\n")) // nolint:errcheck
			req, _ := http.NewRequest("GET", "http://x"+path, nil)
			r, err := http.ReadResponse(bufio.NewReader(conn), req)
			if err != nil {
				t.Fatalf("%s %s: %v", tr.name, path, err)
			}
			b, err := io.ReadAll(r.Body)
			if err != nil {
				t.Fatalf("%s %s: body: %v", tr.name, path, err)
			}
			return b
		}

		// control: one byte below the threshold everything is fine
		if got := get("/loop/4095"); !bytes.Equal(got, small) {
			t.Errorf("%s: writes of 4095 bytes: body differs from what the handler wrote (len %d)", tr.name, len(got))
		}
		if tr.name == "standard" { // netpoll references the caller's buffer from 4097 bytes on
			if got := get("/loop/4096"); !bytes.Equal(got, small) {
				t.Errorf("%s: writes of 4096 bytes from a re-used buffer: client decoded %d bytes, 4KiB-block letters %q; the handler wrote %d bytes, block letters %q",
					tr.name, len(got), zzHunt2Summary(got, blk), len(small), zzHunt2Summary(small, blk))
			}
		}
		if got := get("/iocopy"); !bytes.Equal(got, big) {
			t.Errorf("%s: io.Copy(c, src): client decoded %d bytes, 32KiB-block letters %q; the handler wrote %d bytes, block letters %q",
				tr.name, len(got), zzHunt2Summary(got, ioCopyBuf), len(big), zzHunt2Summary(big, ioCopyBuf))
		}
		h.Close() // nolint:errcheck
	}
}
