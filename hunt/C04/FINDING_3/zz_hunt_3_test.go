package server

// C04 hunt, finding 3: setting the Content-Length header through the generic header
// API on a response that was marked chunked (SetBodyStream(r, -1)) produces a message
// with BOTH "Content-Length: n" and "Transfer-Encoding: chunked" whose body is sent
// un-chunked.

import (
	"bufio"
	"bytes"
	"context"
	"io"
	"net"
	"net/http"
	"strings"
	"testing"
	"time"

	"github.com/cloudwego/hertz/internal/testutils"
	"github.com/cloudwego/hertz/pkg/app"
	"github.com/cloudwego/hertz/pkg/network/standard"
)

func TestZZHunt3_ContentLengthHeaderOnChunkedStream(t *testing.T) {
	const body = "0123456789"
	h := New(WithHostPorts("127.0.0.1:0"), WithTransport(standard.NewTransporter), WithExitWaitTime(10*time.Millisecond))
	// Typical for a proxying handler: the stream is installed with unknown size and
	// then the upstream header fields (among them Content-Length) are copied over.
	h.GET("/proxy", func(ctx context.Context, c *app.RequestContext) {
		c.SetBodyStream(strings.NewReader(body), -1)
		c.Response.Header.Set("Content-Length", "10") // truthful: the stream has exactly 10 bytes
	})
	h.GET("/next", func(ctx context.Context, c *app.RequestContext) {
		c.SetBodyString("next")
	})
	go h.Spin()
	defer h.Close() // nolint:errcheck
	for i := 0; i < 200 && !h.IsRunning(); i++ {
		time.Sleep(10 * time.Millisecond)
	}
	time.Sleep(50 * time.Millisecond)

	// 1. look at the raw bytes
	conn, err := net.Dial("tcp", testutils.GetListenerAddr(h))
	if err != nil {
		t.Fatal(err)
	}
	conn.SetDeadline(time.Now().Add(2 * time.Second)) // nolint:errcheck
	conn.Write([]byte("GET /proxy HTTP/1.1\r\nHost: x\r\nConnection: close\r\n\r\n")) // nolint:errcheck
	raw, _ := io.ReadAll(conn)
	conn.Close()
	head := raw
	if i := bytes.Index(raw, []byte("\r\n\r\n")); i >= 0 {
		head = raw[:i]
	}
	hasCL := bytes.Contains(head, []byte("\r\nContent-Length:"))
	hasTE := bytes.Contains(head, []byte("\r\nTransfer-Encoding: chunked"))
	if hasCL && hasTE {
		t.Errorf("the response carries both Content-Length and Transfer-Encoding: chunked (RFC 9112 6.1/6.3: forbidden for a sender, request-smuggling class ambiguity):\n%q", raw)
	}

	// 2. an independent client, two requests on one connection
	conn, err = net.Dial("tcp", testutils.GetListenerAddr(h))
	if err != nil {
		t.Fatal(err)
	}
	defer conn.Close()
	conn.SetDeadline(time.Now().Add(2 * time.Second)) // nolint:errcheck
	conn.Write([]byte("GET /proxy HTTP/1.1\r\nHost: x\r\n\r\nGET /next HTTP/1.1\r\nHost: x\r\n\r\n")) // nolint:errcheck
	br := bufio.NewReader(conn)
	req, _ := http.NewRequest("GET", "http://x/", nil)
	r1, err := http.ReadResponse(br, req)
	if err != nil {
		t.Fatalf("response 1: %v", err)
	}
	b1, err := io.ReadAll(r1.Body)
	if err != nil || string(b1) != body {
		t.Errorf("response 1: framing %v does not match the bytes sent: client decoded body %q, err %v; want %q",
			r1.TransferEncoding, b1, err, body)
	}
	r2, err := http.ReadResponse(br, req)
	if err != nil {
		t.Fatalf("response 2 does not start where response 1 ends: %v", err)
	}
	b2, _ := io.ReadAll(r2.Body)
	if string(b2) != "next" {
		t.Errorf("response 2: body %q, want \"next\"", b2)
	}
}
