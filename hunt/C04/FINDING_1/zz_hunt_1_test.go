package server

// C04 hunt, finding 1: a zero-length Write on the chunked body writer puts the
// terminating chunk ("0\r\n") in the middle of the body.

import (
	"bufio"
	"context"
	"io"
	"net"
	"net/http"
	"testing"
	"time"

	"github.com/cloudwego/hertz/internal/testutils"
	"github.com/cloudwego/hertz/pkg/app"
	"github.com/cloudwego/hertz/pkg/network/standard"
	"github.com/cloudwego/hertz/pkg/protocol/http1/resp"
)

func TestZZHunt1_ChunkedWriterEmptyWrite(t *testing.T) {
	h := New(WithHostPorts("127.0.0.1:0"), WithTransport(standard.NewTransporter), WithExitWaitTime(10*time.Millisecond))
	h.GET("/chunked", func(ctx context.Context, c *app.RequestContext) {
		c.Response.HijackWriter(resp.NewChunkedBodyWriter(&c.Response, c.GetWriter()))
		c.Write([]byte("hello")) // nolint:errcheck
		c.Write(nil)             // a legal io.Writer call: writes nothing
		c.Flush()                // nolint:errcheck
		c.WriteString("")        // nolint:errcheck  (same thing through another entry point)
		c.Write([]byte("world")) // nolint:errcheck
	})
	h.GET("/next", func(ctx context.Context, c *app.RequestContext) {
		c.SetBodyString("next")
	})
	go h.Spin()
	defer h.Close() // nolint:errcheck
	for i := 0; i < 200 && !h.IsRunning(); i++ {
		time.Sleep(10 * time.Millisecond)
	}
	time.Sleep(50 * time.Millisecond)

	conn, err := net.Dial("tcp", testutils.GetListenerAddr(h))
	if err != nil {
		t.Fatal(err)
	}
	defer conn.Close()
	conn.SetDeadline(time.Now().Add(3 * time.Second)) // nolint:errcheck
	br := bufio.NewReader(conn)

	// two requests on one keep-alive connection
	if _, err = conn.Write([]byte("GET /chunked HTTP/1.1\r\nHost: x\r\n\r\nGET /next HTTP/1.1\r\nHost: x\r\n\r\n")); err != nil {
		t.Fatal(err)
	}

	req, _ := http.NewRequest("GET", "http://x/chunked", nil)
	r1, err := http.ReadResponse(br, req)
	if err != nil {
		t.Fatalf("response 1 is not a well-formed message: %v", err)
	}
	b1, err := io.ReadAll(r1.Body)
	if err != nil {
		t.Errorf("response 1: an independent client cannot decode the chunked body: %v (decoded so far %q)", err, b1)
	}
	if string(b1) != "helloworld" {
		t.Errorf("response 1: the handler wrote \"hello\", \"\", \"\", \"world\"; client decoded body %q, want %q", b1, "helloworld")
	}

	// the next response must start exactly where the first one ends
	r2, err := http.ReadResponse(br, req)
	if err != nil {
		t.Fatalf("response 2 does not start where response 1 ends: %v", err)
	}
	b2, _ := io.ReadAll(r2.Body)
	if r2.StatusCode != 200 || string(b2) != "next" {
		t.Errorf("response 2: got status %d body %q, want 200 \"next\"", r2.StatusCode, b2)
	}
}
