package server

// Property C03: no peer-controlled input can crash the process - quantified over
// all byte strings "delivered under arbitrary segmentation" to the server read path.
//
// Trigger: the go-net ("standard") transport (the only transport on Windows, and
// the one every TLS server uses), DEFAULT options, and ONE well-formed request
// whose header section is larger than the 4096 byte read-buffer node and arrives
// in small TCP segments (here: one byte per write).
//
// What happens: req.ReadHeader parses the header section again from its first byte
// every time a segment arrives (tryRead: r.Peek(n), then ext.MustPeekBuffered ->
// r.Peek(r.Len())). As soon as the buffered bytes span two buffer nodes,
// standard.(*Conn).Peek copies ALL buffered bytes into a fresh buffer and parks
// that buffer in c.caches, which is emptied only by Release() - i.e. after the
// request has been answered. A header of H bytes that arrives in k segments
// therefore pins about 2 * k * H/2 bytes (two Peeks per segment, sizes rounded up
// to a power of two): the 24 KiB header below pins ~0.8 GB, 40 KiB pin ~2.2 GB,
// 200 KiB pin > 50 GB. Hertz has no limit on the size of the header section, so
// every host is driven out of memory (= the process is killed) by well under a
// megabyte of input on one connection.
//
// What the property demands: the request is served (or rejected with one clean 4xx)
// with memory proportional to what was received. The test asserts a very generous
// bound: the heap in use at the moment the request reaches the handler must stay
// below 64 MiB (more than 2500 times the size of the request).

import (
	"bufio"
	"context"
	"io"
	"net"
	"net/http"
	"runtime"
	"strings"
	"sync/atomic"
	"testing"
	"time"

	"github.com/cloudwego/hertz/internal/testutils"
	"github.com/cloudwego/hertz/pkg/app"
	"github.com/cloudwego/hertz/pkg/network/standard"
)

func TestHunt2TrickledHeaderPinsGigabytes(t *testing.T) {
	const (
		fillerSize = 24 * 1024 // size of the one long header field
		heapBound  = 64 << 20  // 64 MiB
	)
	h := New(
		WithHostPorts("127.0.0.1:0"),
		WithTransport(standard.NewTransporter),
		WithDisablePrintRoute(true),
	)
	var heapInHandler uint64
	h.GET("/ping", func(c context.Context, ctx *app.RequestContext) {
		// everything that is still reachable now is held on behalf of this request
		var ms runtime.MemStats
		runtime.GC()
		runtime.ReadMemStats(&ms)
		atomic.StoreUint64(&heapInHandler, ms.HeapInuse)
		ctx.String(200, "pong")
	})
	go h.Spin()
	waitEngineRunning(h)
	defer h.Close()

	var before runtime.MemStats
	runtime.GC()
	runtime.ReadMemStats(&before)

	request := "GET /ping HTTP/1.1\r\nHost: example.com\r\nConnection: close\r\nX-Filler: " +
		strings.Repeat("a", fillerSize) + "\r\n\r\n"
	c, err := net.Dial("tcp", testutils.GetListenerAddr(h))
	if err != nil {
		t.Fatal(err)
	}
	defer c.Close()
	start := time.Now()
	for i := 0; i < len(request); i++ {
		if _, err = c.Write([]byte{request[i]}); err != nil {
			t.Fatalf("write of byte %d failed: %v", i, err)
		}
		// pace the segments so that the server reads them one by one
		time.Sleep(20 * time.Microsecond)
	}
	c.SetReadDeadline(time.Now().Add(20 * time.Second)) //nolint:errcheck
	resp, err := http.ReadResponse(bufio.NewReader(c), nil)
	if err != nil {
		t.Fatalf("no well-formed answer to a well-formed request: %v", err)
	}
	body, _ := io.ReadAll(resp.Body)
	if resp.StatusCode != 200 || string(body) != "pong" {
		t.Fatalf("unexpected answer: %d %q", resp.StatusCode, body)
	}

	got := atomic.LoadUint64(&heapInHandler)
	t.Logf("request of %d bytes sent in %v: heap in use before %d MiB, when the request reached the handler %d MiB",
		len(request), time.Since(start), before.HeapInuse>>20, got>>20)
	if got > heapBound {
		t.Fatalf("one %d byte request, delivered one byte per segment, pinned %d MiB of heap in the server (bound: %d MiB). "+
			"The amount grows with the square of the header size and the header size is not limited: "+
			"a few hundred KiB of input exhaust the memory of any host and the process is killed",
			len(request), got>>20, heapBound>>20)
	}
}
