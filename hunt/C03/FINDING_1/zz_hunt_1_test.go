package server

// Property C03: no peer-controlled input can crash the process.
//
// Trigger: the go-net ("standard") transport - the only transport on Windows and
// the one every TLS server uses - with the request body limit switched off
// (WithMaxRequestBodySize(0); the code treats every value <= 0 as "no limit"),
// and ONE request whose Content-Length is huge.
//
// req.ContinueReadBody takes the "ping-pong" shortcut r.Peek(contentLength) for a
// body of known length; standard.(*Conn).Peek -> fill -> newBufferNode(contentLength)
// allocates the whole declared length at once: make([]byte, 9e18) panics with
// "makeslice: len out of range" in the connection goroutine, which has no recover,
// so the whole server process dies.
//
// The server is run in a child process (this test binary re-executed), so that the
// crash is observed as what it is: the death of the process.

import (
	"bufio"
	"bytes"
	"context"
	"fmt"
	"io"
	"net"
	"net/http"
	"os"
	"os/exec"
	"strings"
	"testing"
	"time"

	"github.com/cloudwego/hertz/internal/testutils"
	"github.com/cloudwego/hertz/pkg/app"
	"github.com/cloudwego/hertz/pkg/network/standard"
)

const hunt1ChildEnv = "HERTZ_HUNT_1_CHILD"

// TestHunt1Child is the server process. It is a no-op unless started by TestHunt1HugeContentLengthCrashesProcess.
func TestHunt1Child(t *testing.T) {
	if os.Getenv(hunt1ChildEnv) != "1" {
		t.Skip("helper process of TestHunt1HugeContentLengthCrashesProcess")
	}
	h := New(
		WithHostPorts("127.0.0.1:0"),
		WithTransport(standard.NewTransporter),
		WithMaxRequestBodySize(0), // no limit on the request body
		WithReadTimeout(2*time.Second),
		WithDisablePrintRoute(true),
	)
	h.POST("/upload", func(c context.Context, ctx *app.RequestContext) { ctx.String(200, "ok") })
	h.GET("/ping", func(c context.Context, ctx *app.RequestContext) { ctx.String(200, "pong") })
	go h.Spin()
	waitEngineRunning(h)
	fmt.Printf("HUNT1_ADDR=%s\n", testutils.GetListenerAddr(h))
	os.Stdout.Sync()
	time.Sleep(30 * time.Second) // the parent kills us
}

func TestHunt1HugeContentLengthCrashesProcess(t *testing.T) {
	cmd := exec.Command(os.Args[0], "-test.run=^TestHunt1Child$", "-test.v")
	cmd.Env = append(os.Environ(), hunt1ChildEnv+"=1")
	var stderr bytes.Buffer
	cmd.Stderr = &stderr
	stdout, err := cmd.StdoutPipe()
	if err != nil {
		t.Fatal(err)
	}
	if err = cmd.Start(); err != nil {
		t.Fatal(err)
	}
	exited := make(chan error, 1)
	defer func() {
		cmd.Process.Kill() //nolint:errcheck
		<-exited
	}()

	// learn the address of the server
	addrCh := make(chan string, 1)
	go func() {
		sc := bufio.NewScanner(stdout)
		for sc.Scan() {
			if s := sc.Text(); strings.HasPrefix(s, "HUNT1_ADDR=") {
				addrCh <- strings.TrimPrefix(s, "HUNT1_ADDR=")
			}
		}
		exited <- cmd.Wait()
	}()
	var addr string
	select {
	case addr = <-addrCh:
	case <-time.After(20 * time.Second):
		t.Fatalf("server process did not start; stderr:\n%s", stderr.String())
	}

	// sanity: the server works
	if body := hunt1Get(t, addr); body != "pong" {
		t.Fatalf("server does not answer before the attack: %q", body)
	}

	// the one hostile request
	c, err := net.Dial("tcp", addr)
	if err != nil {
		t.Fatal(err)
	}
	defer c.Close()
	_, err = c.Write([]byte("POST /upload HTTP/1.1\r\nHost: example.com\r\nContent-Length: 9000000000000000000\r\n\r\nabc"))
	if err != nil {
		t.Fatal(err)
	}
	c.SetReadDeadline(time.Now().Add(6 * time.Second)) //nolint:errcheck
	answer, _ := io.ReadAll(c)

	// Whatever the server answers must be one clean 4xx carrying Connection: close
	// (408 after the read timeout, or 400/413), or nothing at all.
	if len(answer) > 0 {
		resp, rerr := http.ReadResponse(bufio.NewReader(bytes.NewReader(answer)), nil)
		if rerr != nil {
			t.Errorf("answer to the hostile request is not well-formed HTTP: %v\n%q", rerr, answer)
		} else if resp.StatusCode < 400 || resp.StatusCode > 499 || !resp.Close {
			t.Errorf("answer to the hostile request must be a 4xx with Connection: close, got:\n%q", answer)
		}
	}

	// The property: the process must have survived.
	select {
	case werr := <-exited:
		exited <- werr
		t.Fatalf("one request with 'Content-Length: 9000000000000000000' killed the server process (%v); its stderr:\n%s",
			werr, hunt1Tail(stderr.String(), 25))
	case <-time.After(500 * time.Millisecond):
	}
	if body := hunt1Get(t, addr); body != "pong" {
		t.Fatalf("server does not answer any more after the hostile request: %q\nstderr:\n%s", body, hunt1Tail(stderr.String(), 25))
	}
}

func hunt1Get(t *testing.T, addr string) string {
	c, err := net.DialTimeout("tcp", addr, 2*time.Second)
	if err != nil {
		return "dial: " + err.Error()
	}
	defer c.Close()
	c.SetDeadline(time.Now().Add(3 * time.Second)) //nolint:errcheck
	if _, err = c.Write([]byte("GET /ping HTTP/1.1\r\nHost: example.com\r\nConnection: close\r\n\r\n")); err != nil {
		return "write: " + err.Error()
	}
	resp, err := http.ReadResponse(bufio.NewReader(c), nil)
	if err != nil {
		return "read: " + err.Error()
	}
	b, _ := io.ReadAll(resp.Body)
	return string(b)
}

func hunt1Tail(s string, n int) string {
	lines := strings.Split(strings.TrimRight(s, "\n"), "\n")
	var keep []string
	for _, l := range lines {
		if strings.HasPrefix(l, "panic:") || strings.HasPrefix(l, "goroutine ") || strings.Contains(l, "hertz/pkg/") {
			keep = append(keep, l)
		}
	}
	if len(keep) > n {
		keep = keep[:n]
	}
	return strings.Join(keep, "\n")
}
