package server

import (
	"bytes"
	"context"
	"fmt"
	"io"
	"net"
	"runtime"
	"strings"
	"sync"
	"testing"
	"time"

	"github.com/cloudwego/hertz/internal/testutils"
	"github.com/cloudwego/hertz/pkg/app"
	"github.com/cloudwego/hertz/pkg/network/standard"
)

// Property C19: "each handled request is bracketed by exactly one start/finish
// pair whose finish carries that request's data".
//
// The tracer below does what an audit / access-log tracer does: in Finish it
// looks at the request it is finishing (path and body).

type hunt1Rec struct {
	path string
	body []byte
}

type hunt1Tracer struct {
	mu   sync.Mutex
	recs []hunt1Rec
}

func (h *hunt1Tracer) Start(ctx context.Context, c *app.RequestContext) context.Context {
	return ctx
}

func (h *hunt1Tracer) Finish(ctx context.Context, c *app.RequestContext) {
	h.mu.Lock()
	defer h.mu.Unlock()
	h.recs = append(h.recs, hunt1Rec{
		path: string(c.Request.Path()),
		body: append([]byte(nil), c.Request.Body()...),
	})
}

func (h *hunt1Tracer) find(path string) (hunt1Rec, bool) {
	h.mu.Lock()
	defer h.mu.Unlock()
	for _, r := range h.recs {
		if r.path == path {
			return r, true
		}
	}
	return hunt1Rec{}, false
}

func TestHunt1FinishCarriesRequestBody(t *testing.T) {
	// one P makes the buffer hand-over between the two connections deterministic;
	// it is only a schedule, not a precondition
	defer runtime.GOMAXPROCS(runtime.GOMAXPROCS(1))

	const bodyLen = 6000 // > one 4096-byte connection buffer
	tr := &hunt1Tracer{}
	h := New(WithHostPorts("127.0.0.1:0"), WithTransport(standard.NewTransporter), WithTracer(tr))
	big := bytes.Repeat([]byte("r"), 16<<20)
	var seenByHandler []byte
	h.POST("/a", func(c context.Context, ctx *app.RequestContext) {
		seenByHandler = append([]byte(nil), ctx.Request.Body()...)
		ctx.Data(200, "application/octet-stream", big) // the client is slow to read this
	})
	h.POST("/b", func(c context.Context, ctx *app.RequestContext) {
		ctx.String(200, "b:%d", len(ctx.Request.Body()))
	})
	go h.Spin()
	waitEngineRunning(h)
	defer h.Close()
	addr := testutils.GetListenerAddr(h)

	post := func(path string, fill byte) []byte {
		return []byte(fmt.Sprintf("POST %s HTTP/1.1\r\nHost: x\r\nContent-Length: %d\r\n\r\n%s",
			path, bodyLen, strings.Repeat(string(fill), bodyLen)))
	}

	// connection A: one request; the client does not read the response yet
	ca, err := net.Dial("tcp", addr)
	if err != nil {
		t.Fatal(err)
	}
	defer ca.Close()
	if _, err = ca.Write(post("/a", 'A')); err != nil {
		t.Fatal(err)
	}
	time.Sleep(300 * time.Millisecond) // server is now flushing A's response

	// other connections: ordinary requests of the same size
	for i := 0; i < 8; i++ {
		cb, err := net.Dial("tcp", addr)
		if err != nil {
			t.Fatal(err)
		}
		cb.Write(post("/b", 'B'))
		buf := make([]byte, 4096)
		cb.SetReadDeadline(time.Now().Add(2 * time.Second))
		n, _ := cb.Read(buf)
		if !bytes.Contains(buf[:n], []byte("b:6000")) {
			t.Fatalf("unexpected response on B: %q", buf[:n])
		}
		cb.Close()
	}

	// now A's client reads its response; request A is finished after that
	ca.SetReadDeadline(time.Now().Add(20 * time.Second))
	go io.Copy(io.Discard, ca)
	var rec hunt1Rec
	ok := false
	for i := 0; i < 200 && !ok; i++ {
		time.Sleep(50 * time.Millisecond)
		rec, ok = tr.find("/a")
	}
	if !ok {
		t.Fatal("no Finish for request /a")
	}

	want := bytes.Repeat([]byte("A"), bodyLen)
	if !bytes.Equal(seenByHandler, want) {
		t.Fatalf("handler did not see A's body")
	}
	if !bytes.Equal(rec.body, want) {
		nb := bytes.Count(rec.body, []byte("B"))
		t.Fatalf("Finish for request /a must carry request /a's data, but its body is not the %d x 'A' that was sent and handled: len=%d, %d bytes are 'B' (the body of another connection's request), starts with %q",
			bodyLen, len(rec.body), nb, rec.body[:16])
	}
}
