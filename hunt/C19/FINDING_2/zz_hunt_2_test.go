package server

import (
	"context"
	"fmt"
	"net"
	"strings"
	"sync"
	"testing"
	"time"

	"github.com/cloudwego/hertz/internal/testutils"
	"github.com/cloudwego/hertz/pkg/app"
	"github.com/cloudwego/hertz/pkg/common/tracer/stats"
)

// Property C19: each request (also one that ends in "body too large" or "peer
// closes mid-body") is bracketed by one start/finish pair "whose finish
// carries that request's data".

type hunt2Rec struct {
	method, path, ua string
	headerReadOK     bool
	err              error
}

type hunt2Tracer struct {
	mu   sync.Mutex
	recs []hunt2Rec
}

func (h *hunt2Tracer) Start(ctx context.Context, c *app.RequestContext) context.Context { return ctx }

func (h *hunt2Tracer) Finish(ctx context.Context, c *app.RequestContext) {
	h.mu.Lock()
	defer h.mu.Unlock()
	r := hunt2Rec{
		method: string(c.Request.Method()),
		path:   string(c.Request.Path()),
		ua:     string(c.Request.Header.UserAgent()),
		err:    c.GetTraceInfo().Stats().Error(),
	}
	if ev := c.GetTraceInfo().Stats().GetEvent(stats.ReadHeaderFinish); ev != nil {
		r.headerReadOK = ev.Status() == stats.StatusInfo
	}
	h.recs = append(h.recs, r)
}

func (h *hunt2Tracer) wait(n int) []hunt2Rec {
	for i := 0; i < 100; i++ {
		h.mu.Lock()
		if len(h.recs) >= n {
			out := append([]hunt2Rec(nil), h.recs...)
			h.mu.Unlock()
			return out
		}
		h.mu.Unlock()
		time.Sleep(20 * time.Millisecond)
	}
	h.mu.Lock()
	defer h.mu.Unlock()
	return append([]hunt2Rec(nil), h.recs...)
}

func TestHunt2FinishCarriesRequestOfFailedBody(t *testing.T) {
	chunk := func(n int) string { return fmt.Sprintf("%x\r\n%s\r\n", n, strings.Repeat("c", n)) }
	cases := []struct {
		name      string
		raw       string
		closeSoon bool
		wantPath  string
	}{
		{
			// control: declared length too large -> 413; Finish shows the request
			name:     "fixed-length body too large",
			raw:      "POST /upload/fixed HTTP/1.1\r\nHost: x\r\nUser-Agent: hunt\r\nContent-Length: 5000\r\n\r\n" + strings.Repeat("f", 5000),
			wantPath: "/upload/fixed",
		},
		{
			name:     "chunked body too large",
			raw:      "POST /upload/chunked HTTP/1.1\r\nHost: x\r\nUser-Agent: hunt\r\nTransfer-Encoding: chunked\r\n\r\n" + chunk(3000) + chunk(3000) + "0\r\n\r\n",
			wantPath: "/upload/chunked",
		},
		{
			name:      "peer closes in the middle of a chunked body",
			raw:       "POST /upload/cut HTTP/1.1\r\nHost: x\r\nUser-Agent: hunt\r\nTransfer-Encoding: chunked\r\n\r\n" + "64\r\nabc",
			closeSoon: true,
			wantPath:  "/upload/cut",
		},
	}
	for _, tc := range cases {
		t.Run(tc.name, func(t *testing.T) {
			tr := &hunt2Tracer{}
			h := New(WithHostPorts("127.0.0.1:0"), WithTracer(tr), WithMaxRequestBodySize(4096))
			h.POST("/upload/*x", func(c context.Context, ctx *app.RequestContext) { ctx.String(200, "ok") })
			go h.Spin()
			waitEngineRunning(h)
			defer h.Close()

			c, err := net.Dial("tcp", testutils.GetListenerAddr(h))
			if err != nil {
				t.Fatal(err)
			}
			defer c.Close()
			c.Write([]byte(tc.raw))
			if tc.closeSoon {
				time.Sleep(50 * time.Millisecond)
				c.(*net.TCPConn).CloseWrite()
			}
			recs := tr.wait(1)
			if len(recs) != 1 {
				t.Fatalf("want exactly one Finish, got %d: %+v", len(recs), recs)
			}
			r := recs[0]
			t.Logf("Finish saw: %s %s ua=%q headerReadOK=%v err=%v", r.method, r.path, r.ua, r.headerReadOK, r.err)
			if !r.headerReadOK || r.err == nil {
				t.Fatalf("test premise: header read fine, exchange ended in an error; got %+v", r)
			}
			if r.method != "POST" || r.path != tc.wantPath || r.ua != "hunt" {
				t.Fatalf("Finish must carry the data of the request it finishes (POST %s, User-Agent hunt; its header was read successfully), got %s %s ua=%q",
					tc.wantPath, r.method, r.path, r.ua)
			}
		})
	}
}
