package standard

// Demo for property C02 (message parsing does not depend on how bytes are split
// into reads), finding 1: in streaming mode a request whose Content-Length is
// above MaxRequestBodySize is pre-read with ext.readBodyIdentity, which takes
// "whatever is buffered" (r.Len()) instead of at most Content-Length bytes. What
// the server delivers and answers therefore depends on how the same byte stream
// was cut into network reads.

import (
	"bytes"
	"context"
	"fmt"
	"io"
	"net"
	"regexp"
	"strings"
	"sync"
	"testing"
	"time"

	"github.com/cloudwego/hertz/pkg/app"
	"github.com/cloudwego/hertz/pkg/common/tracer"
	"github.com/cloudwego/hertz/pkg/protocol/http1"
)

// hunt1Conn is a net.Conn whose Read hands out the scripted segments one per call.
type hunt1Conn struct {
	segs [][]byte
	out  bytes.Buffer
}

func (c *hunt1Conn) Read(b []byte) (int, error) {
	for len(c.segs) > 0 && len(c.segs[0]) == 0 {
		c.segs = c.segs[1:]
	}
	if len(c.segs) == 0 {
		return 0, io.EOF
	}
	n := copy(b, c.segs[0])
	c.segs[0] = c.segs[0][n:]
	return n, nil
}
func (c *hunt1Conn) Write(b []byte) (int, error)        { return c.out.Write(b) }
func (c *hunt1Conn) Close() error                       { return nil }
func (c *hunt1Conn) LocalAddr() net.Addr                { return &net.TCPAddr{} }
func (c *hunt1Conn) RemoteAddr() net.Addr               { return &net.TCPAddr{} }
func (c *hunt1Conn) SetDeadline(t time.Time) error      { return nil }
func (c *hunt1Conn) SetReadDeadline(t time.Time) error  { return nil }
func (c *hunt1Conn) SetWriteDeadline(t time.Time) error { return nil }

var hunt1Date = regexp.MustCompile(`Date: [^\r]*\r\n`)

type hunt1Core struct {
	pool    sync.Pool
	handler func(c context.Context, ctx *app.RequestContext)
}

func (m *hunt1Core) IsRunning() bool                                      { return true }
func (m *hunt1Core) GetCtxPool() *sync.Pool                               { return &m.pool }
func (m *hunt1Core) GetTracer() tracer.Controller                         { return nil }
func (m *hunt1Core) ServeHTTP(c context.Context, ctx *app.RequestContext) { m.handler(c, ctx) }

func hunt1Cut(s string, cuts ...int) [][]byte {
	var out [][]byte
	prev := 0
	for _, c := range cuts {
		out = append(out, []byte(s[prev:c]))
		prev = c
	}
	return append(out, []byte(s[prev:]))
}

// hunt1Serve feeds the segments to a real http1 server over the real standard
// connection and returns what the handler was given and what was written back.
func hunt1Serve(segs [][]byte, readBody bool) string {
	var delivered []string
	core := &hunt1Core{}
	core.pool.New = func() interface{} { return &app.RequestContext{} }
	core.handler = func(c context.Context, ctx *app.RequestContext) {
		d := fmt.Sprintf("%s %s", ctx.Request.Header.Method(), ctx.Request.Header.RequestURI())
		if readBody {
			d += fmt.Sprintf(" body=%q", ctx.Request.Body())
		}
		delivered = append(delivered, d)
		ctx.SetBodyString(fmt.Sprintf("answer-%d", len(delivered)))
	}
	srv := http1.NewServer()
	srv.Core = core
	srv.Option = http1.Option{
		StreamRequestBody:  true, // server.WithStreamBody(true)
		MaxRequestBodySize: 16,   // server.WithMaxRequestBodySize(16)
		IdleTimeout:        time.Second,
		NoDefaultDate:      true,
	}
	nc := &hunt1Conn{segs: segs}
	srv.Serve(context.Background(), newConn(nc, 4096)) //nolint:errcheck
	written := hunt1Date.ReplaceAllString(nc.out.String(), "")
	return fmt.Sprintf("delivered=%q\nwritten=%q", delivered, written)
}

func TestHuntC02StreamPrereadDependsOnSegmentation(t *testing.T) {
	first := "POST /upload HTTP/1.1\r\nHost: h\r\nContent-Length: 32\r\n\r\n" + strings.Repeat("x", 32)
	second := "GET /next HTTP/1.1\r\nHost: h\r\n\r\n"
	stream := first + second
	boundary := len(first)

	for _, readBody := range []bool{true, false} {
		name := "handler-reads-Body"
		if !readBody {
			name = "handler-ignores-body"
		}
		t.Run(name, func(t *testing.T) {
			// reference: the two messages arrive in two reads
			ref := hunt1Serve(hunt1Cut(stream, boundary), readBody)
			t.Logf("cut at the message boundary:\n%s", ref)

			segmentations := map[string][][]byte{
				"whole stream in one read":             hunt1Cut(stream),
				"cut one byte behind the body":         hunt1Cut(stream, boundary+1),
				"cut in the middle of the 2nd request": hunt1Cut(stream, boundary+10),
				"cut inside the first header block":    hunt1Cut(stream, 20),
			}
			var bw []int
			for i := 1; i < len(stream); i++ {
				bw = append(bw, i)
			}
			segmentations["byte at a time"] = hunt1Cut(stream, bw...)

			for desc, segs := range segmentations {
				got := hunt1Serve(segs, readBody)
				if got != ref {
					t.Errorf("C02 violated: the same %d bytes, %s, give a different result.\n--- cut at the message boundary:\n%s\n--- %s:\n%s",
						len(stream), desc, ref, desc, got)
				}
			}
		})
	}
}
