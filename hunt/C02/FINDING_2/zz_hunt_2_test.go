package standard

// Demo for property C02, finding 2: the error a client gets for a malformed
// response is built from "everything that happened to be buffered" when the
// parser gave up (ext.HeaderError / headerErrorMsg: "Buffer size=%d, contents:
// %s"; resp.parseFirstLine: "... Response %q"), so the same bytes give a
// different error depending on how they were cut into reads.

import (
	"fmt"
	"io"
	"net"
	"testing"
	"time"

	"github.com/cloudwego/hertz/pkg/protocol"
	"github.com/cloudwego/hertz/pkg/protocol/http1/resp"
)

type hunt2Conn struct{ segs [][]byte }

func (c *hunt2Conn) Read(b []byte) (int, error) {
	for len(c.segs) > 0 && len(c.segs[0]) == 0 {
		c.segs = c.segs[1:]
	}
	if len(c.segs) == 0 {
		return 0, io.EOF
	}
	n := copy(b, c.segs[0])
	c.segs[0] = c.segs[0][n:]
	return n, nil
}
func (c *hunt2Conn) Write(b []byte) (int, error)        { return len(b), nil }
func (c *hunt2Conn) Close() error                       { return nil }
func (c *hunt2Conn) LocalAddr() net.Addr                { return &net.TCPAddr{} }
func (c *hunt2Conn) RemoteAddr() net.Addr               { return &net.TCPAddr{} }
func (c *hunt2Conn) SetDeadline(t time.Time) error      { return nil }
func (c *hunt2Conn) SetReadDeadline(t time.Time) error  { return nil }
func (c *hunt2Conn) SetWriteDeadline(t time.Time) error { return nil }

// hunt2Read is what the HTTP/1 client does with the bytes of a response.
func hunt2Read(stream string, cuts ...int) string {
	var segs [][]byte
	prev := 0
	for _, c := range cuts {
		segs = append(segs, []byte(stream[prev:c]))
		prev = c
	}
	segs = append(segs, []byte(stream[prev:]))

	r := protocol.AcquireResponse()
	defer protocol.ReleaseResponse(r)
	err := resp.ReadHeaderAndLimitBody(r, newConn(&hunt2Conn{segs: segs}, 4096), 0)
	if err != nil {
		return "error: " + err.Error()
	}
	return fmt.Sprintf("response: %d %q", r.StatusCode(), r.Body())
}

func TestHuntC02ClientErrorDependsOnSegmentation(t *testing.T) {
	streams := map[string]string{
		// a header line without a colon
		"header line without colon": "HTTP/1.1 200 OK\r\nContent-Length: 2\r\nthis line has no colon\r\nX-A: b\r\n\r\nhi",
		// a forbidden trailer field, followed by the next response on the connection
		"forbidden trailer": "HTTP/1.1 200 OK\r\nTransfer-Encoding: chunked\r\n\r\n2\r\nhi\r\n0\r\nX-A: b\r\nContent-Length: 2\r\n\r\nHTTP/1.1 204 No Content\r\n\r\n",
	}
	for name, stream := range streams {
		t.Run(name, func(t *testing.T) {
			whole := hunt2Read(stream)
			t.Logf("one read: %s", whole)
			failed := 0
			for i := 1; i < len(stream) && failed < 3; i++ {
				got := hunt2Read(stream, i)
				if got != whole {
					failed++
					t.Errorf("C02 violated: the client must return an identical error for the same bytes, but a cut at byte %d gives\n  %s\ninstead of\n  %s", i, got, whole)
				}
			}
		})
	}
}
