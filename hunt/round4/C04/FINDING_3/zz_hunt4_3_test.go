package server_test

// C04 hunt 4, finding 3: a handler that installs the chunked body writer while the
// response may still have a body, writes nothing, and then answers with a status
// that has no body (304 Not Modified, 204 No Content) gets "0\r\n\r\n" written
// behind the header block of the bodiless response.
//
// chunkedBodyWriter.Finalize writes the header block (without Transfer-Encoding:
// SetContentLength(-1) does nothing under a bodiless status) and then the last
// chunk and the trailer section unconditionally. The five bytes are not part of
// the 304/204 message; they are read as the beginning of the next response.
//
// Relation to the property's exclusion ("installing the hijacked chunked writer on
// a response that may not have a body"): at the time the writer is installed the
// response is a 200 to a GET; the handler never writes a byte of body through it.

import (
	"bufio"
	"bytes"
	"context"
	"fmt"
	"io"
	"net"
	"net/http"
	"testing"
	"time"

	"github.com/cloudwego/hertz/pkg/app"
	"github.com/cloudwego/hertz/pkg/app/server"
	"github.com/cloudwego/hertz/pkg/network/standard"
	"github.com/cloudwego/hertz/pkg/protocol/http1/resp"
)

func h43FreeAddr(t *testing.T) string {
	ln, err := net.Listen("tcp", "127.0.0.1:0")
	if err != nil {
		t.Fatal(err)
	}
	defer ln.Close()
	return ln.Addr().String()
}

func h43Dial(t *testing.T, addr string) net.Conn {
	var c net.Conn
	var err error
	for i := 0; i < 300; i++ {
		if c, err = net.Dial("tcp", addr); err == nil {
			return c
		}
		time.Sleep(10 * time.Millisecond)
	}
	t.Fatalf("server did not come up: %v", err)
	return nil
}

func TestHunt4ChunkedWriterUnusedThenBodilessStatus(t *testing.T) {
	addr := h43FreeAddr(t)
	h := server.New(server.WithHostPorts(addr), server.WithTransport(standard.NewTransporter),
		server.WithDisablePrintRoute(true), server.WithExitWaitTime(50*time.Millisecond))
	// a streaming endpoint: the writer is set up first, then the handler finds out
	// that there is nothing (new) to send
	stream := func(status int) app.HandlerFunc {
		return func(c context.Context, ctx *app.RequestContext) {
			ctx.Response.HijackWriter(resp.NewChunkedBodyWriter(&ctx.Response, ctx.GetWriter()))
			if status != 0 {
				ctx.SetStatusCode(status) // nothing was written through the writer
				return
			}
			ctx.Write([]byte("data")) //nolint:errcheck
		}
	}
	h.GET("/control", stream(0))
	h.GET("/304", stream(http.StatusNotModified))
	h.GET("/204", stream(http.StatusNoContent))
	h.GET("/end", func(c context.Context, ctx *app.RequestContext) {
		ctx.SetBodyString("end")
		ctx.SetConnectionClose()
	})
	go h.Spin()
	defer h.Shutdown(context.Background()) //nolint:errcheck

	for _, tc := range []struct {
		path   string
		status int
		body   string
	}{{"/control", 200, "data"}, {"/304", 304, ""}, {"/204", 204, ""}} {
		t.Run(tc.path, func(t *testing.T) {
			c := h43Dial(t, addr)
			defer c.Close()
			c.SetDeadline(time.Now().Add(10 * time.Second)) //nolint:errcheck
			var raw bytes.Buffer
			br := bufio.NewReader(io.TeeReader(c, &raw))

			fmt.Fprintf(c, "GET %s HTTP/1.1\r\nHost: example.com\r\n\r\n", tc.path)
			res, err := http.ReadResponse(br, &http.Request{Method: "GET"})
			if err != nil {
				t.Fatalf("response 1: %v\nwire: %q", err, raw.String())
			}
			body, err := io.ReadAll(res.Body)
			if err != nil || res.StatusCode != tc.status || string(body) != tc.body {
				t.Fatalf("response 1: status %d body %q err %v, want %d %q\nwire: %q", res.StatusCode, body, err, tc.status, tc.body, raw.String())
			}

			// the next response starts exactly where this one ends
			fmt.Fprintf(c, "GET /end HTTP/1.1\r\nHost: example.com\r\n\r\n")
			res2, err := http.ReadResponse(br, &http.Request{Method: "GET"})
			if err != nil {
				t.Fatalf("the response after the %d does not start where the %d ends: %v\nwire: %q", tc.status, tc.status, err, raw.String())
			}
			body2, _ := io.ReadAll(res2.Body)
			if res2.StatusCode != 200 || string(body2) != "end" {
				t.Fatalf("response 2: status %d body %q\nwire: %q", res2.StatusCode, body2, raw.String())
			}
		})
	}
}
