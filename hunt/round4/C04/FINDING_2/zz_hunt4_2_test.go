package server_test

// C04 hunt 4, finding 2: a response sent through the chunked body writer does not
// say "Connection: close" although the server closes the connection after it.
//
// Serve decides before the handler runs that the connection will not persist
// (keep-alive switched off with server.WithKeepAlive(false), the request said
// "Connection: close", HTTP/1.0 without keep-alive) but writes the decision into the
// response header only after the handler has returned. The chunked body writer
// sends the header block with the handler's first Write, so the message on the wire
// announces a persistent connection; the server then closes it. Every other body
// mode (bytes, streams) carries "Connection: close" in the same situation.

import (
	"bufio"
	"bytes"
	"context"
	"fmt"
	"io"
	"net"
	"net/http"
	"testing"
	"time"

	"github.com/cloudwego/hertz/pkg/app"
	"github.com/cloudwego/hertz/pkg/app/server"
	"github.com/cloudwego/hertz/pkg/network/standard"
	"github.com/cloudwego/hertz/pkg/protocol/http1/resp"
)

func h42FreeAddr(t *testing.T) string {
	ln, err := net.Listen("tcp", "127.0.0.1:0")
	if err != nil {
		t.Fatal(err)
	}
	defer ln.Close()
	return ln.Addr().String()
}

func h42Dial(t *testing.T, addr string) net.Conn {
	var c net.Conn
	var err error
	for i := 0; i < 300; i++ {
		if c, err = net.Dial("tcp", addr); err == nil {
			return c
		}
		time.Sleep(10 * time.Millisecond)
	}
	t.Fatalf("server did not come up: %v", err)
	return nil
}

func TestHunt4ChunkedWriterDoesNotAnnounceClose(t *testing.T) {
	addr := h42FreeAddr(t)
	h := server.New(server.WithHostPorts(addr), server.WithTransport(standard.NewTransporter),
		server.WithDisablePrintRoute(true), server.WithExitWaitTime(50*time.Millisecond),
		server.WithKeepAlive(false)) // the server does not keep connections
	h.GET("/bytes", func(c context.Context, ctx *app.RequestContext) {
		ctx.SetBodyString("hello")
	})
	h.GET("/stream", func(c context.Context, ctx *app.RequestContext) {
		ctx.SetBodyStream(bytes.NewReader([]byte("hello")), -1)
	})
	h.GET("/chunked-writer", func(c context.Context, ctx *app.RequestContext) {
		ctx.Response.HijackWriter(resp.NewChunkedBodyWriter(&ctx.Response, ctx.GetWriter()))
		ctx.Write([]byte("hel")) //nolint:errcheck
		ctx.Flush()              //nolint:errcheck
		ctx.Write([]byte("lo"))  //nolint:errcheck
	})
	go h.Spin()
	defer h.Shutdown(context.Background()) //nolint:errcheck

	for _, path := range []string{"/bytes", "/stream", "/chunked-writer"} {
		t.Run(path, func(t *testing.T) {
			c := h42Dial(t, addr)
			defer c.Close()
			c.SetDeadline(time.Now().Add(10 * time.Second)) //nolint:errcheck
			var raw bytes.Buffer
			br := bufio.NewReader(io.TeeReader(c, &raw))

			fmt.Fprintf(c, "GET %s HTTP/1.1\r\nHost: example.com\r\n\r\n", path)
			res, err := http.ReadResponse(br, &http.Request{Method: "GET"})
			if err != nil {
				t.Fatalf("response 1: %v\nwire: %q", err, raw.String())
			}
			body, err := io.ReadAll(res.Body)
			if err != nil || string(body) != "hello" {
				t.Fatalf("response 1: body %q, %v\nwire: %q", body, err, raw.String())
			}
			if res.Close {
				return // the message says that the connection ends with it: fine
			}
			// The message (HTTP/1.1, no "Connection: close", self-delimiting body) tells
			// the client that the connection persists: the next request on it must be
			// answered.
			if _, err = fmt.Fprintf(c, "GET /bytes HTTP/1.1\r\nHost: example.com\r\n\r\n"); err != nil {
				t.Fatalf("response 1 did not announce the end of the connection (no \"Connection: close\"), but the server closed it: writing the next request: %v\nwire: %q", err, raw.String())
			}
			res2, err := http.ReadResponse(br, &http.Request{Method: "GET"})
			if err != nil {
				t.Fatalf("response 1 did not announce the end of the connection (no \"Connection: close\"), but the server closed it: the next request got no response: %v\nwire: %q", err, raw.String())
			}
			res2.Body.Close()
		})
	}
}
