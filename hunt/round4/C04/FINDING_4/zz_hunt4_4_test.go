package server_test

// C04 hunt 4, finding 4: trailer fields the handler sets through
// Response.Header.Trailer() are announced ("Trailer: X-Checksum") but never sent
// when the body has a known length (bytes, or a stream with a declared length).
//
// resp.Write and the fixed-size branch of writeBodyStream frame the message with
// Content-Length and do not look at the trailer; only the chunked branch and the
// chunked body writer call ext.WriteTrailer. The header block nevertheless carries
// the Trailer declaration (ResponseHeader.AppendBytes writes it whenever the
// trailer is not empty), so the message promises fields that cannot follow.

import (
	"bufio"
	"bytes"
	"context"
	"fmt"
	"io"
	"net"
	"net/http"
	"testing"
	"time"

	"github.com/cloudwego/hertz/pkg/app"
	"github.com/cloudwego/hertz/pkg/app/server"
	"github.com/cloudwego/hertz/pkg/network/standard"
)

func h44FreeAddr(t *testing.T) string {
	ln, err := net.Listen("tcp", "127.0.0.1:0")
	if err != nil {
		t.Fatal(err)
	}
	defer ln.Close()
	return ln.Addr().String()
}

func h44Dial(t *testing.T, addr string) net.Conn {
	var c net.Conn
	var err error
	for i := 0; i < 300; i++ {
		if c, err = net.Dial("tcp", addr); err == nil {
			return c
		}
		time.Sleep(10 * time.Millisecond)
	}
	t.Fatalf("server did not come up: %v", err)
	return nil
}

func TestHunt4TrailerOfAFixedLengthResponseIsDropped(t *testing.T) {
	addr := h44FreeAddr(t)
	h := server.New(server.WithHostPorts(addr), server.WithTransport(standard.NewTransporter),
		server.WithDisablePrintRoute(true), server.WithExitWaitTime(50*time.Millisecond))
	trailer := func(ctx *app.RequestContext) {
		if err := ctx.Response.Header.Trailer().Set("X-Checksum", "5d41402a"); err != nil {
			panic(err)
		}
	}
	h.GET("/stream-unknown", func(c context.Context, ctx *app.RequestContext) { // control
		trailer(ctx)
		ctx.SetBodyStream(bytes.NewReader([]byte("hello")), -1)
	})
	h.GET("/bytes", func(c context.Context, ctx *app.RequestContext) {
		trailer(ctx)
		ctx.SetBodyString("hello")
	})
	h.GET("/stream-known", func(c context.Context, ctx *app.RequestContext) {
		trailer(ctx)
		ctx.SetBodyStream(bytes.NewReader([]byte("hello")), 5)
	})
	go h.Spin()
	defer h.Shutdown(context.Background()) //nolint:errcheck

	for _, path := range []string{"/stream-unknown", "/bytes", "/stream-known"} {
		t.Run(path, func(t *testing.T) {
			c := h44Dial(t, addr)
			defer c.Close()
			c.SetDeadline(time.Now().Add(10 * time.Second)) //nolint:errcheck
			var raw bytes.Buffer
			br := bufio.NewReader(io.TeeReader(c, &raw))

			fmt.Fprintf(c, "GET %s HTTP/1.1\r\nHost: example.com\r\nConnection: close\r\n\r\n", path)
			res, err := http.ReadResponse(br, &http.Request{Method: "GET"})
			if err != nil {
				t.Fatalf("%v\nwire: %q", err, raw.String())
			}
			body, err := io.ReadAll(res.Body)
			if err != nil || string(body) != "hello" {
				t.Fatalf("body %q, %v\nwire: %q", body, err, raw.String())
			}
			// the field the handler set reaches the client (as a trailer field of a
			// chunked message; a header field would do as well)
			got := res.Trailer.Get("X-Checksum")
			if got == "" {
				got = res.Header.Get("X-Checksum")
			}
			if got != "5d41402a" {
				t.Fatalf("the handler set the trailer field X-Checksum: 5d41402a; the client got %q (declared: Trailer: %q, transfer encoding %v, Content-Length %d)\nwire: %q",
					got, res.Header.Get("Trailer"), res.TransferEncoding, res.ContentLength, raw.String())
			}
		})
	}
}
