package server_test

// C04 hunt 4, finding 1: a length that an earlier SetBodyStream left in the response
// header survives a bodiless status and frames a later body stream.
//
// ResponseHeader.SetContentLength returns without doing anything while the status
// is 1xx/204/304. SetBodyStream(r, n) therefore replaces the stream but not the
// length when it is called under such a status; whatever length (or chunked mark)
// an earlier call has stored stays and frames the new stream once the status allows
// a body again. (The repair of "204/304 first, then a stream, then 200" only covers
// the case where nothing at all was stored: length 0 and no Content-Length bytes.)

import (
	"bufio"
	"bytes"
	"context"
	"fmt"
	"io"
	"net"
	"net/http"
	"strings"
	"testing"
	"time"

	"github.com/cloudwego/hertz/pkg/app"
	"github.com/cloudwego/hertz/pkg/app/server"
	"github.com/cloudwego/hertz/pkg/network/standard"
)

func h41FreeAddr(t *testing.T) string {
	ln, err := net.Listen("tcp", "127.0.0.1:0")
	if err != nil {
		t.Fatal(err)
	}
	defer ln.Close()
	return ln.Addr().String()
}

func h41Dial(t *testing.T, addr string) net.Conn {
	var c net.Conn
	var err error
	for i := 0; i < 300; i++ {
		if c, err = net.Dial("tcp", addr); err == nil {
			return c
		}
		time.Sleep(10 * time.Millisecond)
	}
	t.Fatalf("server did not come up: %v", err)
	return nil
}

func TestHunt4StaleLengthSurvivesBodilessStatus(t *testing.T) {
	first := "0123456789"                   // 10 bytes, prepared first
	long := strings.Repeat("abcdefghij", 3) // 30 bytes, the body that is finally sent
	short := "xyz"                          // 3 bytes

	addr := h41FreeAddr(t)
	h := server.New(server.WithHostPorts(addr), server.WithTransport(standard.NewTransporter),
		server.WithDisablePrintRoute(true), server.WithExitWaitTime(50*time.Millisecond))
	// one step of the application prepares an answer, a later step withdraws it
	// (nothing to send: 204), a still later one has something to send after all
	prog := func(final string, finalLen func(string) int) app.HandlerFunc {
		return func(c context.Context, ctx *app.RequestContext) {
			ctx.SetBodyStream(strings.NewReader(first), len(first))
			ctx.SetStatusCode(http.StatusNoContent)
			ctx.SetBodyStream(strings.NewReader(final), finalLen(final))
			ctx.SetStatusCode(http.StatusOK)
		}
	}
	known := func(s string) int { return len(s) }
	unknown := func(string) int { return -1 }
	h.GET("/long-known", prog(long, known))
	h.GET("/long-unknown", prog(long, unknown))
	h.GET("/short-known", prog(short, known))
	// control: the same two streams without the bodiless status in between
	h.GET("/control", func(c context.Context, ctx *app.RequestContext) {
		ctx.SetBodyStream(strings.NewReader(first), len(first))
		ctx.SetBodyStream(strings.NewReader(long), len(long))
		ctx.SetStatusCode(http.StatusOK)
	})
	h.GET("/end", func(c context.Context, ctx *app.RequestContext) {
		ctx.SetBodyString("end")
		ctx.SetConnectionClose()
	})
	go h.Spin()
	defer h.Shutdown(context.Background()) //nolint:errcheck

	for _, tc := range []struct{ path, want string }{
		{"/control", long},
		{"/long-known", long},
		{"/long-unknown", long},
		{"/short-known", short},
	} {
		t.Run(tc.path, func(t *testing.T) {
			c := h41Dial(t, addr)
			defer c.Close()
			c.SetDeadline(time.Now().Add(10 * time.Second)) //nolint:errcheck
			var raw bytes.Buffer
			br := bufio.NewReader(io.TeeReader(c, &raw))

			fmt.Fprintf(c, "GET %s HTTP/1.1\r\nHost: example.com\r\n\r\n", tc.path)
			res, err := http.ReadResponse(br, &http.Request{Method: "GET"})
			if err != nil {
				t.Fatalf("response 1: %v\nwire: %q", err, raw.String())
			}
			body, err := io.ReadAll(res.Body)
			if err != nil {
				t.Fatalf("response 1: reading the body: %v (Content-Length %d, the handler's stream has %d bytes)\nwire: %q",
					err, res.ContentLength, len(tc.want), raw.String())
			}
			if res.StatusCode != 200 || string(body) != tc.want {
				t.Fatalf("response 1: status %d, body %q (Content-Length %d); the handler set status 200 and a body stream of %d bytes %q\nwire: %q",
					res.StatusCode, body, res.ContentLength, len(tc.want), tc.want, raw.String())
			}

			// the next response starts where this one ends
			fmt.Fprintf(c, "GET /end HTTP/1.1\r\nHost: example.com\r\n\r\n")
			res2, err := http.ReadResponse(br, &http.Request{Method: "GET"})
			if err != nil {
				t.Fatalf("response 2: %v\nwire: %q", err, raw.String())
			}
			body2, _ := io.ReadAll(res2.Body)
			if string(body2) != "end" {
				t.Fatalf("response 2: body %q, want \"end\"\nwire: %q", body2, raw.String())
			}
		})
	}
}
