package generator

// C16 hunt 4, finding 3: a declared path with an empty segment ("/v1//users",
// which hertz itself registers as "/v1/users"). hz makes a router node with
// Path "/" for the empty segment; the router template takes every node whose
// Path is "/" for the root and hangs its group on the engine ("r.Group("/")")
// instead of on the parent group. The generated code compiles and registers
// GET /users - a route nobody declared - outside the root and /v1 groups (none
// of their middleware wraps it), and GET /v1/users does not exist. When the
// empty segment is the last but one or the first, the source does not compile
// ("declared and not used").

import (
	"fmt"
	"os"
	"os/exec"
	"path/filepath"
	"runtime"
	"sort"
	"strings"
	"testing"

	"github.com/cloudwego/hertz/cmd/hz/meta"
)

type zzH43Route struct {
	Verb, Path, Name, HandlerPath string
}

// zzH43Generate runs the package generator the way the thrift/protobuf plugins do
// (Generate, GetFormatAndExcludedFiles, write the files), replaces the handler
// files by stubs, builds a program that calls router.GeneratedRegister on an
// engine and returns the registered "VERB PATH -> handler" lines.
func zzH43Generate(t *testing.T, idlPkg string, byMethod, sortRouter bool, routes []zzH43Route) (got, flat []string, refused bool) {
	t.Helper()
	_, self, _, _ := runtime.Caller(0)
	hertzRoot, err := filepath.Abs(filepath.Join(filepath.Dir(self), "..", "..", ".."))
	if err != nil {
		t.Fatal(err)
	}
	out := t.TempDir()
	wd, _ := os.Getwd()
	if err := os.Chdir(out); err != nil {
		t.Fatal(err)
	}
	defer os.Chdir(wd)

	write := func(rel, content string) {
		p := filepath.Join(out, rel)
		if err := os.MkdirAll(filepath.Dir(p), 0o755); err != nil {
			t.Fatal(err)
		}
		if err := os.WriteFile(p, []byte(content), 0o644); err != nil {
			t.Fatal(err)
		}
	}
	write("go.mod", "module zzproj\n\ngo 1.17\n\nrequire github.com/cloudwego/hertz v0.0.0\n\nreplace github.com/cloudwego/hertz => "+hertzRoot+"\n")
	sum, err := os.ReadFile(filepath.Join(hertzRoot, "go.sum"))
	if err != nil {
		t.Fatal(err)
	}
	write("go.sum", string(sum))

	var ms []*HttpMethod
	seen := map[string]bool{}
	for _, r := range routes {
		ms = append(ms, &HttpMethod{Name: r.Name, HTTPMethod: r.Verb, Path: r.Path, OutputDir: r.HandlerPath, GenHandler: !seen[r.Name]})
		seen[r.Name] = true
	}
	pkg := &HttpPackage{IdlName: "demo.thrift", Package: idlPkg, Services: []*Service{{Name: "Svc", Methods: ms}}}
	sg := HttpPackageGenerator{
		HandlerDir:        "biz/handler",
		RouterDir:         "biz/router",
		ModelDir:          "biz/model",
		TemplateGenerator: TemplateGenerator{OutputDir: "."},
		ProjPackage:       "zzproj",
		HandlerByMethod:   byMethod,
		CmdType:           meta.CmdNew,
		SortRouter:        sortRouter,
	}
	SetDefaultTemplateConfig()
	if err := sg.Generate(pkg); err != nil {
		t.Logf("hz refuses the route set: %v", err)
		return nil, nil, true
	}
	files, err := sg.GetFormatAndExcludedFiles()
	if err != nil {
		t.Fatalf("GetFormatAndExcludedFiles: %v", err)
	}
	for _, f := range files {
		write(f.Path, f.Content)
	}

	// the handlers are not the subject: replace them by stubs of the declared names
	if err := os.RemoveAll(filepath.Join(out, "biz", "handler")); err != nil {
		t.Fatal(err)
	}
	stubs := map[string][]string{}
	for _, r := range routes {
		dir := filepath.Join("biz/handler", idlPkg)
		if byMethod {
			dir = filepath.Join("biz/handler", r.HandlerPath)
		}
		if !strings.Contains(strings.Join(stubs[dir], " ")+" ", r.Name+" ") {
			stubs[dir] = append(stubs[dir], r.Name)
		}
	}
	for dir, names := range stubs {
		src := "package " + filepath.Base(dir) + "\n\nimport (\n\t\"context\"\n\n\t\"github.com/cloudwego/hertz/pkg/app\"\n)\n\n"
		for _, n := range names {
			src += "func " + n + "(ctx context.Context, c *app.RequestContext) {}\n"
		}
		write(filepath.Join(dir, "stub.go"), src)
	}
	declared := ""
	for _, r := range routes {
		declared += fmt.Sprintf("{%q, %q},", r.Verb, r.Path)
	}
	write("zzmain/main.go", `package main

import (
	"context"
	"fmt"

	"github.com/cloudwego/hertz/pkg/app"
	"github.com/cloudwego/hertz/pkg/app/server"
	"github.com/cloudwego/hertz/pkg/common/hlog"
	"zzproj/biz/router"
)

var declared = [][2]string{` + declared + `}

func main() {
	hlog.SetLevel(hlog.LevelFatal)
	h := server.New()
	router.GeneratedRegister(h)
	for _, r := range h.Routes() {
		fmt.Printf("ROUTE %s %s\n", r.Method, r.Path)
	}
	// what hertz itself registers for the declared (verb, path) pairs
	f := server.New()
	for _, d := range declared {
		f.Handle(d[0], d[1], func(ctx context.Context, c *app.RequestContext) {})
	}
	for _, r := range f.Routes() {
		fmt.Printf("FLAT %s %s\n", r.Method, r.Path)
	}
}
`)
	cmd := exec.Command("go", "run", "./zzmain")
	cmd.Dir = out
	cmd.Env = append(os.Environ(), "GOFLAGS=-mod=mod", "GOPROXY=off", "GOSUMDB=off", "GOTOOLCHAIN=local")
	res, err := cmd.CombinedOutput()
	if err != nil {
		routerSrc, _ := os.ReadFile(filepath.Join(out, "biz/router", idlPkg, "demo.go"))
		t.Fatalf("the generated router does not compile / run: %v\n%s\n--- generated router source ---\n%s", err, res, routerSrc)
	}
	for _, l := range strings.Split(string(res), "\n") {
		if strings.HasPrefix(l, "ROUTE ") {
			got = append(got, strings.TrimPrefix(l, "ROUTE "))
		}
		if strings.HasPrefix(l, "FLAT ") {
			flat = append(flat, strings.TrimPrefix(l, "FLAT "))
		}
	}
	sort.Strings(got)
	sort.Strings(flat)
	return got, flat, false
}

func zzH43Check(t *testing.T, sortRouter bool, routes []zzH43Route) {
	got, flat, refused := zzH43Generate(t, "demo", false, sortRouter, routes)
	if refused {
		return // refusing the IDL is a legitimate answer; silently registering something else is not
	}
	if strings.Join(got, "\n") != strings.Join(flat, "\n") {
		t.Fatalf("the generated Register does not yield the declared routes\n declared: %v\n hertz registers for them: %v\n generated code registers: %v", routes, flat, got)
	}
}

// control
func TestZZHunt4_3_Control(t *testing.T) {
	zzH43Check(t, false, []zzH43Route{
		{Verb: "GET", Path: "/v1/users", Name: "ListUsers"},
		{Verb: "GET", Path: "/v1/ping", Name: "Ping"},
		{Verb: "GET", Path: "/v1/", Name: "Index"},
	})
}

func TestZZHunt4_3_EmptySegmentRegistersUndeclaredRoute(t *testing.T) {
	zzH43Check(t, false, []zzH43Route{
		{Verb: "GET", Path: "/v1//users", Name: "ListUsers"},
		{Verb: "GET", Path: "/v1/ping", Name: "Ping"},
	})
}

func TestZZHunt4_3_EmptySegmentSortRouter(t *testing.T) {
	zzH43Check(t, true, []zzH43Route{
		{Verb: "GET", Path: "/v1//users", Name: "ListUsers"},
		{Verb: "GET", Path: "/v1/", Name: "Index"},
	})
}

func TestZZHunt4_3_DoubleTrailingSlashDoesNotCompile(t *testing.T) {
	zzH43Check(t, false, []zzH43Route{
		{Verb: "GET", Path: "/v1/users//", Name: "ListUsers"},
	})
}
