package generator

// C16 hunt 4, finding 1: the import alias hz gives the handler package in the
// generated router file is not checked against the identifiers the router
// template itself uses (the hertz "server" import, the parameter "r", the
// variable "root"): the router source has a duplicate / shadowed identifier
// and does not compile.

import (
	"fmt"
	"os"
	"os/exec"
	"path/filepath"
	"runtime"
	"sort"
	"strings"
	"testing"

	"github.com/cloudwego/hertz/cmd/hz/meta"
)

type zzH41Route struct {
	Verb, Path, Name, HandlerPath string
}

// zzH41Generate runs the package generator the way the thrift/protobuf plugins do
// (Generate, GetFormatAndExcludedFiles, write the files), replaces the handler
// files by stubs, builds a program that calls router.GeneratedRegister on an
// engine and returns the registered "VERB PATH -> handler" lines.
func zzH41Generate(t *testing.T, idlPkg string, byMethod bool, routes []zzH41Route) []string {
	t.Helper()
	_, self, _, _ := runtime.Caller(0)
	hertzRoot, err := filepath.Abs(filepath.Join(filepath.Dir(self), "..", "..", ".."))
	if err != nil {
		t.Fatal(err)
	}
	out := t.TempDir()
	wd, _ := os.Getwd()
	if err := os.Chdir(out); err != nil {
		t.Fatal(err)
	}
	defer os.Chdir(wd)

	write := func(rel, content string) {
		p := filepath.Join(out, rel)
		if err := os.MkdirAll(filepath.Dir(p), 0o755); err != nil {
			t.Fatal(err)
		}
		if err := os.WriteFile(p, []byte(content), 0o644); err != nil {
			t.Fatal(err)
		}
	}
	write("go.mod", "module zzproj\n\ngo 1.17\n\nrequire github.com/cloudwego/hertz v0.0.0\n\nreplace github.com/cloudwego/hertz => "+hertzRoot+"\n")
	sum, err := os.ReadFile(filepath.Join(hertzRoot, "go.sum"))
	if err != nil {
		t.Fatal(err)
	}
	write("go.sum", string(sum))

	var ms []*HttpMethod
	seen := map[string]bool{}
	for _, r := range routes {
		ms = append(ms, &HttpMethod{Name: r.Name, HTTPMethod: r.Verb, Path: r.Path, OutputDir: r.HandlerPath, GenHandler: !seen[r.Name]})
		seen[r.Name] = true
	}
	pkg := &HttpPackage{IdlName: "demo.thrift", Package: idlPkg, Services: []*Service{{Name: "Svc", Methods: ms}}}
	sg := HttpPackageGenerator{
		HandlerDir:        "biz/handler",
		RouterDir:         "biz/router",
		ModelDir:          "biz/model",
		TemplateGenerator: TemplateGenerator{OutputDir: "."},
		ProjPackage:       "zzproj",
		HandlerByMethod:   byMethod,
		CmdType:           meta.CmdNew,
	}
	SetDefaultTemplateConfig()
	if err := sg.Generate(pkg); err != nil {
		t.Fatalf("Generate: %v", err)
	}
	files, err := sg.GetFormatAndExcludedFiles()
	if err != nil {
		t.Fatalf("GetFormatAndExcludedFiles: %v", err)
	}
	for _, f := range files {
		write(f.Path, f.Content)
	}

	// the handlers are not the subject: replace them by stubs of the declared names
	if err := os.RemoveAll(filepath.Join(out, "biz", "handler")); err != nil {
		t.Fatal(err)
	}
	stubs := map[string][]string{}
	for _, r := range routes {
		dir := filepath.Join("biz/handler", idlPkg)
		if byMethod {
			dir = filepath.Join("biz/handler", r.HandlerPath)
		}
		if !strings.Contains(strings.Join(stubs[dir], " ")+" ", r.Name+" ") {
			stubs[dir] = append(stubs[dir], r.Name)
		}
	}
	for dir, names := range stubs {
		src := "package " + filepath.Base(dir) + "\n\nimport (\n\t\"context\"\n\n\t\"github.com/cloudwego/hertz/pkg/app\"\n)\n\n"
		for _, n := range names {
			src += "func " + n + "(ctx context.Context, c *app.RequestContext) {}\n"
		}
		write(filepath.Join(dir, "stub.go"), src)
	}
	write("zzmain/main.go", `package main

import (
	"fmt"

	"github.com/cloudwego/hertz/pkg/app/server"
	"github.com/cloudwego/hertz/pkg/common/hlog"
	"zzproj/biz/router"
)

func main() {
	hlog.SetLevel(hlog.LevelFatal)
	h := server.New()
	router.GeneratedRegister(h)
	for _, r := range h.Routes() {
		fmt.Printf("ROUTE %s %s -> %s\n", r.Method, r.Path, r.Handler)
	}
}
`)
	cmd := exec.Command("go", "run", "./zzmain")
	cmd.Dir = out
	cmd.Env = append(os.Environ(), "GOFLAGS=-mod=mod", "GOPROXY=off", "GOSUMDB=off", "GOTOOLCHAIN=local")
	res, err := cmd.CombinedOutput()
	if err != nil {
		routerSrc, _ := os.ReadFile(filepath.Join(out, "biz/router", idlPkg, "demo.go"))
		t.Fatalf("the generated router does not compile / run: %v\n%s\n--- generated router source ---\n%s", err, res, routerSrc)
	}
	var got []string
	for _, l := range strings.Split(string(res), "\n") {
		if strings.HasPrefix(l, "ROUTE ") {
			got = append(got, strings.TrimPrefix(l, "ROUTE "))
		}
	}
	sort.Strings(got)
	return got
}

func zzH41Check(t *testing.T, idlPkg string, byMethod bool, routes []zzH41Route) {
	got := zzH41Generate(t, idlPkg, byMethod, routes)
	var want []string
	for _, r := range routes {
		dir := "zzproj/biz/handler/" + idlPkg
		if byMethod {
			dir = "zzproj/biz/handler/" + r.HandlerPath
		}
		want = append(want, fmt.Sprintf("%s %s -> %s.%s", r.Verb, r.Path, dir, r.Name))
	}
	sort.Strings(want)
	if strings.Join(got, "\n") != strings.Join(want, "\n") {
		t.Fatalf("registered routes differ from the declared ones\n got: %v\nwant: %v", got, want)
	}
}

var zzH41Routes = []zzH41Route{
	{Verb: "GET", Path: "/users", Name: "ListUsers"},
	{Verb: "POST", Path: "/users/:id", Name: "UpdateUser"},
}

// control: an ordinary go namespace works
func TestZZHunt4_1_Control(t *testing.T) {
	zzH41Check(t, "myapp/user", false, zzH41Routes)
}

// IDL with "namespace go myapp.server", all options at their defaults
func TestZZHunt4_1_NamespaceServer(t *testing.T) {
	zzH41Check(t, "myapp/server", false, zzH41Routes)
}

// IDL with "namespace go myapp.root": the alias is shadowed by "root := r.Group(...)"
func TestZZHunt4_1_NamespaceRoot(t *testing.T) {
	zzH41Check(t, "myapp/root", false, zzH41Routes)
}

// handler-by-method: the methods carry api.handler_path="server"
func TestZZHunt4_1_HandlerByMethodPathServer(t *testing.T) {
	zzH41Check(t, "demo", true, []zzH41Route{
		{Verb: "GET", Path: "/users", Name: "ListUsers", HandlerPath: "server"},
		{Verb: "POST", Path: "/users/:id", Name: "UpdateUser", HandlerPath: "server"},
	})
}
