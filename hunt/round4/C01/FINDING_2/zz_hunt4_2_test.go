package server_test

// C01 hunt, round 4, finding 2.
//
// The trailer part of a chunked request is a sequence of header fields
// (RFC 7230 4.1.2: trailer-part = *( header-field CRLF )), and a field may be sent on
// several lines, which combine into one list (RFC 7230 3.2.2) - exactly like in the
// header section, where hertz hands every line to the handler.
//
// For a declared trailer that is sent on two lines
//
//	Trailer: X-List
//	...
//	0
//	X-List: one
//	X-List: two
//
// the handler gets only "one": Trailer.UpdateArgBytes fills the placeholder that the
// Trailer declaration created and silently drops every further line with that name
// (updateArgBytes looks only for an entry that has no value yet).  Buffered and
// streaming mode, standard and netpoll transport.

import (
	"bufio"
	"context"
	"io"
	"net"
	"net/http"
	"strings"
	"sync"
	"testing"
	"time"

	"github.com/cloudwego/hertz/pkg/app"
	"github.com/cloudwego/hertz/pkg/app/server"
	"github.com/cloudwego/hertz/pkg/network/standard"
)

func TestHunt4_2_RepeatedTrailerFieldLosesItsSecondValue(t *testing.T) {
	for _, stream := range []bool{false, true} {
		l, err := net.Listen("tcp", "127.0.0.1:0")
		if err != nil {
			t.Fatal(err)
		}
		addr := l.Addr().String()
		l.Close()
		h := server.New(server.WithHostPorts(addr), server.WithTransport(standard.NewTransporter),
			server.WithStreamBody(stream), server.WithExitWaitTime(10*time.Millisecond), server.WithDisablePrintRoute(true))
		var mu sync.Mutex
		var targets, headerVals, trailerVals []string
		var body string
		h.Any("/*p", func(c context.Context, ctx *app.RequestContext) {
			mu.Lock()
			defer mu.Unlock()
			targets = append(targets, string(ctx.Request.RequestURI()))
			if string(ctx.Request.RequestURI()) == "/t" {
				body = string(ctx.Request.Body()) // reads the stream (and the trailer part) in streaming mode
				ctx.Request.Header.VisitAll(func(k, v []byte) {
					if string(k) == "X-Hdr-List" {
						headerVals = append(headerVals, string(v))
					}
				})
				ctx.Request.Header.Trailer().VisitAll(func(k, v []byte) {
					if string(k) == "X-List" {
						trailerVals = append(trailerVals, string(v))
					}
				})
			}
			ctx.SetBodyString("ok")
		})
		go h.Spin()
		for i := 0; i < 300; i++ {
			c, err := net.Dial("tcp", addr)
			if err == nil {
				c.Close()
				break
			}
			time.Sleep(10 * time.Millisecond)
		}
		time.Sleep(30 * time.Millisecond)

		raw := "POST /t HTTP/1.1\r\nHost: h\r\nX-Hdr-List: one\r\nX-Hdr-List: two\r\nTrailer: X-List\r\nTransfer-Encoding: chunked\r\n\r\n" +
			"5\r\nhello\r\n0\r\nX-List: one\r\nX-List: two\r\n\r\n" +
			"GET /next HTTP/1.1\r\nHost: h\r\n\r\n"
		c, err := net.Dial("tcp", addr)
		if err != nil {
			t.Fatal(err)
		}
		c.Write([]byte(raw))                                //nolint:errcheck
		c.SetReadDeadline(time.Now().Add(5 * time.Second)) //nolint:errcheck
		br := bufio.NewReader(c)
		n := 0
		for n < 2 {
			r, err := http.ReadResponse(br, nil)
			if err != nil {
				break
			}
			io.Copy(io.Discard, r.Body) //nolint:errcheck
			n++
		}
		c.Close()
		time.Sleep(20 * time.Millisecond)

		mu.Lock()
		if n != 2 || len(targets) != 2 || body != "hello" {
			t.Errorf("stream=%v: want 2 responses, 2 handler calls and body hello; got %d responses, targets %v, body %q", stream, n, targets, body)
		}
		// the same field sent on two lines of the header section arrives completely ...
		if got := strings.Join(headerVals, ", "); got != "one, two" {
			t.Errorf("stream=%v: header field X-Hdr-List: handler saw %q, want one, two", stream, got)
		}
		// ... and so must the one sent on two lines of the trailer part
		if got := strings.Join(trailerVals, ", "); !strings.Contains(got, "one") || !strings.Contains(got, "two") {
			t.Errorf("stream=%v: trailer field X-List was sent with the values one and two, the handler saw %q", stream, trailerVals)
		}
		mu.Unlock()

		ctx, cancel := context.WithTimeout(context.Background(), time.Second)
		h.Shutdown(ctx) //nolint:errcheck
		cancel()
	}
}
