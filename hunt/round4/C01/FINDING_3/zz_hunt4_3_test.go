package server_test

// C01 hunt, round 4, finding 3.
//
// hertz accepts obs-fold (a field value continued on a line that starts with SP or
// HTAB) and unfolds it.  What is left of a fold at the END of a value is not treated as
// the optional whitespace it is: HeaderScanner.Next trims the trailing blanks of the
// raw value before it unfolds it, so the blanks that stood in front of the fold come
// back when CR LF are removed from the middle.
//
//	Content-Length: 3<SP><CR><LF>
//	<SP><CR><LF>
//
// (value "3", optional whitespace, one fold, nothing behind it) yields the value "3 ",
// which ParseContentLength refuses: 400, connection closed, the pipelined request
// behind it is lost.  The same header without the blank in front of the fold, or with
// the digits on the continuation line (repaired earlier), is accepted.  Any other
// field keeps the blank in the value the handler sees ("v " instead of "v").

import (
	"bufio"
	"context"
	"io"
	"net"
	"net/http"
	"sync"
	"testing"
	"time"

	"github.com/cloudwego/hertz/pkg/app"
	"github.com/cloudwego/hertz/pkg/app/server"
	"github.com/cloudwego/hertz/pkg/network/standard"
)

func TestHunt4_3_BlankInFrontOfATrailingFold(t *testing.T) {
	l, err := net.Listen("tcp", "127.0.0.1:0")
	if err != nil {
		t.Fatal(err)
	}
	addr := l.Addr().String()
	l.Close()
	h := server.New(server.WithHostPorts(addr), server.WithTransport(standard.NewTransporter),
		server.WithExitWaitTime(10*time.Millisecond), server.WithDisablePrintRoute(true))
	var mu sync.Mutex
	var seen []string
	h.Any("/*p", func(c context.Context, ctx *app.RequestContext) {
		mu.Lock()
		seen = append(seen, string(ctx.Request.RequestURI())+" body="+string(ctx.Request.Body())+" x-a=["+string(ctx.Request.Header.Peek("X-A"))+"]")
		mu.Unlock()
		ctx.SetBodyString("ok")
	})
	go h.Spin()
	for i := 0; i < 300; i++ {
		c, err := net.Dial("tcp", addr)
		if err == nil {
			c.Close()
			break
		}
		time.Sleep(10 * time.Millisecond)
	}
	time.Sleep(30 * time.Millisecond)
	defer func() {
		ctx, cancel := context.WithTimeout(context.Background(), time.Second)
		defer cancel()
		h.Shutdown(ctx) //nolint:errcheck
	}()

	exchange := func(raw string) (status []int) {
		c, err := net.Dial("tcp", addr)
		if err != nil {
			t.Fatal(err)
		}
		defer c.Close()
		c.Write([]byte(raw))                                //nolint:errcheck
		c.SetReadDeadline(time.Now().Add(5 * time.Second)) //nolint:errcheck
		br := bufio.NewReader(c)
		for len(status) < 2 {
			r, err := http.ReadResponse(br, nil)
			if err != nil {
				break
			}
			io.Copy(io.Discard, r.Body) //nolint:errcheck
			status = append(status, r.StatusCode)
			if r.Close {
				break
			}
		}
		return
	}
	take := func() []string {
		time.Sleep(20 * time.Millisecond)
		mu.Lock()
		defer mu.Unlock()
		r := seen
		seen = nil
		return r
	}
	const next = "GET /next HTTP/1.1\r\nHost: h\r\n\r\n"

	// control: the fold without a blank in front of it
	status := exchange("POST /a HTTP/1.1\r\nHost: h\r\nX-A: v\r\n \r\nContent-Length: 3\r\n \r\n\r\nabc" + next)
	if got := take(); len(status) != 2 || len(got) != 2 || got[0] != "/a body=abc x-a=[v]" {
		t.Fatalf("control: responses %v, handler saw %q", status, got)
	}

	// the same with optional whitespace between the value and the fold
	status = exchange("POST /a HTTP/1.1\r\nHost: h\r\nContent-Length: 3 \r\n \r\n\r\nabc" + next)
	if got := take(); len(status) != 2 || status[0] != 200 || len(got) != 2 || got[0] != "/a body=abc x-a=[]" || got[1] != "/next body= x-a=[]" {
		t.Errorf("'Content-Length: 3 ' CRLF SP CRLF: want both requests served (body abc, then /next); responses %v, handler saw %q", status, got)
	}

	status = exchange("POST /a HTTP/1.1\r\nHost: h\r\nX-A: v \r\n\t\r\nContent-Length: 3\r\n\r\nabc" + next)
	if got := take(); len(status) != 2 || len(got) != 2 || got[0] != "/a body=abc x-a=[v]" {
		t.Errorf("'X-A: v ' CRLF HTAB CRLF: want the value v; responses %v, handler saw %q", status, got)
	}
}
