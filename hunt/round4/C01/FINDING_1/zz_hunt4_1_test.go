package server_test

// C01 hunt, round 4, finding 1.
//
// A request whose Content-Type carries, in front of the real boundary parameter, a
// quoted parameter value that contains the text ";boundary=" is a well-formed
// multipart/form-data request:
//
//	Content-Type: multipart/form-data; x="y;boundary=Z"; boundary=B
//
// (RFC 7231 3.1.1.1: a parameter value is a token or a quoted-string; ';' inside a
// quoted-string does not end the parameter.)  RequestHeader.MultipartFormBoundary
// splits the header value at every ';' and takes the first piece that starts with
// "boundary": it answers `Z"` (with the quote).  The pre-parser of the server (buffered and streaming
// mode alike) then reads the body with the wrong boundary:
//
//   - a body that uses only the real boundary B is refused with 400, the connection is
//     closed and the pipelined request behind it is never answered;
//   - a body that carries a part delimited by `--Z"` in the preamble of the real form
//     makes the handler see the form of the preamble instead of the form the message
//     carries (and Request.Body() is that form re-marshalled).

import (
	"bufio"
	"context"
	"fmt"
	"io"
	"net"
	"net/http"
	"sync"
	"testing"
	"time"

	"github.com/cloudwego/hertz/pkg/app"
	"github.com/cloudwego/hertz/pkg/app/server"
	"github.com/cloudwego/hertz/pkg/network/standard"
)

type h41Seen struct {
	method, target, formA string
}

func h41Start(t *testing.T, stream bool) (string, func() []h41Seen) {
	l, err := net.Listen("tcp", "127.0.0.1:0")
	if err != nil {
		t.Fatal(err)
	}
	addr := l.Addr().String()
	l.Close()
	h := server.New(server.WithHostPorts(addr), server.WithTransport(standard.NewTransporter),
		server.WithStreamBody(stream), server.WithExitWaitTime(10*time.Millisecond), server.WithDisablePrintRoute(true))
	var mu sync.Mutex
	var seen []h41Seen
	h.Any("/*p", func(c context.Context, ctx *app.RequestContext) {
		s := h41Seen{method: string(ctx.Method()), target: string(ctx.Request.RequestURI())}
		if f, err := ctx.MultipartForm(); err == nil && len(f.Value["a"]) > 0 {
			s.formA = f.Value["a"][0]
		}
		mu.Lock()
		seen = append(seen, s)
		mu.Unlock()
		ctx.SetBodyString("ok " + s.target)
	})
	go h.Spin()
	for i := 0; i < 300; i++ {
		c, err := net.Dial("tcp", addr)
		if err == nil {
			c.Close()
			break
		}
		time.Sleep(10 * time.Millisecond)
	}
	time.Sleep(30 * time.Millisecond)
	t.Cleanup(func() {
		ctx, cancel := context.WithTimeout(context.Background(), time.Second)
		defer cancel()
		h.Shutdown(ctx) //nolint:errcheck
	})
	return addr, func() []h41Seen {
		mu.Lock()
		defer mu.Unlock()
		r := seen
		seen = nil
		return r
	}
}

// h41Exchange sends raw on one connection and reads up to want responses.
func h41Exchange(t *testing.T, addr, raw string, want int) (status []int, bodies []string) {
	c, err := net.Dial("tcp", addr)
	if err != nil {
		t.Fatal(err)
	}
	defer c.Close()
	if _, err = c.Write([]byte(raw)); err != nil {
		t.Fatal(err)
	}
	c.SetReadDeadline(time.Now().Add(5 * time.Second)) //nolint:errcheck
	br := bufio.NewReader(c)
	for len(status) < want {
		r, err := http.ReadResponse(br, nil)
		if err != nil {
			break
		}
		b, _ := io.ReadAll(r.Body)
		status = append(status, r.StatusCode)
		bodies = append(bodies, string(b))
		if r.Close {
			break
		}
	}
	return
}

func TestHunt4_1_QuotedParameterHidesMultipartBoundary(t *testing.T) {
	const ct = `multipart/form-data; x="y;boundary=Z"; boundary=B`
	part := func(b, v string) string {
		return "--" + b + "\r\nContent-Disposition: form-data; name=\"a\"\r\n\r\n" + v + "\r\n--" + b + "--\r\n"
	}
	post := func(body string) string {
		return "POST /form HTTP/1.1\r\nHost: h\r\nContent-Type: " + ct + "\r\nContent-Length: " + fmt.Sprint(len(body)) + "\r\n\r\n" + body
	}
	const next = "GET /next HTTP/1.1\r\nHost: h\r\n\r\n"

	for _, stream := range []bool{false, true} {
		addr, take := h41Start(t, stream)

		// 1. the form uses the boundary the header declares (B)
		status, _ := h41Exchange(t, addr, post(part("B", "good"))+next, 2)
		time.Sleep(20 * time.Millisecond)
		seen := take()
		if len(status) != 2 || status[0] != 200 || status[1] != 200 || len(seen) != 2 {
			t.Errorf("stream=%v: two well-formed pipelined requests, want 2 handler calls and 200,200; got %d handler calls %+v, responses %v",
				stream, len(seen), seen, status)
		} else if seen[0].formA != "good" || seen[1].target != "/next" {
			t.Errorf("stream=%v: handler saw %+v, want form a=good and then /next", stream, seen)
		}

		// 2. a part delimited by `--Z"` (what hertz takes for the boundary) in the preamble
		// of the real form must stay preamble
		status, _ = h41Exchange(t, addr, post(part(`Z"`, "from-the-preamble")+part("B", "good"))+next, 2)
		time.Sleep(20 * time.Millisecond)
		seen = take()
		if len(status) != 2 || len(seen) != 2 {
			t.Errorf("stream=%v (preamble): want 2 handler calls and 2 responses; got %d handler calls %+v, responses %v", stream, len(seen), seen, status)
		} else if seen[0].formA != "good" {
			t.Errorf("stream=%v (preamble): the message carries the form a=good (boundary B), the handler saw a=%q", stream, seen[0].formA)
		}
	}
}
