package binding

import (
	"testing"

	"github.com/cloudwego/hertz/pkg/protocol"
)

func hunt4JSONReq4(uri, body string) *protocol.Request {
	req := protocol.NewRequest("POST", uri, nil)
	req.Header.SetContentTypeBytes([]byte("application/json"))
	req.SetBody([]byte(body))
	req.Header.SetContentLength(len(body))
	return req
}

// C15 finding 4: a scalar (or pointer) field whose highest-priority source is
// PRESENT with an empty value is not bound from it when the field declares a
// default: the default is used instead, the conversion error that the same
// request gives without a default tag disappears, and LooseZeroMode ("the empty
// string request parameter is bound to the zero value") is not honoured. Slice
// fields and the json source treat the same situation as "present".

func TestHunt4_4_PresentEmptyValueAndDefault(t *testing.T) {
	t.Run("string_from_query", func(t *testing.T) {
		var v struct {
			A string `query:"a" default:"dd"`
		}
		req := protocol.NewRequest("GET", "http://h/p?a=", nil)
		if err := Bind(req, &v, nil); err != nil {
			t.Fatal(err)
		}
		if v.A != "" {
			t.Errorf("the query carries a= (present, empty): want \"\", got %q", v.A)
		}
	})

	t.Run("string_from_header_cookie_form", func(t *testing.T) {
		var v struct {
			H string `header:"X-H" default:"dh"`
			C string `cookie:"c" default:"dc"`
			F string `form:"f" default:"df"`
		}
		req := protocol.NewRequest("POST", "http://h/p", nil)
		req.Header.Set("X-H", "")
		req.Header.Set("Cookie", "c=")
		req.Header.SetContentTypeBytes([]byte("application/x-www-form-urlencoded"))
		req.SetBody([]byte("f="))
		if err := Bind(req, &v, nil); err != nil {
			t.Fatal(err)
		}
		if v.H != "" || v.C != "" || v.F != "" {
			t.Errorf("all three sources are present with an empty value: want \"\",\"\",\"\", got %q,%q,%q", v.H, v.C, v.F)
		}
	})

	t.Run("reference_same_request_slice_and_json", func(t *testing.T) {
		var v struct {
			S []string `query:"a" default:"['dd']"`
			J string   `json:"j" default:"dj"`
		}
		req := hunt4JSONReq4("http://h/p?a=", `{"j":""}`)
		if err := Bind(req, &v, nil); err != nil {
			t.Fatal(err)
		}
		if len(v.S) != 1 || v.S[0] != "" || v.J != "" {
			t.Fatalf("reference changed: %q %q", v.S, v.J)
		}
	})

	t.Run("int_strict_mode_same_answer_with_and_without_default", func(t *testing.T) {
		var ref struct {
			A int `query:"a"`
		}
		req := protocol.NewRequest("GET", "http://h/p?a=", nil)
		if err := Bind(req, &ref, nil); err == nil {
			t.Fatalf("reference: a= is no int, expected an error")
		}
		var v struct {
			A int `query:"a" default:"5"`
		}
		err := Bind(protocol.NewRequest("GET", "http://h/p?a=", nil), &v, nil)
		if err == nil {
			t.Errorf("a= is present and is no int (error without default tag); with a default tag Bind silently yields %d", v.A)
		}
	})

	t.Run("int_loose_zero_mode", func(t *testing.T) {
		cfg := NewBindConfig()
		cfg.LooseZeroMode = true
		b := NewDefaultBinder(cfg)
		var v struct {
			A int  `query:"a" default:"5"`
			P *int `query:"p" default:"6"`
		}
		if err := b.Bind(protocol.NewRequest("GET", "http://h/p?a=&p=", nil), &v, nil); err != nil {
			t.Fatal(err)
		}
		if v.A != 0 || v.P == nil || *v.P != 0 {
			pv := -1
			if v.P != nil {
				pv = *v.P
			}
			t.Errorf("LooseZeroMode binds an empty parameter to the zero value: want 0/0, got %d/%d", v.A, pv)
		}
	})
}
