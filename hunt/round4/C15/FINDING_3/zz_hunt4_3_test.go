package binding

import (
	"testing"

	"github.com/cloudwego/hertz/pkg/protocol"
)

func hunt4JSONReq3(uri, body string) *protocol.Request {
	req := protocol.NewRequest("POST", uri, nil)
	req.Header.SetContentTypeBytes([]byte("application/json"))
	req.SetBody([]byte(body))
	req.Header.SetContentLength(len(body))
	return req
}

// C15 finding 3: the declared default of a field is picked up only while the
// decoder walks over an ACTIVE source tag of the field. A field that has a
// default but no active source (its only tag is json:"-" - since repair
// 53cf7c1 -, or name "-" on another source, or it has no tags and the binder
// runs with DisableDefaultTag) keeps the zero value instead of its default.

func TestHunt4_3_DefaultWithoutActiveSource(t *testing.T) {
	req := func() *protocol.Request { return protocol.NewRequest("GET", "http://h/p", nil) }

	t.Run("json_dash_scalar", func(t *testing.T) {
		var v struct {
			PageSize int    `json:"-" default:"20"`
			Mode     string `json:"-" default:"fast"`
		}
		if err := Bind(req(), &v, nil); err != nil {
			t.Fatal(err)
		}
		if v.PageSize != 20 || v.Mode != "fast" {
			t.Errorf("no source carries a value: fields must hold their declared defaults 20/\"fast\", got %d/%q", v.PageSize, v.Mode)
		}
	})

	t.Run("json_dash_slice_and_pointer", func(t *testing.T) {
		var v struct {
			S []int `json:"-" default:"[1,2]"`
			P *int  `json:"-" default:"6"`
		}
		if err := Bind(req(), &v, nil); err != nil {
			t.Fatal(err)
		}
		if len(v.S) != 2 || v.P == nil || *v.P != 6 {
			t.Errorf("declared defaults [1,2] and 6 expected, got %v / %v", v.S, v.P)
		}
	})

	t.Run("json_dash_with_json_body", func(t *testing.T) {
		var v struct {
			PageSize int `json:"-" default:"20"`
			Other    int `json:"other"`
		}
		if err := Bind(hunt4JSONReq3("http://h/p", `{"other":1}`), &v, nil); err != nil {
			t.Fatal(err)
		}
		if v.PageSize != 20 {
			t.Errorf("declared default 20 expected, got %d", v.PageSize)
		}
	})

	t.Run("reference_json_dash_next_to_another_source", func(t *testing.T) {
		// with a second (absent) source the same field does get its default
		var v struct {
			PageSize int `query:"ps" json:"-" default:"20"`
		}
		if err := Bind(req(), &v, nil); err != nil || v.PageSize != 20 {
			t.Fatalf("reference: %v %d", err, v.PageSize)
		}
	})

	t.Run("query_dash", func(t *testing.T) {
		var v struct {
			A string `query:"-" default:"x"`
		}
		if err := Bind(req(), &v, nil); err != nil {
			t.Fatal(err)
		}
		if v.A != "x" {
			t.Errorf("declared default \"x\" expected, got %q", v.A)
		}
	})

	t.Run("untagged_field_with_DisableDefaultTag", func(t *testing.T) {
		cfg := NewBindConfig()
		cfg.DisableDefaultTag = true // "default tags" are the automatic source tags, not the `default` tag
		b := NewDefaultBinder(cfg)
		var v struct {
			A int    `default:"5"`
			B string `default:"x"`
			C int    `query:"c" default:"6"` // reference: tagged field keeps working
		}
		if err := b.Bind(req(), &v, nil); err != nil {
			t.Fatal(err)
		}
		if v.C != 6 {
			t.Fatalf("reference field: %d", v.C)
		}
		if v.A != 5 || v.B != "x" {
			t.Errorf("declared defaults 5/\"x\" expected, got %d/%q", v.A, v.B)
		}
	})
}
