package binding

import (
	"testing"

	"github.com/cloudwego/hertz/pkg/protocol"
)

// C15 finding 1: the binder decodes the json body by encoding/json rules (a key
// matches a field's json name case-insensitively), but decides whether the key
// "is in the body" with a case-sensitive lookup. For a body key that differs
// from the tag only in case the two disagree: the value is bound, and then
// treated as absent (default overwrites it, 'required' fails).

func hunt4JSONReq1(uri, body string) *protocol.Request {
	req := protocol.NewRequest("POST", uri, nil)
	req.Header.SetContentTypeBytes([]byte("application/json"))
	req.SetBody([]byte(body))
	req.Header.SetContentLength(len(body))
	return req
}

func TestHunt4_1_JSONKeyCase(t *testing.T) {
	// reference: without default/required the body key "A" IS the value of json:"a"
	t.Run("reference_plain_field_takes_the_key", func(t *testing.T) {
		var v struct {
			A int `json:"a"`
		}
		if err := Bind(hunt4JSONReq1("http://h/p", `{"A":1}`), &v, nil); err != nil || v.A != 1 {
			t.Skipf("body key \"A\" does not fill json:\"a\" with this json library (A=%d err=%v): nothing to compare", v.A, err)
		}
	})

	t.Run("default_must_not_overwrite_the_body_value", func(t *testing.T) {
		var v struct {
			A int `json:"a" default:"5"`
		}
		err := Bind(hunt4JSONReq1("http://h/p", `{"A":1}`), &v, nil)
		if err != nil {
			t.Fatalf("unexpected error: %v", err)
		}
		if v.A != 1 {
			t.Errorf("body carries A=1 for json:\"a\" (and a field without default is bound to 1), got %d: the default replaced a value that is present", v.A)
		}
	})

	t.Run("required_must_not_fail_for_a_value_that_was_bound", func(t *testing.T) {
		var v struct {
			A int `json:"a,required"`
		}
		err := Bind(hunt4JSONReq1("http://h/p", `{"A":1}`), &v, nil)
		if err != nil {
			t.Errorf("body carries A=1 for json:\"a\" (field was set to %d) but Bind reports it missing: %v", v.A, err)
		}
	})

	t.Run("required_of_a_higher_source_is_satisfied_by_the_body", func(t *testing.T) {
		var v struct {
			A int `query:"a,required" json:"a"`
		}
		// same request with key "a" binds fine
		var ref struct {
			A int `query:"a,required" json:"a"`
		}
		if err := Bind(hunt4JSONReq1("http://h/p", `{"a":1}`), &ref, nil); err != nil || ref.A != 1 {
			t.Fatalf("reference failed: %v %d", err, ref.A)
		}
		err := Bind(hunt4JSONReq1("http://h/p", `{"A":1}`), &v, nil)
		if err != nil {
			t.Errorf("field was set to %d from the body, yet: %v", v.A, err)
		}
	})

	t.Run("untagged_field_with_default", func(t *testing.T) {
		// a field without tags names every source under its Go name; the body is
		// decoded into it by encoding/json rules (documented)
		var v struct {
			Page int `default:"1"`
		}
		err := Bind(hunt4JSONReq1("http://h/p", `{"page":3}`), &v, nil)
		if err != nil {
			t.Fatal(err)
		}
		if v.Page != 3 {
			t.Errorf("body carries page=3, got %d (default replaced it)", v.Page)
		}
	})
}
