package binding

import (
	"testing"

	"github.com/cloudwego/hertz/pkg/protocol"
)

func hunt4JSONReq2(uri, body string) *protocol.Request {
	req := protocol.NewRequest("POST", uri, nil)
	req.Header.SetContentTypeBytes([]byte("application/json"))
	req.SetBody([]byte(body))
	req.Header.SetContentLength(len(body))
	return req
}

// C15 finding 2: the presence check for a json-tagged field splits the json
// NAME at '.', as if it were a path through nested objects. A field tagged
// json:"a.b" is filled by encoding/json from the top-level key "a.b", but its
// presence is looked up at {"a":{"b":..}}.

func TestHunt4_2_JSONNameWithDot(t *testing.T) {
	t.Run("default_must_not_overwrite_the_body_value", func(t *testing.T) {
		var v struct {
			A int `json:"a.b" default:"7"`
		}
		err := Bind(hunt4JSONReq2("http://h/p", `{"a.b":1}`), &v, nil)
		if err != nil {
			t.Fatal(err)
		}
		if v.A != 1 {
			t.Errorf("body carries \"a.b\":1, got %d (the default replaced a present value)", v.A)
		}
	})

	t.Run("missing_required_value_must_be_an_error", func(t *testing.T) {
		var v struct {
			A int `json:"a.b,required"`
		}
		// the body has no key "a.b"; it has an unrelated object "a" with a member "b"
		err := Bind(hunt4JSONReq2("http://h/p", `{"a":{"b":1}}`), &v, nil)
		if err == nil {
			t.Errorf("the key \"a.b\" is not in the body, field is %d, and Bind reports no error: silent zero", v.A)
		}
	})

	t.Run("present_required_value_must_not_be_an_error", func(t *testing.T) {
		var v struct {
			A int `json:"a.b,required"`
		}
		err := Bind(hunt4JSONReq2("http://h/p", `{"a.b":1,"a":{}}`), &v, nil)
		if err != nil {
			t.Errorf("the key \"a.b\" is in the body (field was set to %d) but: %v", v.A, err)
		}
	})

	t.Run("required_of_a_higher_source_and_value_in_the_body", func(t *testing.T) {
		var v struct {
			A string `header:"X-A,required" json:"a.b"`
		}
		err := Bind(hunt4JSONReq2("http://h/p", `{"a.b":"v"}`), &v, nil)
		if err != nil || v.A != "v" {
			t.Errorf("the body carries the value (field %q) but: %v", v.A, err)
		}
	})
}
