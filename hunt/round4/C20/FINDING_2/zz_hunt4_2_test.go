package binding

import (
	"testing"

	"github.com/cloudwego/hertz/pkg/protocol"
)

// C20: struct validation accepts the value exactly when the expression evaluates
// to true; evaluation never panics, whatever the field values are.
//
// W wraps a single pointer, so a W VALUE that is not addressable (a map value, a
// value held in an interface, an element of a by-value one-element array) is
// stored as the pointer itself. Commit 183d228 refuses such a value at the top
// level of Validate; everywhere below the top level the engine still takes the
// field's pointer for the address of the struct and evaluates the rule against
// the pointee's memory.

type hunt4F2W struct {
	P *int `vd:"$==nil||$>0"`
}

type hunt4F2MapReq struct {
	Name string
	M    map[string]hunt4F2W
}

type hunt4F2IfaceReq struct {
	Name string
	I    interface{}
}

type hunt4F2SliceReq struct {
	Name string
	L    []interface{}
}

func hunt4F2Validate(v interface{}) (err error, panicked interface{}) {
	defer func() { panicked = recover() }()
	return Validate(v), nil
}

func TestHunt4_2_PointerShapedStructValueBelowTopLevel(t *testing.T) {
	one, zero := 1, 0

	cases := []struct {
		name string
		mk   func(p *int) interface{}
	}{
		{"map value", func(p *int) interface{} { return &hunt4F2MapReq{M: map[string]hunt4F2W{"a": {P: p}}} }},
		{"interface field", func(p *int) interface{} { return &hunt4F2IfaceReq{I: hunt4F2W{P: p}} }},
		{"[]interface{} element", func(p *int) interface{} { return &hunt4F2SliceReq{L: []interface{}{hunt4F2W{P: p}}} }},
	}
	for _, c := range cases {
		// P points to 1: `$==nil||$>0` is true; at the very least this must not panic
		if _, p := hunt4F2Validate(c.mk(&one)); p != nil {
			t.Errorf("%s, P=&1: Validate panicked: %v", c.name, p)
		}
		// P points to 0: `$==nil||$>0` is false, the value must not be accepted
		err, p := hunt4F2Validate(c.mk(&zero))
		if p != nil {
			t.Errorf("%s, P=&0: Validate panicked: %v", c.name, p)
		} else if err == nil {
			t.Errorf("%s, P=&0: rule `$==nil||$>0` is false for 0, but Validate accepted the value", c.name)
		}
	}

	// the same through the binder: a JSON body decides what P points to
	for _, body := range []string{`{"M":{"a":{"P":1}}}`, `{"M":{"a":{"P":0}}}`} {
		req := protocol.NewRequest("POST", "http://example.com/", nil)
		req.SetBody([]byte(body))
		req.Header.SetContentTypeBytes([]byte("application/json"))
		req.Header.SetContentLength(len(body))
		var recv hunt4F2MapReq
		err, p := func() (err error, p interface{}) {
			defer func() { p = recover() }()
			return BindAndValidate(req, &recv, nil), nil
		}()
		if p != nil {
			t.Errorf("BindAndValidate %s: panicked: %v", body, p)
		} else if body == `{"M":{"a":{"P":0}}}` && err == nil {
			t.Errorf("BindAndValidate %s: rule `$==nil||$>0` is false, but the request was accepted", body)
		}
	}
}
