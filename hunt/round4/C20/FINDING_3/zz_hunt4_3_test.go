package binding

import "testing"

// C20: struct validation accepts the value exactly when the expression evaluates
// to true.
//
// A type that refers to itself through a pointer MEMBER (a linked list, a parent
// link, two types that point at each other) has its rules expanded a fixed number
// of levels when the type is registered; below that the rules are silently not
// evaluated. (Recursion through slice, array and map elements was repaired
// earlier and works at any depth.)

type hunt4F3Node struct {
	V    int `vd:"$>0"`
	Next *hunt4F3Node
}

// same with the link declared first
type hunt4F3NodeB struct {
	Next *hunt4F3NodeB
	V    int `vd:"$>0"`
}

type hunt4F3A struct {
	V int `vd:"$>0"`
	B *hunt4F3B
}

type hunt4F3B struct {
	W int `vd:"$>0"`
	A *hunt4F3A
}

func TestHunt4_3_RulesOfRecursivePointerMemberBeyondFirstLevels(t *testing.T) {
	for depth := 1; depth <= 5; depth++ {
		// a list of `depth` nodes; only the LAST node violates `$>0`
		var head *hunt4F3Node
		for i := 0; i < depth; i++ {
			v := 1
			if i == 0 {
				v = 0
			}
			head = &hunt4F3Node{V: v, Next: head}
		}
		if err := Validate(head); err == nil {
			t.Errorf("list of %d nodes whose last node has V == 0 (rule `$>0` false): Validate accepted it", depth)
		}
	}
	for depth := 1; depth <= 5; depth++ {
		var head *hunt4F3NodeB
		for i := 0; i < depth; i++ {
			v := 1
			if i == 0 {
				v = 0
			}
			head = &hunt4F3NodeB{V: v, Next: head}
		}
		if err := Validate(head); err == nil {
			t.Errorf("(link declared first) list of %d nodes whose last node has V == 0: Validate accepted it", depth)
		}
	}
	// mutual recursion
	ab := &hunt4F3A{V: 1, B: &hunt4F3B{W: 1, A: &hunt4F3A{V: 0}}}
	if err := Validate(ab); err == nil {
		t.Errorf("A.B.A.V == 0 violates `$>0`: Validate accepted it")
	}
	ab2 := &hunt4F3A{V: 1, B: &hunt4F3B{W: 1, A: &hunt4F3A{V: 1, B: &hunt4F3B{W: 0}}}}
	if err := Validate(ab2); err == nil {
		t.Errorf("A.B.A.B.W == 0 violates `$>0`: Validate accepted it")
	}
}
