package binding

import (
	"fmt"
	"sync"
	"testing"
)

// C20: evaluating a rule over a field value is a read of that value.
//
// A field reference whose value is a []interface{} (a []interface{} member, or an
// interface{} member holding one, e.g. a decoded JSON array) is "normalised" IN
// PLACE by the evaluator: every element of the caller's slice is overwritten
// (int -> float64, *int -> float64, named string -> string ...). Two goroutines
// validating the same, otherwise read-only, value race on these writes; run with
// -race to see the report (reads and writes in tagexpr.realValue).

type hunt4F4Named string

type hunt4F4Req struct {
	L []interface{} `vd:"len($)>0"`
	I interface{}   `vd:"len($)==2"`
}

func TestHunt4_4_ValidateWritesIntoTheValidatedValue(t *testing.T) {
	one := 1
	mk := func() *hunt4F4Req {
		return &hunt4F4Req{
			L: []interface{}{1, int8(2), &one, hunt4F4Named("s")},
			I: []interface{}{uint16(7), &one},
		}
	}
	types := func(v *hunt4F4Req) string {
		s := ""
		for _, e := range v.L {
			s += fmt.Sprintf("%T ", e)
		}
		s += "| "
		for _, e := range v.I.([]interface{}) {
			s += fmt.Sprintf("%T ", e)
		}
		return s
	}

	// 1. concurrent validation of one shared value (the race detector reports
	//    tagexpr.realValue writing the elements of v.L and v.I)
	shared := mk()
	var wg sync.WaitGroup
	for g := 0; g < 2; g++ {
		wg.Add(1)
		go func() {
			defer wg.Done()
			for i := 0; i < 200; i++ {
				if err := Validate(shared); err != nil {
					t.Errorf("rules are true for this value, got %v", err)
					return
				}
			}
		}()
	}
	wg.Wait()

	// 2. the same defect without the race detector: the value is different after
	//    it has been validated
	v := mk()
	before := types(v)
	if err := Validate(v); err != nil {
		t.Fatalf("rules are true for this value, got %v", err)
	}
	if after := types(v); after != before {
		t.Errorf("Validate modified the value it validated:\n  element types before: %s\n  element types after:  %s", before, after)
	}
}
