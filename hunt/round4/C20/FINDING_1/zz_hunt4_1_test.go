package binding

import "testing"

// C20: struct validation accepts the value exactly when the expression evaluates to true.
//
// The rule `$>0` on Inner.X is false for X == 0. Whether it is reported must not
// depend on what ANOTHER element of the same slice (or another member with the
// same field name) looks like.

type hunt4F1Inner struct {
	X int `vd:"$>0"`
}

type hunt4F1Elem struct {
	In *hunt4F1Inner
}

type hunt4F1Req struct {
	L []hunt4F1Elem
}

type hunt4F1Req2 struct {
	In *hunt4F1Inner // absent
	L  []hunt4F1Elem
}

type hunt4F1Req3 struct {
	M map[string]hunt4F1Elem
}

func TestHunt4_1_NilParentOfOneElementMasksRuleOfAnother(t *testing.T) {
	// sanity: the violated rule is seen when the element stands alone
	if err := Validate(&hunt4F1Req{L: []hunt4F1Elem{{In: &hunt4F1Inner{X: 0}}}}); err == nil {
		t.Fatalf("L[0].In.X == 0 violates `$>0`: expected a validation error")
	}
	// sanity: an absent In is fine
	if err := Validate(&hunt4F1Req{L: []hunt4F1Elem{{In: nil}}}); err != nil {
		t.Fatalf("absent In: unexpected error %v", err)
	}

	// a later element whose In is absent must not switch the rule off for L[0]
	v := &hunt4F1Req{L: []hunt4F1Elem{
		{In: &hunt4F1Inner{X: 0}}, // `$>0` is false here
		{In: nil},
	}}
	if err := Validate(v); err == nil {
		t.Errorf("L[0].In.X == 0 violates `$>0`, but Validate accepted the value because L[1].In is nil")
	}

	// an absent top-level member of the same name must not switch it off either
	v2 := &hunt4F1Req2{In: nil, L: []hunt4F1Elem{{In: &hunt4F1Inner{X: 0}}}}
	if err := Validate(v2); err == nil {
		t.Errorf("L[0].In.X == 0 violates `$>0`, but Validate accepted the value because the top-level In is nil")
	}

	// same through map values: whatever the iteration order, one of the two
	// elements violates its rule
	for i := 0; i < 20; i++ {
		v3 := &hunt4F1Req3{M: map[string]hunt4F1Elem{
			"a": {In: &hunt4F1Inner{X: 0}},
			"b": {In: nil},
		}}
		if err := Validate(v3); err == nil {
			t.Errorf("M[a].In.X == 0 violates `$>0`, but Validate accepted the value because M[b].In is nil")
			break
		}
	}
}
