package route

// C06 hunt 4, finding 2.
//
// An absolute-form target with an empty path and a query or fragment
// ("GET http://example.com?x=1 HTTP/1.1") asks for the path "/" (RFC 7230 2.7.3:
// an empty path is equivalent to "/"). hertz agrees: "http://example.com" and
// "http://example.com/?x=1" run the route "/", and so does "http://example.com?x=1"
// in the default configuration. With UseRawPath the same request is answered
// 400 and the route "/" does not run: since the authority ends at the first of
// "/", "?" and "#" (f993e17) splitHostURI hands back "?x=1" as the request part,
// PathOriginal() is empty, and ServeHTTP refuses an empty raw path.

import (
	"context"
	"strings"
	"sync/atomic"
	"testing"

	"github.com/cloudwego/hertz/pkg/app"
	"github.com/cloudwego/hertz/pkg/common/config"
	"github.com/cloudwego/hertz/pkg/common/test/mock"
)

func hunt4ServeRoot(t *testing.T, useRawPath bool, target string) (statusLine, ran string) {
	t.Helper()
	opt := config.NewOptions(nil)
	opt.DisablePrintRoute = true
	opt.UseRawPath = useRawPath
	e := NewEngine(opt)
	if err := e.Init(); err != nil {
		t.Fatal(err)
	}
	atomic.StoreUint32(&e.status, statusRunning)
	e.GET("/", func(c context.Context, ctx *app.RequestContext) {
		ran += "/ (FullPath=" + ctx.FullPath() + " x=" + ctx.Query("x") + ")"
	})
	e.GET("/:p", func(c context.Context, ctx *app.RequestContext) {
		ran += "/:p (p=" + ctx.Param("p") + ")"
	})
	conn := mock.NewConn("GET " + target + " HTTP/1.1\r\nHost: example.com\r\n\r\n")
	_ = e.Serve(context.Background(), conn)
	w := conn.WriterRecorder()
	b, _ := w.ReadBinary(w.WroteLen())
	return strings.SplitN(string(b), "\r\n", 2)[0], ran
}

func TestHunt4C06AbsoluteFormEmptyPathWithQueryRawPath(t *testing.T) {
	const want = "/ (FullPath=/ x=1)"
	for _, raw := range []bool{false, true} {
		for _, target := range []string{
			"/?x=1",                   // control
			"http://example.com/?x=1", // control
			"http://example.com?x=1",  // empty path, then the query
			"http://example.com?x=1#f",
		} {
			st, ran := hunt4ServeRoot(t, raw, target)
			if ran != want {
				t.Errorf("UseRawPath=%v: GET %s: the path is \"/\", the route \"/\" must run once (%q); ran %q, answer %q",
					raw, target, want, ran, st)
			}
		}
		// only a fragment after the authority
		if st, ran := hunt4ServeRoot(t, raw, "http://example.com#f"); ran != "/ (FullPath=/ x=)" {
			t.Errorf("UseRawPath=%v: GET http://example.com#f: the route \"/\" must run; ran %q, answer %q", raw, ran, st)
		}
	}
}
