package route

// C06 hunt 4, finding 1.
//
// A request whose target does not begin with '/' ("GET admin HTTP/1.1",
// "OPTIONS * HTTP/1.1") has a path that no registered pattern matches: every
// pattern begins with '/'. The engine says so itself ("Follow RFC7230#section-5.3":
// rPath == "" || rPath[0] != '/' is answered 400) and with UseRawPath that is what
// happens. In the default configuration the check can never fire: the path it
// looks at is URI.Path(), and normalizePath has already put a '/' in front of it.
// The request is then dispatched as if "/admin" (or "/*") had been asked for and a
// route handler runs.

import (
	"context"
	"strings"
	"sync/atomic"
	"testing"

	"github.com/cloudwego/hertz/pkg/app"
	"github.com/cloudwego/hertz/pkg/common/config"
	"github.com/cloudwego/hertz/pkg/common/test/mock"
)

func hunt4ServeWire(t *testing.T, useRawPath bool, method, target string) (statusLine, ran string) {
	t.Helper()
	opt := config.NewOptions(nil)
	opt.DisablePrintRoute = true
	opt.UseRawPath = useRawPath
	e := NewEngine(opt)
	if err := e.Init(); err != nil {
		t.Fatal(err)
	}
	atomic.StoreUint32(&e.status, statusRunning)
	h := func(pattern string) app.HandlerFunc {
		return func(c context.Context, ctx *app.RequestContext) {
			ran += pattern + " (FullPath=" + ctx.FullPath()
			for _, p := range ctx.Params {
				ran += " " + p.Key + "=" + p.Value
			}
			ran += ") "
		}
	}
	e.Handle(method, "/admin", h("/admin"))
	e.Handle(method, "/:p", h("/:p"))

	conn := mock.NewConn(method + " " + target + " HTTP/1.1\r\nHost: example.com\r\n\r\n")
	_ = e.Serve(context.Background(), conn)
	w := conn.WriterRecorder()
	b, _ := w.ReadBinary(w.WroteLen())
	statusLine = strings.SplitN(string(b), "\r\n", 2)[0]
	return statusLine, ran
}

func TestHunt4C06TargetWithoutLeadingSlashIsNotRouted(t *testing.T) {
	// control: the well-formed target runs the static route
	if st, ran := hunt4ServeWire(t, false, "GET", "/admin"); !strings.HasPrefix(ran, "/admin ") {
		t.Fatalf("control: GET /admin -> %q ran %q", st, ran)
	}

	cases := []struct{ method, target string }{
		{"GET", "admin"},      // runs the route /admin
		{"GET", "x"},          // runs the route /:p with p=x
		{"OPTIONS", "*"},      // asterisk-form: runs the route /:p with p=*
		{"GET", "\\admin"},    // runs the route /:p with p=\admin
		{"GET", "%2Fadmin"},   // runs the route /admin
		{"GET", "a/../admin"}, // runs the route /admin
	}
	for _, raw := range []bool{true, false} {
		for _, c := range cases {
			st, ran := hunt4ServeWire(t, raw, c.method, c.target)
			if ran != "" {
				t.Errorf("UseRawPath=%v: %s %s HTTP/1.1: no pattern matches a path that does not begin with '/', "+
					"but a route handler ran: %s(answer %q)", raw, c.method, c.target, ran, st)
			}
		}
	}
}
