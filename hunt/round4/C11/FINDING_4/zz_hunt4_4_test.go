package client

// C11 / hunt 4 / finding 4
//
// req.Write stores what it derives from the URL in the request header for good:
// the Host field (only "if the header has none yet") and, for a URL with
// userinfo, an Authorization field. A Request object that is given its next URL
// with SetRequestURI - the ordinary way to walk through a list of URLs with one
// pooled Request - is therefore sent to the new server with the Host of the
// previous URL, and it keeps presenting the credentials of an earlier URL to
// every later host. The client itself knows about it: DoRequestFollowRedirects
// deletes the Host header by hand before it follows a redirect.

import (
	"context"
	"net/http"
	"net/http/httptest"
	"strings"
	"sync"
	"testing"

	"github.com/cloudwego/hertz/pkg/network/standard"
	"github.com/cloudwego/hertz/pkg/protocol"
)

type hunt4_4Seen struct {
	host, auth, path string
}

type hunt4_4Recorder struct {
	mu   sync.Mutex
	seen []hunt4_4Seen
}

func (r *hunt4_4Recorder) ServeHTTP(w http.ResponseWriter, req *http.Request) {
	r.mu.Lock()
	r.seen = append(r.seen, hunt4_4Seen{host: req.Host, auth: req.Header.Get("Authorization"), path: req.URL.Path})
	r.mu.Unlock()
	w.Write([]byte("ok")) //nolint:errcheck
}

func (r *hunt4_4Recorder) last(t *testing.T) hunt4_4Seen {
	r.mu.Lock()
	defer r.mu.Unlock()
	if len(r.seen) == 0 {
		t.Fatal("the server has seen no request")
	}
	return r.seen[len(r.seen)-1]
}

func TestHunt4_4_ReusedRequestCarriesHostAndCredentialsOfAnEarlierURL(t *testing.T) {
	var ra, rb hunt4_4Recorder
	a := httptest.NewServer(&ra)
	defer a.Close()
	b := httptest.NewServer(&rb)
	defer b.Close()
	hostA := strings.TrimPrefix(a.URL, "http://")
	hostB := strings.TrimPrefix(b.URL, "http://")

	c, _ := NewClient(WithDialer(standard.NewDialer()))
	req, resp := protocol.AcquireRequest(), protocol.AcquireResponse()
	defer protocol.ReleaseRequest(req)
	defer protocol.ReleaseResponse(resp)
	do := func(url string) {
		t.Helper()
		req.SetRequestURI(url)
		if err := c.Do(context.Background(), req, resp); err != nil {
			t.Fatalf("%s: %v", url, err)
		}
	}

	// 1: server A, with credentials in the URL
	do("http://user:secret@" + hostA + "/one")
	if s := ra.last(t); s.host != hostA || s.auth == "" || s.path != "/one" {
		t.Fatalf("first exchange: %+v", s)
	}

	// 2: the same Request object, next URL: server B, no credentials
	do("http://" + hostB + "/two")
	s := rb.last(t)
	if s.path != "/two" {
		t.Fatalf("second exchange: %+v", s)
	}
	if s.host != hostB {
		t.Errorf("request for http://%s/two arrived with Host %q (the host of the URL used before)", hostB, s.host)
	}
	if s.auth != "" {
		t.Errorf("request for http://%s/two (no userinfo) arrived with the credentials of the URL used before: Authorization %q", hostB, s.auth)
	}
}
