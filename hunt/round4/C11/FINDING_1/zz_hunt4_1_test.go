package client

// C11 / hunt 4 / finding 1
//
// Whenever the http1 client decides not to read a response body (the request
// method is CONNECT, or the caller has set Response.SkipBody) it still puts the
// connection back into the pool. For HEAD that is right, the server sends no
// body. For the other two the body is on the wire: it stays unread on the pooled
// connection and is parsed as the response of the NEXT exchange.

import (
	"context"
	"io"
	"net/http"
	"net/http/httptest"
	"testing"

	"github.com/cloudwego/hertz/pkg/network"
	"github.com/cloudwego/hertz/pkg/network/netpoll"
	"github.com/cloudwego/hertz/pkg/network/standard"
	"github.com/cloudwego/hertz/pkg/protocol"
)

func hunt4_1Dialers() map[string]network.Dialer {
	return map[string]network.Dialer{"standard": standard.NewDialer(), "netpoll": netpoll.NewDialer()}
}

// the body of the first response; it is chosen so that the desynchronisation is
// visible as a wrong status and a wrong body (any other body makes the next
// exchange fail or, by the lenient status-line parser, be cut short)
const hunt4_1Decoy = "HTTP/1.1 500 Decoy\r\nContent-Length: 5\r\n\r\ndecoy"

func hunt4_1Server() *httptest.Server {
	return httptest.NewServer(http.HandlerFunc(func(w http.ResponseWriter, r *http.Request) {
		switch {
		case r.Method == "CONNECT":
			// an origin server that does not do tunnels: a non-2xx answer to CONNECT
			// is an ordinary response with a body (RFC 7231 4.3.6, RFC 7230 3.3)
			w.Header().Set("Content-Type", "text/plain")
			w.WriteHeader(http.StatusMethodNotAllowed)
			io.WriteString(w, hunt4_1Decoy)
		case r.URL.Path == "/first":
			w.Header().Set("Content-Type", "text/plain")
			io.WriteString(w, hunt4_1Decoy)
		default:
			w.Header().Set("X-Real", "yes")
			io.WriteString(w, "real:"+r.URL.Path)
		}
	}))
}

func hunt4_1Second(t *testing.T, c *Client, url string) {
	t.Helper()
	req, resp := protocol.AcquireRequest(), protocol.AcquireResponse()
	defer protocol.ReleaseRequest(req)
	defer protocol.ReleaseResponse(resp)
	req.SetRequestURI(url + "/second")
	err := c.Do(context.Background(), req, resp)
	if err != nil {
		t.Errorf("the exchange after the skipped body failed: %v", err)
		return
	}
	body, _ := resp.BodyE()
	if resp.StatusCode() != 200 || string(body) != "real:/second" || string(resp.Header.Peek("X-Real")) != "yes" {
		t.Errorf("the exchange after the skipped body did not return the response the server sent for it: "+
			"status=%d X-Real=%q body=%q, want 200 \"yes\" \"real:/second\"", resp.StatusCode(), resp.Header.Peek("X-Real"), body)
	}
}

// A CONNECT request that the server refuses: the refusal has a body.
func TestHunt4_1_RefusedConnectLeavesItsBodyOnThePooledConnection(t *testing.T) {
	for name, d := range hunt4_1Dialers() {
		for _, stream := range []bool{false, true} {
			d, stream := d, stream
			t.Run(name+map[bool]string{false: "/buffered", true: "/streaming"}[stream], func(t *testing.T) {
				srv := hunt4_1Server()
				defer srv.Close()
				c, _ := NewClient(WithDialer(d), WithResponseBodyStream(stream))
				req, resp := protocol.AcquireRequest(), protocol.AcquireResponse()
				req.SetMethod("CONNECT")
				req.SetRequestURI(srv.URL + "/")
				if err := c.Do(context.Background(), req, resp); err != nil {
					t.Fatalf("CONNECT: %v", err)
				}
				if resp.StatusCode() != http.StatusMethodNotAllowed {
					t.Fatalf("CONNECT: status %d", resp.StatusCode())
				}
				body, _ := resp.BodyE()
				gotBody := string(body)
				protocol.ReleaseRequest(req)
				protocol.ReleaseResponse(resp)

				// the next exchange of the sequence must get its own response
				hunt4_1Second(t, c, srv.URL)

				// and the refusal itself comes back with the body the server sent
				if gotBody != hunt4_1Decoy {
					t.Errorf("405 answer to CONNECT: body %q, the server sent %q", gotBody, hunt4_1Decoy)
				}
			})
		}
	}
}

// Response.SkipBody set by the caller (the client keeps it on purpose: "backing
// up SkipBody in case it was set explicitly") on a GET.
func TestHunt4_1_CallerSkipBodyLeavesTheBodyOnThePooledConnection(t *testing.T) {
	for name, d := range hunt4_1Dialers() {
		for _, stream := range []bool{false, true} {
			d, stream := d, stream
			t.Run(name+map[bool]string{false: "/buffered", true: "/streaming"}[stream], func(t *testing.T) {
				srv := hunt4_1Server()
				defer srv.Close()
				c, _ := NewClient(WithDialer(d), WithResponseBodyStream(stream))
				req, resp := protocol.AcquireRequest(), protocol.AcquireResponse()
				resp.SkipBody = true
				req.SetRequestURI(srv.URL + "/first")
				if err := c.Do(context.Background(), req, resp); err != nil {
					t.Fatalf("first: %v", err)
				}
				if resp.StatusCode() != 200 {
					t.Fatalf("first: status %d", resp.StatusCode())
				}
				protocol.ReleaseRequest(req)
				protocol.ReleaseResponse(resp)

				hunt4_1Second(t, c, srv.URL)
			})
		}
	}
}
