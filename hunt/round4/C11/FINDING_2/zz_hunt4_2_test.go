package client

// C11 / hunt 4 / finding 2
//
// 88a0bd2 ("requests with multipart parts given as readers are not retried") put
// its guard into client.DefaultRetryIf only. HostClient.Do consults DefaultRetryIf
// for the built-in "dead pooled connection" retry, but as soon as the application
// installs a RetryIfFunc of its own (the usual "retry on any error") the decision
// is the application's, and Do sends the request a second time although the first
// serialisation has read the readers of its files and fields to the end. For body
// streams Do has a guard of its own on that path (hadBodyStream); for multipart
// readers it has none. The second copy goes out with empty parts and is answered
// 200: silent data loss.

import (
	"bufio"
	"context"
	"io"
	"net"
	"net/http"
	"strings"
	"sync"
	"testing"
	"time"

	"github.com/cloudwego/hertz/pkg/app/client/retry"
	"github.com/cloudwego/hertz/pkg/network/standard"
	"github.com/cloudwego/hertz/pkg/protocol"
)

type hunt4_2Form struct {
	field, file string
	err         error
}

func TestHunt4_2_CustomRetryIfResendsConsumedMultipartReaders(t *testing.T) {
	ln, err := net.Listen("tcp", "127.0.0.1:0")
	if err != nil {
		t.Fatal(err)
	}
	defer ln.Close()

	var mu sync.Mutex
	var answered []hunt4_2Form // the forms the server accepted with 200
	conns := 0
	go func() {
		for {
			c, err := ln.Accept()
			if err != nil {
				return
			}
			mu.Lock()
			conns++
			first := conns == 1
			mu.Unlock()
			go func() {
				defer c.Close()
				r, err := http.ReadRequest(bufio.NewReader(c))
				if err != nil {
					return
				}
				if first {
					// the first connection dies before an answer is sent (a crashed
					// worker, a restarted upstream, an idle timeout race ...)
					io.Copy(io.Discard, r.Body) //nolint:errcheck
					return
				}
				var f hunt4_2Form
				if f.err = r.ParseMultipartForm(1 << 20); f.err == nil {
					f.field = r.FormValue("field")
					if fhs := r.MultipartForm.File["file"]; len(fhs) > 0 {
						fh, _ := fhs[0].Open()
						b, _ := io.ReadAll(fh)
						f.file = string(b)
					}
				}
				mu.Lock()
				answered = append(answered, f)
				mu.Unlock()
				c.Write([]byte("HTTP/1.1 200 OK\r\nContent-Length: 0\r\n\r\n")) //nolint:errcheck
			}()
		}
	}()

	c, _ := NewClient(WithDialer(standard.NewDialer()),
		WithRetryConfig(retry.WithMaxAttemptTimes(3), retry.WithInitDelay(time.Millisecond)))
	c.SetRetryIfFunc(func(req *protocol.Request, resp *protocol.Response, err error) bool {
		return err != nil
	})

	req, resp := protocol.AcquireRequest(), protocol.AcquireResponse()
	defer protocol.ReleaseRequest(req)
	defer protocol.ReleaseResponse(resp)
	req.SetMethod("POST")
	req.SetRequestURI("http://" + ln.Addr().String() + "/upload")
	req.SetMultipartFormData(map[string]string{"field": "value"})
	req.SetFileReader("file", "a.txt", strings.NewReader("file-content"))

	err = c.Do(context.Background(), req, resp)
	t.Logf("Do: err=%v status=%d", err, resp.StatusCode())

	// Either the request is not repeated (Do reports the error of the first
	// attempt), or what is repeated is the request the application built. A copy
	// with emptied parts must never reach the server.
	mu.Lock()
	defer mu.Unlock()
	for i, f := range answered {
		if f.err != nil {
			t.Errorf("request %d answered by the server: not a multipart form: %v", i, f.err)
			continue
		}
		if f.field != "value" || f.file != "file-content" {
			t.Errorf("request %d answered 200 by the server carried field=%q file=%q, the application sent field=%q file=%q",
				i, f.field, f.file, "value", "file-content")
		}
	}
	if err == nil && len(answered) == 0 {
		t.Errorf("Do returned nil but the server answered no request")
	}
}
