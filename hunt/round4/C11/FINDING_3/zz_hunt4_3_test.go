package client

// C11 / hunt 4 / finding 3
//
// The trailer section of a chunked response is stored with
// Trailer.UpdateArgBytes, which only fills in a field that the Trailer header
// has announced, compares the names byte by byte, and fills each announcement
// once. Everything else in the trailer section is dropped without an error:
//   - trailer fields the server did not announce (announcing them is a SHOULD,
//     RFC 7230 4.4; net/http's TrailerPrefix mechanism sends exactly such fields),
//   - with header-name normalisation switched off, fields announced in another
//     letter case than they are sent in (field names are case-insensitive; a
//     net/http handler that does w.Header().Set("Trailer", "x-checksum") announces
//     "x-checksum" and sends "X-Checksum: ..."),
//   - the second and later field lines of the same name.

import (
	"bufio"
	"context"
	"io"
	"net"
	"net/http"
	"net/http/httptest"
	"strings"
	"testing"

	"github.com/cloudwego/hertz/pkg/common/config"
	"github.com/cloudwego/hertz/pkg/network/standard"
	"github.com/cloudwego/hertz/pkg/protocol"
)

// hunt4_3Raw answers every request on every connection with raw.
func hunt4_3Raw(t *testing.T, raw string) (addr string, stop func()) {
	ln, err := net.Listen("tcp", "127.0.0.1:0")
	if err != nil {
		t.Fatal(err)
	}
	go func() {
		for {
			c, err := ln.Accept()
			if err != nil {
				return
			}
			go func() {
				defer c.Close()
				br := bufio.NewReader(c)
				for {
					r, err := http.ReadRequest(br)
					if err != nil {
						return
					}
					io.Copy(io.Discard, r.Body) //nolint:errcheck
					if _, err = io.WriteString(c, raw); err != nil {
						return
					}
				}
			}()
		}
	}()
	return ln.Addr().String(), func() { ln.Close() }
}

// what net/http (the independent parser) makes of the same bytes
func hunt4_3Oracle(t *testing.T, raw string) http.Header {
	r, err := http.ReadResponse(bufio.NewReader(strings.NewReader(raw)), nil)
	if err != nil {
		t.Fatalf("the response is not well-formed: %v", err)
	}
	if _, err = io.ReadAll(r.Body); err != nil {
		t.Fatalf("the response is not well-formed: %v", err)
	}
	return r.Trailer
}

func hunt4_3Fetch(t *testing.T, url string, stream bool, opts ...config.ClientOption) (body string, trailer map[string][]string) {
	opts = append([]config.ClientOption{WithDialer(standard.NewDialer()), WithResponseBodyStream(stream)}, opts...)
	c, _ := NewClient(opts...)
	req, resp := protocol.AcquireRequest(), protocol.AcquireResponse()
	defer protocol.ReleaseRequest(req)
	defer protocol.ReleaseResponse(resp)
	req.SetRequestURI(url)
	if err := c.Do(context.Background(), req, resp); err != nil {
		t.Fatalf("Do: %v", err)
	}
	var b []byte
	var err error
	if stream {
		b, err = io.ReadAll(resp.BodyStream())
	} else {
		b, err = resp.BodyE()
	}
	if err != nil {
		t.Fatalf("body: %v", err)
	}
	trailer = map[string][]string{}
	resp.Header.Trailer().VisitAll(func(k, v []byte) {
		// compared without regard to letter case, like every field name
		key := http.CanonicalHeaderKey(string(k))
		trailer[key] = append(trailer[key], string(v))
	})
	return string(b), trailer
}

func hunt4_3Mode(stream bool) string {
	if stream {
		return "streaming"
	}
	return "buffered"
}

func TestHunt4_3_UnannouncedTrailerFieldIsDropped(t *testing.T) {
	raw := "HTTP/1.1 200 OK\r\nContent-Type: text/plain\r\nTransfer-Encoding: chunked\r\n\r\n" +
		"5\r\nhello\r\n0\r\nX-Checksum: abc123\r\n\r\n"
	want := hunt4_3Oracle(t, raw)
	if want.Get("X-Checksum") != "abc123" {
		t.Fatalf("oracle: %v", want)
	}
	addr, stop := hunt4_3Raw(t, raw)
	defer stop()
	for _, stream := range []bool{false, true} {
		body, tr := hunt4_3Fetch(t, "http://"+addr+"/", stream)
		if body != "hello" {
			t.Errorf("%s: body %q", hunt4_3Mode(stream), body)
		}
		if got := strings.Join(tr["X-Checksum"], ", "); got != "abc123" {
			t.Errorf("%s: trailer X-Checksum = %q (all trailers: %v), the server sent %q", hunt4_3Mode(stream), got, tr, "abc123")
		}
	}
}

// The same with a real net/http server: http.TrailerPrefix is its documented way
// to send trailers that were not known when the header was written.
func TestHunt4_3_NetHTTPTrailerPrefix(t *testing.T) {
	srv := httptest.NewServer(http.HandlerFunc(func(w http.ResponseWriter, r *http.Request) {
		io.WriteString(w, "hello") //nolint:errcheck
		w.(http.Flusher).Flush()
		w.Header().Set(http.TrailerPrefix+"X-Checksum", "abc123")
	}))
	defer srv.Close()
	for _, stream := range []bool{false, true} {
		body, tr := hunt4_3Fetch(t, srv.URL+"/", stream)
		if body != "hello" {
			t.Errorf("%s: body %q", hunt4_3Mode(stream), body)
		}
		if got := strings.Join(tr["X-Checksum"], ", "); got != "abc123" {
			t.Errorf("%s: trailer X-Checksum = %q (all trailers: %v), the server sent %q", hunt4_3Mode(stream), got, tr, "abc123")
		}
	}
}

func TestHunt4_3_TrailerAnnouncedInAnotherCaseWithNormalisationOff(t *testing.T) {
	// what a net/http handler produces with w.Header().Set("Trailer", "x-checksum")
	raw := "HTTP/1.1 200 OK\r\nContent-Type: text/plain\r\nTrailer: x-checksum\r\nTransfer-Encoding: chunked\r\n\r\n" +
		"5\r\nhello\r\n0\r\nX-Checksum: abc123\r\n\r\n"
	want := hunt4_3Oracle(t, raw)
	if want.Get("X-Checksum") != "abc123" {
		t.Fatalf("oracle: %v", want)
	}
	addr, stop := hunt4_3Raw(t, raw)
	defer stop()
	for _, stream := range []bool{false, true} {
		// control: with normalisation on the value arrives
		_, tr := hunt4_3Fetch(t, "http://"+addr+"/", stream)
		if got := strings.Join(tr["X-Checksum"], ", "); got != "abc123" {
			t.Errorf("%s, normalisation on: trailer X-Checksum = %q", hunt4_3Mode(stream), got)
		}
		body, tr := hunt4_3Fetch(t, "http://"+addr+"/", stream, WithDisableHeaderNamesNormalizing(true))
		if body != "hello" {
			t.Errorf("%s: body %q", hunt4_3Mode(stream), body)
		}
		if got := strings.Join(tr["X-Checksum"], ""); got != "abc123" {
			t.Errorf("%s, normalisation off: trailer X-Checksum = %q (all trailers: %v), the server sent %q", hunt4_3Mode(stream), got, tr, "abc123")
		}
	}
}

func TestHunt4_3_SecondTrailerLineOfTheSameNameIsDropped(t *testing.T) {
	raw := "HTTP/1.1 200 OK\r\nContent-Type: text/plain\r\nTrailer: X-Warn\r\nTransfer-Encoding: chunked\r\n\r\n" +
		"5\r\nhello\r\n0\r\nX-Warn: one\r\nX-Warn: two\r\n\r\n"
	want := hunt4_3Oracle(t, raw)
	if strings.Join(want.Values("X-Warn"), ", ") != "one, two" {
		t.Fatalf("oracle: %v", want)
	}
	addr, stop := hunt4_3Raw(t, raw)
	defer stop()
	for _, stream := range []bool{false, true} {
		_, tr := hunt4_3Fetch(t, "http://"+addr+"/", stream)
		// as separate values or as one combined list value
		if got := strings.Join(tr["X-Warn"], ", "); got != "one, two" {
			t.Errorf("%s: trailer X-Warn = %q, the server sent \"one\" and \"two\"", hunt4_3Mode(stream), got)
		}
	}
}
