package server

import (
	"bufio"
	"context"
	"io"
	"net"
	"net/http"
	"testing"
	"time"

	"github.com/cloudwego/hertz/pkg/app"
	"github.com/cloudwego/hertz/pkg/common/config"
	"github.com/cloudwego/hertz/pkg/network/netpoll"
	"github.com/cloudwego/hertz/pkg/network/standard"
)

// C14: a chunked request body whose chunk-size line has a horizontal tab in front
// of the chunk extension ("5" HTAB ";a=b") is a valid body: RFC 9112 7.1.1 has
// chunk-ext = *( BWS ";" BWS chunk-ext-name [ BWS "=" BWS chunk-ext-val ] ) with
// BWS = *( SP / HTAB ), and RFC 9110 5.6.3 says a recipient MUST parse such
// whitespace and remove it. With a SP in that place the body is read, with a HTAB
// the stream fails on the first Read, and the drain behind a handler that does not
// read fails too: the pipelined request behind the body is lost.

type h4f1Result struct {
	data string
	err  string
}

func h4f1Run(t *testing.T, transport string, chunked string, readBody bool) (first *h4f1Result, status []int, bodies []string) {
	l, err := net.Listen("tcp", "127.0.0.1:0")
	if err != nil {
		t.Fatal(err)
	}
	addr := l.Addr().String()
	l.Close()
	opts := []config.Option{WithHostPorts(addr), WithStreamBody(true), WithExitWaitTime(10 * time.Millisecond), WithDisablePrintRoute(true)}
	if transport == "netpoll" {
		opts = append(opts, WithTransport(netpoll.NewTransporter))
	} else {
		opts = append(opts, WithTransport(standard.NewTransporter))
	}
	h := New(opts...)
	resCh := make(chan *h4f1Result, 1)
	h.POST("/up", func(c context.Context, ctx *app.RequestContext) {
		r := &h4f1Result{err: "not read"}
		if readBody {
			b, err := io.ReadAll(ctx.RequestBodyStream())
			r.data = string(b)
			r.err = "EOF" // io.ReadAll hides io.EOF
			if err != nil {
				r.err = err.Error()
			}
		}
		resCh <- r
		ctx.SetBodyString("up-done")
	})
	h.GET("/probe", func(c context.Context, ctx *app.RequestContext) {
		ctx.SetBodyString("probe-ok")
	})
	go h.Spin()
	defer func() {
		ctx, cancel := context.WithTimeout(context.Background(), 200*time.Millisecond)
		defer cancel()
		h.Shutdown(ctx) //nolint:errcheck
	}()
	var c net.Conn
	for i := 0; i < 300; i++ {
		if c, err = net.Dial("tcp", addr); err == nil {
			break
		}
		time.Sleep(10 * time.Millisecond)
	}
	if err != nil {
		t.Fatal(err)
	}
	defer c.Close()
	raw := "POST /up HTTP/1.1\r\nHost: a\r\nTransfer-Encoding: chunked\r\n\r\n" + chunked +
		"GET /probe HTTP/1.1\r\nHost: a\r\nConnection: close\r\n\r\n"
	if _, err = c.Write([]byte(raw)); err != nil {
		t.Fatal(err)
	}
	c.SetReadDeadline(time.Now().Add(5 * time.Second)) //nolint:errcheck
	br := bufio.NewReader(c)
	for {
		resp, err := http.ReadResponse(br, nil)
		if err != nil {
			break
		}
		b, _ := io.ReadAll(resp.Body)
		status = append(status, resp.StatusCode)
		bodies = append(bodies, string(b))
	}
	select {
	case first = <-resCh:
	default:
	}
	return
}

func TestHunt4C14ChunkExtensionBehindTab(t *testing.T) {
	for _, transport := range []string{"standard", "netpoll"} {
		// control: the same body with a blank where the tab is, and with no whitespace
		for _, ok := range []string{"5 ;a=b\r\nhello\r\n0\r\n\r\n", "5;a=b\r\nhello\r\n0\r\n\r\n"} {
			first, status, bodies := h4f1Run(t, transport, ok, true)
			if first == nil || first.data != "hello" || first.err != "EOF" || len(status) != 2 || bodies[1] != "probe-ok" {
				t.Fatalf("%s: control %q failed: %+v %v %q", transport, ok, first, status, bodies)
			}
		}
		for _, body := range []string{
			"5\t;a=b\r\nhello\r\n0\r\n\r\n",
			"5;a=b\r\nhello\r\n0\t;last\r\n\r\n",
		} {
			first, status, bodies := h4f1Run(t, transport, body, true)
			if first == nil {
				t.Errorf("%s: %q: the handler was not called: %v %q", transport, body, status, bodies)
			} else if first.data != "hello" || first.err != "EOF" {
				t.Errorf("%s: %q: the handler read %q and then got %q, want \"hello\" and EOF", transport, body, first.data, first.err)
			}
			if len(status) != 2 || bodies[1] != "probe-ok" {
				t.Errorf("%s: %q: the request behind the body was not answered: %v %q", transport, body, status, bodies)
			}
			// a handler that does not read the body: the drain has to find the end of it
			_, status, bodies = h4f1Run(t, transport, body, false)
			if len(status) != 2 || bodies[1] != "probe-ok" {
				t.Errorf("%s: %q, body not read by the handler: the request behind the body was not answered: %v %q", transport, body, status, bodies)
			}
		}
	}
}
