package server

// C09 hunt, finding 3: a recycled request context / Request / URI hands out empty
// NON-NIL slices where a newly allocated one hands out nil. The difference is visible
// through the public getters (x == nil) and through anything that encodes the value
// (encoding/json and sonic write null for a nil []byte and "" for an empty one).

import (
	"bufio"
	"context"
	"fmt"
	"io"
	"net"
	"net/http"
	"testing"
	"time"

	"github.com/cloudwego/hertz/pkg/app"
	"github.com/cloudwego/hertz/pkg/protocol"
)

func zzH43Do(t *testing.T, c net.Conn, br *bufio.Reader, raw string) string {
	t.Helper()
	c.SetDeadline(time.Now().Add(5 * time.Second))
	if _, err := io.WriteString(c, raw); err != nil {
		t.Fatal(err)
	}
	rp, err := http.ReadResponse(br, nil)
	if err != nil {
		t.Fatal(err)
	}
	b, _ := io.ReadAll(rp.Body)
	rp.Body.Close()
	return string(b)
}

func TestZZHunt4_3_RecycledContextNilVsEmpty(t *testing.T) {
	l, err := net.Listen("tcp", "127.0.0.1:0")
	if err != nil {
		t.Fatal(err)
	}
	addr := l.Addr().String()
	l.Close()

	h := New(WithHostPorts(addr), WithExitWaitTime(50*time.Millisecond), WithDisablePrintRoute(true))
	// what an application does all the time: put request values into a JSON answer
	h.Any("/obs", func(c context.Context, ctx *app.RequestContext) {
		ctx.JSON(200, map[string]interface{}{
			"user_agent":   ctx.UserAgent(),
			"content_type": ctx.ContentType(),
			"body":         ctx.Request.Body(),
			"query":        ctx.Request.URI().QueryString(),
			"hash":         ctx.Request.URI().Hash(),
			"x_absent":     ctx.GetHeader("X-Absent"),
			"nil_flags": fmt.Sprintf("ua=%v ct=%v body=%v query=%v hash=%v cl=%v",
				ctx.UserAgent() == nil, ctx.ContentType() == nil, ctx.Request.Body() == nil,
				ctx.Request.URI().QueryString() == nil, ctx.Request.URI().Hash() == nil,
				ctx.Request.Header.Peek("Content-Length") == nil),
		})
	})
	go h.Spin()
	waitEngineRunning(h)
	defer h.Shutdown(context.Background()) //nolint:errcheck

	const bare = "GET /obs HTTP/1.1\r\nHost: a\r\n\r\n"
	const dirty = "POST /obs?q=1 HTTP/1.1\r\nHost: a\r\nUser-Agent: curl/8\r\nContent-Type: text/plain\r\nContent-Length: 5\r\n\r\nhello"

	// the very first request of the server: the context is newly allocated
	c1, err := net.Dial("tcp", addr)
	if err != nil {
		t.Fatal(err)
	}
	defer c1.Close()
	br1 := bufio.NewReader(c1)
	fresh := zzH43Do(t, c1, br1, bare)
	t.Logf("new context      : %s", fresh)

	// an ordinary request in between, then the same bare request on the same connection
	zzH43Do(t, c1, br1, dirty)
	recycled := zzH43Do(t, c1, br1, bare)
	t.Logf("recycled context : %s", recycled)
	if recycled != fresh {
		t.Errorf("same request, same keep-alive connection, recycled context:\n got  %s\n want %s (what a new context answers)", recycled, fresh)
	}

	// and on another connection, which takes the context from the pool
	c1.Close()
	time.Sleep(50 * time.Millisecond)
	c2, err := net.Dial("tcp", addr)
	if err != nil {
		t.Fatal(err)
	}
	defer c2.Close()
	pooled := zzH43Do(t, c2, bufio.NewReader(c2), bare)
	if pooled != fresh {
		t.Errorf("same request on a new connection with the pooled context:\n got  %s\n want %s", pooled, fresh)
	}
}

// The same for the objects of the public pools.
func TestZZHunt4_3_ReleasedObjectsNilVsEmpty(t *testing.T) {
	type obs struct {
		name string
		f    func(req *protocol.Request, u *protocol.URI, ck *protocol.Cookie) []byte
	}
	observers := []obs{
		{"Request.Header.UserAgent()", func(req *protocol.Request, u *protocol.URI, ck *protocol.Cookie) []byte {
			return req.Header.UserAgent()
		}},
		{"Request.Header.Peek(Content-Type)", func(req *protocol.Request, u *protocol.URI, ck *protocol.Cookie) []byte {
			return req.Header.Peek("Content-Type")
		}},
		{"Request.Host()", func(req *protocol.Request, u *protocol.URI, ck *protocol.Cookie) []byte {
			return req.Host()
		}},
		{"URI.Hash()", func(req *protocol.Request, u *protocol.URI, ck *protocol.Cookie) []byte { return u.Hash() }},
		{"URI.QueryString()", func(req *protocol.Request, u *protocol.URI, ck *protocol.Cookie) []byte {
			return u.QueryString()
		}},
		{"URI.Username()", func(req *protocol.Request, u *protocol.URI, ck *protocol.Cookie) []byte {
			return u.Username()
		}},
		{"Cookie.Domain()", func(req *protocol.Request, u *protocol.URI, ck *protocol.Cookie) []byte {
			return ck.Domain()
		}},
		{"Cookie.Value()", func(req *protocol.Request, u *protocol.URI, ck *protocol.Cookie) []byte {
			return ck.Value()
		}},
	}

	// used once, released, acquired again
	req := protocol.AcquireRequest()
	req.SetRequestURI("http://u:p@example.com/p?q=1#h")
	req.Header.SetUserAgentBytes([]byte("ua"))
	req.Header.SetContentTypeBytes([]byte("text/plain"))
	req.URI()
	u := protocol.AcquireURI()
	u.Parse(nil, []byte("http://u:p@example.com/p?q=1#h"))
	ck := protocol.AcquireCookie()
	ck.Parse("k=v; domain=example.com; path=/") //nolint:errcheck
	protocol.ReleaseRequest(req)
	protocol.ReleaseURI(u)
	protocol.ReleaseCookie(ck)
	var req2 *protocol.Request
	var u2 *protocol.URI
	var ck2 *protocol.Cookie
	for i := 0; i < 1000 && req2 != req; i++ {
		req2 = protocol.AcquireRequest()
	}
	for i := 0; i < 1000 && u2 != u; i++ {
		u2 = protocol.AcquireURI()
	}
	for i := 0; i < 1000 && ck2 != ck; i++ {
		ck2 = protocol.AcquireCookie()
	}
	if req2 != req || u2 != u || ck2 != ck {
		t.Skip("the pools did not hand the released objects out again")
	}

	fReq, fURI, fCk := &protocol.Request{}, &protocol.URI{}, &protocol.Cookie{}
	for _, o := range observers {
		got := o.f(req2, u2, ck2)
		want := o.f(fReq, fURI, fCk)
		if (got == nil) != (want == nil) {
			t.Errorf("%s: after Release/Acquire %#v, newly allocated %#v", o.name, got, want)
		}
	}
}
