package server

// C09 hunt: a hijack handler registered by a handler that then panics stays in the
// request context. Serve takes the hijack handler out of the context only after
// ServeHTTP has returned; when the panic leaves ServeHTTP (no recovery middleware; the
// netpoll transport, the default on Linux, survives that: its worker pool recovers and
// closes the connection) the deferred putRequestContext resets the context - Reset does
// not touch hijackHandler - and puts it into the pool. The next request that is served
// with this context, on any connection, is answered and then its connection is handed
// to the hijack handler of the earlier request.

import (
	"bufio"
	"context"
	"io"
	"net"
	"net/http"
	"runtime"
	"sync/atomic"
	"testing"
	"time"

	"github.com/cloudwego/hertz/pkg/app"
	"github.com/cloudwego/hertz/pkg/network"
	"github.com/cloudwego/hertz/pkg/network/netpoll"
)

func TestZZHunt4_1_HijackHandlerSurvivesPanic(t *testing.T) {
	// (fewer Ps: the pooled context is found again sooner; the defect does not depend on it)
	defer runtime.GOMAXPROCS(runtime.GOMAXPROCS(2))

	l, err := net.Listen("tcp", "127.0.0.1:0")
	if err != nil {
		t.Fatal(err)
	}
	addr := l.Addr().String()
	l.Close()

	// server.New: no recovery middleware
	h := New(WithHostPorts(addr), WithTransport(netpoll.NewTransporter), WithExitWaitTime(50*time.Millisecond), WithDisablePrintRoute(true))
	var hijacks int32
	h.GET("/upgrade", func(c context.Context, ctx *app.RequestContext) {
		secret := string(ctx.QueryArgs().Peek("user"))
		ctx.Hijack(func(conn network.Conn) {
			atomic.AddInt32(&hijacks, 1)
			conn.WriteBinary([]byte("HIJACKED: private stream of " + secret)) //nolint:errcheck
			conn.Flush()                                                     //nolint:errcheck
		})
		// ... and then something goes wrong in the handler
		var m map[string]int
		m["x"] = 1
	})
	h.GET("/plain", func(c context.Context, ctx *app.RequestContext) {
		ctx.String(200, "plain")
	})
	go h.Spin()
	waitEngineRunning(h)
	defer h.Shutdown(context.Background()) //nolint:errcheck

	const plain = "GET /plain HTTP/1.1\r\nHost: a\r\n\r\n"
	exchange := func(c net.Conn, br *bufio.Reader) (string, error) {
		c.SetDeadline(time.Now().Add(3 * time.Second))
		if _, err := io.WriteString(c, plain); err != nil {
			return "", err
		}
		rp, err := http.ReadResponse(br, nil)
		if err != nil {
			return "", err
		}
		b, err := io.ReadAll(rp.Body)
		rp.Body.Close()
		return string(b), err
	}

	for round := 0; round < 20; round++ {
		// the request whose handler registers a hijack handler and panics
		ca, err := net.Dial("tcp", addr)
		if err != nil {
			t.Fatal(err)
		}
		ca.SetDeadline(time.Now().Add(time.Second))
		io.WriteString(ca, "GET /upgrade?user=alice HTTP/1.1\r\nHost: a\r\n\r\n")
		io.Copy(io.Discard, ca) // the server closes the connection
		ca.Close()

		// another client, another connection, an ordinary keep-alive exchange
		cb, err := net.Dial("tcp", addr)
		if err != nil {
			t.Fatal(err)
		}
		br := bufio.NewReader(cb)
		first, err := exchange(cb, br)
		if err != nil || first != "plain" {
			cb.Close()
			t.Fatalf("round %d: first exchange on a new connection: %q, %v", round, first, err)
		}
		second, err := exchange(cb, br)
		if err != nil || second != "plain" {
			cb.SetDeadline(time.Now().Add(300 * time.Millisecond))
			rest, _ := io.ReadAll(br)
			cb.Close()
			// what arrived instead of the second response
			t.Errorf("round %d: second request on a keep-alive connection of another client: got %q, err %v (bytes on the connection: %q); hijack handlers run so far: %d",
				round, second, err, rest, atomic.LoadInt32(&hijacks))
			return
		}
		cb.Close()
	}
	if n := atomic.LoadInt32(&hijacks); n != 0 {
		t.Errorf("the hijack handler of a request that panicked was run %d times on other connections", n)
	}
}
