package server

// C09 hunt, finding 2: RequestContext.HTMLRender is an exported field that a handler
// can assign (there is no setter); Serve assigns the engine's renderer once per
// connection and ResetWithoutConn leaves the field alone, so the renderer one handler
// chose for its own answer renders every later request of the keep-alive connection.

import (
	"bufio"
	"context"
	"html/template"
	"io"
	"net"
	"net/http"
	"testing"
	"time"

	"github.com/cloudwego/hertz/pkg/app"
	"github.com/cloudwego/hertz/pkg/app/server/render"
)

func zzH42Do(t *testing.T, c net.Conn, br *bufio.Reader, raw string) string {
	t.Helper()
	c.SetDeadline(time.Now().Add(5 * time.Second))
	if _, err := io.WriteString(c, raw); err != nil {
		t.Fatal(err)
	}
	rp, err := http.ReadResponse(br, nil)
	if err != nil {
		t.Fatal(err)
	}
	b, _ := io.ReadAll(rp.Body)
	rp.Body.Close()
	return string(b)
}

func TestZZHunt4_2_HTMLRenderSurvivesOnKeepAlive(t *testing.T) {
	l, err := net.Listen("tcp", "127.0.0.1:0")
	if err != nil {
		t.Fatal(err)
	}
	addr := l.Addr().String()
	l.Close()

	h := New(WithHostPorts(addr), WithExitWaitTime(50*time.Millisecond), WithDisablePrintRoute(true))
	h.SetHTMLTemplate(template.Must(template.New("page").Parse("engine template")))
	tenant := render.HTMLProduction{Template: template.Must(template.New("page").Parse("template of tenant 42"))}

	h.GET("/page", func(c context.Context, ctx *app.RequestContext) {
		ctx.HTML(200, "page", nil)
	})
	// one handler renders with a renderer of its own
	h.GET("/tenant", func(c context.Context, ctx *app.RequestContext) {
		ctx.HTMLRender = tenant
		ctx.HTML(200, "page", nil)
	})
	go h.Spin()
	waitEngineRunning(h)
	defer h.Shutdown(context.Background()) //nolint:errcheck

	const page = "GET /page HTTP/1.1\r\nHost: a\r\n\r\n"
	const ten = "GET /tenant HTTP/1.1\r\nHost: a\r\n\r\n"

	c1, err := net.Dial("tcp", addr)
	if err != nil {
		t.Fatal(err)
	}
	defer c1.Close()
	br1 := bufio.NewReader(c1)
	fresh := zzH42Do(t, c1, br1, page)
	if fresh != "engine template" {
		t.Fatalf("unexpected answer of /page with a new context: %q", fresh)
	}
	if got := zzH42Do(t, c1, br1, ten); got != "template of tenant 42" {
		t.Fatalf("unexpected answer of /tenant: %q", got)
	}
	// the next request on the connection is served with the recycled context
	if got := zzH42Do(t, c1, br1, page); got != fresh {
		t.Errorf("/page after /tenant on the same keep-alive connection: got %q, a new context answers %q", got, fresh)
	}
}
