package http1

// C10 hunt 4, finding 2.
//
// HostClient.GetTimeout / GetDeadline (client.GetURLDeadline) run the exchange in a
// goroutine of their own and hand it the caller's dst as the response body buffer. When
// the timeout fires the helper returns (body = dst, errTimeout) - and the goroutine goes
// on using dst: when the late response arrives its body is read into the caller's
// memory, behind the caller's back. A caller that uses its buffer for the next call
// (the documented way to avoid allocations: "the contents of dst will be replaced by
// the body and returned") ends up holding the body of the request that timed out
// instead of the body of the request it made.
//
// This is not the (documented, set aside) fact that the exchange keeps running after
// errTimeout: the exchange may go on, but not on memory the call has given back.

import (
	"bufio"
	"context"
	"net"
	"strings"
	"testing"
	"time"

	"github.com/cloudwego/hertz/pkg/network"
	"github.com/cloudwego/hertz/pkg/network/netpoll"
	"github.com/cloudwego/hertz/pkg/network/standard"
)

func h42Peer(t *testing.T) string {
	ln, err := net.Listen("tcp", "127.0.0.1:0")
	if err != nil {
		t.Fatal(err)
	}
	t.Cleanup(func() { ln.Close() })
	go func() {
		for {
			c, err := ln.Accept()
			if err != nil {
				return
			}
			go func() {
				defer c.Close()
				br := bufio.NewReader(c)
				for {
					first := ""
					for {
						line, err := br.ReadString('\n')
						if err != nil {
							return
						}
						if first == "" {
							first = line
						}
						if line == "\r\n" {
							break
						}
					}
					if strings.Contains(first, "/slow") {
						time.Sleep(500 * time.Millisecond)
						c.Write([]byte("HTTP/1.1 200 OK\r\nContent-Length: 16\r\n\r\nSLOW-SLOW-SLOW-A")) //nolint:errcheck
					} else {
						c.Write([]byte("HTTP/1.1 200 OK\r\nContent-Length: 16\r\n\r\nFAST-FAST-FAST-B")) //nolint:errcheck
					}
				}
			}()
		}
	}()
	return ln.Addr().String()
}

func TestHunt4C10_2_GetTimeoutKeepsWritingIntoDstAfterItReturned(t *testing.T) {
	for name, d := range map[string]network.Dialer{"netpoll": netpoll.NewDialer(), "standard": standard.NewDialer()} {
		t.Run(name, func(t *testing.T) {
			addr := h42Peer(t)
			c := &HostClient{ClientOptions: &ClientOptions{Dialer: d, MaxConns: 4, ReadTimeout: 3 * time.Second}, Addr: addr}
			ctx := context.Background()

			buf := make([]byte, 0, 64) // the caller's reusable buffer

			// call 1: the peer answers after 500 ms, the caller allows 100 ms
			_, _, err := c.GetTimeout(ctx, buf, "http://"+addr+"/slow", 100*time.Millisecond)
			if err == nil {
				t.Fatalf("call 1 was meant to time out")
			}

			// call 2, same buffer: answered at once
			status, body, err := c.GetTimeout(ctx, buf, "http://"+addr+"/fast", 2*time.Second)
			if err != nil || status != 200 || string(body) != "FAST-FAST-FAST-B" {
				t.Fatalf("call 2: status=%d err=%v body=%q", status, err, body)
			}

			// both calls have returned; the late answer to call 1 arrives now
			time.Sleep(800 * time.Millisecond)

			if string(body) != "FAST-FAST-FAST-B" {
				t.Errorf("the body returned by GetTimeout(/fast) now reads %q: the exchange of the call that had "+
					"timed out wrote its response into the caller's buffer after that call returned", body)
			}
		})
	}
}

// The same without a second call: after GetTimeout has returned errTimeout the caller's
// memory is the caller's again.
func TestHunt4C10_2_DstIsWrittenAfterTimeoutReturned(t *testing.T) {
	addr := h42Peer(t)
	c := &HostClient{ClientOptions: &ClientOptions{Dialer: standard.NewDialer(), MaxConns: 4, ReadTimeout: 3 * time.Second}, Addr: addr}

	backing := make([]byte, 64)
	_, _, err := c.GetTimeout(context.Background(), backing[:0], "http://"+addr+"/slow", 100*time.Millisecond)
	if err == nil {
		t.Fatalf("the call was meant to time out")
	}
	copy(backing, "caller-owned-data") // the call is over, the buffer is put to other use
	time.Sleep(800 * time.Millisecond)
	if got := string(backing[:17]); got != "caller-owned-data" {
		t.Errorf("memory handed to GetTimeout as dst was overwritten after the call had returned: %q", got)
	}
}
