package http1

// C10 hunt 4, finding 1.
//
// A response whose body is delimited by the end of the connection (no
// Content-Length, no chunking) and that carries "Connection: Upgrade" on an
// ordinary final status (Apache sends "Upgrade: h2c / Connection: Upgrade" on
// plain 200 responses) is not marked "close": parseHeaders exempts every
// response with an "upgrade" connection option, not only 101. The buffered
// client reads such a body to the end of the connection - or until the read
// timeout, which readBodyIdentity swallows - and then puts the connection back
// into the pool.

import (
	"bufio"
	"context"
	"net"
	"strings"
	"sync/atomic"
	"testing"
	"time"

	"github.com/cloudwego/hertz/pkg/network"
	"github.com/cloudwego/hertz/pkg/network/netpoll"
	"github.com/cloudwego/hertz/pkg/network/standard"
	"github.com/cloudwego/hertz/pkg/protocol"
)

func h41ReadReq(br *bufio.Reader) (string, error) {
	var sb strings.Builder
	cl := 0
	for {
		line, err := br.ReadString('\n')
		if err != nil {
			return sb.String(), err
		}
		sb.WriteString(line)
		l := strings.ToLower(line)
		if strings.HasPrefix(l, "content-length:") {
			cl = 0
			for _, ch := range strings.TrimSpace(l[len("content-length:"):]) {
				cl = cl*10 + int(ch-'0')
			}
		}
		if line == "\r\n" {
			break
		}
	}
	for i := 0; i < cl; i++ {
		b, err := br.ReadByte()
		if err != nil {
			return sb.String(), err
		}
		sb.WriteByte(b)
	}
	return sb.String(), nil
}

// h41Peer runs script(i, conn, reader) for the i-th accepted connection.
func h41Peer(t *testing.T, script func(i int, c net.Conn, br *bufio.Reader)) (addr string, accepted *int32) {
	ln, err := net.Listen("tcp", "127.0.0.1:0")
	if err != nil {
		t.Fatal(err)
	}
	accepted = new(int32)
	go func() {
		for {
			c, err := ln.Accept()
			if err != nil {
				return
			}
			i := int(atomic.AddInt32(accepted, 1)) - 1
			go func() {
				defer c.Close()
				script(i, c, bufio.NewReader(c))
			}()
		}
	}()
	t.Cleanup(func() { ln.Close() })
	return ln.Addr().String(), accepted
}

func h41Dialers() map[string]network.Dialer {
	return map[string]network.Dialer{"netpoll": netpoll.NewDialer(), "standard": standard.NewDialer()}
}

func h41Do(c *HostClient, addr, method, path string) (*protocol.Response, error) {
	req := protocol.AcquireRequest()
	defer protocol.ReleaseRequest(req)
	resp := protocol.AcquireResponse()
	req.SetRequestURI("http://" + addr + path)
	req.Header.SetMethod(method)
	if method == "POST" {
		req.SetBodyString("x=1")
	}
	return resp, c.Do(context.Background(), req, resp)
}

const h41Head = "HTTP/1.1 200 OK\r\nUpgrade: h2c\r\nConnection: Upgrade\r\nContent-Type: text/plain\r\n\r\n"

// The peer ends the body by closing the connection. Once the call has returned the
// connection is at its end: it must be closed and gone from the pool, and the next
// request - a POST, which is never repeated - must travel on a new connection.
func TestHunt4C10_1_UpgradeOptionBodyEndedByClose(t *testing.T) {
	for name, d := range h41Dialers() {
		t.Run(name, func(t *testing.T) {
			addr, accepted := h41Peer(t, func(i int, c net.Conn, br *bufio.Reader) {
				if _, err := h41ReadReq(br); err != nil {
					return
				}
				if i == 0 {
					c.Write([]byte(h41Head + "hello")) //nolint:errcheck
					return // the close ends the body
				}
				c.Write([]byte("HTTP/1.1 200 OK\r\nContent-Length: 5\r\n\r\nfresh")) //nolint:errcheck
				time.Sleep(500 * time.Millisecond)
			})
			c := &HostClient{ClientOptions: &ClientOptions{Dialer: d, MaxConns: 2, ReadTimeout: 2 * time.Second}, Addr: addr}

			resp, err := h41Do(c, addr, "GET", "/a")
			if err != nil || string(resp.Body()) != "hello" {
				t.Fatalf("first exchange: err=%v body=%q", err, resp.Body())
			}
			time.Sleep(50 * time.Millisecond)
			if st := c.ConnPoolState(); st.PoolConnNum != 0 || st.TotalConnNum != 0 {
				t.Errorf("the response body ran to the end of the connection, yet the connection is idle in the pool: %+v", st)
			}

			resp, err = h41Do(c, addr, "POST", "/b")
			if err != nil {
				t.Errorf("POST after the close-delimited response failed (sent into the dead pooled connection): %v", err)
			} else if string(resp.Body()) != "fresh" {
				t.Errorf("POST got body %q, want %q", resp.Body(), "fresh")
			}
			if n := atomic.LoadInt32(accepted); n != 2 {
				t.Errorf("peer accepted %d connections, want 2 (one per exchange)", n)
			}
		})
	}
}

// The peer stalls inside the same kind of body past the read timeout. The exchange did
// not complete cleanly (timeout, body not read to its end): the connection must not be
// used again. On the unchanged tree it goes back to the pool and the next caller is
// answered with bytes that belong to the first exchange.
func TestHunt4C10_1_UpgradeOptionBodyStalled(t *testing.T) {
	for name, d := range h41Dialers() {
		t.Run(name, func(t *testing.T) {
			addr, _ := h41Peer(t, func(i int, c net.Conn, br *bufio.Reader) {
				if _, err := h41ReadReq(br); err != nil {
					return
				}
				if i > 0 {
					c.Write([]byte("HTTP/1.1 200 OK\r\nContent-Length: 5\r\n\r\nfresh")) //nolint:errcheck
					time.Sleep(500 * time.Millisecond)
					return
				}
				c.Write([]byte(h41Head + "hello")) //nolint:errcheck
				time.Sleep(700 * time.Millisecond)  // past the client's read timeout of 300 ms
				// the rest of the first body; it happens to look like a response
				c.Write([]byte("HTTP/1.1 200 OK\r\nContent-Length: 5\r\n\r\nstale")) //nolint:errcheck
				if _, err := h41ReadReq(br); err != nil {
					return
				}
				time.Sleep(100 * time.Millisecond)
				c.Write([]byte("HTTP/1.1 200 OK\r\nContent-Length: 5\r\n\r\nfresh")) //nolint:errcheck
				time.Sleep(500 * time.Millisecond)
			})
			c := &HostClient{ClientOptions: &ClientOptions{Dialer: d, MaxConns: 2, ReadTimeout: 300 * time.Millisecond}, Addr: addr}

			resp, err := h41Do(c, addr, "GET", "/a")
			t.Logf("first exchange: err=%v body=%q", err, resp.Body())
			if st := c.ConnPoolState(); st.PoolConnNum != 0 || st.TotalConnNum != 0 {
				t.Errorf("the read timeout ended the first exchange inside its body, yet the connection is idle in the pool: %+v", st)
			}
			time.Sleep(600 * time.Millisecond)

			resp, err = h41Do(c, addr, "POST", "/b")
			if err != nil {
				t.Errorf("second exchange failed: %v", err)
			} else if string(resp.Body()) != "fresh" {
				t.Errorf("the caller of POST /b was handed %q: bytes of the previous exchange on a reused connection (want %q)", resp.Body(), "fresh")
			}
		})
	}
}
