package protocol

import (
	"bytes"
	"testing"
	"time"
)

// C17: "For every response cookie, parsing its string form returns the same key,
// value and attributes" - over all attribute combinations.
//
// A cookie that carries both Max-Age and Expires (what a server sends when it wants
// old user agents, which only know Expires, to expire the cookie too) loses its
// Expires attribute in the string form: Cookie.AppendBytes writes Expires only in the
// else-branch of "maxAge > 0".
func TestHunt4_1_CookieMaxAgeAndExpiresBothSurvive(t *testing.T) {
	expire := time.Date(2031, time.March, 4, 5, 6, 7, 0, time.UTC)

	var c Cookie
	c.SetKey("session")
	c.SetValue("abc")
	c.SetMaxAge(3600)
	c.SetExpire(expire)
	c.SetPath("/")
	c.SetHTTPOnly(true)

	// the object itself holds both attributes
	if c.MaxAge() != 3600 || !c.Expire().Equal(expire) {
		t.Fatalf("setup: maxAge=%d expire=%v", c.MaxAge(), c.Expire())
	}

	s := c.String()

	var p Cookie
	if err := p.Parse(s); err != nil {
		t.Fatalf("Parse(%q): %v", s, err)
	}
	if string(p.Key()) != "session" || string(p.Value()) != "abc" {
		t.Fatalf("key/value changed: %q=%q", p.Key(), p.Value())
	}
	if p.MaxAge() != c.MaxAge() {
		t.Errorf("Max-Age: set %d, string form %q parses to %d", c.MaxAge(), s, p.MaxAge())
	}
	if !p.Expire().Equal(c.Expire()) {
		t.Errorf("Expires: set %v, string form %q parses to %v (attribute was not written)", c.Expire(), s, p.Expire())
	}

	// the parser itself has no problem with the combination: a string that carries
	// both gives both back, so the loss is on the writing side only
	var q Cookie
	both := "session=abc; max-age=3600; expires=Tue, 04 Mar 2031 05:06:07 GMT; path=/; HttpOnly"
	if err := q.Parse(both); err != nil {
		t.Fatalf("Parse(%q): %v", both, err)
	}
	if q.MaxAge() != 3600 || !q.Expire().Equal(expire) {
		t.Fatalf("parser: maxAge=%d expire=%v", q.MaxAge(), q.Expire())
	}
	// ... and writing what was just parsed drops it again
	if s2 := q.String(); !bytes.Contains(bytes.ToLower([]byte(s2)), []byte("expires=")) {
		t.Errorf("parsed %q, wrote %q: Expires is gone", both, s2)
	}
}

// The same through the response header, the way a handler sets it and a client reads it.
func TestHunt4_1_CookieMaxAgeAndExpiresThroughResponseHeader(t *testing.T) {
	expire := time.Date(2031, time.March, 4, 5, 6, 7, 0, time.UTC)

	c := AcquireCookie()
	defer ReleaseCookie(c)
	c.SetKey("session")
	c.SetValue("abc")
	c.SetMaxAge(3600)
	c.SetExpire(expire)

	var h ResponseHeader
	h.SetCookie(c)

	var got Cookie
	got.SetKey("session")
	if !h.Cookie(&got) {
		t.Fatalf("cookie not found in %q", h.Header())
	}
	if got.MaxAge() != 3600 {
		t.Errorf("Max-Age = %d, want 3600", got.MaxAge())
	}
	if !got.Expire().Equal(expire) {
		t.Errorf("Expires = %v, want %v; header:\n%s", got.Expire(), expire, h.Header())
	}
}
