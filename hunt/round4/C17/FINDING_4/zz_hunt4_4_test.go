package app

import (
	"context"
	"html"
	"os"
	"path/filepath"
	"regexp"
	"strings"
	"testing"
)

// C17, first clause, at a place where hertz itself assembles URIs: the directory index of
// the static file handler (FS.GenerateIndexPages) builds the link of every entry with
// URI.Update(<file name>) - Update takes a URI REFERENCE in wire form, the file name is
// raw - and then writes URI.Path(), the DECODED path, into the href. A '?' or '#' in a
// file name ends the path, "%41" in a file name is decoded to "A", and nothing is
// escaped on the way out. The link does not lead to the file it is printed for.
//
// Same family as the repaired c532c42 / 441fa11 (a raw or decoded name handed to a
// setter that decodes).
func TestHunt4_4_DirIndexLinksLeadToTheirFiles(t *testing.T) {
	root := t.TempDir()
	dir := filepath.Join(root, "d")
	if err := os.MkdirAll(dir, 0o755); err != nil {
		t.Fatal(err)
	}
	names := []string{
		"plain.txt",       // control
		"sp ace.txt",      // control: works (user agents escape the space themselves)
		"what?.txt",       // '?'
		"issue#12.txt",    // '#'
		"x%41y.txt",       // a literal percent sequence
		"xAy.txt",         // ... and the file it is confused with
	}
	for _, n := range names {
		if err := os.WriteFile(filepath.Join(dir, n), []byte("content of "+n), 0o644); err != nil {
			t.Skipf("file system refuses %q: %v", n, err)
		}
	}

	fs := &FS{Root: root, GenerateIndexPages: true}
	h := fs.NewRequestHandler()

	get := func(target string) (int, string) {
		ctx := NewContext(0)
		ctx.Request.SetRequestURI("http://example.com" + target)
		h(context.Background(), ctx)
		return ctx.Response.StatusCode(), string(ctx.Response.Body())
	}

	st, index := get("/d/")
	if st != 200 {
		t.Fatalf("index: status %d", st)
	}

	// <li><a href="HREF" class="file">NAME</a>
	re := regexp.MustCompile(`<a href="([^"]*)" class="file">([^<]*)</a>`)
	links := map[string]string{}
	for _, m := range re.FindAllStringSubmatch(index, -1) {
		links[html.UnescapeString(m[2])] = html.UnescapeString(m[1])
	}

	for _, n := range names {
		href, ok := links[n]
		if !ok {
			t.Errorf("no link for %q in the index", n)
			continue
		}
		// what a user agent sends for this href: it escapes what cannot stand in a
		// request target (the space) and leaves '?', '#' and '%' their meaning
		target := strings.ReplaceAll(href, " ", "%20")
		if i := strings.IndexByte(target, '#'); i >= 0 {
			target = target[:i] // the fragment is not sent
		}
		st, body := get(target)
		if st != 200 || body != "content of "+n {
			t.Errorf("entry %q is linked as href=%q: following it gives status %d, body %q; want the file's own content",
				n, href, st, body)
		}
	}
}
