package protocol

import (
	"testing"
)

// C17: "For every response cookie, parsing its string form returns the same key,
// value and attributes."
//
// A nameless cookie (hertz supports them on both sides: "Set-Cookie: hertz; max-age=10"
// parses to key "", value "hertz", and a cookie with an empty key is written without
// "key=") whose value contains '=' - base64 padding, "k=v" payloads - is written as the
// bare value. The parser then takes the first '=' of the VALUE for the key/value
// separator. The form that expresses it exists and hertz's own parser reads it
// correctly ("=YWJjZA==" -> key "", value "YWJjZA=="), the writer just never uses it.
// '=' is a valid cookie-value byte for the setter (no warning).
func TestHunt4_2_NamelessCookieValueWithEqualsSign(t *testing.T) {
	for _, value := range []string{"YWJjZA==", "a=b", "=x", "uid=7&sig=abc"} {
		var c Cookie
		c.SetValue(value) // no key
		c.SetPath("/")
		c.SetMaxAge(10)

		s := c.String()

		var p Cookie
		if err := p.Parse(s); err != nil {
			t.Fatalf("Parse(%q): %v", s, err)
		}
		if len(p.Key()) != 0 || string(p.Value()) != value {
			t.Errorf("nameless cookie with value %q: string form %q parses to key %q, value %q",
				value, s, p.Key(), p.Value())
		}
		if p.MaxAge() != 10 || string(p.Path()) != "/" {
			t.Errorf("attributes changed: %q -> max-age %d path %q", s, p.MaxAge(), p.Path())
		}
	}

	// the parser knows the spelling that keeps such a value intact
	var q Cookie
	if err := q.Parse("=YWJjZA==; path=/"); err != nil {
		t.Fatal(err)
	}
	if len(q.Key()) != 0 || string(q.Value()) != "YWJjZA==" {
		t.Fatalf("parser: key %q value %q", q.Key(), q.Value())
	}
}

// Through the response header: the handler files the cookie under the key "" and the
// peer (a hertz client reading the very bytes this header writes) finds it under "YWJjZA".
func TestHunt4_2_NamelessCookieThroughResponseHeader(t *testing.T) {
	c := AcquireCookie()
	defer ReleaseCookie(c)
	c.SetValue("YWJjZA==")
	c.SetHTTPOnly(true)

	var h ResponseHeader
	h.SetCookie(c)

	// what goes on the wire
	line := string(h.Peek("Set-Cookie"))

	// what the receiving side makes of it
	var rcv ResponseHeader
	rcv.ParseSetCookie([]byte(line))

	var got Cookie // key ""
	if !rcv.Cookie(&got) {
		var keys []string
		rcv.VisitAllCookie(func(k, v []byte) { keys = append(keys, string(k)) })
		t.Fatalf("Set-Cookie: %s\nthe nameless cookie is not found under the key \"\"; keys on the receiving side: %q", line, keys)
	}
	if string(got.Value()) != "YWJjZA==" || !got.HTTPOnly() {
		t.Errorf("Set-Cookie: %s -> value %q httponly %v", line, got.Value(), got.HTTPOnly())
	}
}

// The request side is written by a separate function (appendRequestCookieBytes) that
// takes the same decision.
func TestHunt4_2_NamelessRequestCookieValueWithEqualsSign(t *testing.T) {
	var h RequestHeader
	h.SetCookie("", "YWJjZA==")
	h.SetCookie("other", "1")

	line := string(h.Peek("Cookie"))

	var rcv RequestHeader
	rcv.Set("Cookie", line)

	if v := rcv.Cookie(""); string(v) != "YWJjZA==" {
		var all []string
		rcv.VisitAllCookie(func(k, v []byte) { all = append(all, string(k)+" -> "+string(v)) })
		t.Errorf("Cookie: %s\nnameless cookie value = %q, want %q; receiving side has %q", line, v, "YWJjZA==", all)
	}
	if v := rcv.Cookie("other"); string(v) != "1" {
		t.Errorf("other = %q", v)
	}
}
