package route

import (
	"context"
	"testing"

	"github.com/cloudwego/hertz/pkg/app"
	"github.com/cloudwego/hertz/pkg/common/config"
	"github.com/cloudwego/hertz/pkg/protocol"
)

// C17, first clause, at the place where hertz itself assembles a URI: the router's
// trailing-slash redirect (RedirectTrailingSlash, on by default) takes the DECODED request
// path, appends "/" and the query and hands the result to Request.SetRequestURI, which
// takes the WIRE form and percent-decodes it again. The Location it then writes does not
// parse back to the path it was built from: an escaped '?' or '#' in a path segment ends
// the path, an escaped '%' starts an escape sequence.
//
// Same family as the repaired c532c42 (virtual-host path rewriter) and 441fa11
// (FileFromFS): a decoded path given to a setter that decodes.
func hunt4Redirect(t *testing.T, e *Engine, target string) (status int, location string) {
	t.Helper()
	ctx := e.ctxPool.Get().(*app.RequestContext)
	defer e.ctxPool.Put(ctx)
	ctx.Reset()
	r := protocol.NewRequest("GET", target, nil)
	r.CopyTo(&ctx.Request)
	e.ServeHTTP(context.Background(), ctx)
	return ctx.Response.StatusCode(), string(ctx.Response.Header.Peek("Location"))
}

func TestHunt4_3_TrailingSlashRedirectKeepsThePath(t *testing.T) {
	e := NewEngine(config.NewOptions(nil)) // RedirectTrailingSlash is on by default
	var got string
	e.GET("/users/:name/", func(c context.Context, ctx *app.RequestContext) {
		got = ctx.Param("name")
	})

	for _, tc := range []struct {
		target string // request target, without the trailing slash
		name   string // the :name the target carries
	}{
		{"/users/plain", "plain"},
		{"/users/a%3Fb", "a?b"},    // escaped '?'
		{"/users/a%23b", "a#b"},    // escaped '#'
		{"/users/a%2541", "a%41"},  // escaped '%'
		{"/users/100%25", "100%"},  // escaped '%' at the end
		{"/users/a%20b", "a b"},    // control: space survives (it is re-escaped)
	} {
		// the route itself works for every one of these names
		got = ""
		if st, _ := hunt4Redirect(t, e, tc.target+"/"); st != 200 || got != tc.name {
			t.Fatalf("GET %s/ : status %d, name %q, want 200 and %q", tc.target, st, got, tc.name)
		}

		// without the slash the router redirects ...
		st, loc := hunt4Redirect(t, e, tc.target)
		if st != 301 {
			t.Fatalf("GET %s : status %d, want 301", tc.target, st)
		}
		// ... and following the Location must reach the same resource: parsing the
		// Location yields the path of the request plus "/"
		var u protocol.URI
		u.Parse([]byte("example.com"), []byte(loc))
		wantPath := "/users/" + tc.name + "/"
		if string(u.Path()) != wantPath || len(u.QueryString()) != 0 || len(u.Hash()) != 0 {
			t.Errorf("GET %s -> Location %q: parses to path %q query %q fragment %q, want path %q and nothing else",
				tc.target, loc, u.Path(), u.QueryString(), u.Hash(), wantPath)
			continue
		}
		got = ""
		if st, _ := hunt4Redirect(t, e, loc); st != 200 || got != tc.name {
			t.Errorf("GET %s -> Location %q -> status %d, name %q, want 200 and %q", tc.target, loc, st, got, tc.name)
		}
	}
}

// The query of the request is carried over verbatim; the path must not bleed into it.
func TestHunt4_3_TrailingSlashRedirectKeepsPathAndQueryApart(t *testing.T) {
	e := NewEngine(config.NewOptions(nil))
	e.GET("/users/:name/", func(c context.Context, ctx *app.RequestContext) {})

	_, loc := hunt4Redirect(t, e, "/users/a%3Fb?page=2")
	var u protocol.URI
	u.Parse([]byte("example.com"), []byte(loc))
	if string(u.Path()) != "/users/a?b/" || string(u.QueryString()) != "page=2" {
		t.Errorf("Location %q: path %q query %q, want path %q query %q", loc, u.Path(), u.QueryString(), "/users/a?b/", "page=2")
	}
}
