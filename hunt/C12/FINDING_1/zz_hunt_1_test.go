package route

import (
	"context"
	"os"
	"os/exec"
	"strings"
	"sync/atomic"
	"testing"

	"github.com/cloudwego/hertz/pkg/app"
	"github.com/cloudwego/hertz/pkg/common/config"
	"github.com/cloudwego/hertz/pkg/common/test/mock"
)

// C12: every handler of the matched chain is entered (at most once, in
// registration order), engine-level middleware precedes the route's own
// handlers, and the not-found path runs the engine-level middleware too.
//
// Trigger: the documented switch HERTZ_DISABLE_REQUEST_CONTEXT_POOL=true
// (read in pkg/protocol/http1's init). With it, the first request of every
// connection runs on a zero-valued RequestContext whose chain index is 0
// instead of -1, so the first handler of the chain is never entered.
func TestZZHunt1_FirstHandlerSkippedWhenCtxPoolDisabled(t *testing.T) {
	const envKey = "HERTZ_DISABLE_REQUEST_CONTEXT_POOL"
	if os.Getenv(envKey) != "true" {
		// the switch is only read at process start: re-run this very test in a
		// child process that has it set.
		cmd := exec.Command(os.Args[0], "-test.run=^TestZZHunt1_FirstHandlerSkippedWhenCtxPoolDisabled$", "-test.count=1")
		cmd.Env = append(os.Environ(), envKey+"=true")
		out, err := cmd.CombinedOutput()
		if err != nil {
			t.Fatalf("with %s=true the property is violated:\n%s", envKey, out)
		}
		return
	}

	newEngine := func(trace *[]string) *Engine {
		e := NewEngine(config.NewOptions(nil))
		atomic.StoreUint32(&e.status, statusRunning)
		e.Init()
		atomic.StoreUint32(&e.status, statusRunning)
		e.Use(func(c context.Context, ctx *app.RequestContext) {
			*trace = append(*trace, "auth>")
			ctx.Next(c)
			*trace = append(*trace, "<auth")
		})
		e.Use(func(c context.Context, ctx *app.RequestContext) {
			*trace = append(*trace, "mw2>")
			ctx.Next(c)
			*trace = append(*trace, "<mw2")
		})
		e.GET("/foo", func(c context.Context, ctx *app.RequestContext) {
			*trace = append(*trace, "h")
			ctx.String(200, "ok")
		})
		return e
	}

	// matched route, first request on a connection
	var trace []string
	e := newEngine(&trace)
	conn := mock.NewConn("GET /foo HTTP/1.1\r\nHost: a.b\r\nConnection: close\r\n\r\n")
	_ = e.Serve(context.Background(), conn)
	got := strings.Join(trace, " ")
	want := "auth> mw2> h <mw2 <auth"
	if got != want {
		t.Errorf("matched route, first request of the connection: handlers ran as %q, property demands %q", got, want)
	}

	// unmatched route: the not-found path must run the engine-level middleware
	trace = nil
	e = newEngine(&trace)
	conn = mock.NewConn("GET /nope HTTP/1.1\r\nHost: a.b\r\nConnection: close\r\n\r\n")
	_ = e.Serve(context.Background(), conn)
	got = strings.Join(trace, " ")
	want = "auth> mw2> <mw2 <auth"
	if got != want {
		t.Errorf("not-found path, first request of the connection: handlers ran as %q, property demands %q", got, want)
	}

	// single-handler chain: the only handler must be entered
	trace = nil
	e2 := NewEngine(config.NewOptions(nil))
	atomic.StoreUint32(&e2.status, statusRunning)
	e2.Init()
	atomic.StoreUint32(&e2.status, statusRunning)
	e2.GET("/foo", func(c context.Context, ctx *app.RequestContext) {
		trace = append(trace, "h")
		ctx.String(200, "ok")
	})
	conn = mock.NewConn("GET /foo HTTP/1.1\r\nHost: a.b\r\nConnection: close\r\n\r\n")
	_ = e2.Serve(context.Background(), conn)
	if got := strings.Join(trace, " "); got != "h" {
		t.Errorf("chain of length 1: handlers ran as %q, property demands %q", got, "h")
	}
}
