package route

import (
	"context"
	"strings"
	"testing"

	"github.com/cloudwego/hertz/pkg/app"
	"github.com/cloudwego/hertz/pkg/common/config"
	"github.com/cloudwego/hertz/pkg/protocol"
)

func zzHunt2Serve(e *Engine, method, path string) {
	ctx := e.NewContext()
	protocol.NewRequest(method, path, nil).CopyTo(&ctx.Request)
	e.ServeHTTP(context.Background(), ctx)
}

func zzHunt2MW(name string, tr *[]string) app.HandlerFunc {
	return func(c context.Context, ctx *app.RequestContext) {
		*tr = append(*tr, name+">")
		ctx.Next(c)
		*tr = append(*tr, "<"+name)
	}
}

// C12: "Middleware attached to the engine or to a group before a route is
// registered always precedes that route's own handlers (outermost group first)".
//
// Trigger: the middleware is attached to the engine (or to an outer group)
// AFTER an inner group object was created with Group() but BEFORE the route is
// registered on that inner group. Group() copies the parent's chain once, so
// the later Use() on the parent is lost for every route registered through the
// already existing inner group.
func TestZZHunt2_UseOnParentAfterGroupCreatedButBeforeRoute(t *testing.T) {
	// engine -> group
	var tr []string
	e := NewEngine(config.NewOptions(nil))
	e.Use(zzHunt2MW("E1", &tr))
	g := e.Group("/g")
	e.Use(zzHunt2MW("E2", &tr)) // attached to the engine before the route below is registered
	g.GET("/x", zzHunt2MW("h", &tr))
	zzHunt2Serve(e, "GET", "/g/x")
	if got, want := strings.Join(tr, " "), "E1> E2> h> <h <E2 <E1"; got != want {
		t.Errorf("engine.Use before g.GET: chain ran as %q, property demands %q", got, want)
	}

	// same engine, same prefix, unmatched: here E2 does run, so the two paths disagree
	tr = nil
	zzHunt2Serve(e, "GET", "/g/nope")
	if got, want := strings.Join(tr, " "), "E1> E2> <E2 <E1"; got != want {
		t.Errorf("not-found path: chain ran as %q, property demands %q", got, want)
	}

	// depth 3: outer -> mid -> inner, Use on outer and mid after inner exists
	tr = nil
	e = NewEngine(config.NewOptions(nil))
	outer := e.Group("/a")
	mid := outer.Group("/b")
	inner := mid.Group("/c")
	e.Use(zzHunt2MW("E", &tr))
	outer.Use(zzHunt2MW("O", &tr))
	mid.Use(zzHunt2MW("M", &tr))
	inner.Use(zzHunt2MW("I", &tr))
	inner.GET("/x", zzHunt2MW("h", &tr)) // registered after all four Use calls
	zzHunt2Serve(e, "GET", "/a/b/c/x")
	if got, want := strings.Join(tr, " "), "E> O> M> I> h> <h <I <M <O <E"; got != want {
		t.Errorf("depth-3 nesting, all Use() before the route: chain ran as %q, property demands %q", got, want)
	}
}
