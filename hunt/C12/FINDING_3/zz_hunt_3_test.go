package route

import (
	"context"
	"strings"
	"testing"

	"github.com/cloudwego/hertz/pkg/app"
	"github.com/cloudwego/hertz/pkg/common/config"
	"github.com/cloudwego/hertz/pkg/protocol"
)

func zzHunt3Serve(e *Engine, method, path string) {
	ctx := e.NewContext()
	protocol.NewRequest(method, path, nil).CopyTo(&ctx.Request)
	e.ServeHTTP(context.Background(), ctx)
}

// C12: "the not-found and method-not-allowed paths run the engine-level
// middleware too".
//
// Trigger: the middleware is attached to the engine's root group through the
// promoted-but-shadowed public method RouterGroup.Use (engine.RouterGroup.Use)
// instead of Engine.Use. It lands in engine.Handlers (so it is engine-level:
// every route registered on the engine or on any group created later gets it),
// but allNoRoute / allNoMethod are not rebuilt, so 404 and 405 skip it.
func TestZZHunt3_RootGroupUseSkipsNotFoundAndMethodNotAllowed(t *testing.T) {
	var tr []string
	mw := func(name string) app.HandlerFunc {
		return func(c context.Context, ctx *app.RequestContext) {
			tr = append(tr, name+">")
			ctx.Next(c)
			tr = append(tr, "<"+name)
		}
	}
	opt := config.NewOptions(nil)
	opt.HandleMethodNotAllowed = true
	e := NewEngine(opt)
	e.RouterGroup.Use(mw("E"))
	e.GET("/x", mw("h"))
	e.Group("/g").GET("/y", mw("hy"))

	zzHunt3Serve(e, "GET", "/x")
	if got, want := strings.Join(tr, " "), "E> h> <h <E"; got != want {
		t.Fatalf("matched route: chain ran as %q, want %q (E is engine-level)", got, want)
	}
	tr = nil
	zzHunt3Serve(e, "GET", "/g/y")
	if got, want := strings.Join(tr, " "), "E> hy> <hy <E"; got != want {
		t.Fatalf("matched group route: chain ran as %q, want %q (E is engine-level)", got, want)
	}

	tr = nil
	zzHunt3Serve(e, "GET", "/nope")
	if got, want := strings.Join(tr, " "), "E> <E"; got != want {
		t.Errorf("not-found path: chain ran as %q, property demands %q", got, want)
	}
	tr = nil
	zzHunt3Serve(e, "POST", "/x")
	if got, want := strings.Join(tr, " "), "E> <E"; got != want {
		t.Errorf("method-not-allowed path: chain ran as %q, property demands %q", got, want)
	}
}
