package route

// C07 hunt, finding 2: app.NewVHostPathRewriter feeds the already decoded ctx.Path()
// (prefixed with the Host header) back into URI.SetPathBytes, which percent-decodes
// and resolves dot segments a SECOND time.  The path files are served from is therefore
// not "decode once, then resolve": a double-encoded "%252e%252e" segment climbs out of
// the per-host directory <root>/<host>, and "%2561" is served as "a".

import (
	"context"
	"os"
	"path/filepath"
	"testing"

	"github.com/cloudwego/hertz/pkg/app"
	"github.com/cloudwego/hertz/pkg/common/config"
	"github.com/cloudwego/hertz/pkg/common/test/mock"
	"github.com/cloudwego/hertz/pkg/protocol/http1/req"
)

func TestZZHuntC07VHostRewriterDecodesTwice(t *testing.T) {
	root := t.TempDir()
	if err := os.MkdirAll(filepath.Join(root, "example.com"), 0o755); err != nil {
		t.Fatal(err)
	}
	// the only file that belongs to virtual host example.com
	os.WriteFile(filepath.Join(root, "example.com", "a.txt"), []byte("A"), 0o644)
	// a file outside every virtual host directory
	os.WriteFile(filepath.Join(root, "top.txt"), []byte("TOP-LEVEL"), 0o644)

	e := NewEngine(config.NewOptions(nil)) // default options
	fs := &app.FS{Root: root, PathRewrite: app.NewVHostPathRewriter(0)}
	e.GET("/*filepath", fs.NewRequestHandler())

	do := func(target string) *app.RequestContext {
		ctx := e.NewContext()
		raw := "GET " + target + " HTTP/1.1\r\nHost: example.com\r\n\r\n"
		if err := req.Read(&ctx.Request, mock.NewZeroCopyReader(raw)); err != nil {
			t.Fatalf("cannot read request: %v", err)
		}
		e.ServeHTTP(context.Background(), ctx)
		return ctx
	}

	// sanity: the rewriter maps /a.txt to <root>/example.com/a.txt
	if ctx := do("/a.txt"); ctx.Response.StatusCode() != 200 || string(ctx.Response.Body()) != "A" {
		t.Fatalf("sanity: /a.txt -> %d %q", ctx.Response.StatusCode(), ctx.Response.Body())
	}

	cases := []struct {
		target   string
		onceNorm string // percent-decode ONCE + stack resolution of the request target
		wantFile string // hence the only file that may be served
	}{
		// decode once: "/%2e%2e/top.txt" - "%2e%2e" is an ordinary (literal) segment name, not "..".
		{"/%252e%252e/top.txt", "/%2e%2e/top.txt", "<root>/example.com/%2e%2e/top.txt (does not exist => 404)"},
		{"/x/%252E%252E/%252e%252e/top.txt", "/x/%2E%2E/%2e%2e/top.txt", "<root>/example.com/x/%2E%2E/%2e%2e/top.txt (does not exist => 404)"},
		// decode once: "/%61.txt" - a file literally called "%61.txt", which does not exist.
		{"/%2561.txt", "/%61.txt", "<root>/example.com/%61.txt (does not exist => 404)"},
	}
	for _, c := range cases {
		ctx := do(c.target)
		served := string(ctx.Path())
		wantServed := "/example.com" + c.onceNorm
		if served != wantServed {
			t.Errorf("target %q: file handler served from path %q, property demands %q (decoded once): %s",
				c.target, served, wantServed, c.wantFile)
		}
		if ctx.Response.StatusCode() == 200 {
			t.Errorf("target %q: got 200 with body %q; decoded once the path is %q, so only %s may be served",
				c.target, ctx.Response.Body(), c.onceNorm, c.wantFile)
		}
	}
}
