package route

// C07 hunt, finding 1: with the (rarely used) option UseRawPath the engine routes on
// URI.PathOriginal(), i.e. on a path that is neither percent-decoded nor dot-segment
// resolved, while every handler (and the static file handler) sees the normalised
// ctx.Path().  The path "routed on" therefore contains ".." segments and differs from
// decode-once + stack resolution; a request is dispatched to the handler of one prefix
// while the file that is served lives under another one.

import (
	"context"
	"os"
	"path/filepath"
	"strings"
	"testing"

	"github.com/cloudwego/hertz/pkg/app"
	"github.com/cloudwego/hertz/pkg/common/config"
	"github.com/cloudwego/hertz/pkg/common/test/mock"
	"github.com/cloudwego/hertz/pkg/protocol/http1/req"
)

func zz1Hex(c byte) int {
	switch {
	case c >= '0' && c <= '9':
		return int(c - '0')
	case c >= 'a' && c <= 'f':
		return int(c-'a') + 10
	case c >= 'A' && c <= 'F':
		return int(c-'A') + 10
	}
	return -1
}

// zz1Oracle: percent-decode once, then resolve segments left to right with a stack.
func zz1Oracle(raw string) string {
	var d []byte
	for i := 0; i < len(raw); i++ {
		if raw[i] == '%' && i+2 < len(raw) && zz1Hex(raw[i+1]) >= 0 && zz1Hex(raw[i+2]) >= 0 {
			d = append(d, byte(zz1Hex(raw[i+1])<<4|zz1Hex(raw[i+2])))
			i += 2
			continue
		}
		d = append(d, raw[i])
	}
	s := string(d)
	if s == "" || s[0] != '/' {
		s = "/" + s
	}
	segs := strings.Split(s[1:], "/")
	var st []string
	trailing := false
	for i, seg := range segs {
		last := i == len(segs)-1
		switch seg {
		case "":
			trailing = trailing || last
		case ".":
			if last {
				st = append(st, ".")
			}
		case "..":
			if len(st) > 0 {
				st = st[:len(st)-1]
			}
			trailing = trailing || last
		default:
			st = append(st, seg)
		}
	}
	out := "/" + strings.Join(st, "/")
	if trailing && len(st) > 0 {
		out += "/"
	}
	return out
}

func zz1Contained(p string) string {
	if p == "" || p[0] != '/' {
		return "does not begin with '/'"
	}
	segs := strings.Split(p[1:], "/")
	for i, s := range segs {
		if s == ".." {
			return "contains a '..' segment"
		}
		if (s == "" || s == ".") && i != len(segs)-1 {
			return "contains an inner empty or '.' segment"
		}
	}
	return ""
}

func zz1Serve(t *testing.T, e *Engine, target string) *app.RequestContext {
	ctx := e.NewContext()
	raw := "GET " + target + " HTTP/1.1\r\nHost: example.com\r\n\r\n"
	if err := req.Read(&ctx.Request, mock.NewZeroCopyReader(raw)); err != nil {
		t.Fatalf("cannot read request %q: %v", raw, err)
	}
	e.ServeHTTP(context.Background(), ctx)
	return ctx
}

func TestZZHuntC07RawPathRouting(t *testing.T) {
	root := t.TempDir()
	for _, d := range []string{"public", "private"} {
		if err := os.MkdirAll(filepath.Join(root, d), 0o755); err != nil {
			t.Fatal(err)
		}
	}
	os.WriteFile(filepath.Join(root, "public", "ok.txt"), []byte("OK"), 0o644)
	os.WriteFile(filepath.Join(root, "private", "secret.txt"), []byte("SECRET"), 0o644)

	targets := []string{
		"/public/ok.txt",
		"/public/../private/secret.txt",
		"/public/%2e%2e/private/secret.txt",
		"/public/.%2E/private/secret.txt",
		"/public/x/../../private/secret.txt",
		"/private/secret.txt",
	}

	for _, removeExtraSlash := range []bool{false, true} {
		opt := config.NewOptions(nil)
		opt.UseRawPath = true // == server.WithUseRawPath(true)
		opt.RemoveExtraSlash = removeExtraSlash

		// (a) the path the router dispatched on, reconstructed from the matched route and its wildcard value
		e := NewEngine(opt)
		var routedOn string
		e.GET("/public/*filepath", func(c context.Context, ctx *app.RequestContext) {
			routedOn = "/public/" + strings.TrimPrefix(ctx.Param("filepath"), "/")
		})
		for _, tgt := range targets {
			routedOn = ""
			ctx := zz1Serve(t, e, tgt)
			want := zz1Oracle(tgt)
			if ctx.FullPath() == "" {
				continue // not routed to the handler: nothing to check
			}
			if why := zz1Contained(routedOn); why != "" {
				t.Errorf("RemoveExtraSlash=%v target %q: router dispatched on %q which %s (property: routed path has no '..' segment)",
					removeExtraSlash, tgt, routedOn, why)
			}
			if !strings.HasPrefix(want, "/public/") {
				t.Errorf("RemoveExtraSlash=%v target %q: normalised path is %q, but the request was routed to %q (routed-on path %q, handler sees ctx.Path()=%q)",
					removeExtraSlash, tgt, want, ctx.FullPath(), routedOn, ctx.Path())
			}
		}

		// (b) consequence: only /public/* is routed, yet files outside <root>/public are served
		e2 := NewEngine(opt)
		e2.Static("/public", root) // serves <root>/public/... for /public/...
		for _, tgt := range targets {
			ctx := zz1Serve(t, e2, tgt)
			want := zz1Oracle(tgt)
			if !strings.HasPrefix(want, "/public/") && ctx.Response.StatusCode() == 200 {
				t.Errorf("RemoveExtraSlash=%v target %q: normalised path %q is outside the only registered route /public/*filepath, "+
					"but the server answered 200 with body %q (route=%q, file path=%q)",
					removeExtraSlash, tgt, want, ctx.Response.Body(), ctx.FullPath(), ctx.Path())
			}
		}
	}
}
