package route

// C07 hunt, finding 3: RequestContext.FileFromFS "restores" the request path with
// URI.SetPath(string(URI.Path())).  SetPath percent-decodes and normalises its input, and
// the saved value is the ALREADY decoded path, so after FileFromFS returned the request's
// path has been decoded twice: everything that runs afterwards (the rest of the handler,
// middleware code after ctx.Next, access logging, ctx.Path()-based authorisation audits)
// sees a path that is no longer "percent-decoded once" and can even be a different resource
// than the one that was routed.  The file argument is decoded a second time as well.

import (
	"context"
	"os"
	"path/filepath"
	"testing"

	"github.com/cloudwego/hertz/pkg/app"
	"github.com/cloudwego/hertz/pkg/common/config"
	"github.com/cloudwego/hertz/pkg/common/test/mock"
	"github.com/cloudwego/hertz/pkg/protocol/http1/req"
)

func TestZZHuntC07FileFromFSDecodesPathAgain(t *testing.T) {
	root := t.TempDir()
	os.WriteFile(filepath.Join(root, "a.txt"), []byte("A"), 0o644)

	e := NewEngine(config.NewOptions(nil)) // default options
	fs := &app.FS{Root: root}

	var before, after, seenByMiddleware string
	e.Use(func(c context.Context, ctx *app.RequestContext) {
		ctx.Next(c)
		seenByMiddleware = string(ctx.Path()) // e.g. an access log written after the handler
	})
	e.GET("/dl/*filepath", func(c context.Context, ctx *app.RequestContext) {
		before = string(ctx.Path())
		ctx.FileFromFS(ctx.Param("filepath"), fs)
		after = string(ctx.Path())
	})

	cases := []struct {
		target   string
		onceNorm string // percent-decode once + stack resolution
	}{
		{"/dl/a.txt", "/dl/a.txt"},
		{"/dl/%2561.txt", "/dl/%61.txt"},
		{"/dl/%252e%252e/admin", "/dl/%2e%2e/admin"},
		{"/dl/x/%252E%252E/%252e%252e/%252e%252e/etc", "/dl/x/%2E%2E/%2e%2e/%2e%2e/etc"},
	}
	for _, c := range cases {
		ctx := e.NewContext()
		raw := "GET " + c.target + " HTTP/1.1\r\nHost: example.com\r\n\r\n"
		if err := req.Read(&ctx.Request, mock.NewZeroCopyReader(raw)); err != nil {
			t.Fatalf("cannot read request: %v", err)
		}
		before, after, seenByMiddleware = "", "", ""
		e.ServeHTTP(context.Background(), ctx)

		if before != c.onceNorm {
			t.Errorf("target %q: routed path %q, want %q", c.target, before, c.onceNorm)
		}
		if after != c.onceNorm {
			t.Errorf("target %q: after FileFromFS ctx.Path()=%q; property demands the request path stays %q (decoded exactly once)",
				c.target, after, c.onceNorm)
		}
		if seenByMiddleware != c.onceNorm {
			t.Errorf("target %q: middleware after Next sees ctx.Path()=%q, routed path was %q",
				c.target, seenByMiddleware, c.onceNorm)
		}
		// "%61.txt" (decoded once) is not an existing file; only a second decoding finds a.txt
		if c.target == "/dl/%2561.txt" && ctx.Response.StatusCode() == 200 {
			t.Errorf("target %q: served %q although the once-decoded file name %q does not exist (file argument decoded a second time)",
				c.target, ctx.Response.Body(), "%61.txt")
		}
	}
}
