package generator

// C16 hunt, finding 3.
//
// HttpPackageGenerator.updateRegister decides whether a router package still has to be
// hooked into biz/router/register.go with
//
//	if !bytes.Contains(file, []byte(register.DepPkg)) { ...insert import + Register(r)... }
//
// i.e. a raw substring test of the import path against the whole file.  If register.go
// already imports a package whose import path merely STARTS with the new one
// (".../biz/router/hello/world" is there, ".../biz/router/hello" is new - thrift
// namespaces "hello.world" and "hello"), the new package is considered registered,
// nothing is inserted, no error is reported, and GeneratedRegister never calls
// hello.Register: none of the routes declared in that IDL reach the engine.

import (
	"go/ast"
	"go/parser"
	"go/token"
	"io/ioutil"
	"os"
	"path/filepath"
	"strconv"
	"testing"
)

// hunt3Generate is one "hz new/update" run for one IDL (one process in real life).
func hunt3Generate(t *testing.T, outDir, idl, goPkg string, m *HttpMethod) {
	t.Helper()
	pkgGen := &HttpPackageGenerator{
		ProjPackage: "example.com/demo",
		HandlerDir:  "biz/handler",
		RouterDir:   "biz/router",
		ModelDir:    "biz/model",
	}
	pkgGen.OutputDir = outDir
	if err := pkgGen.Init(); err != nil {
		t.Fatalf("init: %v", err)
	}
	pkg := &HttpPackage{IdlName: idl, Package: goPkg, Services: []*Service{{Name: "Svc", Methods: []*HttpMethod{m}}}}
	if err := pkgGen.Generate(pkg); err != nil {
		t.Fatalf("generate %s: %v", idl, err)
	}
	if err := pkgGen.Persist(); err != nil {
		t.Fatalf("persist %s: %v", idl, err)
	}
}

func TestHunt3RegisterSkipsPackageWhoseImportPathIsAPrefix(t *testing.T) {
	dir, err := ioutil.TempDir("", "hunt3")
	if err != nil {
		t.Fatal(err)
	}
	defer os.RemoveAll(dir)
	wd, _ := os.Getwd()
	// hz runs inside the project directory; the generator tests "does the file exist" relative to it
	if err := os.Chdir(dir); err != nil {
		t.Fatal(err)
	}
	defer os.Chdir(wd)

	// run 1: world.thrift, "namespace go hello.world"
	hunt3Generate(t, dir, "world.thrift", "hello/world",
		&HttpMethod{Name: "GetWorld", HTTPMethod: "GET", Path: "/world", ReturnTypeName: "string", GenHandler: true})
	// run 2: hello.thrift, "namespace go hello"
	hunt3Generate(t, dir, "hello.thrift", "hello",
		&HttpMethod{Name: "GetHello", HTTPMethod: "GET", Path: "/hello", ReturnTypeName: "string", GenHandler: true})

	// both router packages were generated ...
	for _, p := range []string{"biz/router/hello/world/world.go", "biz/router/hello/hello.go"} {
		if _, err := os.Stat(filepath.Join(dir, p)); err != nil {
			t.Fatalf("router file %s missing: %v", p, err)
		}
	}

	// ... so GeneratedRegister must call Register of both of them.
	regPath := filepath.Join(dir, "biz", "router", "register.go")
	src, err := ioutil.ReadFile(regPath)
	if err != nil {
		t.Fatal(err)
	}
	fset := token.NewFileSet()
	af, err := parser.ParseFile(fset, regPath, src, 0)
	if err != nil {
		t.Fatalf("register.go is not valid Go: %v\n%s", err, src)
	}
	alias := map[string]string{} // import path -> local name
	for _, im := range af.Imports {
		p, _ := strconv.Unquote(im.Path.Value)
		name := filepath.Base(p)
		if im.Name != nil {
			name = im.Name.Name
		}
		alias[p] = name
	}
	called := map[string]bool{}
	ast.Inspect(af, func(n ast.Node) bool {
		if c, ok := n.(*ast.CallExpr); ok {
			if sel, ok := c.Fun.(*ast.SelectorExpr); ok && sel.Sel.Name == "Register" {
				if id, ok := sel.X.(*ast.Ident); ok {
					called[id.Name] = true
				}
			}
		}
		return true
	})
	for _, want := range []string{"example.com/demo/biz/router/hello/world", "example.com/demo/biz/router/hello"} {
		name, ok := alias[want]
		if !ok {
			t.Errorf("property C16: register.go does not import router package %q, its routes are never registered on the engine", want)
			continue
		}
		if !called[name] {
			t.Errorf("property C16: GeneratedRegister does not call %s.Register(r) for %q", name, want)
		}
	}
	if t.Failed() {
		t.Logf("register.go after both runs:\n%s", src)
	}
}
