package generator

// C16 hunt, finding 1.
//
// With snake-style middleware names (HttpPackageGenerator.SnakeStyleMiddleware) the
// middleware function of a *leaf* route is named "_<HandlerName>Mw" and the middleware
// function of a *group* is named "<PathPrefix>Mw", i.e. "_<seg1>_<seg2>...Mw".
// genRouter de-duplicates those two name spaces against each other with appendMw, but
// its hook skips every node without children, so a leaf handler whose name equals the
// path prefix of some group (handler "Users" and group "/Users") produces two top-level
// functions with the same name in middleware.go and the router package does not compile.

import (
	"go/ast"
	"go/parser"
	"go/token"
	"path/filepath"
	"sort"
	"strings"
	"testing"
)

type hunt1Route struct{ verb, path, name string }

func hunt1Generate(t *testing.T, sortRouter bool, routes []hunt1Route) []File {
	t.Helper()
	pkgGen := &HttpPackageGenerator{
		ProjPackage:          "example.com/demo",
		HandlerDir:           "biz/handler",
		RouterDir:            "biz/router",
		ModelDir:             "biz/model",
		SnakeStyleMiddleware: true,
		SortRouter:           sortRouter,
	}
	if err := pkgGen.Init(); err != nil {
		t.Fatalf("init: %v", err)
	}
	var ms []*HttpMethod
	for _, r := range routes {
		ms = append(ms, &HttpMethod{Name: r.name, HTTPMethod: r.verb, Path: r.path, ReturnTypeName: "string", GenHandler: true})
	}
	pkg := &HttpPackage{IdlName: "demo.thrift", Package: "demo", Services: []*Service{{Name: "Svc", Methods: ms}}}
	if err := pkgGen.Generate(pkg); err != nil {
		t.Fatalf("generate: %v", err)
	}
	return pkgGen.Files()
}

// hunt1DuplicateDecls parses all generated files of the router package and returns
// the package-level identifiers that are declared more than once.
func hunt1DuplicateDecls(t *testing.T, files []File) []string {
	t.Helper()
	routerDir := filepath.Join("biz", "router", "demo")
	count := map[string]int{}
	fset := token.NewFileSet()
	n := 0
	for _, f := range files {
		if filepath.Dir(f.Path) != routerDir {
			continue
		}
		n++
		if err := f.Lint(); err != nil {
			t.Fatalf("%s does not even format: %v", f.Path, err)
		}
		af, err := parser.ParseFile(fset, f.Path, f.Content, 0)
		if err != nil {
			t.Fatalf("generated %s is not valid Go: %v\n%s", f.Path, err, f.Content)
		}
		for _, d := range af.Decls {
			if fd, ok := d.(*ast.FuncDecl); ok && fd.Recv == nil {
				count[fd.Name.Name]++
			}
		}
	}
	if n < 2 {
		t.Fatalf("expected router file and middleware.go in %s, got %d files", routerDir, n)
	}
	var dup []string
	for k, v := range count {
		if v > 1 {
			dup = append(dup, k)
		}
	}
	sort.Strings(dup)
	return dup
}

func TestHunt1SnakeLeafHandlerVsGroupMiddlewareName(t *testing.T) {
	cases := []struct {
		name   string
		sort   bool
		routes []hunt1Route
	}{
		{
			// PascalCase resource paths; the collection route is handled by a method that
			// carries the resource name.  With --sort_router the leaf "/Users" and the
			// group "/Users" are two different tree nodes.
			name: "sort_router",
			sort: true,
			routes: []hunt1Route{
				{"GET", "/Users", "Users"},
				{"GET", "/Users/:id", "GetUser"},
			},
		},
		{
			// default router order: any leaf whose handler is called like a group prefix.
			name: "default_order",
			sort: false,
			routes: []hunt1Route{
				{"GET", "/v1/list", "Orders"},
				{"GET", "/Orders/:id", "GetOrder"},
			},
		},
	}
	for _, c := range cases {
		c := c
		t.Run(c.name, func(t *testing.T) {
			files := hunt1Generate(t, c.sort, c.routes)
			if dup := hunt1DuplicateDecls(t, files); len(dup) != 0 {
				var mw string
				for _, f := range files {
					if strings.HasSuffix(f.Path, "middleware.go") {
						mw = f.Content
					}
				}
				t.Fatalf("property C16: generated router package must not contain duplicate identifiers, "+
					"but these package-level functions are declared twice: %v\n--- middleware.go ---\n%s", dup, mw)
			}
		})
	}
}
