package generator

// C16 hunt, finding 2.
//
// Default router order (sort_router off).  RouterNode.FindNearest descends into the
// FIRST child whose path matches, and RouterNode.Update re-sorts the children after
// every insertion so that nodes carrying a handler come before pure groups.  When a
// prefix is first seen as a pure group ("/item/:id"), then declared as a route of its
// own ("/item"), every later route below that prefix ("/item/update") is hung under the
// *route* node, which thereby becomes a second group for the very same path "/item".
// The generated Register() then contains two independent `root.Group("/item", ...)`
// with two different middleware functions, and each route below /item is wrapped by
// only one of them.  The property demands that a route is wrapped by the middleware of
// EVERY group on its path.

import (
	"fmt"
	"go/ast"
	"go/parser"
	"go/token"
	"path"
	"path/filepath"
	"sort"
	"strconv"
	"strings"
	"testing"
)

type hunt2Group struct {
	path string   // absolute path of the group
	mw   string   // its own middleware function
	all  []string // middleware chain of the group (ancestors + own)
}

type hunt2Route struct {
	verb, path, handler string
	chain               []string // group middleware wrapping the route (without the per-handler one)
}

func hunt2Join(base, rel string) string {
	if rel == "" {
		return base
	}
	p := path.Join(base, rel)
	if strings.HasSuffix(rel, "/") && !strings.HasSuffix(p, "/") {
		p += "/"
	}
	return p
}

func hunt2CallName(e ast.Expr) string { // "xMw()" -> "xMw"
	if c, ok := e.(*ast.CallExpr); ok {
		if id, ok := c.Fun.(*ast.Ident); ok {
			return id.Name
		}
	}
	return ""
}

// hunt2Analyse reconstructs, from the generated router source, which groups exist and
// which group middleware wraps every registered route.
func hunt2Analyse(t *testing.T, src string) (groups []hunt2Group, routes []hunt2Route) {
	t.Helper()
	fset := token.NewFileSet()
	af, err := parser.ParseFile(fset, "router.go", src, 0)
	if err != nil {
		t.Fatalf("generated router is not valid Go: %v\n%s", err, src)
	}
	vars := map[string]hunt2Group{"r": {path: "/"}}
	var walk func(stmts []ast.Stmt)
	walk = func(stmts []ast.Stmt) {
		for _, s := range stmts {
			switch st := s.(type) {
			case *ast.BlockStmt:
				walk(st.List)
			case *ast.AssignStmt: // X := Y.Group("/p", ZMw()...)
				call := st.Rhs[0].(*ast.CallExpr)
				sel := call.Fun.(*ast.SelectorExpr)
				if sel.Sel.Name != "Group" {
					t.Fatalf("unexpected assignment in Register: %s", sel.Sel.Name)
				}
				parent, ok := vars[sel.X.(*ast.Ident).Name]
				if !ok {
					t.Fatalf("group registered on unknown variable %s", sel.X.(*ast.Ident).Name)
				}
				rel, _ := strconv.Unquote(call.Args[0].(*ast.BasicLit).Value)
				g := hunt2Group{path: hunt2Join(parent.path, rel), mw: hunt2CallName(call.Args[1])}
				g.all = append(append([]string{}, parent.all...), g.mw)
				vars[st.Lhs[0].(*ast.Ident).Name] = g
				groups = append(groups, g)
			case *ast.ExprStmt: // Y.GET("/p", append(HMw(), pkg.Handler)...)
				call := st.X.(*ast.CallExpr)
				sel := call.Fun.(*ast.SelectorExpr)
				parent, ok := vars[sel.X.(*ast.Ident).Name]
				if !ok {
					t.Fatalf("route registered on unknown variable %s", sel.X.(*ast.Ident).Name)
				}
				rel, _ := strconv.Unquote(call.Args[0].(*ast.BasicLit).Value)
				app := call.Args[1].(*ast.CallExpr)
				h := app.Args[1].(*ast.SelectorExpr).Sel.Name
				routes = append(routes, hunt2Route{verb: sel.Sel.Name, path: hunt2Join(parent.path, rel), handler: h, chain: parent.all})
			}
		}
	}
	for _, d := range af.Decls {
		if fd, ok := d.(*ast.FuncDecl); ok && fd.Name.Name == "Register" {
			walk(fd.Body.List)
		}
	}
	return
}

func TestHunt2EveryGroupOnThePathWrapsTheRoute(t *testing.T) {
	// a perfectly ordinary REST service, methods in the order a user would write them
	declared := []struct{ verb, path, name string }{
		{"GET", "/item/:id", "GetItem"},
		{"GET", "/item", "ListItems"},
		{"POST", "/item/update", "UpdateItem"},
	}
	pkgGen := &HttpPackageGenerator{
		ProjPackage: "example.com/demo",
		HandlerDir:  "biz/handler",
		RouterDir:   "biz/router",
		ModelDir:    "biz/model",
	}
	if err := pkgGen.Init(); err != nil {
		t.Fatalf("init: %v", err)
	}
	var ms []*HttpMethod
	for _, r := range declared {
		ms = append(ms, &HttpMethod{Name: r.name, HTTPMethod: r.verb, Path: r.path, ReturnTypeName: "string", GenHandler: true})
	}
	pkg := &HttpPackage{IdlName: "demo.thrift", Package: "demo", Services: []*Service{{Name: "Svc", Methods: ms}}}
	if err := pkgGen.Generate(pkg); err != nil {
		t.Fatalf("generate: %v", err)
	}
	var src string
	for _, f := range pkgGen.Files() {
		if f.Path == filepath.Join("biz", "router", "demo", "demo.go") {
			if err := f.Lint(); err != nil {
				t.Fatalf("lint: %v", err)
			}
			src = f.Content
		}
	}
	if src == "" {
		t.Fatal("router file not generated")
	}
	groups, routes := hunt2Analyse(t, src)

	// 1. exactly the declared (verb, path, handler) set
	var got, want []string
	for _, r := range routes {
		got = append(got, fmt.Sprintf("%s %s %s", r.verb, r.path, r.handler))
	}
	for _, r := range declared {
		want = append(want, fmt.Sprintf("%s %s %s", r.verb, r.path, r.name))
	}
	sort.Strings(got)
	sort.Strings(want)
	if strings.Join(got, "\n") != strings.Join(want, "\n") {
		t.Fatalf("route set mismatch\nwant %v\ngot  %v", want, got)
	}

	// 2. every route is wrapped by the middleware of every group on its path
	for _, r := range routes {
		for _, g := range groups {
			on := g.path == "/" || strings.HasPrefix(r.path, g.path+"/")
			if !on {
				continue
			}
			found := false
			for _, mw := range r.chain {
				if mw == g.mw {
					found = true
				}
			}
			if !found {
				t.Errorf("property C16: route %s %s lies below group %q but is NOT wrapped by that group's middleware %s (it is wrapped by %v only)",
					r.verb, r.path, g.path, g.mw, r.chain)
			}
		}
	}
	if t.Failed() {
		t.Logf("generated router:\n%s", src)
	}
}
