//go:build !windows

package server

import (
	"context"
	"fmt"
	"net"
	"runtime"
	"strings"
	"testing"
	"time"

	"github.com/cloudwego/hertz/pkg/app"
	"github.com/cloudwego/hertz/pkg/common/hlog"
	"github.com/cloudwego/hertz/pkg/network/netpoll"
	"github.com/cloudwego/hertz/pkg/network/standard"
)

// slowLogger is a user supplied logger (hlog.SetLogger) that needs some time
// for one particular line. It only widens a window that also exists (and is
// hit, see the second test) with the stock logger.
type slowLogger struct {
	hlog.FullLogger
	delay time.Duration
}

func (s *slowLogger) Infof(format string, v ...interface{}) {
	if strings.Contains(format, "HTTP server listening on address") {
		time.Sleep(s.delay)
	}
	s.FullLogger.Infof(format, v...)
}

func huntC18FreeAddr(t *testing.T) string {
	ln, err := net.Listen("tcp", "127.0.0.1:0")
	if err != nil {
		t.Fatal(err)
	}
	addr := ln.Addr().String()
	ln.Close()
	return addr
}

// returns the raw response if the server at addr still accepts a NEW connection
// and serves a request on it.
func huntC18Served(addr string) (string, bool) {
	conn, err := net.DialTimeout("tcp", addr, time.Second)
	if err != nil {
		return "", false
	}
	defer conn.Close()
	conn.SetDeadline(time.Now().Add(time.Second))
	fmt.Fprintf(conn, "GET /ping HTTP/1.1\r\nHost: x\r\n\r\n")
	buf := make([]byte, 4096)
	n, _ := conn.Read(buf)
	return string(buf[:n]), n > 0
}

func huntC18Round(t *testing.T) (served bool, detail string) {
	addr := huntC18FreeAddr(t)
	h := New(
		WithHostPorts(addr),
		WithTransport(netpoll.NewTransporter),
		WithExitWaitTime(500*time.Millisecond),
	)
	h.GET("/ping", func(c context.Context, ctx *app.RequestContext) {
		ctx.SetBodyString("pong")
	})
	hookRan := false
	h.OnShutdown = append(h.OnShutdown, func(ctx context.Context) { hookRan = true })

	runDone := make(chan struct{})
	go func() {
		defer close(runDone)
		_ = h.Run()
	}()

	// the readiness probe offered by the engine (used all over hertz's own tests)
	deadline := time.Now().Add(5 * time.Second)
	for !h.IsRunning() {
		if time.Now().After(deadline) {
			t.Fatal("server did not start")
		}
		runtime.Gosched()
	}

	// the server reports that it is running: request a graceful shutdown
	if err := h.Shutdown(context.Background()); err != nil {
		// reporting an error would be within the property ("not running");
		// what is forbidden is a success that did not shut anything down
		return false, ""
	}
	if !hookRan {
		t.Fatal("hook did not run")
	}

	// Shutdown reported success. From now on no new connection may be accepted.
	time.Sleep(300 * time.Millisecond)
	resp, ok := huntC18Served(addr)
	if ok {
		err2 := h.Shutdown(context.Background())
		detail = fmt.Sprintf("response=%q; a further Shutdown() = %v", resp, err2)
		time.Sleep(100 * time.Millisecond)
		if _, still := huntC18Served(addr); still {
			detail += "; and the server is STILL serving new connections"
		}
		_ = h.Close()
	}
	select {
	case <-runDone:
	case <-time.After(2 * time.Second):
	}
	return ok, detail
}

// Property C18: after Shutdown was requested on a running server and returned,
// no new connection is accepted.
//
// Deterministic variant: the logger is a little slow (50ms for one line).
func TestHuntC18_1_NetpollShutdownRightAfterIsRunning(t *testing.T) {
	old := hlog.DefaultLogger()
	hlog.SetLogger(&slowLogger{FullLogger: old, delay: 50 * time.Millisecond})
	defer hlog.SetLogger(old)

	served, detail := huntC18Round(t)
	if served {
		t.Fatalf("IsRunning() was true and Shutdown() returned nil, but afterwards the server accepted a NEW "+
			"connection and served a request on it (property: no new connection is accepted after shutdown): %s", detail)
	}
}

// Same thing with the stock stderr logger and no artificial delay: the window
// is hit in a noticeable fraction of the rounds.
func TestHuntC18_1b_NetpollShutdownRightAfterIsRunning_Natural(t *testing.T) {
	const rounds = 60
	bad, last := 0, ""
	for i := 0; i < rounds; i++ {
		if served, detail := huntC18Round(t); served {
			bad++
			last = detail
		}
	}
	if bad > 0 {
		t.Fatalf("in %d of %d rounds Shutdown() returned nil on a server with IsRunning()==true "+
			"but the server kept accepting new connections: %s", bad, rounds, last)
	}
}

// Variant for the standard transport: the engine status is "running" before the
// listener exists. A Shutdown in that window (IsRunning() is still false, so by
// the property it should report "not running") returns nil, closes nothing, and
// the server then comes up and can never be shut down.
type slowLogger2 struct {
	hlog.FullLogger
	delay time.Duration
}

func (s *slowLogger2) Infof(format string, v ...interface{}) {
	if strings.Contains(format, "Using network library") {
		time.Sleep(s.delay)
	}
	s.FullLogger.Infof(format, v...)
}

func TestHuntC18_1c_StandardShutdownBeforeListen(t *testing.T) {
	old := hlog.DefaultLogger()
	hlog.SetLogger(&slowLogger2{FullLogger: old, delay: 50 * time.Millisecond})
	defer hlog.SetLogger(old)

	addr := huntC18FreeAddr(t)
	h := New(WithHostPorts(addr), WithTransport(standard.NewTransporter), WithExitWaitTime(500*time.Millisecond))
	h.GET("/ping", func(c context.Context, ctx *app.RequestContext) { ctx.SetBodyString("pong") })
	go h.Run()
	defer h.Close()

	// keep asking for a shutdown until the engine no longer says "not running"
	var err error
	var wasRunning bool
	deadline := time.Now().Add(5 * time.Second)
	for {
		wasRunning = h.IsRunning()
		if err = h.Shutdown(context.Background()); err == nil || time.Now().After(deadline) {
			break
		}
		runtime.Gosched()
	}
	if err != nil {
		t.Fatalf("never shut down: %v", err)
	}
	t.Logf("Shutdown() = nil, IsRunning() just before the call = %v", wasRunning)
	time.Sleep(300 * time.Millisecond)
	if resp, ok := huntC18Served(addr); ok {
		t.Fatalf("Shutdown() returned nil (IsRunning() before the call: %v), but afterwards the server accepted a NEW "+
			"connection and served it: %q; a further Shutdown() = %v", wasRunning, resp, h.Shutdown(context.Background()))
	}
}
