//go:build !windows

package server

import (
	"context"
	"errors"
	"fmt"
	"io"
	"net"
	"strings"
	"sync/atomic"
	"testing"
	"time"

	"github.com/cloudwego/hertz/pkg/app"
	"github.com/cloudwego/hertz/pkg/app/server/registry"
	"github.com/cloudwego/hertz/pkg/common/config"
	"github.com/cloudwego/hertz/pkg/network"
	"github.com/cloudwego/hertz/pkg/network/netpoll"
	"github.com/cloudwego/hertz/pkg/network/standard"
)

// a service registry whose center cannot be reached at the moment of the shutdown
type hunt2Registry struct{}

func (hunt2Registry) Register(*registry.Info) error { return nil }
func (hunt2Registry) Deregister(*registry.Info) error {
	return errors.New("registry center unreachable")
}

func hunt2FreeAddr(t *testing.T) string {
	ln, err := net.Listen("tcp", "127.0.0.1:0")
	if err != nil {
		t.Fatal(err)
	}
	addr := ln.Addr().String()
	ln.Close()
	return addr
}

// opens a NEW connection and sends one request on it
func hunt2NewConnServed(addr string) (string, bool) {
	conn, err := net.DialTimeout("tcp", addr, time.Second)
	if err != nil {
		return "", false
	}
	defer conn.Close()
	conn.SetDeadline(time.Now().Add(time.Second))
	fmt.Fprintf(conn, "GET /ping HTTP/1.1\r\nHost: x\r\n\r\n")
	buf := make([]byte, 4096)
	n, _ := conn.Read(buf)
	return string(buf[:n]), n > 0
}

// Property C18: when shutdown is requested while a request is in progress, the
// in-flight request may finish (the wait being bounded by the exit wait time),
// hooks run, and NO NEW CONNECTION IS ACCEPTED AFTERWARDS; a further shutdown
// must not be refused with "not running" while the server is serving.
func TestHuntC18_2_DeregisterErrorLeavesServerHalfShutdown(t *testing.T) {
	transports := map[string]func(*config.Options) network.Transporter{
		"standard": standard.NewTransporter,
		"netpoll":  netpoll.NewTransporter,
	}

	for name, tr := range transports {
		tr := tr
		t.Run(name, func(t *testing.T) {
			addr := hunt2FreeAddr(t)
			const exitWait = 2 * time.Second
			h := New(
				WithHostPorts(addr),
				WithTransport(tr),
				WithExitWaitTime(exitWait),
				WithRegistry(hunt2Registry{}, &registry.Info{ServiceName: "svc"}),
			)
			started := make(chan struct{}, 1)
			var finished int32
			h.GET("/slow", func(c context.Context, ctx *app.RequestContext) {
				started <- struct{}{}
				time.Sleep(700 * time.Millisecond)
				atomic.StoreInt32(&finished, 1)
				ctx.SetBodyString("done")
			})
			h.GET("/ping", func(c context.Context, ctx *app.RequestContext) { ctx.SetBodyString("pong") })
			var hookRan int32
			h.OnShutdown = append(h.OnShutdown, func(ctx context.Context) { atomic.StoreInt32(&hookRan, 1) })

			go h.Run()
			defer h.Close()
			for i := 0; !h.IsRunning(); i++ {
				if i > 500 {
					t.Fatal("server did not start")
				}
				time.Sleep(10 * time.Millisecond)
			}
			time.Sleep(100 * time.Millisecond)

			// one request in progress
			slowResp := make(chan string, 1)
			go func() {
				conn, err := net.Dial("tcp", addr)
				if err != nil {
					slowResp <- err.Error()
					return
				}
				defer conn.Close()
				fmt.Fprintf(conn, "GET /slow HTTP/1.1\r\nHost: x\r\n\r\n")
				b, _ := io.ReadAll(conn)
				slowResp <- string(b)
			}()
			<-started

			t0 := time.Now()
			err := h.Shutdown(context.Background())
			elapsed := time.Since(t0)
			inFlightWhenReturned := atomic.LoadInt32(&finished) == 0
			t.Logf("Shutdown() = %v after %v; request still in flight at that moment: %v", err, elapsed, inFlightWhenReturned)

			if atomic.LoadInt32(&hookRan) != 1 {
				t.Errorf("shutdown hook did not run")
			}

			// (a) the call came back although a request was in flight and the
			// exit wait time (2s) was far from over: nothing waits for the request
			if inFlightWhenReturned && elapsed < exitWait/2 {
				t.Errorf("Shutdown returned after %v while a request was still in flight and only %v of the "+
					"exit wait time %v had passed: the in-flight request is not waited for", elapsed, elapsed, exitWait)
			}

			r := <-slowResp
			if !strings.HasSuffix(r, "done") {
				t.Errorf("in-flight response incomplete: %q", r)
			}

			// (b) shutdown was requested (and is over): no new connection may be accepted
			time.Sleep(200 * time.Millisecond)
			if resp, ok := hunt2NewConnServed(addr); ok {
				t.Errorf("a NEW connection was accepted and served %v after the shutdown call returned: %q",
					time.Since(t0), resp)

				// (c) ... and the server cannot be shut down any more
				err2 := h.Shutdown(context.Background())
				_, still := hunt2NewConnServed(addr)
				t.Errorf("a further Shutdown() = %v, IsRunning() = %v, yet the server still serves new connections: %v",
					err2, h.IsRunning(), still)
			}
		})
	}
}
