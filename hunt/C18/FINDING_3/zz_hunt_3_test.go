//go:build !windows

package server

import (
	"bufio"
	"context"
	"fmt"
	"io"
	"net"
	"net/http"
	"testing"
	"time"

	"github.com/cloudwego/hertz/pkg/app"
	"github.com/cloudwego/hertz/pkg/common/config"
	"github.com/cloudwego/hertz/pkg/network"
	"github.com/cloudwego/hertz/pkg/network/netpoll"
	"github.com/cloudwego/hertz/pkg/network/standard"
	"github.com/cloudwego/hertz/pkg/protocol/http1/resp"
)

// Property C18: a request that is in progress when shutdown is requested gets a
// complete response that carries "Connection: close" when its handler returns
// after shutdown began.
//
// Here the handler does ALL of its response writing after shutdown began (it
// only starts to write once Shutdown has been called) and returns after that.
// The only difference between the two routes is how the body is written:
// /plain sets the body, /stream writes it with hertz's own chunked body writer
// (the documented way to stream / flush a response from a handler).
func TestHuntC18_3_StreamedResponseAfterShutdownLacksConnectionClose(t *testing.T) {
	transports := map[string]func(*config.Options) network.Transporter{
		"standard": standard.NewTransporter,
		"netpoll":  netpoll.NewTransporter,
	}
	for name, tr := range transports {
		tr := tr
		for _, path := range []string{"/plain", "/stream"} {
			path := path
			t.Run(name+path, func(t *testing.T) {
				ln, err := net.Listen("tcp", "127.0.0.1:0")
				if err != nil {
					t.Fatal(err)
				}
				addr := ln.Addr().String()
				ln.Close()

				h := New(WithHostPorts(addr), WithTransport(tr), WithExitWaitTime(3*time.Second))
				started := make(chan struct{}, 1)
				release := make(chan struct{})
				h.GET("/plain", func(c context.Context, ctx *app.RequestContext) {
					started <- struct{}{}
					<-release // shutdown has begun when this returns
					ctx.SetBodyString("chunk-0chunk-1chunk-2")
				})
				h.GET("/stream", func(c context.Context, ctx *app.RequestContext) {
					started <- struct{}{}
					<-release // shutdown has begun when this returns
					ctx.Response.HijackWriter(resp.NewChunkedBodyWriter(&ctx.Response, ctx.GetWriter()))
					for i := 0; i < 3; i++ {
						fmt.Fprintf(ctx, "chunk-%d", i)
						ctx.Flush()
					}
				})
				go h.Run()
				defer h.Close()
				for i := 0; !h.IsRunning(); i++ {
					if i > 500 {
						t.Fatal("server did not start")
					}
					time.Sleep(10 * time.Millisecond)
				}
				time.Sleep(100 * time.Millisecond)

				conn, err := net.Dial("tcp", addr)
				if err != nil {
					t.Fatal(err)
				}
				defer conn.Close()
				conn.SetDeadline(time.Now().Add(5 * time.Second))
				fmt.Fprintf(conn, "GET %s HTTP/1.1\r\nHost: x\r\n\r\n", path)
				<-started

				// shutdown is requested while the request is in progress
				sdErr := make(chan error, 1)
				go func() { sdErr <- h.Shutdown(context.Background()) }()
				for h.IsRunning() { // wait until shutdown really began
					time.Sleep(time.Millisecond)
				}
				time.Sleep(50 * time.Millisecond)
				close(release) // now the handler writes its response and returns

				br := bufio.NewReader(conn)
				r, err := http.ReadResponse(br, nil)
				if err != nil {
					t.Fatalf("reading response: %v", err)
				}
				body, err := io.ReadAll(r.Body)
				if err != nil || string(body) != "chunk-0chunk-1chunk-2" {
					t.Fatalf("response is not complete: body=%q err=%v", body, err)
				}
				if err := <-sdErr; err != nil {
					t.Fatalf("Shutdown: %v", err)
				}

				// what the server does with the connection afterwards
				_, rerr := br.ReadByte()
				serverClosed := rerr == io.EOF

				t.Logf("header: %v; server closed the connection afterwards: %v", r.Header, serverClosed)
				if !r.Close {
					t.Errorf("%s: the handler returned after shutdown began, but the response does not carry "+
						"\"Connection: close\" (header=%v) - and the server closed the connection right after it: %v, "+
						"so a keep-alive client is led to reuse a dead connection",
						path, r.Header, serverClosed)
				}
			})
		}
	}
}
