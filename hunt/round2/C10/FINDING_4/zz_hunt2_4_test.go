package client

import (
	"bufio"
	"context"
	"net"
	"sync"
	"sync/atomic"
	"testing"
	"time"

	"github.com/cloudwego/hertz/pkg/network/standard"
	"github.com/cloudwego/hertz/pkg/protocol"
)

// Property C10: "the number of connections counted per host never exceeds the
// configured maximum" - under every interleaving of concurrent requests.
//
// Client (pkg/app/client) with MaxConnsPerHost = 1, one host, two concurrent calls.
// The schedule: call A has looked up the host's HostClient in Client.do and is
// pre-empted before HostClient.Do has taken a connection slot; the Client's
// cleaner (every 10 s) runs in that window. Call B arrives, then A goes on.
// The pause is put into A with a context whose Done method - the first thing
// HostClient.Do calls - blocks until the test lets it go: nothing else than a
// goroutine that is not scheduled for a while.
//
// The peer counts the connections that are open at the same time. It must never
// see more than one. (The test takes a bit more than 10 s: the cleaner's period.)

type hunt2PausedCtx struct {
	context.Context
	once    sync.Once
	reached chan struct{}
	gate    chan struct{}
}

func (p *hunt2PausedCtx) Done() <-chan struct{} {
	p.once.Do(func() {
		close(p.reached)
		<-p.gate
	})
	return p.Context.Done()
}

func TestHunt2_4_MaxConnsPerHostExceededAfterCleaner(t *testing.T) {
	ln, err := net.Listen("tcp", "127.0.0.1:0")
	if err != nil {
		t.Fatal(err)
	}
	defer ln.Close()

	var open, maxOpen int32
	answer := make(chan struct{})
	go func() {
		for {
			conn, err := ln.Accept()
			if err != nil {
				return
			}
			n := atomic.AddInt32(&open, 1)
			for {
				m := atomic.LoadInt32(&maxOpen)
				if n <= m || atomic.CompareAndSwapInt32(&maxOpen, m, n) {
					break
				}
			}
			go func() {
				defer conn.Close()
				defer atomic.AddInt32(&open, -1)
				br := bufio.NewReader(conn)
				for {
					for {
						line, err := br.ReadString('\n')
						if err != nil {
							return
						}
						if line == "\r\n" {
							break
						}
					}
					<-answer // hold the exchange until the test has looked
					conn.Write([]byte("HTTP/1.1 200 OK\r\nContent-Length: 2\r\n\r\nok"))
				}
			}()
		}
	}()

	c, err := NewClient(WithDialer(standard.NewDialer()), WithMaxConnsPerHost(1))
	if err != nil {
		t.Fatal(err)
	}
	url := "http://" + ln.Addr().String() + "/"

	// call A: stops at the entry of HostClient.Do, holding the HostClient it was given
	pc := &hunt2PausedCtx{Context: context.Background(), reached: make(chan struct{}), gate: make(chan struct{})}
	errA := make(chan error, 1)
	go func() {
		req, resp := protocol.AcquireRequest(), protocol.AcquireResponse()
		req.SetRequestURI(url + "a")
		errA <- c.Do(pc, req, resp)
	}()
	<-pc.reached

	// the cleaner's next round
	deadline := time.Now().Add(13 * time.Second)
	for {
		c.mLock.Lock()
		n := len(c.m)
		c.mLock.Unlock()
		if n == 0 {
			break
		}
		if time.Now().After(deadline) {
			// the host client was kept because a call holds it: nothing to show
			close(pc.gate)
			close(answer)
			<-errA
			return
		}
		time.Sleep(20 * time.Millisecond)
	}

	// call B: same host
	errB := make(chan error, 1)
	go func() {
		req, resp := protocol.AcquireRequest(), protocol.AcquireResponse()
		req.SetRequestURI(url + "b")
		errB <- c.Do(context.Background(), req, resp)
	}()
	time.Sleep(200 * time.Millisecond) // B has its connection and waits for the answer
	close(pc.gate)                     // A goes on
	time.Sleep(300 * time.Millisecond)

	if m := atomic.LoadInt32(&maxOpen); m > 1 {
		t.Errorf("MaxConnsPerHost=1, yet the host saw %d connections open at the same time", m)
	}
	close(answer)
	a, b := <-errA, <-errB
	t.Logf("call A: %v, call B: %v (with one slot one of them may get ErrNoFreeConns, none may get a second connection)", a, b)
}
