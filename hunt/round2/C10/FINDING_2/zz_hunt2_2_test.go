package http1

import (
	"context"
	"crypto/tls"
	"net"
	"testing"
	"time"

	"github.com/cloudwego/hertz/pkg/common/config"
	"github.com/cloudwego/hertz/pkg/network/standard"
	"github.com/cloudwego/hertz/pkg/protocol"
)

// Property C10: "A call given a request or read timeout returns no later than
// that timeout plus scheduling slack however the peer stalls".
//
// Transport: TLS over the standard dialer (the only dialer of hertz that speaks
// TLS, i.e. every https:// request). Fault: the peer accepts the TCP connection
// and stalls - it never answers the ClientHello. The call is given a whole-request
// timeout (DoTimeout / WithRequestTimeout) of 300 ms and, in the second case, a read
// and a write timeout of 300 ms as well. It has to come back with an error after
// about 300 ms. The peer gives up after 4 s; a call that only returns then was not
// bounded by any of its timeouts.

func hunt2StallingPeer(t *testing.T, hold time.Duration) net.Listener {
	ln, err := net.Listen("tcp", "127.0.0.1:0")
	if err != nil {
		t.Fatal(err)
	}
	go func() {
		for {
			conn, err := ln.Accept()
			if err != nil {
				return
			}
			// accept, read nothing, write nothing
			go func() {
				time.Sleep(hold)
				conn.Close()
			}()
		}
	}()
	return ln
}

func hunt2TLSCall(t *testing.T, opts *ClientOptions, call func(c *HostClient, req *protocol.Request, resp *protocol.Response) error) {
	ln := hunt2StallingPeer(t, 4*time.Second)
	defer ln.Close()

	opts.Dialer = standard.NewDialer()
	opts.TLSConfig = &tls.Config{InsecureSkipVerify: true}
	opts.MaxConns = 1
	c := &HostClient{Addr: ln.Addr().String(), IsTLS: true, ClientOptions: opts}

	req := protocol.AcquireRequest()
	resp := protocol.AcquireResponse()
	req.SetRequestURI("https://" + ln.Addr().String() + "/x")

	const timeout = 300 * time.Millisecond
	const slack = 1200 * time.Millisecond
	done := make(chan error, 1)
	start := time.Now()
	go func() { done <- call(c, req, resp) }()
	select {
	case err := <-done:
		el := time.Since(start)
		if err == nil {
			t.Errorf("the peer never answered, yet the call succeeded")
		}
		if el > timeout+slack {
			t.Errorf("call with a %v timeout returned after %v (%v)", timeout, el, err)
		}
	case <-time.After(timeout + slack):
		t.Errorf("call with a %v timeout has not returned after %v: the peer stalls in the TLS handshake and no timeout applies", timeout, timeout+slack)
		select {
		case err := <-done:
			t.Logf("it returned after %v, when the peer closed: %v", time.Since(start), err)
		case <-time.After(6 * time.Second):
			t.Logf("still not returned after %v", time.Since(start))
		}
	}

	// once the call has returned nothing may be left behind
	if p := c.PendingRequests(); p != 0 {
		t.Errorf("PendingRequests()=%d after the call returned", p)
	}
	c.connsLock.Lock()
	idle, total := len(c.conns), c.connsCount
	c.connsLock.Unlock()
	if idle != 0 || total != 0 {
		t.Errorf("after the failed call: idle=%d connsCount=%d, want 0/0", idle, total)
	}
}

func TestHunt2_2_TLSHandshakeStall_DoTimeout(t *testing.T) {
	hunt2TLSCall(t, &ClientOptions{}, func(c *HostClient, req *protocol.Request, resp *protocol.Response) error {
		return c.DoTimeout(context.Background(), req, resp, 300*time.Millisecond)
	})
}

func TestHunt2_2_TLSHandshakeStall_AllTimeouts(t *testing.T) {
	hunt2TLSCall(t, &ClientOptions{
		DialTimeout:  300 * time.Millisecond,
		ReadTimeout:  300 * time.Millisecond,
		WriteTimeout: 300 * time.Millisecond,
	}, func(c *HostClient, req *protocol.Request, resp *protocol.Response) error {
		req.SetOptions(config.WithRequestTimeout(300 * time.Millisecond))
		return c.Do(context.Background(), req, resp)
	})
}

// Control: the same peer without TLS is handled in time (the stall is met by the
// read timeout derived from the request timeout).
func TestHunt2_2_Control_PlainStall(t *testing.T) {
	ln := hunt2StallingPeer(t, 4*time.Second)
	defer ln.Close()
	c := &HostClient{Addr: ln.Addr().String(), ClientOptions: &ClientOptions{Dialer: standard.NewDialer(), MaxConns: 1}}
	req := protocol.AcquireRequest()
	resp := protocol.AcquireResponse()
	req.SetRequestURI("http://" + ln.Addr().String() + "/x")
	start := time.Now()
	err := c.DoTimeout(context.Background(), req, resp, 300*time.Millisecond)
	if el := time.Since(start); err == nil || el > 1500*time.Millisecond {
		t.Errorf("plain connection: returned after %v with %v", el, err)
	}
}
