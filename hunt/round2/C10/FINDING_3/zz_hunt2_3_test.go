package http1

import (
	"bufio"
	"context"
	"net"
	"sync/atomic"
	"testing"
	"time"

	"github.com/cloudwego/hertz/pkg/network/standard"
	"github.com/cloudwego/hertz/pkg/protocol"
)

// Property C10: "A connection is put back for reuse only after its exchange
// completed cleanly (full response read, no Connection: close, no error or
// timeout)"; connections are "never reused dirty".
//
// Fault: "close mid-body" on a chunked response (keep-alive, no Connection: close):
// the peer closes behind the last-chunk line "0\r\n" - before the empty line that
// ends a chunked message - or inside the trailer section. The client has read EOF
// on that connection in the middle of the message. Whatever it reports to the
// caller, the connection is dead and must be closed, not put back in the pool.

func hunt2ChunkedCut(t *testing.T, firstResponse string) {
	ln, err := net.Listen("tcp", "127.0.0.1:0")
	if err != nil {
		t.Fatal(err)
	}
	defer ln.Close()
	var accepted int32
	go func() {
		for {
			conn, err := ln.Accept()
			if err != nil {
				return
			}
			n := atomic.AddInt32(&accepted, 1)
			go func() {
				defer conn.Close()
				br := bufio.NewReader(conn)
				for {
					cl := false
					for {
						line, err := br.ReadString('\n')
						if err != nil {
							return
						}
						if len(line) > 15 && line[:15] == "Content-Length:" {
							cl = true
						}
						if line == "\r\n" {
							break
						}
					}
					if cl {
						br.Discard(3) // "x=1"
					}
					if n == 1 {
						// the first connection: cut the chunked message short
						conn.Write([]byte(firstResponse))
						return
					}
					conn.Write([]byte("HTTP/1.1 200 OK\r\nContent-Length: 2\r\n\r\nok"))
				}
			}()
		}
	}()

	c := &HostClient{
		Addr: ln.Addr().String(),
		ClientOptions: &ClientOptions{
			Dialer:      standard.NewDialer(),
			MaxConns:    2,
			ReadTimeout: 2 * time.Second,
		},
	}

	req := protocol.AcquireRequest()
	resp := protocol.AcquireResponse()
	req.SetRequestURI("http://" + ln.Addr().String() + "/first")
	err = c.Do(context.Background(), req, resp)
	t.Logf("first Do: err=%v body=%q", err, resp.Body())

	// The call has returned. The peer closed inside the message: the connection
	// has to be closed and uncounted.
	c.connsLock.Lock()
	idle, total := len(c.conns), c.connsCount
	c.connsLock.Unlock()
	if idle != 0 || total != 0 {
		t.Errorf("the connection that hit EOF inside the chunked message was put back for reuse: idle=%d connsCount=%d, want 0/0", idle, total)
	}

	// What it means for the next caller: a request that must not be repeated is
	// handed the dead connection and fails, although the server is reachable.
	time.Sleep(50 * time.Millisecond)
	req2 := protocol.AcquireRequest()
	resp2 := protocol.AcquireResponse()
	req2.SetRequestURI("http://" + ln.Addr().String() + "/second")
	req2.Header.SetMethod("POST")
	req2.SetBodyString("x=1")
	if err := c.Do(context.Background(), req2, resp2); err != nil {
		t.Errorf("the POST that followed was sent on the dead connection: %v", err)
	}
}

func TestHunt2_3_ChunkedClosedBehindLastChunk(t *testing.T) {
	hunt2ChunkedCut(t, "HTTP/1.1 200 OK\r\nTransfer-Encoding: chunked\r\n\r\n5\r\nhello\r\n0\r\n")
}

func TestHunt2_3_ChunkedClosedInsideTrailer(t *testing.T) {
	hunt2ChunkedCut(t, "HTTP/1.1 200 OK\r\nTransfer-Encoding: chunked\r\nTrailer: X-Sum\r\n\r\n5\r\nhello\r\n0\r\nX-Sum: 12")
}

// Control: a cut one step earlier (inside the chunk data) is handled: error, connection closed.
func TestHunt2_3_Control_ChunkedClosedInsideChunk(t *testing.T) {
	hunt2ChunkedCut(t, "HTTP/1.1 200 OK\r\nTransfer-Encoding: chunked\r\n\r\n5\r\nhel")
}
