package http1

import (
	"bufio"
	"context"
	"fmt"
	"net"
	"strings"
	"sync"
	"sync/atomic"
	"testing"
	"time"

	"github.com/cloudwego/hertz/pkg/network/standard"
)

// Property C10: "a pooled client connection carries at most one request at a
// time and the response returned to a caller is the response to that caller's
// request" - under every interleaving of concurrent requests. Every exchange
// below is "ok keep-alive": no fault at all.
//
// Entry point: HostClient.Get (the same code serves GetTimeout, GetDeadline,
// Post and the pkg/app/client helpers) with a dst buffer that has capacity -
// the documented way to avoid allocations ("The contents of dst will be
// replaced by the body and returned, if the dst is too small a new slice will
// be allocated").
//
// Every goroutine owns its dst buffer and asks for its own path; the peer
// answers with a body that names the path. A body handed to a caller must be
// the body of its request and must stay that, whatever the other callers do
// with their own buffers.

// hunt2EchoPeer answers every request with a body made of the request path.
func hunt2EchoPeer(t *testing.T) net.Listener {
	ln, err := net.Listen("tcp", "127.0.0.1:0")
	if err != nil {
		t.Fatal(err)
	}
	go func() {
		for {
			conn, err := ln.Accept()
			if err != nil {
				return
			}
			go func() {
				defer conn.Close()
				br := bufio.NewReader(conn)
				for {
					first := ""
					for {
						line, err := br.ReadString('\n')
						if err != nil {
							return
						}
						if first == "" {
							first = line
						}
						if line == "\r\n" {
							break
						}
					}
					parts := strings.Split(first, " ")
					if len(parts) < 2 {
						return
					}
					body := hunt2BodyFor(parts[1])
					fmt.Fprintf(conn, "HTTP/1.1 200 OK\r\nContent-Length: %d\r\n\r\n%s", len(body), body)
				}
			}()
		}
	}()
	return ln
}

func hunt2BodyFor(path string) string { return strings.Repeat(path+"|", 8) }

func hunt2RunGetWithDst(t *testing.T, reuseReturned bool) {
	ln := hunt2EchoPeer(t)
	defer ln.Close()

	c := &HostClient{
		Addr: ln.Addr().String(),
		ClientOptions: &ClientOptions{
			Dialer:   standard.NewDialer(),
			MaxConns: 4,
			// wait for a free connection, so that no call fails for lack of one
			MaxConnWaitTimeout: 5 * time.Second,
		},
	}
	base := "http://" + ln.Addr().String()

	const goroutines, requests = 8, 200
	var wg sync.WaitGroup
	var foreign int32
	for g := 0; g < goroutines; g++ {
		wg.Add(1)
		go func(g int) {
			defer wg.Done()
			// this goroutine's own buffer; nobody else is given it
			dst := make([]byte, 0, 512)
			for i := 0; i < requests; i++ {
				path := fmt.Sprintf("/g%d-%d", g, i)
				want := hunt2BodyFor(path)
				_, body, err := c.Get(context.Background(), dst[:0], base+path)
				if err != nil {
					t.Errorf("GET %s: %v", path, err)
					return
				}
				if got := string(body); got != want {
					if atomic.AddInt32(&foreign, 1) <= 3 {
						t.Errorf("GET %s returned the body of another request: %q", path, got)
					}
				}
				// the caller looks at its body a moment later: it owns it
				time.Sleep(200 * time.Microsecond)
				if got := string(body); got != want {
					if atomic.AddInt32(&foreign, 1) <= 3 {
						t.Errorf("body returned for %s was replaced by the response to another caller's request: %q", path, got)
					}
				}
				if reuseReturned {
					// the usual loop: buf = body[:0]
					dst = body
				}
			}
		}(g)
	}
	wg.Wait()
	if n := atomic.LoadInt32(&foreign); n > 0 {
		t.Errorf("%d of %d checks saw a foreign body", n, 2*goroutines*requests)
	}
	if p := c.PendingRequests(); p != 0 {
		t.Errorf("PendingRequests()=%d after all calls returned", p)
	}
}

// every goroutine passes its own, fixed buffer as dst
func TestHunt2_1_GetWithOwnDstBuffer(t *testing.T) { hunt2RunGetWithDst(t, false) }

// every goroutine passes the slice the previous call returned
func TestHunt2_1_GetReusingReturnedBody(t *testing.T) { hunt2RunGetWithDst(t, true) }
