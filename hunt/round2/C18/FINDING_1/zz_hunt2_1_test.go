package server

// C18 finding 1: with the standard transport (the only one for TLS and on Windows) the wait
// for in-flight requests is cut after a fixed 30 s, whatever exit wait time was configured.

import (
	"bufio"
	"context"
	"fmt"
	"io"
	"net"
	"net/http"
	"strings"
	"sync/atomic"
	"testing"
	"time"

	"github.com/cloudwego/hertz/internal/testutils"
	"github.com/cloudwego/hertz/pkg/app"
	"github.com/cloudwego/hertz/pkg/network/standard"
)

func TestHunt2C18_LongExitWaitTimeIsCutAt30s(t *testing.T) {
	const exitWait = 45 * time.Second    // "exit wait time ... long"
	const handlerTime = 33 * time.Second // well inside the exit wait time

	// viaSpin=false: Shutdown is called directly.
	// viaSpin=true : the server runs under Spin() (the last statement of main() in every hertz
	//                program) and the shutdown is requested the way a SIGINT/SIGTERM does it.
	for _, viaSpin := range []bool{false, true} {
		viaSpin := viaSpin
		name := "Shutdown"
		if viaSpin {
			name = "Spin"
		}
		t.Run(name, func(t *testing.T) {
			t.Parallel()
			h := New(
				WithHostPorts("127.0.0.1:0"),
				WithTransport(standard.NewTransporter),
				WithExitWaitTime(exitWait),
				WithDisablePrintRoute(true),
			)
			entered := make(chan struct{})
			var handlerDone int32
			body := strings.Repeat("x", 64*1024)
			h.GET("/slow", func(c context.Context, ctx *app.RequestContext) {
				close(entered)
				time.Sleep(handlerTime) // a long request: export, upload, long poll ...
				ctx.SetBodyString(body)
				atomic.StoreInt32(&handlerDone, 1)
			})
			var hookRan int32
			h.OnShutdown = append(h.OnShutdown, func(ctx context.Context) { atomic.StoreInt32(&hookRan, 1) })

			signal := make(chan struct{})
			spinReturned := make(chan struct{})
			if viaSpin {
				h.SetCustomSignalWaiter(func(errCh chan error) error {
					select {
					case <-signal: // graceful shutdown, as after SIGINT/SIGHUP/SIGTERM
						return nil
					case err := <-errCh:
						return err
					}
				})
				go func() { h.Spin(); close(spinReturned) }()
			} else {
				go h.Run()
			}
			waitEngineRunning(h)
			addr := testutils.GetListenerAddr(h)

			c, err := net.Dial("tcp", addr)
			if err != nil {
				t.Fatal(err)
			}
			defer c.Close()
			if _, err = fmt.Fprintf(c, "GET /slow HTTP/1.1\r\nHost: x\r\n\r\n"); err != nil {
				t.Fatal(err)
			}
			<-entered

			// the request is in progress: request the shutdown
			start := time.Now()
			var shutdownErr error
			if viaSpin {
				close(signal)
				<-spinReturned // main() returns here: the process is gone
			} else {
				shutdownErr = h.Shutdown(context.Background())
			}
			elapsed := time.Since(start)
			inFlight := atomic.LoadInt32(&handlerDone) == 0
			t.Logf("%s returned (err=%v) after %v, exit wait time %v, request still in flight: %v", name, shutdownErr, elapsed, exitWait, inFlight)

			if atomic.LoadInt32(&hookRan) != 1 {
				t.Errorf("shutdown hook did not run")
			}
			// There are two reasons to come back: every connection is done, or the exit wait
			// time is over. Neither holds here.
			if inFlight && elapsed < exitWait-time.Second {
				t.Errorf("%s returned after %v although a received request was still being handled and the configured exit wait time of %v had not elapsed: the process exits now and the response is lost",
					name, elapsed.Round(time.Millisecond), exitWait)
			}
			if shutdownErr != nil {
				t.Errorf("Shutdown of a running server whose only request finishes within the exit wait time: want nil error, got %q", shutdownErr)
			}

			// the request itself (the test process lives on, so it does complete here)
			c.SetReadDeadline(time.Now().Add(handlerTime))
			resp, err := http.ReadResponse(bufio.NewReader(c), nil)
			if err != nil {
				t.Fatalf("reading response: %v", err)
			}
			b, err := io.ReadAll(resp.Body)
			if err != nil || len(b) != len(body) {
				t.Errorf("response truncated: %d of %d bytes, err=%v", len(b), len(body), err)
			}
			if !resp.Close {
				t.Errorf("response of a handler that returned after shutdown began carries no Connection: close")
			}
		})
	}
}
