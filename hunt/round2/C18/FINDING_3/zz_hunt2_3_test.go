package server

// C18 finding 3: when Shutdown is called by two goroutines at the same moment (a signal
// handler and an admin endpoint, two signal paths, ...), the caller that loses the status
// CAS gets a nil error at once: no error as for any other second shutdown, and no waiting
// for the requests in progress either.

import (
	"bufio"
	"context"
	"fmt"
	"io"
	"net"
	"net/http"
	"runtime"
	"sync"
	"sync/atomic"
	"testing"
	"time"

	"github.com/cloudwego/hertz/internal/testutils"
	"github.com/cloudwego/hertz/pkg/app"
	"github.com/cloudwego/hertz/pkg/common/config"
	"github.com/cloudwego/hertz/pkg/network"
	"github.com/cloudwego/hertz/pkg/network/netpoll"
	"github.com/cloudwego/hertz/pkg/network/standard"
)

func TestHunt2C18_SimultaneousShutdownCalls(t *testing.T) {
	const callers = 8
	const exitWait = 5 * time.Second
	const holdRequest = 60 * time.Millisecond // the in-flight request outlives the racing calls
	const rounds = 60

	transports := []struct {
		name string
		f    func(*config.Options) network.Transporter
	}{{"standard", standard.NewTransporter}, {"netpoll", netpoll.NewTransporter}}

	type outcome struct {
		err          error
		after        time.Duration
		reqStillBusy bool
	}

	for round := 0; round < rounds; round++ {
		tr := transports[round%len(transports)]
		h := New(WithHostPorts("127.0.0.1:0"), WithTransport(tr.f), WithExitWaitTime(exitWait), WithDisablePrintRoute(true))
		entered := make(chan struct{})
		release := make(chan struct{})
		var reqDone int32
		h.GET("/slow", func(c context.Context, ctx *app.RequestContext) {
			close(entered)
			<-release
			ctx.SetBodyString("complete")
			atomic.StoreInt32(&reqDone, 1)
		})
		go h.Run()
		waitEngineRunning(h)
		addr := testutils.GetListenerAddr(h)

		c, err := net.Dial("tcp", addr)
		if err != nil {
			t.Fatal(err)
		}
		fmt.Fprintf(c, "GET /slow HTTP/1.1\r\nHost: x\r\n\r\n")
		<-entered // the request is in progress

		// `callers` goroutines request the shutdown at the same moment
		var (
			wg          sync.WaitGroup
			ready, fire int32
			results     [callers]outcome
			start       time.Time
		)
		for i := 0; i < callers; i++ {
			wg.Add(1)
			go func(i int) {
				defer wg.Done()
				atomic.AddInt32(&ready, 1)
				for atomic.LoadInt32(&fire) == 0 {
				}
				err := h.Shutdown(context.Background())
				results[i] = outcome{err, time.Since(start), atomic.LoadInt32(&reqDone) == 0}
			}(i)
		}
		for atomic.LoadInt32(&ready) != callers {
			runtime.Gosched()
		}
		start = time.Now()
		atomic.StoreInt32(&fire, 1)

		time.Sleep(holdRequest)
		close(release)
		resp, err := http.ReadResponse(bufio.NewReader(c), nil)
		if err != nil {
			t.Fatalf("round %d: in-flight request got no response: %v", round, err)
		}
		b, _ := io.ReadAll(resp.Body)
		if string(b) != "complete" || !resp.Close {
			t.Errorf("round %d: in-flight response: body %q, Connection: close=%v", round, b, resp.Close)
		}
		c.Close()
		wg.Wait()

		nils, early := 0, 0
		for _, r := range results {
			if r.err == nil {
				nils++
				if r.reqStillBusy && r.after < exitWait {
					early++
				}
			}
		}
		if nils != 1 || early != 0 {
			for i, r := range results {
				t.Logf("round %d (%s) caller %d: err=%v after %v, request still in progress at return: %v", round, tr.name, i, r.err, r.after.Round(time.Microsecond), r.reqStillBusy)
			}
			t.Fatalf("round %d (%s): of %d simultaneous Shutdown calls %d returned nil (want exactly 1, every other one is a second shutdown and has to report an error); "+
				"%d of them returned nil while the received request was still being handled and long before the exit wait time %v",
				round, tr.name, callers, nils, early, exitWait)
		}
	}
}
