package server

// C18 finding 2: Engine.Shutdown calls Registry.Deregister synchronously and outside the
// exit-wait deadline: a registry that answers slowly (or not at all) keeps Shutdown from
// returning, and the listener keeps accepting new connections all that time.

import (
	"context"
	"net"
	"sync/atomic"
	"testing"
	"time"

	"github.com/cloudwego/hertz/internal/testutils"
	"github.com/cloudwego/hertz/pkg/app"
	"github.com/cloudwego/hertz/pkg/app/server/registry"
	"github.com/cloudwego/hertz/pkg/common/config"
	"github.com/cloudwego/hertz/pkg/network"
	"github.com/cloudwego/hertz/pkg/network/netpoll"
	"github.com/cloudwego/hertz/pkg/network/standard"
)

// hunt2SlowRegistry stands for a registry client whose server is slow or unreachable:
// Deregister comes back (without error) only after `delay`.
type hunt2SlowRegistry struct {
	delay time.Duration
	begun chan struct{}
}

func (r *hunt2SlowRegistry) Register(*registry.Info) error { return nil }
func (r *hunt2SlowRegistry) Deregister(*registry.Info) error {
	close(r.begun)
	time.Sleep(r.delay)
	return nil
}

func TestHunt2C18_SlowDeregisterBreaksExitWaitBound(t *testing.T) {
	const exitWait = 300 * time.Millisecond
	const slack = 700 * time.Millisecond // generous scheduling slack
	const deregisterTime = 3 * time.Second

	for _, tr := range []struct {
		name string
		f    func(*config.Options) network.Transporter
	}{{"standard", standard.NewTransporter}, {"netpoll", netpoll.NewTransporter}} {
		t.Run(tr.name, func(t *testing.T) {
			reg := &hunt2SlowRegistry{delay: deregisterTime, begun: make(chan struct{})}
			h := New(
				WithHostPorts("127.0.0.1:0"),
				WithTransport(tr.f),
				WithExitWaitTime(exitWait),
				WithRegistry(reg, &registry.Info{ServiceName: "hunt2", Weight: 1}),
				WithDisablePrintRoute(true),
			)
			h.GET("/", func(c context.Context, ctx *app.RequestContext) {})
			var hookRan int32
			h.OnShutdown = append(h.OnShutdown, func(ctx context.Context) { atomic.StoreInt32(&hookRan, 1) })

			go h.Run()
			waitEngineRunning(h)
			addr := testutils.GetListenerAddr(h)

			type result struct {
				err     error
				elapsed time.Duration
			}
			done := make(chan result, 1)
			start := time.Now()
			go func() {
				err := h.Shutdown(context.Background())
				done <- result{err, time.Since(start)}
			}()

			// shutdown has been requested and has got as far as the registry
			<-reg.begun

			select {
			case r := <-done:
				t.Logf("Shutdown returned %v after %v", r.err, r.elapsed)
			case <-time.After(exitWait + slack):
				// still not back. Is the server at least closed for new connections?
				accepted := false
				if c, err := net.DialTimeout("tcp", addr, 200*time.Millisecond); err == nil {
					accepted = true
					c.Close()
				}
				r := <-done
				t.Errorf("Shutdown did not return within the exit wait time %v (+%v slack): it came back after %v (err=%v); "+
					"%v after the shutdown request a new connection was still accepted: %v",
					exitWait, slack, r.elapsed.Round(time.Millisecond), r.err, exitWait+slack, accepted)
			}
			if atomic.LoadInt32(&hookRan) != 1 {
				t.Errorf("shutdown hook did not run")
			}
		})
	}
}
