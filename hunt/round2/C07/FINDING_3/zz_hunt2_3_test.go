package route

import (
	"context"
	"os"
	"path/filepath"
	"strings"
	"sync/atomic"
	"testing"

	"github.com/cloudwego/hertz/pkg/app"
	"github.com/cloudwego/hertz/pkg/common/config"
	"github.com/cloudwego/hertz/pkg/common/test/mock"
	"github.com/cloudwego/hertz/pkg/protocol"
	hresp "github.com/cloudwego/hertz/pkg/protocol/http1/resp"
)

// C07: no request can make the path files are served from climb out of its root.
// With app.NewVHostPathRewriter the root of a request is <FS.Root>/<host>/ : the
// rewriter promises "/<host>/<path>". It only refuses hosts containing '/', so the
// hosts ".." and "." are glued in front of the path as DOT SEGMENTS and resolved by
// the normaliser: "/../toplevel.txt" -> "/toplevel.txt". The request is served from
// FS.Root itself, above every virtual host directory.

func hunt2C07raw(t *testing.T, e *Engine, raw string) (int, string) {
	t.Helper()
	conn := mock.NewConn(raw)
	_ = e.Serve(context.Background(), conn)
	resp := protocol.AcquireResponse()
	if err := hresp.Read(resp, conn.WriterRecorder()); err != nil {
		t.Fatalf("request %q: cannot read the response: %v", raw, err)
	}
	return resp.StatusCode(), string(resp.Body())
}

func TestHunt2C07VHostRewriterHostDotDot(t *testing.T) {
	root := t.TempDir()
	must := func(err error) {
		if err != nil {
			t.Fatal(err)
		}
	}
	must(os.MkdirAll(filepath.Join(root, "a.com"), 0o755))
	must(os.WriteFile(filepath.Join(root, "a.com", "index.txt"), []byte("SITE-A"), 0o644))
	// not below any virtual host directory: no host may reach it
	must(os.WriteFile(filepath.Join(root, "toplevel.txt"), []byte("TOPLEVEL"), 0o644))

	var rewritten string
	vhost := app.NewVHostPathRewriter(0)
	fs := &app.FS{Root: root, PathRewrite: func(ctx *app.RequestContext) []byte {
		p := vhost(ctx)
		rewritten = string(p)
		return p
	}}
	e := NewEngine(config.NewOptions(nil))
	atomic.StoreUint32(&e.status, statusRunning)
	e.Init()
	e.NoRoute(fs.NewRequestHandler())

	if st, body := hunt2C07raw(t, e, "GET /index.txt HTTP/1.1\r\nHost: a.com\r\nConnection: close\r\n\r\n"); st != 200 || body != "SITE-A" || rewritten != "/a.com/index.txt" {
		t.Fatalf("sanity: got %d %q (path %q)", st, body, rewritten)
	}
	// a '..' in the request path stays below the host directory (this works)
	if st, body := hunt2C07raw(t, e, "GET /../toplevel.txt HTTP/1.1\r\nHost: a.com\r\nConnection: close\r\n\r\n"); st == 200 || rewritten != "/a.com/toplevel.txt" {
		t.Fatalf("sanity: got %d %q (path %q)", st, body, rewritten)
	}

	for _, raw := range []string{
		"GET /toplevel.txt HTTP/1.1\r\nHost: ..\r\nConnection: close\r\n\r\n",
		"GET /toplevel.txt HTTP/1.1\r\nHost: .\r\nConnection: close\r\n\r\n",
		"GET http://../toplevel.txt HTTP/1.1\r\nHost: a.com\r\nConnection: close\r\n\r\n",
	} {
		rewritten = ""
		st, body := hunt2C07raw(t, e, raw)
		// if the rewriter produces a path at all, "/<one directory for the host>/toplevel.txt"
		// is the only acceptable shape
		segs := strings.Split(strings.TrimPrefix(rewritten, "/"), "/")
		if st == 200 || strings.Contains(body, "TOPLEVEL") || (rewritten != "" && len(segs) != 2) {
			t.Errorf("%q:\n\tserved path %q -> %d %q; want a path below one host directory (\"/<host>/toplevel.txt\") and 404", raw, rewritten, st, body)
		}
	}
}
