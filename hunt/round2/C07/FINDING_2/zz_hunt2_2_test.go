package route

import (
	"context"
	"os"
	"path/filepath"
	"strings"
	"sync/atomic"
	"testing"

	"github.com/cloudwego/hertz/pkg/app"
	"github.com/cloudwego/hertz/pkg/common/config"
	"github.com/cloudwego/hertz/pkg/common/test/mock"
	"github.com/cloudwego/hertz/pkg/protocol"
	hresp "github.com/cloudwego/hertz/pkg/protocol/http1/resp"
)

// C07: the path the server serves files from is the request target percent-decoded
// ONCE; "%2e%2e" / "%2f" that are still there after that one decoding are literal
// file name characters and cannot climb anywhere.
//
// ctx.File / app.ServeFile (fs.go) hand their FILE SYSTEM path to
// Request.SetRequestURI and RequestContext.FileFromFS (context.go) hands its file
// path to URI.SetPath. Both parse the argument as a request target and percent-decode
// it. A handler that serves <dir>/<route parameter> therefore has the parameter
// decoded a second time: it opens a different file than the one the request names,
// and an escaped "../" walks out of <dir>.

func hunt2C07get(t *testing.T, e *Engine, target string) (int, string) {
	t.Helper()
	conn := mock.NewConn("GET " + target + " HTTP/1.1\r\nHost: h\r\nConnection: close\r\n\r\n")
	_ = e.Serve(context.Background(), conn)
	resp := protocol.AcquireResponse()
	if err := hresp.Read(resp, conn.WriterRecorder()); err != nil {
		t.Fatalf("target %q: cannot read the response: %v", target, err)
	}
	return resp.StatusCode(), string(resp.Body())
}

func hunt2C07tree(t *testing.T) string {
	t.Helper()
	root := t.TempDir()
	must := func(err error) {
		if err != nil {
			t.Fatal(err)
		}
	}
	must(os.MkdirAll(filepath.Join(root, "uploads"), 0o755))
	must(os.MkdirAll(filepath.Join(root, "private"), 0o755))
	must(os.WriteFile(filepath.Join(root, "uploads", "report.txt"), []byte("REPORT"), 0o644))
	must(os.WriteFile(filepath.Join(root, "uploads", "a%41.txt"), []byte("LITERAL"), 0o644))
	must(os.WriteFile(filepath.Join(root, "uploads", "aA.txt"), []byte("OTHER-FILE"), 0o644))
	must(os.WriteFile(filepath.Join(root, "private", "key.txt"), []byte("SECRET"), 0o644))
	return root
}

func TestHunt2C07ServeFileDecodesItsFilePath(t *testing.T) {
	root := hunt2C07tree(t)
	e := NewEngine(config.NewOptions(nil))
	atomic.StoreUint32(&e.status, statusRunning)
	e.Init()
	var seen string
	e.GET("/dl/:name", func(c context.Context, ctx *app.RequestContext) {
		name := ctx.Param("name") // decoded once by the server
		seen = name
		if name == ".." || name == "." || strings.ContainsAny(name, "/\\") {
			ctx.AbortWithMsg("bad name", 400)
			return
		}
		ctx.File(root + "/uploads/" + name)
	})

	if st, body := hunt2C07get(t, e, "/dl/report.txt"); st != 200 || body != "REPORT" {
		t.Fatalf("sanity: got %d %q", st, body)
	}

	// the request names the file "a%41.txt" in uploads
	st, body := hunt2C07get(t, e, "/dl/a%2541.txt")
	if seen != "a%41.txt" {
		t.Fatalf("unexpected parameter %q", seen)
	}
	if st != 200 || body != "LITERAL" {
		t.Errorf("GET /dl/a%%2541.txt (handler serves uploads/%s): got %d %q, want 200 %q", seen, st, body, "LITERAL")
	}

	// the request names the (non-existing) file "%2e%2e%2fprivate%2fkey.txt" in uploads
	st, body = hunt2C07get(t, e, "/dl/%252e%252e%252fprivate%252fkey.txt")
	if seen != "%2e%2e%2fprivate%2fkey.txt" {
		t.Fatalf("unexpected parameter %q", seen)
	}
	if st == 200 || strings.Contains(body, "SECRET") {
		t.Errorf("GET /dl/%%252e%%252e%%252fprivate%%252fkey.txt (handler serves uploads/%s): got %d %q: the file path was percent-decoded again and left uploads/; want 404", seen, st, body)
	}
}

func TestHunt2C07FileFromFSDecodesItsFilePath(t *testing.T) {
	root := hunt2C07tree(t)
	fs := &app.FS{Root: root}
	e := NewEngine(config.NewOptions(nil))
	atomic.StoreUint32(&e.status, statusRunning)
	e.Init()
	var seen string
	e.GET("/fs/:name", func(c context.Context, ctx *app.RequestContext) {
		name := ctx.Param("name") // decoded once by the server
		seen = name
		if name == ".." || name == "." || strings.ContainsAny(name, "/\\") {
			ctx.AbortWithMsg("bad name", 400)
			return
		}
		ctx.FileFromFS("/uploads/"+name, fs)
	})

	if st, body := hunt2C07get(t, e, "/fs/report.txt"); st != 200 || body != "REPORT" {
		t.Fatalf("sanity: got %d %q", st, body)
	}

	st, body := hunt2C07get(t, e, "/fs/a%2541.txt")
	if st != 200 || body != "LITERAL" {
		t.Errorf("GET /fs/a%%2541.txt (handler serves /uploads/%s): got %d %q, want 200 %q", seen, st, body, "LITERAL")
	}

	st, body = hunt2C07get(t, e, "/fs/%252e%252e%252fprivate%252fkey.txt")
	if st == 200 || strings.Contains(body, "SECRET") {
		t.Errorf("GET /fs/%%252e%%252e%%252fprivate%%252fkey.txt (handler serves /uploads/%s): got %d %q: the file path was percent-decoded again and left /uploads/; want 404", seen, st, body)
	}
}
