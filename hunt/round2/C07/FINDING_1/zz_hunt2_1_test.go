package route

import (
	"context"
	"strings"
	"sync/atomic"
	"testing"

	"github.com/cloudwego/hertz/pkg/app"
	"github.com/cloudwego/hertz/pkg/common/config"
	"github.com/cloudwego/hertz/pkg/common/test/mock"
	"github.com/cloudwego/hertz/pkg/protocol"
	hresp "github.com/cloudwego/hertz/pkg/protocol/http1/resp"
)

// C07: the path the server works with is the request target percent-decoded ONCE.
// The router's own redirects (trailing slash, fixed path) must therefore send the
// client to the resource the request named: following the Location must reach the
// handler with the once-decoded segment of the ORIGINAL target.
//
// On the unchanged tree redirectTrailingSlash / redirectFixedPath put the already
// decoded path back through Request.SetRequestURI, which parses and decodes it a
// second time ("%2e%2e" left over from "%252e%252e" becomes a parent segment, a
// decoded '?' or '#' cuts the path).

func hunt2C07wire(t *testing.T, e *Engine, target string) (int, string, string) {
	t.Helper()
	conn := mock.NewConn("GET " + target + " HTTP/1.1\r\nHost: h\r\nConnection: close\r\n\r\n")
	_ = e.Serve(context.Background(), conn)
	resp := protocol.AcquireResponse()
	if err := hresp.Read(resp, conn.WriterRecorder()); err != nil {
		t.Fatalf("target %q: cannot read the response: %v", target, err)
	}
	return resp.StatusCode(), string(resp.Header.Peek("Location")), string(resp.Body())
}

// follow sends target and follows up to 3 router redirects.
func hunt2C07follow(t *testing.T, e *Engine, target string) (status int, body string, hops []string) {
	t.Helper()
	for i := 0; i < 4; i++ {
		var loc string
		status, loc, body = hunt2C07wire(t, e, target)
		if status != 301 && status != 307 && status != 308 && status != 302 {
			return
		}
		hops = append(hops, loc)
		target = loc
	}
	return
}

func hunt2C07engine() *Engine {
	opt := config.NewOptions(nil) // RedirectTrailingSlash is on by default
	opt.RedirectFixedPath = true
	e := NewEngine(opt)
	atomic.StoreUint32(&e.status, statusRunning)
	e.Init()
	e.GET("/u/:name/", func(c context.Context, ctx *app.RequestContext) {
		ctx.String(200, "user=%s", ctx.Param("name"))
	})
	e.GET("/Files/:name", func(c context.Context, ctx *app.RequestContext) {
		ctx.String(200, "file=%s", ctx.Param("name"))
	})
	return e
}

func TestHunt2C07RedirectTrailingSlashDecodesOnce(t *testing.T) {
	e := hunt2C07engine()
	for _, c := range []struct{ target, want string }{
		{"/u/plain", "user=plain"},       // sanity
		{"/u/a%20b", "user=a b"},         // sanity
		{"/u/%252e%252e", "user=%2e%2e"}, // literal "%2e%2e" segment, not a parent directory
		{"/u/x%2541", "user=x%41"},       // literal "%41", not "A"
		{"/u/a%3Fb", "user=a?b"},         // decoded '?' is part of the segment
		{"/u/a%23b", "user=a#b"},         // decoded '#' is part of the segment
	} {
		// what the server routes on for the target itself, decoded once
		var u protocol.URI
		u.Parse([]byte("h"), []byte(c.target))
		status, body, hops := hunt2C07follow(t, e, c.target)
		if len(hops) == 0 {
			t.Errorf("target %q: expected a trailing slash redirect, got %d %q", c.target, status, body)
			continue
		}
		// the redirect target, read the way the next request will be read
		var l protocol.URI
		l.Parse([]byte("h"), []byte(hops[0]))
		if got, want := string(l.Path()), string(u.Path())+"/"; got != want {
			t.Errorf("target %q (routed as %q): Location %q names path %q, want %q", c.target, u.Path(), hops[0], got, want)
		}
		if status != 200 || body != c.want {
			t.Errorf("target %q: following %s ends in %d %q, want 200 %q", c.target, strings.Join(hops, " -> "), status, body, c.want)
		}
	}
}

func TestHunt2C07RedirectFixedPathDecodesOnce(t *testing.T) {
	e := hunt2C07engine()
	for _, c := range []struct{ target, want string }{
		{"/files/plain", "file=plain"}, // sanity
		{"/files/x%2541", "file=x%41"},
		{"/files/a%3Fb", "file=a?b"},
		{"/files/%252e%252e", "file=%2e%2e"},
	} {
		status, body, hops := hunt2C07follow(t, e, c.target)
		if len(hops) == 0 {
			t.Errorf("target %q: expected a fixed path redirect, got %d %q", c.target, status, body)
			continue
		}
		if status != 200 || body != c.want {
			t.Errorf("target %q: following %s ends in %d %q, want 200 %q", c.target, strings.Join(hops, " -> "), status, body, c.want)
		}
	}
}
