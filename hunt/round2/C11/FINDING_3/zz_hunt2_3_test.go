package client

// C11 hunt2 finding 3: a chunked response whose chunks carry chunk extensions
// ("5;name=value\r\n", RFC 7230 section 4.1.1: "A recipient MUST ignore
// unrecognized chunk extensions") is rejected by the client.

import (
	"bufio"
	"context"
	"fmt"
	"io"
	"net"
	"net/http"
	"testing"
	"time"

	"github.com/cloudwego/hertz/pkg/protocol"
)

const hunt2F3Chunked = "HTTP/1.1 200 OK\r\n" +
	"Content-Type: text/plain\r\n" +
	"Transfer-Encoding: chunked\r\n" +
	"\r\n" +
	"5;seq=1\r\nhello\r\n" +
	"6;seq=2;sig=\"a1b2\"\r\n world\r\n" +
	"0\r\n" +
	"\r\n"

const hunt2F3Plain = "HTTP/1.1 200 OK\r\nContent-Length: 6\r\n\r\nsecond"

func hunt2F3Server(t *testing.T) (addr string, stop func()) {
	ln, err := net.Listen("tcp", "127.0.0.1:0")
	if err != nil {
		t.Fatal(err)
	}
	go func() {
		for {
			conn, err := ln.Accept()
			if err != nil {
				return
			}
			go func(conn net.Conn) {
				defer conn.Close()
				br := bufio.NewReader(conn)
				for {
					conn.SetReadDeadline(time.Now().Add(5 * time.Second)) //nolint:errcheck
					r, err := http.ReadRequest(br)
					if err != nil {
						return
					}
					io.Copy(io.Discard, r.Body) //nolint:errcheck
					out := hunt2F3Plain
					if r.URL.Path == "/0" {
						out = hunt2F3Chunked
					}
					if _, err := conn.Write([]byte(out)); err != nil {
						return
					}
				}
			}(conn)
		}
	}()
	return ln.Addr().String(), func() { ln.Close() }
}

func TestHunt2C11ChunkExtensionsInResponse(t *testing.T) {
	wantBodies := []string{"hello world", "second"}

	// an independent client (net/http) reads both responses
	func() {
		addr, stop := hunt2F3Server(t)
		defer stop()
		hc := &http.Client{Transport: &http.Transport{MaxConnsPerHost: 1}, Timeout: 5 * time.Second}
		for i := range wantBodies {
			r, err := hc.Get(fmt.Sprintf("http://%s/%d", addr, i))
			if err != nil {
				t.Fatalf("net/http, exchange %d: %v", i, err)
			}
			b, err := io.ReadAll(r.Body)
			r.Body.Close()
			if err != nil || r.StatusCode != 200 || string(b) != wantBodies[i] {
				t.Fatalf("net/http, exchange %d: %d %q %v: the test's server is not what it is meant to be", i, r.StatusCode, b, err)
			}
		}
	}()

	for _, stream := range []bool{false, true} {
		name := "buffered"
		if stream {
			name = "streaming"
		}
		t.Run(name, func(t *testing.T) {
			addr, stop := hunt2F3Server(t)
			defer stop()
			c, err := NewClient(WithResponseBodyStream(stream), WithDialTimeout(2*time.Second))
			if err != nil {
				t.Fatal(err)
			}
			for i := range wantBodies {
				req := protocol.AcquireRequest()
				resp := protocol.AcquireResponse()
				req.SetRequestURI(fmt.Sprintf("http://%s/%d", addr, i))
				if err := c.DoTimeout(context.Background(), req, resp, 5*time.Second); err != nil {
					t.Fatalf("exchange %d: %v", i, err)
				}
				if resp.StatusCode() != 200 {
					t.Errorf("exchange %d: status %d, the server sent 200", i, resp.StatusCode())
				}
				body, err := resp.BodyE()
				if err != nil {
					t.Errorf("exchange %d: reading the body: %v", i, err)
				}
				if string(body) != wantBodies[i] {
					t.Errorf("exchange %d: body %q, the server sent %q", i, body, wantBodies[i])
				}
				protocol.ReleaseRequest(req)
				protocol.ReleaseResponse(resp)
			}
		})
	}
}
