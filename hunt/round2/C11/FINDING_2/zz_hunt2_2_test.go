package client

// C11 hunt2 finding 2: an interim response other than "100 Continue" (103 Early
// Hints, 102 Processing) in front of the final response is handed to the caller as
// the final response, and the final response stays on the pooled connection where
// it answers the next request.

import (
	"bufio"
	"context"
	"fmt"
	"io"
	"net"
	"net/http"
	"testing"
	"time"

	"github.com/cloudwego/hertz/pkg/protocol"
)

// hunt2F2Server sends, for the request with path /n, the n-th element of responses.
func hunt2F2Server(t *testing.T, responses []string) (addr string, stop func()) {
	ln, err := net.Listen("tcp", "127.0.0.1:0")
	if err != nil {
		t.Fatal(err)
	}
	go func() {
		for {
			conn, err := ln.Accept()
			if err != nil {
				return
			}
			go func(conn net.Conn) {
				defer conn.Close()
				br := bufio.NewReader(conn)
				for {
					conn.SetReadDeadline(time.Now().Add(5 * time.Second)) //nolint:errcheck
					r, err := http.ReadRequest(br)
					if err != nil {
						return
					}
					io.Copy(io.Discard, r.Body) //nolint:errcheck
					var n int
					fmt.Sscanf(r.URL.Path, "/%d", &n) //nolint:errcheck
					if _, err := conn.Write([]byte(responses[n])); err != nil {
						return
					}
				}
			}(conn)
		}
	}()
	return ln.Addr().String(), func() { ln.Close() }
}

func TestHunt2C11InterimResponseOtherThan100(t *testing.T) {
	interims := map[string]string{
		"103-early-hints": "HTTP/1.1 103 Early Hints\r\nLink: </style.css>; rel=preload; as=style\r\n\r\n",
		"102-processing":  "HTTP/1.1 102 Processing\r\n\r\n",
	}
	for iname, interim := range interims {
		responses := []string{
			interim + "HTTP/1.1 200 OK\r\nX-Exchange: 0\r\nContent-Length: 5\r\n\r\nfirst",
			"HTTP/1.1 200 OK\r\nX-Exchange: 1\r\nContent-Length: 6\r\n\r\nsecond",
		}
		wantBodies := []string{"first", "second"}

		// an independent client (net/http, one keep-alive connection) gets the two
		// final responses, each for its own request
		func() {
			addr, stop := hunt2F2Server(t, responses)
			defer stop()
			hc := &http.Client{Transport: &http.Transport{MaxConnsPerHost: 1}, Timeout: 5 * time.Second}
			for i := range responses {
				r, err := hc.Get(fmt.Sprintf("http://%s/%d", addr, i))
				if err != nil {
					t.Fatalf("net/http, exchange %d: %v", i, err)
				}
				b, _ := io.ReadAll(r.Body)
				r.Body.Close()
				if r.StatusCode != 200 || string(b) != wantBodies[i] {
					t.Fatalf("net/http, exchange %d: %d %q: the test's server is not what it is meant to be", i, r.StatusCode, b)
				}
			}
		}()

		for _, stream := range []bool{false, true} {
			name := iname + "/buffered"
			if stream {
				name = iname + "/streaming"
			}
			t.Run(name, func(t *testing.T) {
				addr, stop := hunt2F2Server(t, responses)
				defer stop()
				c, err := NewClient(WithResponseBodyStream(stream), WithDialTimeout(2*time.Second))
				if err != nil {
					t.Fatal(err)
				}
				for i := range responses {
					req := protocol.AcquireRequest()
					resp := protocol.AcquireResponse()
					req.SetRequestURI(fmt.Sprintf("http://%s/%d", addr, i))
					if err := c.DoTimeout(context.Background(), req, resp, 5*time.Second); err != nil {
						t.Fatalf("exchange %d: %v", i, err)
					}
					body, err := resp.BodyE()
					if err != nil {
						t.Fatalf("exchange %d: reading the body: %v", i, err)
					}
					if resp.StatusCode() != 200 {
						t.Errorf("exchange %d: status %d, the final response of the server has 200", i, resp.StatusCode())
					}
					if got, want := string(resp.Header.Peek("X-Exchange")), fmt.Sprint(i); got != want {
						t.Errorf("exchange %d: X-Exchange %q, the server sent %q for this request", i, got, want)
					}
					if string(body) != wantBodies[i] {
						t.Errorf("exchange %d: body %q, the server sent %q for this request", i, body, wantBodies[i])
					}
					protocol.ReleaseRequest(req)
					protocol.ReleaseResponse(resp)
				}
			})
		}
	}
}
