package client

// C11 hunt2 finding 4: DoRedirects with a request body given as a stream (or
// multipart parts given as readers): the first attempt consumes the stream, and the
// request that follows the 307/308 redirect goes out as the same POST with an empty
// body (multipart: with empty parts). The server accepts it, the client reports success.

import (
	"bufio"
	"bytes"
	"context"
	"io"
	"net"
	"net/http"
	"strings"
	"sync"
	"testing"
	"time"

	"github.com/cloudwego/hertz/pkg/protocol"
)

type hunt2F4Seen struct {
	path  string
	body  []byte
	field string // value of the multipart field "note", if the body is a multipart form
	file  string // content of the multipart file "upload", if any
}

// hunt2F4Server answers /first with "307 Location: /next" and everything else with 200.
func hunt2F4Server(t *testing.T) (addr string, seen func() []hunt2F4Seen, stop func()) {
	ln, err := net.Listen("tcp", "127.0.0.1:0")
	if err != nil {
		t.Fatal(err)
	}
	var mu sync.Mutex
	var all []hunt2F4Seen
	go func() {
		for {
			conn, err := ln.Accept()
			if err != nil {
				return
			}
			go func(conn net.Conn) {
				defer conn.Close()
				br := bufio.NewReader(conn)
				for {
					conn.SetReadDeadline(time.Now().Add(5 * time.Second)) //nolint:errcheck
					r, err := http.ReadRequest(br)
					if err != nil {
						return
					}
					body, err := io.ReadAll(r.Body)
					if err != nil {
						return
					}
					s := hunt2F4Seen{path: r.URL.Path, body: body}
					if strings.HasPrefix(r.Header.Get("Content-Type"), "multipart/form-data") {
						r.Body = io.NopCloser(bytes.NewReader(body))
						if err := r.ParseMultipartForm(1 << 20); err == nil {
							s.field = r.FormValue("note")
							if f, _, err := r.FormFile("upload"); err == nil {
								b, _ := io.ReadAll(f)
								s.file = string(b)
							}
						}
					}
					mu.Lock()
					all = append(all, s)
					mu.Unlock()
					out := "HTTP/1.1 200 OK\r\nContent-Length: 2\r\n\r\nok"
					if r.URL.Path == "/first" {
						out = "HTTP/1.1 307 Temporary Redirect\r\nLocation: /next\r\nContent-Length: 0\r\n\r\n"
					}
					if _, err := conn.Write([]byte(out)); err != nil {
						return
					}
				}
			}(conn)
		}
	}()
	return ln.Addr().String(), func() []hunt2F4Seen {
		mu.Lock()
		defer mu.Unlock()
		return append([]hunt2F4Seen(nil), all...)
	}, func() { ln.Close() }
}

func TestHunt2C11RedirectOfARequestWithAStreamedBody(t *testing.T) {
	const payload = "the payload of the request, given as a stream"

	cases := []struct {
		name  string
		build func(req *protocol.Request)
		check func(t *testing.T, s hunt2F4Seen)
	}{
		{
			name: "stream-of-known-length",
			build: func(req *protocol.Request) {
				req.SetBodyStream(strings.NewReader(payload), len(payload))
			},
			check: func(t *testing.T, s hunt2F4Seen) {
				if string(s.body) != payload {
					t.Errorf("%s received with body %q, the request was given the body %q", s.path, s.body, payload)
				}
			},
		},
		{
			name: "stream-of-unknown-length",
			build: func(req *protocol.Request) {
				req.SetBodyStream(io.MultiReader(strings.NewReader(payload)), -1)
			},
			check: func(t *testing.T, s hunt2F4Seen) {
				if string(s.body) != payload {
					t.Errorf("%s received with body %q, the request was given the body %q", s.path, s.body, payload)
				}
			},
		},
		{
			name: "multipart-readers",
			build: func(req *protocol.Request) {
				req.SetMultipartFormData(map[string]string{"note": payload})
				req.SetFileReader("upload", "upload.txt", strings.NewReader(payload))
			},
			check: func(t *testing.T, s hunt2F4Seen) {
				if s.field != payload || s.file != payload {
					t.Errorf("%s received with field note=%q and file upload=%q, the request was given %q for both", s.path, s.field, s.file, payload)
				}
			},
		},
	}
	for _, tc := range cases {
		t.Run(tc.name, func(t *testing.T) {
			addr, seen, stop := hunt2F4Server(t)
			defer stop()
			c, err := NewClient(WithDialTimeout(2 * time.Second))
			if err != nil {
				t.Fatal(err)
			}
			req := protocol.AcquireRequest()
			resp := protocol.AcquireResponse()
			defer protocol.ReleaseRequest(req)
			defer protocol.ReleaseResponse(resp)
			req.SetMethod("POST")
			req.SetRequestURI("http://" + addr + "/first")
			tc.build(req)

			err = c.DoRedirects(context.Background(), req, resp, 3)
			all := seen()
			t.Logf("DoRedirects: err=%v status=%d, the server received %d request(s)", err, resp.StatusCode(), len(all))
			if len(all) == 0 {
				t.Fatal("the server received nothing")
			}
			// A client that cannot replay the body may stop at the 307 (net/http does, it
			// returns the 307 response) or report an error. What it must not do is send a
			// request the caller never expressed: the same POST with another body.
			for _, s := range all {
				tc.check(t, s)
			}
		})
	}
}
