package client

// C11 hunt2 finding 1: the same Response object used for a HEAD request and then
// for a GET request: the GET comes back with an empty body, and the body that was
// left unread on the pooled connection is parsed as the next response.

import (
	"bufio"
	"context"
	"io"
	"net"
	"net/http"
	"strconv"
	"testing"
	"time"

	"github.com/cloudwego/hertz/pkg/protocol"
)

const hunt2F1Body = "{\"id\": 1, \"name\": \"first entry\"}\n"

// hunt2F1Server answers HEAD with the header block of the resource and every other
// method with the resource itself, on keep-alive connections.
func hunt2F1Server(t *testing.T) (addr string, stop func()) {
	ln, err := net.Listen("tcp", "127.0.0.1:0")
	if err != nil {
		t.Fatal(err)
	}
	head := "HTTP/1.1 200 OK\r\nContent-Type: application/json\r\nContent-Length: " + strconv.Itoa(len(hunt2F1Body)) + "\r\n\r\n"
	go func() {
		for {
			conn, err := ln.Accept()
			if err != nil {
				return
			}
			go func(conn net.Conn) {
				defer conn.Close()
				br := bufio.NewReader(conn)
				for {
					conn.SetReadDeadline(time.Now().Add(5 * time.Second)) //nolint:errcheck
					r, err := http.ReadRequest(br)
					if err != nil {
						return
					}
					io.Copy(io.Discard, r.Body) //nolint:errcheck
					out := head
					if r.Method != "HEAD" {
						out += hunt2F1Body
					}
					if _, err := conn.Write([]byte(out)); err != nil {
						return
					}
				}
			}(conn)
		}
	}()
	return ln.Addr().String(), func() { ln.Close() }
}

func TestHunt2C11HeadThenGetWithTheSameResponse(t *testing.T) {
	for _, stream := range []bool{false, true} {
		name := "buffered"
		if stream {
			name = "streaming"
		}
		t.Run(name, func(t *testing.T) {
			addr, stop := hunt2F1Server(t)
			defer stop()
			c, err := NewClient(WithResponseBodyStream(stream), WithDialTimeout(2*time.Second))
			if err != nil {
				t.Fatal(err)
			}
			req := protocol.AcquireRequest()
			resp := protocol.AcquireResponse()
			defer protocol.ReleaseRequest(req)
			defer protocol.ReleaseResponse(resp)

			for i, method := range []string{"HEAD", "GET", "GET"} {
				req.SetMethod(method)
				req.SetRequestURI("http://" + addr + "/item")
				if err := c.DoTimeout(context.Background(), req, resp, 5*time.Second); err != nil {
					t.Fatalf("exchange %d (%s): %v", i, method, err)
				}
				if resp.StatusCode() != 200 {
					t.Fatalf("exchange %d (%s): status %d, the server sent 200", i, method, resp.StatusCode())
				}
				body, err := resp.BodyE()
				if err != nil {
					t.Fatalf("exchange %d (%s): reading the body: %v", i, method, err)
				}
				want := hunt2F1Body
				if method == "HEAD" {
					want = ""
				}
				if string(body) != want {
					t.Fatalf("exchange %d (%s): body %q, the server sent %q", i, method, body, want)
				}
			}
		})
	}
}
