//go:build !windows

package netpoll

import (
	"bytes"
	"context"
	"net"
	"testing"
	"time"

	"github.com/cloudwego/hertz/pkg/common/config"
	"github.com/cloudwego/hertz/pkg/network"
)

// C13: "a slice returned by a peek stays unchanged until the next release".
//
// The server side of the netpoll transport (the default transport on linux)
// hands the handler a network.Conn. The handler peeks the whole (multi node)
// input, consumes a few bytes with Skip and peeks again - no Release, no Read
// in between. The first peeked slice must still hold the bytes it was
// returned with.
func TestHunt2C13NetpollPeekStableUntilRelease(t *testing.T) {
	const total = 200 * 1024
	sent := make([]byte, total)
	for i := range sent {
		sent[i] = byte(i*7 + i/251)
	}

	type result struct {
		err                          string
		first, firstLater, second    []byte
		firstAtReturn, secondAtReturn bool
	}
	resCh := make(chan result, 1)

	tr := NewTransporter(&config.Options{Addr: "127.0.0.1:0", Network: "tcp"})
	go tr.ListenAndServe(func(ctx context.Context, c interface{}) error { //nolint:errcheck
		conn := c.(network.Conn)
		var res result
		defer func() {
			select {
			case resCh <- res:
			default:
			}
		}()
		conn.SetReadTimeout(10 * time.Second) //nolint:errcheck

		p1, err := conn.Peek(total) // blocks until everything is buffered
		if err != nil {
			res.err = "first peek: " + err.Error()
			return nil
		}
		res.firstAtReturn = bytes.Equal(p1, sent)
		res.first = append([]byte(nil), p1...)

		if err = conn.Skip(3); err != nil {
			res.err = "skip: " + err.Error()
			return nil
		}
		p2, err := conn.Peek(total - 3)
		if err != nil {
			res.err = "second peek: " + err.Error()
			return nil
		}
		res.secondAtReturn = bytes.Equal(p2, sent[3:])
		res.second = append([]byte(nil), p2...)

		// no Release has happened: p1 must be what it was
		res.firstLater = append([]byte(nil), p1...)

		conn.Skip(total - 3) //nolint:errcheck
		conn.Release()       //nolint:errcheck
		return nil
	})
	defer tr.Close()

	var addr string
	for i := 0; i < 200; i++ {
		if ln := tr.(*transporter).Listener(); ln != nil {
			addr = ln.Addr().String()
			break
		}
		time.Sleep(10 * time.Millisecond)
	}
	if addr == "" {
		t.Fatal("transporter did not start")
	}

	cli, err := net.Dial("tcp", addr)
	if err != nil {
		t.Fatal(err)
	}
	defer cli.Close()
	if _, err = cli.Write(sent); err != nil {
		t.Fatal(err)
	}

	select {
	case res := <-resCh:
		if res.err != "" {
			t.Fatal(res.err)
		}
		if !res.firstAtReturn {
			t.Fatal("first peek did not return the sent bytes")
		}
		if !res.secondAtReturn {
			t.Fatal("second peek did not return the sent bytes")
		}
		if !bytes.Equal(res.firstLater, res.first) {
			i := 0
			for i < len(res.first) && res.first[i] == res.firstLater[i] {
				i++
			}
			t.Fatalf("the slice returned by Peek(%d) changed before any Release: "+
				"after Skip(3)+Peek(%d) byte %d is %#x, it was %#x when Peek returned "+
				"(the slice now holds the stream shifted by 3: %v)",
				total, total-3, i, res.firstLater[i], res.first[i],
				bytes.Equal(res.firstLater[:total-3], sent[3:]))
		}
	case <-time.After(20 * time.Second):
		t.Fatal("handler did not finish")
	}
}
