package server

import (
	"bytes"
	"context"
	"crypto/ecdsa"
	"crypto/elliptic"
	"crypto/rand"
	"crypto/tls"
	"crypto/x509"
	"crypto/x509/pkix"
	"io"
	"math/big"
	"net"
	"net/http"
	"strings"
	"testing"
	"time"

	"github.com/cloudwego/hertz/pkg/app"
	"github.com/cloudwego/hertz/pkg/protocol/http1/resp"
)

func hunt2SelfSigned(t *testing.T) tls.Certificate {
	key, err := ecdsa.GenerateKey(elliptic.P256(), rand.Reader)
	if err != nil {
		t.Fatal(err)
	}
	tmpl := &x509.Certificate{
		SerialNumber: big.NewInt(1),
		Subject:      pkix.Name{CommonName: "127.0.0.1"},
		NotBefore:    time.Now().Add(-time.Hour),
		NotAfter:     time.Now().Add(time.Hour),
		IPAddresses:  []net.IP{net.ParseIP("127.0.0.1")},
		KeyUsage:     x509.KeyUsageDigitalSignature,
		ExtKeyUsage:  []x509.ExtKeyUsage{x509.ExtKeyUsageServerAuth},
	}
	der, err := x509.CreateCertificate(rand.Reader, tmpl, tmpl, &key.PublicKey, key)
	if err != nil {
		t.Fatal(err)
	}
	return tls.Certificate{Certificate: [][]byte{der}, PrivateKey: key}
}

// C13, writer half: whatever is written to the buffered connection reaches the
// peer, complete and in order, by the time it is flushed.
//
// A TLS server (a connection whose net.Conn has no ReadFrom) answers two
// requests on one keep-alive connection:
//  1. a chunked response written through the chunked body writer whose header
//     block is a bit above 8 KiB (one 9000 byte header value),
//  2. an ordinary streamed response (SetBodyStream) of 100 KiB.
// The client must receive the 100 KiB of the second response.
func TestHunt2C13StreamedBodyAfterLargeChunkedHeaderOnTLS(t *testing.T) {
	ln, err := net.Listen("tcp", "127.0.0.1:0")
	if err != nil {
		t.Fatal(err)
	}
	addr := ln.Addr().String()
	ln.Close()

	cert := hunt2SelfSigned(t)
	h := New(
		WithHostPorts(addr),
		WithTLS(&tls.Config{Certificates: []tls.Certificate{cert}}),
		WithExitWaitTime(10*time.Millisecond),
	)

	big9000 := strings.Repeat("x", 9000)
	streamed := make([]byte, 100*1024)
	for i := range streamed {
		streamed[i] = byte('a' + i%23)
	}

	h.GET("/chunked", func(c context.Context, ctx *app.RequestContext) {
		ctx.Response.Header.Set("X-Big", big9000)
		ctx.Response.HijackWriter(resp.NewChunkedBodyWriter(&ctx.Response, ctx.GetWriter()))
		ctx.Write([]byte("hello")) //nolint:errcheck
		ctx.Flush()                //nolint:errcheck
	})
	h.GET("/stream", func(c context.Context, ctx *app.RequestContext) {
		ctx.SetBodyStream(bytes.NewReader(streamed), len(streamed))
	})
	go h.Spin()
	defer h.Shutdown(context.Background()) //nolint:errcheck
	for i := 0; i < 200; i++ {
		c, err := net.Dial("tcp", addr)
		if err == nil {
			c.Close()
			break
		}
		time.Sleep(10 * time.Millisecond)
	}

	newConns := 0
	tr := &http.Transport{
		TLSClientConfig: &tls.Config{InsecureSkipVerify: true},
		MaxConnsPerHost: 1,
		DialContext: func(ctx context.Context, network, a string) (net.Conn, error) {
			newConns++
			return (&net.Dialer{}).DialContext(ctx, network, a)
		},
	}
	defer tr.CloseIdleConnections()
	cli := &http.Client{Transport: tr, Timeout: 10 * time.Second}

	get := func(path string) (*http.Response, []byte, error) {
		r, err := cli.Get("https://" + addr + path)
		if err != nil {
			return nil, nil, err
		}
		defer r.Body.Close()
		b, err := io.ReadAll(r.Body)
		return r, b, err
	}

	// the streamed response alone is fine
	if _, b, err := get("/stream"); err != nil || !bytes.Equal(b, streamed) {
		t.Fatalf("precondition: streamed response on a fresh connection: err=%v, %d bytes", err, len(b))
	}

	r1, b1, err := get("/chunked")
	if err != nil {
		t.Fatalf("chunked response: %v", err)
	}
	if string(b1) != "hello" || r1.Header.Get("X-Big") != big9000 {
		t.Fatalf("chunked response: body %q, X-Big of %d bytes", b1, len(r1.Header.Get("X-Big")))
	}

	_, b2, err := get("/stream")
	if newConns != 1 {
		t.Fatalf("test setup: expected the three requests on one connection, %d were dialed", newConns)
	}
	if err != nil || !bytes.Equal(b2, streamed) {
		t.Fatalf("streamed response after the chunked one on the same TLS connection: "+
			"client received %d of %d bytes, err=%v", len(b2), len(streamed), err)
	}
}
