package binding

import (
	"testing"
)

// C20 finding 4: '+' is the only arithmetic operator that does not treat an
// absent number (nil pointer field, element index out of range) like the other
// operators do. With the absent operand on the LEFT, '+' yields nil and the
// right operand is dropped; with the same operand on the RIGHT it counts as 0
// (or ''), as it does on either side of - * / %. So a+b and b+a give different
// verdicts for the same value, which no reading of "float64 arithmetic" allows.

func h2c20f4Accepts(t *testing.T, v interface{}) bool {
	t.Helper()
	defer func() {
		if x := recover(); x != nil {
			t.Fatalf("panic: %v", x)
		}
	}()
	return Validate(v) == nil
}

func TestHunt2C20F4_AdditionIsNotCommutativeForNilOperand(t *testing.T) {
	type numL struct {
		P *int `vd:"$+1==1"`
	}
	type numR struct {
		P *int `vd:"1+$==1"`
	}
	zero := 0
	// control: with a value both spellings agree
	if l, r := h2c20f4Accepts(t, &numL{P: &zero}), h2c20f4Accepts(t, &numR{P: &zero}); !l || !r {
		t.Fatalf("P=&0: $+1==1 -> %v, 1+$==1 -> %v, want both accepted", l, r)
	}
	one := 1
	if l, r := h2c20f4Accepts(t, &numL{P: &one}), h2c20f4Accepts(t, &numR{P: &one}); l || r {
		t.Fatalf("P=&1: $+1==1 -> %v, 1+$==1 -> %v, want both rejected", l, r)
	}
	// nil pointer
	if l, r := h2c20f4Accepts(t, &numL{}), h2c20f4Accepts(t, &numR{}); l != r {
		t.Errorf("P=nil: vd:\"$+1==1\" accepted=%v but vd:\"1+$==1\" accepted=%v; a+b and b+a must agree", l, r)
	}

	// the same through a sum of two fields
	type sumAB struct {
		A *int `vd:"(A)$+(B)$>0"`
		B int
	}
	type sumBA struct {
		A *int `vd:"(B)$+(A)$>0"`
		B int
	}
	if l, r := h2c20f4Accepts(t, &sumAB{B: 5}), h2c20f4Accepts(t, &sumBA{B: 5}); l != r {
		t.Errorf("A=nil,B=5: vd:\"(A)$+(B)$>0\" accepted=%v but vd:\"(B)$+(A)$>0\" accepted=%v", l, r)
	}

	// element index out of range on an empty slice
	type idxL struct {
		L []int `vd:"$[0]+1==1"`
	}
	type idxR struct {
		L []int `vd:"1+$[0]==1"`
	}
	if l, r := h2c20f4Accepts(t, &idxL{L: []int{}}), h2c20f4Accepts(t, &idxR{L: []int{}}); l != r {
		t.Errorf("L=[]: vd:\"$[0]+1==1\" accepted=%v but vd:\"1+$[0]==1\" accepted=%v", l, r)
	}

	// string splicing
	type strL struct {
		S *string `vd:"$+'a'=='a'"`
	}
	type strR struct {
		S *string `vd:"'a'+$=='a'"`
	}
	// (reported only: how an absent string is spliced is a matter of the repair)
	if l, r := h2c20f4Accepts(t, &strL{}), h2c20f4Accepts(t, &strR{}); l != r {
		t.Logf("S=nil: vd:\"$+'a'=='a'\" accepted=%v but vd:\"'a'+$=='a'\" accepted=%v", l, r)
	}
}
