package binding

import (
	"testing"
)

// C20 finding 3: the tag splitter keeps a ';' that stands inside a string
// literal - one such literal works - but its bookkeeping of open quotes counts
// *segments that contain a quote* instead of quotes, so an expression with two
// string literals that contain ';' (or two ';' spread over more literals) is
// refused as "unclosed single quote" for every field value.

func TestHunt2C20F3_TwoStringLiteralsWithSemicolon(t *testing.T) {
	// control: ';' inside a string literal is supported
	type one struct {
		S string `vd:"$=='a;b'"`
	}
	if err := Validate(&one{S: "a;b"}); err != nil {
		t.Fatalf("control $=='a;b' with S=\"a;b\": %v", err)
	}
	if err := Validate(&one{S: "x"}); err == nil {
		t.Fatalf("control $=='a;b' with S=\"x\": accepted")
	}

	type enum struct {
		S string `vd:"in($,'a;','b;')"`
	}
	if err := Validate(&enum{S: "a;"}); err != nil {
		t.Errorf("in($,'a;','b;') with S=\"a;\": expression is true, got %v", err)
	}
	if err := Validate(&enum{S: "b;"}); err != nil {
		t.Errorf("in($,'a;','b;') with S=\"b;\": expression is true, got %v", err)
	}

	type ne struct {
		S string `vd:"$!='a;' && $!=';b'"`
	}
	if err := Validate(&ne{S: "ok"}); err != nil {
		t.Errorf("$!='a;' && $!=';b' with S=\"ok\": expression is true, got %v", err)
	}

	type cat struct {
		S string `vd:"$+';'=='a;' || $==';'"`
	}
	if err := Validate(&cat{S: "a"}); err != nil {
		t.Errorf("$+';'=='a;' || $==';' with S=\"a\": expression is true, got %v", err)
	}
	if err := Validate(&cat{S: ";"}); err != nil {
		t.Errorf("$+';'=='a;' || $==';' with S=\";\": expression is true, got %v", err)
	}
}
