package binding

import (
	"fmt"
	"testing"
)

// C20 finding 1: a rule that reads a field of a pointer-typed struct member
// through a path selector, (Addr.City)$, panics as soon as the struct that
// carries the rule is itself absent (nil pointer parent, nil slice element).

type h2c20f1Addr struct{ City string }

type h2c20f1User struct {
	Addr *h2c20f1Addr
	Name string `vd:"len($)>0 || len((Addr.City)$)>0"`
}

type h2c20f1Req struct {
	User *h2c20f1User
}

// same shape, but the rule only reads its own field: the reference behaviour
type h2c20f1PlainUser struct {
	Addr *h2c20f1Addr
	Name string `vd:"len($)>0"`
}

type h2c20f1PlainReq struct {
	User *h2c20f1PlainUser
}

func h2c20f1Validate(v interface{}) (err error, panicked interface{}) {
	defer func() {
		if x := recover(); x != nil {
			panicked = x
		}
	}()
	return Validate(v), nil
}

func TestHunt2C20F1_PathSelectorUnderNilParentPanics(t *testing.T) {
	// the rule works as documented while the parent is there
	if err, p := h2c20f1Validate(&h2c20f1Req{User: &h2c20f1User{Name: "n"}}); p != nil || err != nil {
		t.Fatalf("Name set: want accept, got err=%v panic=%v", err, p)
	}
	if err, p := h2c20f1Validate(&h2c20f1Req{User: &h2c20f1User{Addr: &h2c20f1Addr{City: "c"}}}); p != nil || err != nil {
		t.Fatalf("Addr.City set: want accept, got err=%v panic=%v", err, p)
	}
	if err, p := h2c20f1Validate(&h2c20f1Req{User: &h2c20f1User{}}); p != nil || err == nil {
		t.Fatalf("nothing set (Addr nil): want reject, got err=%v panic=%v", err, p)
	}

	// reference: rules of an absent (nil) parent are skipped
	if err, p := h2c20f1Validate(&h2c20f1PlainReq{}); p != nil || err != nil {
		t.Fatalf("reference shape with User == nil: want accept, got err=%v panic=%v", err, p)
	}

	// the defect: same value, the rule merely also reads (Addr.City)$
	err, p := h2c20f1Validate(&h2c20f1Req{})
	if p != nil {
		t.Errorf("Validate(&Req{User: nil}) panicked: %v", p)
	} else if err != nil {
		t.Errorf("Validate(&Req{User: nil}) = %v, want nil (rules of a nil parent are skipped)", err)
	}

	// other ways to reach the rule with an absent carrier: they may accept or
	// reject, but evaluation must not panic
	for name, v := range map[string]interface{}{
		"[]*User{nil}":          []*h2c20f1User{nil},
		"map[string]*User{nil}": map[string]*h2c20f1User{"k": nil},
		"struct{L []*User}":     &struct{ L []*h2c20f1User }{L: []*h2c20f1User{nil}},
	} {
		if _, p := h2c20f1Validate(v); p != nil {
			t.Errorf("Validate(%s) panicked: %v", name, fmt.Sprint(p))
		}
	}
}
