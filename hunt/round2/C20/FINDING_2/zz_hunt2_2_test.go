package binding

import (
	"testing"

	"github.com/cloudwego/hertz/pkg/protocol"
)

// C20 finding 2: BindAndValidate decides once per type whether validation is
// needed at all, by looking for the validate tag on the fields the *decoder*
// walks (exported fields, nested structs and pointers to them). Rules that live
// in the element type of a slice or map - which the validation engine does
// evaluate - are not seen, so the whole validation step is skipped and a value
// whose expression is false is accepted.

type h2c20f2Item struct {
	N int `json:"n" vd:"$>0"`
}

type h2c20f2SliceReq struct {
	Items []h2c20f2Item `json:"items"`
}

type h2c20f2MapReq struct {
	M map[string]*h2c20f2Item `json:"m"`
}

// control: one more rule on a top-level field switches validation on
type h2c20f2ControlReq struct {
	Items []h2c20f2Item `json:"items"`
	X     int           `json:"x" vd:"$>=0"`
}

func h2c20f2JSON(body string) *protocol.Request {
	req := protocol.NewRequest("POST", "http://example.com/", nil)
	req.SetBody([]byte(body))
	req.Header.SetContentTypeBytes([]byte("application/json"))
	req.Header.SetContentLength(len(body))
	return req
}

func TestHunt2C20F2_BindAndValidateSkipsRulesInSliceAndMapElements(t *testing.T) {
	// control: the engine reaches the element rule through BindAndValidate
	var c h2c20f2ControlReq
	if err := BindAndValidate(h2c20f2JSON(`{"items":[{"n":-1}]}`), &c, nil); err == nil {
		t.Fatalf("control: items[0].n == -1 violates $>0, want an error")
	}
	var cOK h2c20f2ControlReq
	if err := BindAndValidate(h2c20f2JSON(`{"items":[{"n":1}]}`), &cOK, nil); err != nil {
		t.Fatalf("control: items[0].n == 1 satisfies $>0, got %v", err)
	}

	var s h2c20f2SliceReq
	err := BindAndValidate(h2c20f2JSON(`{"items":[{"n":-1}]}`), &s, nil)
	if len(s.Items) != 1 || s.Items[0].N != -1 {
		t.Fatalf("binding did not fill the value: %+v", s)
	}
	if verr := Validate(&s); verr == nil {
		t.Fatalf("Validate(&s) accepted %+v", s)
	}
	if err == nil {
		t.Errorf("BindAndValidate accepted %+v although Items[0].N violates vd:\"$>0\" (Validate on the same value: %v)", s, Validate(&s))
	}

	var m h2c20f2MapReq
	err = BindAndValidate(h2c20f2JSON(`{"m":{"k":{"n":-1}}}`), &m, nil)
	if m.M["k"] == nil || m.M["k"].N != -1 {
		t.Fatalf("binding did not fill the value: %+v", m)
	}
	if err == nil {
		t.Errorf("BindAndValidate accepted a map element with N == -1 although it violates vd:\"$>0\" (Validate on the same value: %v)", Validate(&m))
	}
}
