package route_test

import (
	"context"
	"fmt"
	"testing"

	"github.com/cloudwego/hertz/pkg/app"
	"github.com/cloudwego/hertz/pkg/common/config"
	"github.com/cloudwego/hertz/pkg/common/ut"
	"github.com/cloudwego/hertz/pkg/route"
)

// C06: a named parameter stands for one non-empty piece of a segment. The router
// itself refuses the empty value when the parameter is the last thing in the path
// ("/files/v" does not match "/files/v:ver", "/user/" does not match "/user/:name"),
// but accepts it as soon as a '/' follows: the route handler then runs with an empty
// parameter for a path that no pattern matches, and it even wins over a route that
// does match.

type hunt2Hit struct {
	route, fullPath, params string
}

func hunt2Engine(opt *config.Options, hit *hunt2Hit, patterns ...string) *route.Engine {
	opt.DisablePrintRoute = true
	e := route.NewEngine(opt)
	for _, p := range patterns {
		p := p
		e.GET(p, func(c context.Context, ctx *app.RequestContext) {
			hit.route = p
			hit.fullPath = ctx.FullPath()
			hit.params = fmt.Sprintf("%q", ctx.Params)
			ctx.SetStatusCode(200)
		})
	}
	return e
}

func hunt2Get(e *route.Engine, hit *hunt2Hit, path string) int {
	*hit = hunt2Hit{}
	w := ut.PerformRequest(e, "GET", path, nil, ut.Header{Key: "Host", Value: "example.com"})
	return w.Result().StatusCode()
}

// default options: a parameter that follows static text inside a segment
func TestHunt2EmptyNamedParamMidSegment(t *testing.T) {
	var hit hunt2Hit
	e := hunt2Engine(config.NewOptions(nil), &hit, "/files/v:ver", "/files/v:ver/info")

	// control: the same empty value at the end of the path is (rightly) refused
	if code := hunt2Get(e, &hit, "/files/v"); hit.route != "" || code != 404 {
		t.Fatalf("GET /files/v: ran %q (status %d); want no route handler", hit.route, code)
	}
	// control: a non-empty value matches
	if hunt2Get(e, &hit, "/files/v12/info"); hit.route != "/files/v:ver/info" {
		t.Fatalf("GET /files/v12/info: ran %q", hit.route)
	}
	// the empty value followed by '/'
	if code := hunt2Get(e, &hit, "/files/v/info"); hit.route != "" {
		t.Errorf("GET /files/v/info: handler of %q ran with params %s (status %d); no pattern matches this path, no route handler may run",
			hit.route, hit.params, code)
	}
}

// default options: the empty match also takes the request away from the route that matches
func TestHunt2EmptyNamedParamStealsRoute(t *testing.T) {
	for _, order := range [][]string{{"/ab:y/c", "/:x/c"}, {"/:x/c", "/ab:y/c"}} {
		var hit hunt2Hit
		e := hunt2Engine(config.NewOptions(nil), &hit, order...)
		hunt2Get(e, &hit, "/ab/c")
		// "/ab:y/c" cannot complete ("y" would be empty), so the search has to back out
		// of the static text "ab" and take "/:x/c" with x = "ab"
		if hit.route != "/:x/c" || hit.params != `[{"x" "ab"}]` {
			t.Errorf("routes %v, GET /ab/c: ran %q full path %q params %s; want \"/:x/c\" with x=\"ab\"",
				order, hit.route, hit.fullPath, hit.params)
		}
	}
}

// UseRawPath: the request path keeps its empty segments, so a whole-segment parameter is hit as well
func TestHunt2EmptyNamedParamRawPath(t *testing.T) {
	opt := config.NewOptions(nil)
	opt.UseRawPath = true
	var hit hunt2Hit
	e := hunt2Engine(opt, &hit, "/user/:name", "/user/:name/profile")

	if code := hunt2Get(e, &hit, "/user/"); hit.route != "" {
		t.Fatalf("GET /user/: ran %q (status %d)", hit.route, code)
	}
	if code := hunt2Get(e, &hit, "/user//profile"); hit.route != "" {
		t.Errorf("GET /user//profile: handler of %q ran with params %s (status %d); \"/user/\" does not match \"/user/:name\", so this path matches nothing",
			hit.route, hit.params, code)
	}
}
