package route_test

import (
	"context"
	"fmt"
	"strings"
	"testing"

	"github.com/cloudwego/hertz/pkg/app"
	"github.com/cloudwego/hertz/pkg/common/config"
	"github.com/cloudwego/hertz/pkg/common/test/mock"
	"github.com/cloudwego/hertz/pkg/route"
)

// C06: a request whose target is not "/" must not run the handler of the route "/".
//
// URI.parse gives up silently when the request target contains a control byte and
// leaves the URI empty; URI.Path() of an empty URI is "/". An HTTP/1.1 request is
// then refused by accident (the Host was lost too, "missing required Host header"),
// an HTTP/1.0 request is dispatched as if the client had asked for "/".

type hunt2CtlHit struct {
	route, fullPath, params, target string
}

func hunt2Serve(t *testing.T, opt *config.Options, hit *hunt2CtlHit, raw string, patterns ...string) (statusLine string) {
	opt.DisablePrintRoute = true
	e := route.NewEngine(opt)
	if err := e.Init(); err != nil {
		t.Fatal(err)
	}
	if err := e.MarkAsRunning(); err != nil {
		t.Fatal(err)
	}
	for _, p := range patterns {
		p := p
		e.GET(p, func(c context.Context, ctx *app.RequestContext) {
			hit.route = p
			hit.fullPath = ctx.FullPath()
			hit.params = fmt.Sprintf("%q", ctx.Params)
			hit.target = string(ctx.Request.Header.RequestURI())
			ctx.String(200, "handler of %s", p)
		})
	}
	*hit = hunt2CtlHit{}
	conn := mock.NewConn(raw)
	_ = e.Serve(context.Background(), conn) // ends with the connection
	rec := conn.WriterRecorder()
	out, _ := rec.ReadBinary(rec.WroteLen())
	statusLine = string(out)
	if i := strings.Index(statusLine, "\r\n"); i >= 0 {
		statusLine = statusLine[:i]
	}
	return statusLine
}

func TestHunt2ControlByteTargetRunsRootHandler(t *testing.T) {
	for _, target := range []string{"/admin\x01", "/a\tb/c", "/x\x7f"} {
		raw := "GET " + target + " HTTP/1.0\r\nHost: example.com\r\n\r\n"

		// only "/" is registered: nothing matches the target, no route handler may run
		var hit hunt2CtlHit
		status := hunt2Serve(t, config.NewOptions(nil), &hit, raw, "/")
		if hit.route != "" {
			t.Errorf("request target %q, routes [/]: handler of %q ran (request target seen by it: %q), answer %q; no pattern matches, no route handler may run",
				target, hit.route, hit.target, status)
		}

		// with a catch-all the target does match "/*rest", but then with rest = the target
		// minus the leading slash, not the static route "/"
		hit = hunt2CtlHit{}
		status = hunt2Serve(t, config.NewOptions(nil), &hit, raw, "/", "/*rest")
		if hit.route == "/" {
			t.Errorf("request target %q, routes [/ /*rest]: handler of \"/\" ran, answer %q; want \"/*rest\" with rest=%q (or a 400)",
				target, status, target[1:])
		}
	}
}

// control: the percent-encoded spelling of the same bytes is routed by its path
func TestHunt2ControlByteEscapedControl(t *testing.T) {
	var hit hunt2CtlHit
	status := hunt2Serve(t, config.NewOptions(nil), &hit, "GET /admin%01 HTTP/1.0\r\nHost: example.com\r\n\r\n", "/")
	if hit.route != "" || !strings.Contains(status, "404") {
		t.Fatalf("GET /admin%%01: ran %q, answer %q", hit.route, status)
	}
}
