package protocol

import (
	"bytes"
	"testing"
)

// C17: a URI assembled through the setters must parse back, from its full string
// form, to the same scheme, host, path, query and fragment.
//
// With DisablePathNormalizing the formatter writes PathOriginal verbatim. Commit
// d0b8469 added the missing slash for an EMPTY path only; a non-empty path that
// does not start with a slash (SetPath("a"), or a request target "a?q=1" parsed
// next to a Host header) is still glued onto the authority:
// "http://example.coma?q=1", "http://example.com@evil.test/x".
func TestHunt2_1_DisablePathNormalizingRelativePathRoundTrip(t *testing.T) {
	type comps struct{ scheme, host, path, query, hash string }
	get := func(u *URI) comps {
		return comps{string(u.Scheme()), string(u.Host()), string(u.Path()), string(u.QueryString()), string(u.Hash())}
	}

	for _, p := range []string{"a", "a/b", "index.html", ":8080/x", ".evil.test/x", "@evil.test/x"} {
		var u URI
		u.DisablePathNormalizing = true
		u.SetScheme("http")
		u.SetHost("example.com")
		u.SetPath(p)
		u.SetQueryString("q=1")
		u.SetHash("frag")

		want := get(&u) // Path() is "/"+p: the setter itself adds the leading slash
		full := u.String()

		var v URI
		v.Parse(nil, []byte(full))
		if got := get(&v); got != want {
			t.Errorf("SetPath(%q) with DisablePathNormalizing: full form %q parses to %+v, the URI holds %+v", p, full, got, want)
		}
		if ru := u.RequestURI(); !bytes.HasPrefix(ru, []byte("/")) {
			t.Errorf("SetPath(%q) with DisablePathNormalizing: request target %q does not start with a slash", p, ru)
		}
	}

	// the same state reached through Parse: a Host header plus a relative request target
	// (what Request.URI() does for req.Header.SetHost + req.SetRequestURI("a?q=1")),
	// then the client option WithDisablePathNormalizing sets the flag.
	var u URI
	u.Parse([]byte("example.com"), []byte("a?q=1"))
	u.DisablePathNormalizing = true
	want := get(&u)
	full := u.String()
	var v URI
	v.Parse(nil, []byte(full))
	if got := get(&v); got != want {
		t.Errorf("Parse(host, %q) with DisablePathNormalizing: full form %q parses to %+v, the URI holds %+v", "a?q=1", full, got, want)
	}
}
