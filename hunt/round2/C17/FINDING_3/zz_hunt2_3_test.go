package protocol

import (
	"testing"
)

// C17: a URI assembled through the setters must parse back, from its full string
// form, to the same scheme, host, path, query and fragment, and formatting that
// again is a fixed point.
//
// URI.Update / UpdateBytes with a query-only reference ("?page=2#top", a legal
// relative reference: RFC 3986 4.2, and what a "Location: ?page=2#top" header
// carries) takes everything after the '?' as the query string, fragment included.
// The URI then holds query "page=2#top" next to the OLD fragment, its string form
// has two '#', and parsing that string gives another query and another fragment.
// Every other kind of reference ("/p?page=2#top", "p?page=2#top", "#top") is split
// correctly.
func TestHunt2_3_UpdateQueryOnlyReferenceWithFragment(t *testing.T) {
	type comps struct{ scheme, host, path, query, hash string }
	get := func(u *URI) comps {
		return comps{string(u.Scheme()), string(u.Host()), string(u.Path()), string(u.QueryString()), string(u.Hash())}
	}

	for _, base := range []string{"http://example.com/a/b?x=1#old", "http://example.com/a/b?x=1"} {
		var u URI
		u.Parse(nil, []byte(base))
		u.Update("?page=2#top")

		// the round trip the property asks for
		full := u.String()
		var v URI
		v.Parse(nil, []byte(full))
		if got, want := get(&v), get(&u); got != want {
			t.Errorf("base %q, Update(%q): the URI holds %+v, its full form %q parses to %+v", base, "?page=2#top", want, full, got)
		}
		if again := v.String(); again != full {
			t.Errorf("base %q: full form %q is not a fixed point: %q", base, full, again)
		}

		// and what the reference means
		if q := string(u.QueryString()); q != "page=2" {
			t.Errorf("base %q, Update(%q): query %q, want %q", base, "?page=2#top", q, "page=2")
		}
		if h := string(u.Hash()); h != "top" {
			t.Errorf("base %q, Update(%q): fragment %q, want %q", base, "?page=2#top", h, "top")
		}
		if p := string(u.QueryArgs().Peek("page")); p != "2" {
			t.Errorf("base %q, Update(%q): query argument page=%q, want %q", base, "?page=2#top", p, "2")
		}
		// the argument list is the current query once it has been looked at: the fragment
		// is now percent-encoded into the value of the last argument
		if s, want := u.String(), "http://example.com/a/b?page=2#top"; s != want {
			t.Errorf("base %q, Update(%q), QueryArgs(): full form %q, want %q", base, "?page=2#top", s, want)
		}
	}

	// the same reference with a path in front of it is handled
	var u URI
	u.Parse(nil, []byte("http://example.com/a/b?x=1#old"))
	u.Update("b?page=2#top")
	if got, want := get(&u), (comps{"http", "example.com", "/a/b", "page=2", "top"}); got != want {
		t.Fatalf("Update(%q): %+v, want %+v", "b?page=2#top", got, want)
	}
}
