package protocol_test

import (
	"testing"

	"github.com/cloudwego/hertz/pkg/common/test/mock"
	"github.com/cloudwego/hertz/pkg/protocol"
	"github.com/cloudwego/hertz/pkg/protocol/http1/resp"
)

// C17: for every response cookie, parsing its string form returns the same key,
// value and attributes.
//
// A response cookie without a name is a documented case (RequestContext.SetCookie,
// example 3: `Set-Cookie: hertz; max-age=10; domain=localhost; path=/`).
// Cookie.ParseBytes reads such a string as key "" / value "hertz". The response
// header, however, files every received Set-Cookie under getCookieKey(value), and
// getCookieKey looks for the first '=' in the WHOLE string, not in the first
// ';'-separated part: the cookie is filed under "hertz; max-age", so that it is
// found neither under the key it was set with nor under any key the cookie codec
// ever reports.
func TestHunt2_4_NamelessResponseCookieKey(t *testing.T) {
	var c protocol.Cookie
	c.SetValue("hertz")
	c.SetMaxAge(10)
	c.SetDomain("localhost")
	c.SetPath("/")

	// the cookie codec itself round-trips
	var back protocol.Cookie
	if err := back.Parse(c.String()); err != nil {
		t.Fatal(err)
	}
	if string(back.Key()) != "" || string(back.Value()) != "hertz" || back.MaxAge() != 10 {
		t.Fatalf("codec: %q parsed to key %q value %q max-age %d", c.String(), back.Key(), back.Value(), back.MaxAge())
	}

	var sent protocol.Response
	sent.Header.SetCookie(&c)
	sent.Header.SetContentLength(0)

	// on the sending side the cookie is found under its (empty) key
	var probe protocol.Cookie
	if !sent.Header.Cookie(&probe) || string(probe.Value()) != "hertz" {
		t.Fatalf("sending side: cookie not found under its own key")
	}

	wire := string(sent.Header.Header())
	var got protocol.Response
	if err := resp.ReadHeaders(&got, mock.NewZeroCopyReader(wire)); err != nil {
		t.Fatalf("reading %q: %v", wire, err)
	}

	var keys []string
	got.Header.VisitAllCookie(func(k, v []byte) {
		keys = append(keys, string(k))
		var pc protocol.Cookie
		if err := pc.ParseBytes(v); err != nil {
			t.Errorf("received cookie %q does not parse: %v", v, err)
			return
		}
		if string(pc.Key()) != string(k) {
			t.Errorf("received header files the cookie %q under key %q, parsing the same string gives key %q", v, k, pc.Key())
		}
	})
	if len(keys) != 1 {
		t.Fatalf("received %d cookies (%q) from %q", len(keys), keys, wire)
	}

	var rc protocol.Cookie // key ""
	if !got.Header.Cookie(&rc) {
		t.Errorf("received header %q: the cookie set with key %q is not found under that key (filed under %q)", wire, "", keys)
	} else if string(rc.Value()) != "hertz" || rc.MaxAge() != 10 || string(rc.Path()) != "/" || string(rc.Domain()) != "localhost" {
		t.Errorf("received cookie: value %q max-age %d path %q domain %q", rc.Value(), rc.MaxAge(), rc.Path(), rc.Domain())
	}
}
