package protocol

import (
	"testing"
)

// C17: for every response cookie, parsing its string form returns the same key,
// value and attributes.
//
// Cookie.SetPath runs the path through normalizePath, which percent-DECODES it,
// and Cookie.AppendBytes then writes the decoded bytes verbatim. A path in which
// the caller has correctly escaped the bytes that are special inside Set-Cookie
// ("%3B" for ';', "%20" for a space at the end) is therefore written with the raw
// byte: the path is cut at the ';' and whatever follows is read as further
// attributes of the cookie.
func TestHunt2_2_CookieSetPathDecodesEscapes(t *testing.T) {
	for _, p := range []string{
		"/a%3Bb",                               // path cut at ';'
		"/a%3B%20HttpOnly",                     // ... and an attribute appears that was never set
		"/a%3B%20Domain=evil.test",             // ... or a Domain
		"/docs/my%20file%20",                   // trailing escaped space is lost
		"/x%3B%20SameSite=None%3B%20Max-Age=9", // several
	} {
		var c Cookie
		c.SetKey("k")
		c.SetValue("v")
		c.SetPath(p)
		s := c.String()

		var c2 Cookie
		if err := c2.Parse(s); err != nil {
			t.Errorf("SetPath(%q): %q does not parse: %v", p, s, err)
			continue
		}
		if string(c2.Path()) != string(c.Path()) {
			t.Errorf("SetPath(%q): cookie holds path %q, its string form %q parses to path %q", p, c.Path(), s, c2.Path())
		}
		if c2.HTTPOnly() != c.HTTPOnly() {
			t.Errorf("SetPath(%q): HttpOnly %v -> %v through %q", p, c.HTTPOnly(), c2.HTTPOnly(), s)
		}
		if string(c2.Domain()) != string(c.Domain()) {
			t.Errorf("SetPath(%q): Domain %q -> %q through %q", p, c.Domain(), c2.Domain(), s)
		}
		if c2.SameSite() != c.SameSite() || c2.MaxAge() != c.MaxAge() || c2.Secure() != c.Secure() {
			t.Errorf("SetPath(%q): SameSite/MaxAge/Secure %v/%v/%v -> %v/%v/%v through %q", p,
				c.SameSite(), c.MaxAge(), c.Secure(), c2.SameSite(), c2.MaxAge(), c2.Secure(), s)
		}
		if string(c2.Key()) != "k" || string(c2.Value()) != "v" {
			t.Errorf("SetPath(%q): key/value %q=%q through %q", p, c2.Key(), c2.Value(), s)
		}
	}
}
