package server_test

// C09 finding 4 (run with -race): server.WithSenseClientDisconnection(true), standard
// transport. For every request Serve starts a goroutine that blocks in conn.Peek(1)
// (DetectConnectionClose) and joins it again with AbortBlockingRead - but only on the
// way that writes the response successfully. When writing the response fails (the
// client went away while a stream was being sent, a body stream shorter than announced,
// a panicking stream...), Serve returns through its deferred block, which releases the
// connection's read buffer (zr.Release: the nodes are reset and their memory goes back
// to the shared pool) and recycles the request context while that goroutine is still
// inside Peek/fill on the very same buffer.

import (
	"bufio"
	"context"
	"net"
	"net/http"
	"strings"
	"testing"
	"time"

	"github.com/cloudwego/hertz/pkg/app"
	"github.com/cloudwego/hertz/pkg/app/server"
	"github.com/cloudwego/hertz/pkg/common/hlog"
	"github.com/cloudwego/hertz/pkg/network/standard"
)

func TestHunt2C09ServeMustJoinDisconnectDetectorBeforeReleasing(t *testing.T) {
	hlog.SetLevel(hlog.LevelFatal)
	ln, err := net.Listen("tcp", "127.0.0.1:0")
	if err != nil {
		t.Fatal(err)
	}
	addr := ln.Addr().String()
	ln.Close()

	h := server.New(
		server.WithHostPorts(addr),
		server.WithTransport(standard.NewTransporter),
		server.WithSenseClientDisconnection(true),
		server.WithDisablePrintRoute(true),
		server.WithExitWaitTime(10*time.Millisecond),
	)
	h.GET("/short", func(c context.Context, ctx *app.RequestContext) {
		// the stream ends before the announced length: writing the response fails
		ctx.SetBodyStream(strings.NewReader("abc"), 10)
	})
	go h.Spin()
	defer h.Shutdown(context.Background()) //nolint:errcheck

	// The detector goroutine is started just before the handler runs; with a quick handler
	// it frequently gets to run only when Serve is already on its way out. A few hundred
	// connections make the race detector see the two sides several times per run.
	for i := 0; i < 1000; i++ {
		var c net.Conn
		for j := 0; j < 400; j++ {
			if c, err = net.Dial("tcp", addr); err == nil {
				break
			}
			time.Sleep(5 * time.Millisecond)
		}
		if err != nil {
			t.Fatal(err)
		}
		c.SetDeadline(time.Now().Add(5 * time.Second)) //nolint:errcheck
		if _, err := c.Write([]byte("GET /short HTTP/1.1\r\nHost: x\r\n\r\n")); err != nil {
			t.Fatal(err)
		}
		// the response is cut short and the connection closed, whatever arrives is fine
		resp, err := http.ReadResponse(bufio.NewReader(c), nil)
		if err == nil {
			buf := make([]byte, 64)
			for {
				if _, err := resp.Body.Read(buf); err != nil {
					break
				}
			}
		}
		c.Close()
	}
	time.Sleep(50 * time.Millisecond)
	// the assertion of this test is the race detector's: no DATA RACE between
	// statefulConn.DetectConnectionClose (Conn.Peek/fill) and Conn.Release called from
	// the deferred block of http1.Server.Serve
}
