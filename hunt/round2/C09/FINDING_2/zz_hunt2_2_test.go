package server_test

// C09 finding 2: storage handed to the context by a handler (ctx.Params = ..., the
// engine explicitly supports re-assigning Params; RequestHeader.SetRawHeaders) is kept
// by ResetWithoutConn / ResetSkipNormalize as the recycled object's own buffer
// (x = x[:0]). The NEXT request served with the recycled context is then written into
// the caller's backing array. With freshly allocated objects nothing would ever write
// to it again.

import (
	"bufio"
	"context"
	"io"
	"net"
	"net/http"
	"testing"
	"time"

	"github.com/cloudwego/hertz/pkg/app"
	"github.com/cloudwego/hertz/pkg/app/server"
	"github.com/cloudwego/hertz/pkg/network/standard"
	"github.com/cloudwego/hertz/pkg/route/param"
)

func hunt2C09n2Get(t *testing.T, c net.Conn, br *bufio.Reader, raw string) string {
	c.SetDeadline(time.Now().Add(5 * time.Second)) //nolint:errcheck
	if _, err := c.Write([]byte(raw)); err != nil {
		t.Fatal(err)
	}
	resp, err := http.ReadResponse(br, nil)
	if err != nil {
		t.Fatal(err)
	}
	b, _ := io.ReadAll(resp.Body)
	return string(b)
}

func TestHunt2C09RecycledContextMustNotWriteIntoStorageOfEarlierRequest(t *testing.T) {
	ln, err := net.Listen("tcp", "127.0.0.1:0")
	if err != nil {
		t.Fatal(err)
	}
	addr := ln.Addr().String()
	ln.Close()

	h := server.New(
		server.WithHostPorts(addr),
		server.WithTransport(standard.NewTransporter),
		server.WithDisablePrintRoute(true),
		server.WithExitWaitTime(10*time.Millisecond),
	)

	// application data: the parameters an alias route stands for, and a canned header block
	aliasTable := make(param.Params, 1, 4)
	aliasTable[0] = param.Param{Key: "id", Value: "home"}
	canned := make([]byte, 0, 256)
	canned = append(canned, "X-Canned: application data\r\n\r\n"...)
	cannedWant := string(canned)

	// request 1: a rewriting handler serves /alias as /user/home
	h.GET("/alias", func(c context.Context, ctx *app.RequestContext) {
		ctx.Params = aliasTable[:1]
		ctx.Request.Header.SetRawHeaders(canned)
		ctx.SetBodyString("alias -> " + ctx.Param("id"))
	})
	// request 2: any parameterised route
	h.GET("/user/:id", func(c context.Context, ctx *app.RequestContext) {
		ctx.SetBodyString("user " + ctx.Param("id"))
	})
	go h.Spin()
	defer h.Shutdown(context.Background()) //nolint:errcheck

	var c net.Conn
	for i := 0; i < 400; i++ {
		if c, err = net.Dial("tcp", addr); err == nil {
			break
		}
		time.Sleep(5 * time.Millisecond)
	}
	if err != nil {
		t.Fatal(err)
	}
	defer c.Close()
	br := bufio.NewReader(c)

	if got := hunt2C09n2Get(t, c, br, "GET /alias HTTP/1.1\r\nHost: x\r\n\r\n"); got != "alias -> home" {
		t.Fatalf("request 1: %q", got)
	}
	// same keep-alive connection, hence the same (recycled) context
	if got := hunt2C09n2Get(t, c, br, "GET /user/mallory HTTP/1.1\r\nHost: x\r\nX-Secret: of-request-2\r\n\r\n"); got != "user mallory" {
		t.Fatalf("request 2: %q", got)
	}

	// Nothing request 2 did (it only got routed and parsed) may show up in the data of
	// the application: a context allocated for request 2 would have had its own buffers.
	if aliasTable[0].Value != "home" {
		t.Errorf("routing request 2 with the recycled context wrote its parameter into the application's "+
			"table: aliasTable[0] = %+v, want {id home}", aliasTable[0])
	}
	if got := string(canned[:len(cannedWant)]); got != cannedWant {
		t.Errorf("parsing request 2 with the recycled request header wrote its raw header block into the "+
			"application's buffer: %q, want %q", got, cannedWant)
	}
}
