package server_test

// C09 finding 3 (run with -race): ctx.Finished() is the one accessor of the request
// context that is made for goroutines running next to the handler (it has its own
// mutex, finishedMu). ResetWithoutConn, which recycles the context, reads, closes and
// clears ctx.finished WITHOUT that mutex: a goroutine that the handler started and that
// calls ctx.Finished() while the request is still being served races with the recycling
// of the context.

import (
	"bufio"
	"context"
	"io"
	"net"
	"net/http"
	"testing"
	"time"

	"github.com/cloudwego/hertz/pkg/app"
	"github.com/cloudwego/hertz/pkg/app/server"
	"github.com/cloudwego/hertz/pkg/network/standard"
)

func TestHunt2C09FinishedMustNotRaceWithRecycling(t *testing.T) {
	ln, err := net.Listen("tcp", "127.0.0.1:0")
	if err != nil {
		t.Fatal(err)
	}
	addr := ln.Addr().String()
	ln.Close()

	h := server.New(
		server.WithHostPorts(addr),
		server.WithTransport(standard.NewTransporter),
		server.WithDisablePrintRoute(true),
		server.WithExitWaitTime(10*time.Millisecond),
	)
	notified := make(chan struct{}, 16)
	h.GET("/work", func(c context.Context, ctx *app.RequestContext) {
		// the documented purpose of Finished: let a helper goroutine learn that the
		// request is over
		go func() {
			<-ctx.Finished() // called while the handler below is still running
			notified <- struct{}{}
		}()
		time.Sleep(20 * time.Millisecond) // the request is in progress
		ctx.SetBodyString("ok")
	})
	go h.Spin()
	defer h.Shutdown(context.Background()) //nolint:errcheck

	var c net.Conn
	for i := 0; i < 400; i++ {
		if c, err = net.Dial("tcp", addr); err == nil {
			break
		}
		time.Sleep(5 * time.Millisecond)
	}
	if err != nil {
		t.Fatal(err)
	}
	defer c.Close()
	br := bufio.NewReader(c)
	for i := 0; i < 3; i++ {
		c.SetDeadline(time.Now().Add(5 * time.Second)) //nolint:errcheck
		if _, err := c.Write([]byte("GET /work HTTP/1.1\r\nHost: x\r\n\r\n")); err != nil {
			t.Fatal(err)
		}
		resp, err := http.ReadResponse(br, nil)
		if err != nil {
			t.Fatal(err)
		}
		b, _ := io.ReadAll(resp.Body)
		if string(b) != "ok" {
			t.Fatalf("body %q", b)
		}
		select {
		case <-notified:
		case <-time.After(3 * time.Second):
			t.Fatal("the helper goroutine was never told that its request finished")
		}
	}
	// the assertion of this test is the race detector's: no DATA RACE between
	// RequestContext.Finished and RequestContext.ResetWithoutConn
}
