package server_test

// C09 finding 1: with the standard transport the slice returned by Request.Body() is a
// window into the connection's read buffer whose capacity spans the bytes that follow
// the body, i.e. the next pipelined request. A handler that appends to the body it was
// given rewrites the next request on the same keep-alive connection.

import (
	"bufio"
	"context"
	"io"
	"net"
	"net/http"
	"testing"
	"time"

	"github.com/cloudwego/hertz/pkg/app"
	"github.com/cloudwego/hertz/pkg/app/server"
	"github.com/cloudwego/hertz/pkg/network/standard"
)

func hunt2C09n1FreeAddr(t *testing.T) string {
	ln, err := net.Listen("tcp", "127.0.0.1:0")
	if err != nil {
		t.Fatal(err)
	}
	defer ln.Close()
	return ln.Addr().String()
}

func hunt2C09n1Dial(t *testing.T, addr string) net.Conn {
	var c net.Conn
	var err error
	for i := 0; i < 400; i++ {
		c, err = net.Dial("tcp", addr)
		if err == nil {
			return c
		}
		time.Sleep(5 * time.Millisecond)
	}
	t.Fatal(err)
	return nil
}

func TestHunt2C09AppendToBodyMustNotTouchNextPipelinedRequest(t *testing.T) {
	addr := hunt2C09n1FreeAddr(t)
	h := server.New(
		server.WithHostPorts(addr),
		server.WithTransport(standard.NewTransporter),
		server.WithDisablePrintRoute(true),
		server.WithExitWaitTime(10*time.Millisecond),
	)
	var bodyLen, bodyCap int
	h.POST("/a", func(c context.Context, ctx *app.RequestContext) {
		body := ctx.Request.Body()
		bodyLen, bodyCap = len(body), cap(body)
		// a perfectly ordinary thing to do with a []byte one was handed
		line := append(body, "<END-OF-A>"...)
		ctx.SetBodyString(string(line))
	})
	h.GET("/b", func(c context.Context, ctx *app.RequestContext) {
		ctx.SetBodyString("b saw " + string(ctx.Method()) + " " + string(ctx.Request.RequestURI()))
	})
	go h.Spin()
	defer h.Shutdown(context.Background()) //nolint:errcheck

	c := hunt2C09n1Dial(t, addr)
	defer c.Close()
	c.SetDeadline(time.Now().Add(5 * time.Second)) //nolint:errcheck

	// two requests in one segment: request 2 sits right behind the body of request 1
	pipelined := "POST /a HTTP/1.1\r\nHost: x\r\nContent-Length: 5\r\n\r\nhello" +
		"GET /b HTTP/1.1\r\nHost: x\r\n\r\n"
	if _, err := c.Write([]byte(pipelined)); err != nil {
		t.Fatal(err)
	}
	br := bufio.NewReader(c)

	resp1, err := http.ReadResponse(br, nil)
	if err != nil {
		t.Fatalf("response 1: %v", err)
	}
	b1, _ := io.ReadAll(resp1.Body)
	if resp1.StatusCode != 200 || string(b1) != "hello<END-OF-A>" {
		t.Fatalf("response 1: %d %q", resp1.StatusCode, b1)
	}
	t.Logf("request 1: len(body)=%d cap(body)=%d", bodyLen, bodyCap)

	resp2, err := http.ReadResponse(br, nil)
	if err != nil {
		t.Fatalf("response 2: %v (request 2 was rewritten by the append in handler 1)", err)
	}
	b2, _ := io.ReadAll(resp2.Body)
	if resp2.StatusCode != 200 || string(b2) != "b saw GET /b" {
		t.Fatalf("request 2 on the same keep-alive connection was not served as sent: status %d body %q "+
			"(handler 1 got a body slice with len %d and cap %d: its capacity covers the bytes of request 2)",
			resp2.StatusCode, b2, bodyLen, bodyCap)
	}
}
