package server

// C03 hunt, finding 1: requests that the router (Engine.ServeHTTP) rejects as malformed
// - an HTTP/1.1 request without Host, a request target with a control byte, a request
// target that is not origin-form - are answered 400 WITHOUT "Connection: close", the
// connection stays open, whatever follows on it is served, and the global middleware
// chain is run for the rejected request.

import (
	"bufio"
	"bytes"
	"context"
	"io"
	"net"
	"net/http"
	"strings"
	"sync/atomic"
	"testing"
	"time"

	"github.com/cloudwego/hertz/pkg/app"
	"github.com/cloudwego/hertz/pkg/common/config"
	"github.com/cloudwego/hertz/pkg/network"
	"github.com/cloudwego/hertz/pkg/network/netpoll"
	"github.com/cloudwego/hertz/pkg/network/standard"
)

func zzHunt2F1Exchange(t *testing.T, addr, in string) (out []byte, closedByServer bool) {
	t.Helper()
	c, err := net.Dial("tcp", addr)
	if err != nil {
		t.Fatal(err)
	}
	defer c.Close()
	if _, err = c.Write([]byte(in)); err != nil {
		t.Fatal(err)
	}
	buf := make([]byte, 4096)
	for {
		c.SetReadDeadline(time.Now().Add(time.Second)) //nolint:errcheck
		n, err := c.Read(buf)
		out = append(out, buf[:n]...)
		if err != nil {
			if ne, ok := err.(net.Error); ok && ne.Timeout() {
				return out, false
			}
			return out, true // EOF or reset: the server closed
		}
	}
}

func TestZZHunt2_1_RouterRejectionKeepsConnectionOpen(t *testing.T) {
	t.Run("standard", func(t *testing.T) { zzHunt2F1Run(t, standard.NewTransporter) })
	t.Run("netpoll", func(t *testing.T) { zzHunt2F1Run(t, netpoll.NewTransporter) })
}

func zzHunt2F1Run(t *testing.T, tr func(*config.Options) network.Transporter) {
	ln, err := net.Listen("tcp", "127.0.0.1:0")
	if err != nil {
		t.Fatal(err)
	}
	addr := ln.Addr().String()
	ln.Close()

	var mwRuns, handlerRuns int32
	h := New(WithHostPorts(addr), WithTransport(tr), WithExitWaitTime(10*time.Millisecond), WithDisablePrintRoute(true))
	h.Use(func(c context.Context, ctx *app.RequestContext) {
		atomic.AddInt32(&mwRuns, 1)
		ctx.Next(c)
	})
	h.GET("/ok", func(c context.Context, ctx *app.RequestContext) {
		atomic.AddInt32(&handlerRuns, 1)
		ctx.String(200, "ok")
	})
	go h.Spin()
	defer h.Shutdown(context.Background()) //nolint:errcheck
	for i := 0; i < 300; i++ {
		c, err := net.Dial("tcp", addr)
		if err == nil {
			c.Close()
			break
		}
		time.Sleep(10 * time.Millisecond)
	}

	good := "GET /ok HTTP/1.1\r\nHost: a\r\n\r\n"
	for _, tc := range []struct{ name, bad string }{
		{"HTTP/1.1 request without Host", "GET /ok HTTP/1.1\r\n\r\n"},
		{"control byte in the request target", "GET /ok\x01 HTTP/1.1\r\nHost: a\r\n\r\n"},
	} {
		t.Run(tc.name, func(t *testing.T) {
			// the malformed request alone: no handler may run for it
			atomic.StoreInt32(&mwRuns, 0)
			if alone, _ := zzHunt2F1Exchange(t, addr, tc.bad); bytes.HasPrefix(alone, []byte("HTTP/1.1 4")) {
				if n := atomic.LoadInt32(&mwRuns); n != 0 {
					t.Errorf("the global middleware ran %d time(s) for the request that was rejected with %q", n, alone[9:12])
				}
			}

			// the malformed request, and behind it a well-formed one
			atomic.StoreInt32(&handlerRuns, 0)
			out, closed := zzHunt2F1Exchange(t, addr, tc.bad+good)

			br := bufio.NewReader(bytes.NewReader(out))
			first, err := http.ReadResponse(br, nil)
			if err != nil {
				t.Fatalf("no parsable response: %v (%q)", err, out)
			}
			io.Copy(io.Discard, io.LimitReader(first.Body, first.ContentLength)) //nolint:errcheck
			if first.StatusCode/100 != 4 {
				// the server did not reject it: nothing to check here
				t.Skipf("status %d: not rejected", first.StatusCode)
			}
			t.Logf("rejected with %d; whole output: %q", first.StatusCode, out)

			if !strings.EqualFold(first.Header.Get("Connection"), "close") {
				t.Errorf("the %d response to a malformed request does not carry Connection: close", first.StatusCode)
			}
			if rest, _ := io.ReadAll(br); len(rest) != 0 {
				t.Errorf("%d bytes were written after the %d response: %q", len(rest), first.StatusCode, rest)
			}
			if !closed {
				t.Errorf("the connection is still open one second after the %d response", first.StatusCode)
			}
			if n := atomic.LoadInt32(&handlerRuns); n != 0 {
				t.Errorf("the route handler ran %d time(s) for what followed the rejected request", n)
			}
		})
	}
}
