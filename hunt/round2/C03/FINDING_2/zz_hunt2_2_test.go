package server

// C03 hunt, finding 2: with the environment switch HERTZ_DISABLE_REQUEST_CONTEXT_POOL=true
// and tracing enabled (any server.WithTracer), the first request on a connection - any
// request, "GET / HTTP/1.1" is enough - makes http1 Server.Serve dereference a nil
// TraceInfo: the request context made by getRequestContext() for the pool-less mode has
// no trace info (only the pool's New function attaches one). On the standard transport
// the panic is in the connection goroutine, nothing recovers it, the process dies.
//
// The switch is read in an init function, so the server runs in a child process (this
// test binary started again with the variable set).

import (
	"bytes"
	"context"
	"io"
	"net"
	"os"
	"os/exec"
	"strings"
	"testing"
	"time"

	"github.com/cloudwego/hertz/pkg/app"
	"github.com/cloudwego/hertz/pkg/network/standard"
)

type zzHunt2F2Tracer struct{}

func (zzHunt2F2Tracer) Start(ctx context.Context, c *app.RequestContext) context.Context {
	return ctx
}
func (zzHunt2F2Tracer) Finish(ctx context.Context, c *app.RequestContext) {}

func TestZZHunt2_2_NoContextPoolWithTracer(t *testing.T) {
	if os.Getenv("ZZ_HUNT2_F2_CHILD") == "1" {
		zzHunt2F2Child(t)
		return
	}
	cmd := exec.Command(os.Args[0], "-test.run=^TestZZHunt2_2_NoContextPoolWithTracer$", "-test.count=1")
	cmd.Env = append(os.Environ(), "ZZ_HUNT2_F2_CHILD=1", "HERTZ_DISABLE_REQUEST_CONTEXT_POOL=true")
	var out bytes.Buffer
	cmd.Stdout, cmd.Stderr = &out, &out
	err := cmd.Run()
	if err != nil {
		s := out.String()
		if i := strings.Index(s, "panic:"); i >= 0 {
			s = s[i:]
		}
		if len(s) > 1800 {
			s = s[:1800] + "..."
		}
		t.Fatalf("the server process did not survive one well-formed request (%v):\n%s", err, s)
	}
}

func zzHunt2F2Child(t *testing.T) {
	ln, err := net.Listen("tcp", "127.0.0.1:0")
	if err != nil {
		t.Fatal(err)
	}
	addr := ln.Addr().String()
	ln.Close()

	h := New(WithHostPorts(addr), WithTransport(standard.NewTransporter), WithTracer(zzHunt2F2Tracer{}),
		WithExitWaitTime(10*time.Millisecond), WithDisablePrintRoute(true))
	h.GET("/", func(c context.Context, ctx *app.RequestContext) { ctx.String(200, "ok") })
	go h.Spin()
	for i := 0; i < 300; i++ {
		c, err := net.Dial("tcp", addr)
		if err == nil {
			c.Close()
			break
		}
		time.Sleep(10 * time.Millisecond)
	}
	time.Sleep(50 * time.Millisecond)

	c, err := net.Dial("tcp", addr)
	if err != nil {
		t.Fatal(err)
	}
	defer c.Close()
	if _, err = c.Write([]byte("GET / HTTP/1.1\r\nHost: a\r\nConnection: close\r\n\r\n")); err != nil {
		t.Fatal(err)
	}
	c.SetReadDeadline(time.Now().Add(3 * time.Second)) //nolint:errcheck
	out, _ := io.ReadAll(c)
	if !bytes.HasPrefix(out, []byte("HTTP/1.1 200 OK\r\n")) {
		t.Fatalf("no 200 response to a well-formed request: %q", out)
	}
}
