package server

// C03 hunt, finding 3: a handler that streams its response through the chunked body
// writer (Response.HijackWriter(resp.NewChunkedBodyWriter(...)), the documented way to
// stream) answers a HEAD request with a message body: the chunks are written behind the
// header block. For every other kind of response the server suppresses the body of a
// HEAD response itself (Server.Serve sets SkipBody); the hijacked writer ignores it.
// What the peer receives behind the HEAD response is not a well-formed HTTP response,
// and on a keep-alive connection it is taken for the answer to the next request.

import (
	"bufio"
	"bytes"
	"context"
	"io"
	"net"
	"net/http"
	"testing"
	"time"

	"github.com/cloudwego/hertz/pkg/app"
	"github.com/cloudwego/hertz/pkg/network/standard"
	"github.com/cloudwego/hertz/pkg/protocol/http1/resp"
)

func TestZZHunt2_3_HeadAnsweredWithChunkedBody(t *testing.T) {
	ln, err := net.Listen("tcp", "127.0.0.1:0")
	if err != nil {
		t.Fatal(err)
	}
	addr := ln.Addr().String()
	ln.Close()

	h := New(WithHostPorts(addr), WithTransport(standard.NewTransporter), WithExitWaitTime(10*time.Millisecond), WithDisablePrintRoute(true))
	stream := func(c context.Context, ctx *app.RequestContext) {
		ctx.SetStatusCode(200)
		ctx.Response.HijackWriter(resp.NewChunkedBodyWriter(&ctx.Response, ctx.GetWriter()))
		for i := 0; i < 3; i++ {
			ctx.Write([]byte("part of the streamed body\n")) //nolint:errcheck
			ctx.Flush()                                      //nolint:errcheck
		}
	}
	h.GET("/stream", stream)
	h.HEAD("/stream", stream)
	h.GET("/ok", func(c context.Context, ctx *app.RequestContext) { ctx.String(200, "ok") })
	go h.Spin()
	defer h.Shutdown(context.Background()) //nolint:errcheck
	for i := 0; i < 300; i++ {
		c, err := net.Dial("tcp", addr)
		if err == nil {
			c.Close()
			break
		}
		time.Sleep(10 * time.Millisecond)
	}

	c, err := net.Dial("tcp", addr)
	if err != nil {
		t.Fatal(err)
	}
	defer c.Close()
	// a HEAD request and, on the same connection, an ordinary GET
	if _, err = c.Write([]byte("HEAD /stream HTTP/1.1\r\nHost: a\r\n\r\nGET /ok HTTP/1.1\r\nHost: a\r\nConnection: close\r\n\r\n")); err != nil {
		t.Fatal(err)
	}
	c.SetReadDeadline(time.Now().Add(3 * time.Second)) //nolint:errcheck
	out, _ := io.ReadAll(c)
	t.Logf("server output: %q", out)

	br := bufio.NewReader(bytes.NewReader(out))
	headReq, _ := http.NewRequest("HEAD", "http://a/stream", nil)
	first, err := http.ReadResponse(br, headReq)
	if err != nil {
		t.Fatalf("response to HEAD: %v", err)
	}
	if first.StatusCode != 200 {
		t.Fatalf("response to HEAD: status %d", first.StatusCode)
	}
	// A response to HEAD ends with its header block: what follows must be the response to GET /ok.
	getReq, _ := http.NewRequest("GET", "http://a/ok", nil)
	second, err := http.ReadResponse(br, getReq)
	if err != nil {
		rest, _ := io.ReadAll(br)
		t.Fatalf("what follows the header block of the HEAD response is not an HTTP response: %v (%q...)", err, rest)
	}
	body, _ := io.ReadAll(second.Body)
	if second.StatusCode != 200 || string(body) != "ok" {
		t.Fatalf("response to GET /ok: status %d body %q", second.StatusCode, body)
	}
}
