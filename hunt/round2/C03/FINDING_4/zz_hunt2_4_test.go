package server

// C03 hunt, finding 4 (run with -race): with WithSenseClientDisconnection(true) on the
// standard transport, http1 Server.Serve starts a goroutine that reads from the
// connection while the handler runs (statefulConn.DetectConnectionClose). When writing
// the response fails - the peer asked for a large file and went away - Serve returns
// without AbortBlockingRead(): its deferred zr.Release() and the still running reader
// goroutine work on the same input buffer of the connection without synchronisation.

import (
	"context"
	"net"
	"os"
	"path/filepath"
	"runtime"
	"testing"
	"time"

	"github.com/cloudwego/hertz/pkg/app"
	"github.com/cloudwego/hertz/pkg/network/standard"
)

func TestZZHunt2_4_SenseClientDisconnectionRace(t *testing.T) {
	root := t.TempDir()
	// a sparse file, far larger than what the socket buffers take
	f, err := os.Create(filepath.Join(root, "big.bin"))
	if err != nil {
		t.Fatal(err)
	}
	if err = f.Truncate(256 << 20); err != nil {
		t.Fatal(err)
	}
	f.Close()

	ln, err := net.Listen("tcp", "127.0.0.1:0")
	if err != nil {
		t.Fatal(err)
	}
	addr := ln.Addr().String()
	ln.Close()

	h := New(WithHostPorts(addr), WithTransport(standard.NewTransporter), WithSenseClientDisconnection(true),
		WithExitWaitTime(10*time.Millisecond), WithDisablePrintRoute(true))
	h.StaticFS("/", &app.FS{Root: root})
	go h.Spin()
	defer h.Shutdown(context.Background()) //nolint:errcheck
	for i := 0; i < 300; i++ {
		c, err := net.Dial("tcp", addr)
		if err == nil {
			c.Close()
			break
		}
		time.Sleep(10 * time.Millisecond)
	}

	// One P: the goroutine started by DetectConnectionClose does not get to run before
	// Serve has come back from the failed write.
	defer runtime.GOMAXPROCS(runtime.GOMAXPROCS(1))
	for i := 0; i < 200; i++ {
		c, err := net.Dial("tcp", addr)
		if err != nil {
			t.Fatal(err)
		}
		// ask for the file and go away at once: the first write of the server is answered
		// with a reset, the next one fails
		if _, err = c.Write([]byte("GET /big.bin HTTP/1.1\r\nHost: a\r\n\r\n")); err != nil {
			t.Fatal(err)
		}
		c.Close()
		time.Sleep(5 * time.Millisecond)
	}
	time.Sleep(200 * time.Millisecond)
	// nothing to assert here: under -race the test fails with
	// "race detected during execution of test" (Conn.fill in the goroutine started by
	// DetectConnectionClose against Conn.Release deferred in Server.Serve)
}
