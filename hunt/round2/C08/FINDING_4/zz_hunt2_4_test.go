package app

import (
	"bytes"
	"context"
	"io/ioutil"
	"os"
	"testing"

	"github.com/cloudwego/hertz/pkg/protocol"
	"github.com/cloudwego/hertz/pkg/protocol/consts"
)

func hunt2f4Do(t *testing.T, h HandlerFunc, method, uri string) (status int, body []byte) {
	t.Helper()
	var ctx RequestContext
	req := &protocol.Request{}
	req.CopyTo(&ctx.Request)
	ctx.Request.Header.SetMethod(method)
	ctx.Request.SetRequestURI(uri)
	h(context.Background(), &ctx)
	b, err := ctx.Response.BodyE()
	if err != nil {
		t.Fatalf("%s %s: cannot read the body: %s", method, uri, err)
	}
	return ctx.Response.StatusCode(), append([]byte(nil), b...)
}

// FS.Root = "/" (what ServeFile / ctx.File use internally, and what a server in a
// container or a chroot is given): the trailing slashes of the root are stripped, the
// root becomes "", and the request for "/" - the root directory itself - is looked up
// as the file "" and answered with 404, although the directory exists, every other
// directory under it gets its index page, and "/." (the same directory) gets one too.
// The test only reads the directory "/"; nothing is written (Compress is off).
func TestHunt2_4_RootSlashServesItsRootDirectory(t *testing.T) {
	entries, err := ioutil.ReadDir("/")
	if err != nil || len(entries) == 0 {
		t.Skipf("cannot list /: %v", err)
	}
	var someDir string
	for _, e := range entries {
		if e.IsDir() {
			if _, err := ioutil.ReadDir("/" + e.Name()); err == nil {
				someDir = e.Name()
				break
			}
		}
	}
	if someDir == "" {
		t.Skip("no readable directory under /")
	}

	for _, root := range []string{"/", "//"} {
		fs := &FS{Root: root, GenerateIndexPages: true}
		h := fs.NewRequestHandler()

		// reference: a directory below the root gets its index page
		status, body := hunt2f4Do(t, h, consts.MethodGet, "/"+someDir+"/")
		if status != consts.StatusOK || !bytes.Contains(body, []byte("<html>")) {
			t.Fatalf("Root=%q GET /%s/: status %d; the set-up is broken", root, someDir, status)
		}

		for _, method := range []string{consts.MethodGet, consts.MethodHead} {
			status, body = hunt2f4Do(t, h, method, "/")
			if status != consts.StatusOK {
				t.Errorf("Root=%q %s /: status %d %q, want 200 with the index page of the root directory (it exists: %d entries, GET /%s/ is answered with 200)",
					root, method, status, body, len(entries), someDir)
				continue
			}
			if method == consts.MethodGet && !bytes.Contains(body, []byte(">"+someDir+"<")) {
				t.Errorf("Root=%q GET /: the index page does not list %q: %q", root, someDir, body)
			}
		}
	}

	// the same with an index file instead of a generated page, if there happens to be
	// a readable regular file directly under "/" that can stand in as the index file
	for _, e := range entries {
		if !e.Mode().IsRegular() || e.Size() == 0 || e.Size() > 1<<20 {
			continue
		}
		want, err := os.ReadFile("/" + e.Name())
		if err != nil {
			continue
		}
		fs := &FS{Root: "/", IndexNames: []string{e.Name()}}
		h := fs.NewRequestHandler()
		status, body := hunt2f4Do(t, h, consts.MethodGet, "/")
		if status != consts.StatusOK || !bytes.Equal(body, want) {
			t.Errorf("Root=\"/\" IndexNames=[%q] GET /: status %d, %d body bytes; want 200 and the %d bytes of /%s", e.Name(), status, len(body), len(want), e.Name())
		}
		break
	}
}
