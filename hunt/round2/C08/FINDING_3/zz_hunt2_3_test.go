package app

import (
	"bytes"
	"context"
	"fmt"
	"os"
	"path/filepath"
	"testing"

	"github.com/cloudwego/hertz/pkg/protocol"
	"github.com/cloudwego/hertz/pkg/protocol/consts"
)

type hunt2f3Resp struct {
	status        int
	contentLength int
	contentRange  string
	body          []byte
}

// hunt2f3Do runs one request through the file handler; the body is what the body
// stream of the response yields (nothing is looked at for HEAD).
func hunt2f3Do(t *testing.T, h HandlerFunc, method, uri, byteRange string) hunt2f3Resp {
	t.Helper()
	var ctx RequestContext
	req := &protocol.Request{}
	req.CopyTo(&ctx.Request)
	ctx.Request.Header.SetMethod(method)
	ctx.Request.SetRequestURI(uri)
	ctx.Request.Header.Set(consts.HeaderRange, byteRange)
	h(context.Background(), &ctx)

	r := hunt2f3Resp{
		status:        ctx.Response.StatusCode(),
		contentLength: ctx.Response.Header.ContentLength(),
		contentRange:  string(ctx.Response.Header.Peek(consts.HeaderContentRange)),
	}
	body, err := ctx.Response.BodyE()
	if err != nil {
		t.Fatalf("%s %s (Range: %s): cannot read the body: %s", method, uri, byteRange, err)
	}
	r.body = append(r.body, body...)
	return r
}

type hunt2f3Case struct {
	why       string
	byteRange string
	// the single range RFC 7233 prescribes, end < 0 standing for "the last byte";
	// nil: no single range answers the request, only "200, whole file" does
	single *[2]int
}

// hunt2f3Check accepts both correct answers to a Range header that can be satisfied:
// the whole file with 200 (a server may ignore Range), or the one range the RFC
// prescribes with 206 and a matching Content-Range / Content-Length / body.
func hunt2f3Check(t *testing.T, cases []hunt2f3Case) {
	root := t.TempDir()
	small := []byte("0123456789")
	big := bytes.Repeat([]byte("abcdefghij"), 2000) // above the small-file threshold
	for name, content := range map[string][]byte{"f.txt": small, "big.txt": big} {
		if err := os.WriteFile(filepath.Join(root, name), content, 0o644); err != nil {
			t.Fatal(err)
		}
	}
	fs := &FS{Root: root, AcceptByteRange: true}
	h := fs.NewRequestHandler()

	for _, f := range []struct {
		uri     string
		content []byte
	}{{"/f.txt", small}, {"/big.txt", big}} {
		for _, tc := range cases {
			for _, method := range []string{consts.MethodGet, consts.MethodHead} {
				name := fmt.Sprintf("%s %s Range: %s (%s)", method, f.uri, tc.byteRange, tc.why)
				r := hunt2f3Do(t, h, method, f.uri, tc.byteRange)
				n := len(f.content)
				switch r.status {
				case consts.StatusOK:
					if r.contentLength != n {
						t.Errorf("%s: 200 with Content-Length %d, want %d", name, r.contentLength, n)
					}
					if method == consts.MethodGet && !bytes.Equal(r.body, f.content) {
						t.Errorf("%s: 200, but the body is not the file", name)
					}
				case consts.StatusPartialContent:
					if tc.single == nil {
						t.Errorf("%s: 206 with Content-Range %q for a request no single range answers", name, r.contentRange)
						continue
					}
					start, end := tc.single[0], tc.single[1]
					if end < 0 {
						end = n - 1
					}
					wantCR := fmt.Sprintf("bytes %d-%d/%d", start, end, n)
					if r.contentRange != wantCR {
						t.Errorf("%s: Content-Range %q, want %q", name, r.contentRange, wantCR)
					}
					if r.contentLength != end-start+1 {
						t.Errorf("%s: Content-Length %d, want %d", name, r.contentLength, end-start+1)
					}
					if method == consts.MethodGet && !bytes.Equal(r.body, f.content[start:end+1]) {
						t.Errorf("%s: 206, but the body is not bytes %d-%d of the file", name, start, end)
					}
				default:
					t.Errorf("%s: status %d %q; the range can be satisfied from a file of %d bytes: the answer is 206 with the prescribed range (or 200 with the whole file)",
						name, r.status, r.body, n)
				}
			}
		}
	}
}

// RFC 7233 section 2.1: "If the last-byte-pos value is absent, or if the value is
// greater than or equal to the current length of the representation data, the byte
// range is interpreted as the remainder of the representation", "If the selected
// representation is shorter than the specified suffix-length, the entire representation
// is used", and: "Since there is no predefined limit to the length of a payload,
// recipients MUST anticipate potentially large decimal numerals and prevent parsing
// errors due to integer conversion overflows."
//
// The handler answers 416 as soon as last-byte-pos or suffix-length does not fit an
// int - except for some of them: the overflow test of bytesconv.ParseUintBuf
// (vNew < v) does not see 82*10^18 wrap around, so "bytes=2-82000000000000000000" is
// answered with 206 while "bytes=2-81000000000000000000" is answered with 416.
func TestHunt2_3_LargeNumeralsInRangeAreNot416(t *testing.T) {
	hunt2f3Check(t, []hunt2f3Case{
		// these two are fine today
		{"last-byte-pos = MaxInt64", "bytes=2-9223372036854775807", &[2]int{2, -1}},
		{"last-byte-pos beyond int64 whose overflow goes unnoticed", "bytes=2-82000000000000000000", &[2]int{2, -1}},
		// these are not
		{"last-byte-pos = MaxInt64+1", "bytes=2-9223372036854775808", &[2]int{2, -1}},
		{"last-byte-pos = 2^64", "bytes=2-18446744073709551616", &[2]int{2, -1}},
		{"last-byte-pos = 81*10^18", "bytes=2-81000000000000000000", &[2]int{2, -1}},
		{"last-byte-pos of 20 digits", "bytes=2-99999999999999999999", &[2]int{2, -1}},
		{"last-byte-pos of 30 digits", "bytes=0-100000000000000000000000000000", &[2]int{0, -1}},
		{"suffix-length = MaxInt64+1", "bytes=-9223372036854775808", &[2]int{0, -1}},
		{"suffix-length of 20 digits", "bytes=-99999999999999999999", &[2]int{0, -1}},
		{"suffix-length of 30 digits", "bytes=-100000000000000000000000000000", &[2]int{0, -1}},
	})
}

// The same cause - the handler maps every error of ParseByteRange to 416 - with two
// more forms of a Range header that can be satisfied (kept apart from the test above;
// run with -run TestHunt2_3b_): a set of ranges that all lie inside the file (section
// 4.4 reserves 416 for "none of the ranges overlap the current extent"; a server that
// does not do multipart/byteranges ignores the header), and a range unit other than
// bytes (section 3.1: "An origin server MUST ignore a Range header field that contains
// a range unit it does not understand").
func TestHunt2_3b_RangeSetsAndOtherUnitsAreNot416(t *testing.T) {
	hunt2f3Check(t, []hunt2f3Case{
		{"two ranges inside the file", "bytes=0-1,3-4", nil},
		{"two ranges inside the file, with a space", "bytes=0-1, 3-4", nil},
		{"the first and the last byte", "bytes=0-0,-1", nil},
		{"a range unit other than bytes", "items=0-1", nil},
	})
}
