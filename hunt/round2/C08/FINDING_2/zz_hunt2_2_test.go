package server

import (
	"bytes"
	"os"
	"path/filepath"
	"testing"

	"github.com/cloudwego/hertz/pkg/app"
	"github.com/cloudwego/hertz/pkg/common/ut"
	"github.com/cloudwego/hertz/pkg/protocol/consts"
)

// StaticFS keeps the route prefix in the file name ("/static/a.txt" is looked up as
// <root>/static/a.txt), so an application that wants <root>/a.txt installs a path
// rewriter; the obvious one returns the catch-all parameter of the route. The file
// handler does not trust rewriters: it answers 500 as soon as the rewritten path
// contains "/../". With server.WithUseRawPath(true) the parameter is taken from the
// undecoded request path and unescaped afterwards, so "/static/%2e%2e" hands ".." to
// the rewriter - and the rewritten path "/.." (no "/../" in it, so it even honours the
// documented contract of PathRewriteFunc) is opened as <root>/.. : the parent of the root.
func TestHunt2_2_RewrittenPathDotDotLeavesTheRoot(t *testing.T) {
	top := t.TempDir()
	root := filepath.Join(top, "public")
	if err := os.Mkdir(root, 0o755); err != nil {
		t.Fatal(err)
	}
	mustWrite := func(name, content string) {
		if err := os.WriteFile(name, []byte(content), 0o644); err != nil {
			t.Fatal(err)
		}
	}
	mustWrite(filepath.Join(root, "a.txt"), "public file")
	mustWrite(filepath.Join(root, "index.html"), "public index")
	// outside the root
	mustWrite(filepath.Join(top, "index.html"), "PRIVATE index outside the root")
	mustWrite(filepath.Join(top, "hunt2-private-key.pem"), "PRIVATE")

	rewrite := func(ctx *app.RequestContext) []byte {
		return []byte("/" + ctx.Param("filepath"))
	}

	for _, tc := range []struct {
		name string
		fs   *app.FS
	}{
		{"IndexNames", &app.FS{Root: root, IndexNames: []string{"index.html"}, PathRewrite: rewrite}},
		{"GenerateIndexPages", &app.FS{Root: root, GenerateIndexPages: true, PathRewrite: rewrite}},
	} {
		tc := tc
		t.Run(tc.name, func(t *testing.T) {
			h := New(WithUseRawPath(true), WithDisablePrintRoute(true))
			h.StaticFS("/static", tc.fs)

			// the set-up works: files under the root are served
			w := ut.PerformRequest(h.Engine, consts.MethodGet, "/static/a.txt", nil)
			if got := w.Result(); got.StatusCode() != consts.StatusOK || string(got.Body()) != "public file" {
				t.Fatalf("GET /static/a.txt: %d %q; the set-up is broken", got.StatusCode(), got.Body())
			}
			// and the handler does refuse rewritten paths with "/../" in them
			w = ut.PerformRequest(h.Engine, consts.MethodGet, "/static/%2e%2e/hunt2-private-key.pem", nil)
			if got := w.Result(); got.StatusCode() == consts.StatusOK {
				t.Fatalf("GET /static/%%2e%%2e/hunt2-private-key.pem: %d %q", got.StatusCode(), got.Body())
			}

			for _, target := range []string{"/static/%2e%2e", "/static/%2e%2e/", "/static/%2E%2E"} {
				for _, method := range []string{consts.MethodGet, consts.MethodHead} {
					w := ut.PerformRequest(h.Engine, method, target, nil)
					got := w.Result()
					body := got.Body()
					if bytes.Contains(body, []byte("PRIVATE")) || bytes.Contains(body, []byte("hunt2-private-key.pem")) {
						t.Errorf("%s %s: status %d, the answer shows what lies outside the root: %q", method, target, got.StatusCode(), body)
						continue
					}
					if got.StatusCode() == consts.StatusOK {
						t.Errorf("%s %s: status 200 (Content-Length %d) for a path that names the parent of the root", method, target, got.Header.ContentLength())
					}
				}
			}
		})
	}
}
