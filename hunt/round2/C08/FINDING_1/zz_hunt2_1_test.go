package app

import (
	"bytes"
	"compress/gzip"
	"context"
	"errors"
	"io/ioutil"
	"os"
	"path/filepath"
	"strings"
	"testing"

	"github.com/cloudwego/hertz/pkg/protocol"
	"github.com/cloudwego/hertz/pkg/protocol/consts"
)

var errHunt2f1Root = errors.New("running as root")

type hunt2f1Resp struct {
	status          int
	contentLength   int
	contentEncoding string
	body            []byte
}

// hunt2f1Do runs one request through the file handler; the body is what the body
// stream of the response yields.
func hunt2f1Do(t *testing.T, h HandlerFunc, method, uri string, gzip bool) hunt2f1Resp {
	t.Helper()
	var ctx RequestContext
	req := &protocol.Request{}
	req.CopyTo(&ctx.Request)
	ctx.Request.Header.SetMethod(method)
	ctx.Request.SetRequestURI(uri)
	if gzip {
		ctx.Request.Header.Set(consts.HeaderAcceptEncoding, "gzip")
	}
	h(context.Background(), &ctx)

	r := hunt2f1Resp{
		status:          ctx.Response.StatusCode(),
		contentLength:   ctx.Response.Header.ContentLength(),
		contentEncoding: string(ctx.Response.Header.ContentEncoding()),
	}
	body, err := ctx.Response.BodyE()
	if err != nil {
		t.Fatalf("%s %s: cannot read the body: %s", method, uri, err)
	}
	r.body = append(r.body, body...)
	return r
}

// A directory with an index file is requested. Without "Accept-Encoding: gzip" the
// index file is served. With it the handler wants to keep a compressed copy next to the
// index file; when that copy cannot be opened or created (read-only file system, no
// write permission, no space left, name too long, something else sitting on the name)
// the index file itself is still there and has to be served - exactly what the handler
// already does for a file requested by its own name.
func TestHunt2_1_IndexFileServedWhenCompressedCopyUnavailable(t *testing.T) {
	content := bytes.Repeat([]byte("<p>hello index</p>\n"), 100)

	// an index name for which name+".hertz.gz" still fits NAME_MAX but
	// name+".hertz.gz.tmp" (the temporary the copy is written to) does not, and one for
	// which not even the copy's name fits: a deterministic stand-in for EROFS / ENOSPC /
	// EACCES that also works when the tests run as root
	longTmp := strings.Repeat("i", 240) + ".html"  // 245: +9 = 254 fits, +13 = 258 does not
	longCopy := strings.Repeat("j", 245) + ".html" // 250: +9 = 259 does not fit

	cases := []struct {
		name      string
		indexName string
		prepare   func(dir string) error
	}{
		{
			name:      "a directory sits on the name of the compressed copy",
			indexName: "index.html",
			prepare: func(dir string) error {
				return os.Mkdir(filepath.Join(dir, "index.html"+consts.FSCompressedFileSuffix), 0o755)
			},
		},
		{
			name:      "a directory sits on the name of the temporary file",
			indexName: "index.html",
			prepare: func(dir string) error {
				return os.Mkdir(filepath.Join(dir, "index.html"+consts.FSCompressedFileSuffix+".tmp"), 0o755)
			},
		},
		{
			// the realistic case; needs a process that is not root
			name:      "the directory is not writable",
			indexName: "index.html",
			prepare: func(dir string) error {
				if os.Geteuid() == 0 {
					return errHunt2f1Root
				}
				return os.Chmod(dir, 0o555)
			},
		},
		{name: "temporary file name too long", indexName: longTmp, prepare: func(string) error { return nil }},
		{name: "compressed copy name too long", indexName: longCopy, prepare: func(string) error { return nil }},
	}

	for _, tc := range cases {
		tc := tc
		t.Run(tc.name, func(t *testing.T) {
			root := t.TempDir()
			dir := filepath.Join(root, "docs")
			if err := os.Mkdir(dir, 0o755); err != nil {
				t.Fatal(err)
			}
			if err := os.WriteFile(filepath.Join(dir, tc.indexName), content, 0o644); err != nil {
				t.Skipf("the file system does not take the index file name: %s", err)
			}
			if err := tc.prepare(dir); err == errHunt2f1Root {
				t.Skip("root may write anywhere")
			} else if err != nil {
				t.Fatal(err)
			}
			defer os.Chmod(dir, 0o755) //nolint:errcheck

			fs := &FS{Root: root, IndexNames: []string{tc.indexName}, Compress: true}
			h := fs.NewRequestHandler()

			// reference: the very same request without gzip
			plain := hunt2f1Do(t, h, consts.MethodGet, "/docs/", false)
			if plain.status != consts.StatusOK || !bytes.Equal(plain.body, content) {
				t.Fatalf("GET /docs/ without gzip: status %d, %d body bytes; the set-up is broken", plain.status, len(plain.body))
			}

			for _, method := range []string{consts.MethodGet, consts.MethodHead} {
				r := hunt2f1Do(t, h, method, "/docs/", true)
				if r.status != consts.StatusOK {
					t.Errorf("%s /docs/ with Accept-Encoding: gzip: status %d %q, want 200: the index file %q exists under the root and is served to a client that does not accept gzip",
						method, r.status, r.body, tc.indexName[:10]+"...")
					continue
				}
				if method == consts.MethodHead {
					continue
				}
				body := r.body
				if r.contentLength != len(body) {
					t.Errorf("GET /docs/ with Accept-Encoding: gzip: Content-Length %d, body of %d bytes", r.contentLength, len(body))
				}
				if r.contentEncoding == "gzip" {
					zr, err := gzip.NewReader(bytes.NewReader(body))
					if err == nil {
						body, err = ioutil.ReadAll(zr)
					}
					if err != nil {
						t.Errorf("cannot gunzip the body: %s", err)
						continue
					}
				}
				if !bytes.Equal(body, content) {
					t.Errorf("GET /docs/ with Accept-Encoding: gzip: body is not the index file (%d bytes, want %d)", len(body), len(content))
				}
			}
		})
	}
}
