package server

// C05 - NUL in a header value (cookie value, content type, redirect location,
// trailer value ...) is written to the wire as it is.
//
// appendHeaderLine filters values through bytesconv.NewlineToSpaceTable, which
// maps CR and LF only. RFC 9110 section 5.5 names CR, LF and NUL together as the
// bytes that are "invalid and dangerous" in a field value: a recipient either
// rejects the message or replaces them. A strict parser (net/http here) rejects
// the WHOLE message, so none of the fields the application set is read back.

import (
	"bufio"
	"bytes"
	"context"
	"net"
	"net/http"
	"net/http/httptest"
	"strings"
	"testing"
	"time"

	"github.com/cloudwego/hertz/pkg/app"
	"github.com/cloudwego/hertz/pkg/app/client"
	"github.com/cloudwego/hertz/pkg/protocol"
)

func hunt2FreeAddr(t *testing.T) string {
	t.Helper()
	ln, err := net.Listen("tcp", "127.0.0.1:0")
	if err != nil {
		t.Fatal(err)
	}
	defer ln.Close()
	return ln.Addr().String()
}

// what the header types serialise, read back by a strict parser
func TestHunt2_2_NULInValue_HeaderBlock(t *testing.T) {
	t.Run("response", func(t *testing.T) {
		set := map[string]func(h *protocol.ResponseHeader){
			"Set":         func(h *protocol.ResponseHeader) { h.Set("X-Tenant", "a\x00b") },
			"ContentType": func(h *protocol.ResponseHeader) { h.SetContentType("text/plain\x00; charset=utf-8") },
			"Location":    func(h *protocol.ResponseHeader) { h.SetCanonical([]byte("Location"), []byte("/next\x00")) },
			"SetCookie": func(h *protocol.ResponseHeader) {
				var c protocol.Cookie
				c.SetKey("k")
				c.SetValue("v\x00w")
				h.SetCookie(&c)
			},
		}
		for name, f := range set {
			var h protocol.ResponseHeader
			h.Set("X-Before", "1")
			f(&h)
			h.Set("X-After", "2")
			raw := h.Header()
			if bytes.IndexByte(raw, 0) >= 0 {
				t.Errorf("%s: NUL on the wire: %q", name, raw)
			}
			resp, err := http.ReadResponse(bufio.NewReader(bytes.NewReader(raw)), nil)
			if err != nil {
				t.Errorf("%s: a strict parser reads no field at all: %v", name, err)
				continue
			}
			if resp.Header.Get("X-Before") != "1" || resp.Header.Get("X-After") != "2" {
				t.Errorf("%s: fields lost: %q", name, resp.Header)
			}
		}
	})
	t.Run("request", func(t *testing.T) {
		set := map[string]func(h *protocol.RequestHeader){
			"Set":       func(h *protocol.RequestHeader) { h.Set("X-Tenant", "a\x00b") },
			"UserAgent": func(h *protocol.RequestHeader) { h.SetUserAgentBytes([]byte("ua\x00")) },
			"Cookie":    func(h *protocol.RequestHeader) { h.SetCookie("k", "v\x00w") },
		}
		for name, f := range set {
			var h protocol.RequestHeader
			h.SetMethod("GET")
			h.SetRequestURI("/")
			h.SetHost("example.com")
			h.Set("X-Before", "1")
			f(&h)
			h.Set("X-After", "2")
			raw := h.Header()
			if bytes.IndexByte(raw, 0) >= 0 {
				t.Errorf("%s: NUL on the wire: %q", name, raw)
			}
			req, err := http.ReadRequest(bufio.NewReader(bytes.NewReader(raw)))
			if err != nil {
				t.Errorf("%s: a strict parser reads no field at all: %v", name, err)
				continue
			}
			if req.Header.Get("X-Before") != "1" || req.Header.Get("X-After") != "2" {
				t.Errorf("%s: fields lost: %q", name, req.Header)
			}
		}
	})
	t.Run("trailer", func(t *testing.T) {
		var tr protocol.Trailer
		tr.Set("X-Sum", "a\x00b") //nolint:errcheck
		if raw := tr.Header(); bytes.IndexByte(raw, 0) >= 0 {
			t.Errorf("NUL in the trailer section: %q", raw)
		}
	})
}

// the same, end to end: the hertz server answers a net/http client
func TestHunt2_2_NULInValue_ServerResponse(t *testing.T) {
	addr := hunt2FreeAddr(t)
	h := New(WithHostPorts(addr), WithExitWaitTime(100*time.Millisecond))
	h.GET("/n", func(c context.Context, ctx *app.RequestContext) {
		ctx.Header("X-Tenant", "a\x00b")
		ctx.SetCookie("sid", "1", 60, "/", "example.com\x00", protocol.CookieSameSiteLaxMode, false, false)
		ctx.String(200, "ok")
	})
	go h.Spin()
	defer h.Shutdown(context.Background()) //nolint:errcheck
	for i := 0; i < 100; i++ {
		if c, err := net.Dial("tcp", addr); err == nil {
			c.Close()
			break
		}
		time.Sleep(20 * time.Millisecond)
	}
	resp, err := http.Get("http://" + addr + "/n")
	if err != nil {
		t.Fatalf("net/http rejects the response as a whole: %v", err)
	}
	defer resp.Body.Close()
	if strings.IndexByte(resp.Header.Get("X-Tenant"), 0) >= 0 {
		t.Errorf("NUL delivered in X-Tenant: %q", resp.Header.Get("X-Tenant"))
	}
}

// and the hertz client talks to a net/http server
func TestHunt2_2_NULInValue_ClientRequest(t *testing.T) {
	seenCh := make(chan http.Header, 1)
	srv := httptest.NewServer(http.HandlerFunc(func(w http.ResponseWriter, r *http.Request) {
		seenCh <- r.Header.Clone()
		w.WriteHeader(204)
	}))
	defer srv.Close()

	cli, err := client.NewClient()
	if err != nil {
		t.Fatal(err)
	}
	req, resp := protocol.AcquireRequest(), protocol.AcquireResponse()
	req.SetMethod("GET")
	req.SetRequestURI(srv.URL + "/")
	req.SetHeader("X-Before", "1")
	req.SetHeader("X-Tenant", "a\x00b")
	if err = cli.Do(context.Background(), req, resp); err != nil {
		t.Fatal(err)
	}
	if resp.StatusCode() != 204 {
		t.Fatalf("net/http answers %d %q: the request was rejected as a whole", resp.StatusCode(), resp.Body())
	}
	seen := <-seenCh
	if seen.Get("X-Before") != "1" {
		t.Errorf("fields lost: %q", seen)
	}
	if strings.IndexByte(seen.Get("X-Tenant"), 0) >= 0 {
		t.Errorf("NUL delivered in X-Tenant")
	}
}

// hertz does not even interoperate with itself here: its own request parser
// (pkg/protocol/http1/req/header.go validHeaderFieldValue) refuses what its
// client writes.
func TestHunt2_2_NULInValue_HertzClientToHertzServer(t *testing.T) {
	addr := hunt2FreeAddr(t)
	h := New(WithHostPorts(addr), WithExitWaitTime(100*time.Millisecond))
	h.GET("/n", func(c context.Context, ctx *app.RequestContext) {
		ctx.String(200, "before=%s", ctx.Request.Header.Get("X-Before"))
	})
	go h.Spin()
	defer h.Shutdown(context.Background()) //nolint:errcheck
	for i := 0; i < 100; i++ {
		if c, err := net.Dial("tcp", addr); err == nil {
			c.Close()
			break
		}
		time.Sleep(20 * time.Millisecond)
	}
	cli, err := client.NewClient()
	if err != nil {
		t.Fatal(err)
	}
	req, resp := protocol.AcquireRequest(), protocol.AcquireResponse()
	req.SetMethod("GET")
	req.SetRequestURI("http://" + addr + "/n")
	req.SetHeader("X-Before", "1")
	req.SetHeader("X-Tenant", "a\x00b")
	if err = cli.Do(context.Background(), req, resp); err != nil {
		t.Fatal(err)
	}
	if resp.StatusCode() != 200 || string(resp.Body()) != "before=1" {
		t.Errorf("the hertz server answers %d %q to the request the hertz client wrote", resp.StatusCode(), resp.Body())
	}
}
