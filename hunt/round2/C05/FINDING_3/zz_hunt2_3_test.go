package server

// C05 - a response whose header block has already been written through the chunked
// body writer gets a SECOND start line and header block when the handler then calls
// a helper that resets the response (ctx.AbortWithMsg, ctx.NotFound, the error paths
// of ctx.File, Response.Reset).
//
// Response.Reset drops the hijack writer; writeResponse (pkg/protocol/http1/server.go)
// then no longer knows that a header block left and serialises a complete response
// behind the chunks already sent. The chunked body is never terminated either.

import (
	"bufio"
	"bytes"
	"context"
	"io"
	"net"
	"net/http"
	"testing"
	"time"

	"github.com/cloudwego/hertz/pkg/app"
	"github.com/cloudwego/hertz/pkg/protocol/http1/resp"
)

func hunt2Get(t *testing.T, addr, path string) []byte {
	t.Helper()
	var c net.Conn
	var err error
	for i := 0; i < 100; i++ {
		if c, err = net.Dial("tcp", addr); err == nil {
			break
		}
		time.Sleep(20 * time.Millisecond)
	}
	if err != nil {
		t.Fatal(err)
	}
	defer c.Close()
	c.Write([]byte("GET " + path + " HTTP/1.1\r\nHost: x\r\nConnection: close\r\n\r\n")) //nolint:errcheck
	c.SetReadDeadline(time.Now().Add(3 * time.Second))                                   //nolint:errcheck
	raw, _ := io.ReadAll(c)
	return raw
}

func TestHunt2_3_ResetAfterHeaderLeft_SecondStartLine(t *testing.T) {
	ln, err := net.Listen("tcp", "127.0.0.1:0")
	if err != nil {
		t.Fatal(err)
	}
	addr := ln.Addr().String()
	ln.Close()

	h := New(WithHostPorts(addr), WithExitWaitTime(100*time.Millisecond))
	stream := func(ctx *app.RequestContext) {
		ctx.Response.HijackWriter(resp.NewChunkedBodyWriter(&ctx.Response, ctx.GetWriter()))
		ctx.Header("X-Stream", "1")
		ctx.Write([]byte("part1")) //nolint:errcheck
		ctx.Flush()                //nolint:errcheck
	}
	h.GET("/abort", func(c context.Context, ctx *app.RequestContext) {
		stream(ctx)
		// something went wrong half way
		ctx.AbortWithMsg("boom", 500)
	})
	h.GET("/notfound", func(c context.Context, ctx *app.RequestContext) {
		stream(ctx)
		ctx.NotFound()
	})
	go h.Spin()
	defer h.Shutdown(context.Background()) //nolint:errcheck

	for _, path := range []string{"/abort", "/notfound"} {
		raw := hunt2Get(t, addr, path)
		if len(raw) == 0 {
			t.Fatalf("%s: no response", path)
		}
		if n := bytes.Count(raw, []byte("HTTP/1.1 ")); n != 1 {
			t.Errorf("%s: %d start lines in one response:\n%q", path, n, raw)
		}
		if n := bytes.Count(raw, []byte("\r\nDate: ")); n != 1 {
			t.Errorf("%s: %d Date lines in one response", path, n)
		}
		// a strict reader must get through the message it was promised
		r, err := http.ReadResponse(bufio.NewReader(bytes.NewReader(raw)), nil)
		if err != nil {
			t.Errorf("%s: %v", path, err)
			continue
		}
		if _, err = io.ReadAll(r.Body); err != nil && err != io.ErrUnexpectedEOF {
			// (a body cut short by closing the connection is a legitimate way out;
			// a status line in the place of a chunk size is not)
			t.Errorf("%s: reading the chunked body: %v", path, err)
		}
	}
}
