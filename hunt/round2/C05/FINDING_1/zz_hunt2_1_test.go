package server

// C05 - a header setter that runs after the header block has been handed to the
// connection writer rewrites the block on the wire.
//
// resp.WriteHeader / req.WriteHeader (and resp.Write / req.write) queue
// Header.Header(), i.e. the header's own scratch buffer bufKV.value, on the
// connection writer. Blocks of 4 KiB and more are kept BY REFERENCE until the
// next flush. With a body given as a stream, application code (the stream's Read)
// runs between that write and the flush, and every header setter stages its raw,
// unfiltered value in the same scratch buffer.

import (
	"bufio"
	"bytes"
	"context"
	"io"
	"net"
	"net/http"
	"strings"
	"testing"
	"time"

	"github.com/cloudwego/hertz/pkg/app"
	"github.com/cloudwego/hertz/pkg/app/client"
	"github.com/cloudwego/hertz/pkg/protocol"
)

const (
	hunt2NApp   = 45 // 45 fields of about 100 bytes: a header block above 4 KiB
	hunt2LateV  = "v\r\nSet-Cookie: injected=1\r\nX-Pad: pppppppppppppppppppppppppppppp"
	hunt2LateRq = "v HTTP/1.1\r\nX-Injected: 1\r\nX-Pad: pppppppppppppppppppppppppppppp"
)

func hunt2BigName(i int) string {
	return "X-Big-" + string(rune('A'+i/26)) + string(rune('a'+i%26))
}

// hunt2CheckBlock checks a header block read from the wire: one start line with the
// given prefix / suffix, then only well-formed field lines; it returns the lower-cased
// field names.
func hunt2CheckBlock(t *testing.T, raw []byte, startPrefix, startSuffix string) []string {
	t.Helper()
	end := bytes.Index(raw, []byte("\r\n\r\n"))
	if end < 0 {
		t.Fatalf("no header block in %q", raw)
	}
	lines := strings.Split(string(raw[:end]), "\r\n")
	if !strings.HasPrefix(lines[0], startPrefix) || !strings.HasSuffix(lines[0], startSuffix) {
		t.Errorf("start line destroyed: %q", lines[0])
	}
	var names []string
	for _, l := range lines[1:] {
		i := strings.IndexByte(l, ':')
		if i <= 0 || strings.ContainsAny(l[:i], " \t\r\n") {
			t.Errorf("not a header line: %q", l)
			continue
		}
		names = append(names, strings.ToLower(l[:i]))
	}
	return names
}

func hunt2Count(names []string, prefix string) int {
	n := 0
	for _, s := range names {
		if strings.HasPrefix(s, prefix) {
			n++
		}
	}
	return n
}

// ---------------------------------------------------------------- response

// hunt2RespStream is a response body stream which touches the response header
// while the body is being read (code ported from net/http fills in a declared
// trailer that way), i.e. after the header block has been written.
type hunt2RespStream struct {
	ctx  *app.RequestContext
	done bool
}

func (r *hunt2RespStream) Read(p []byte) (int, error) {
	if r.done {
		return 0, io.EOF
	}
	r.done = true
	// the header block has left: whatever this does, it must not produce lines
	r.ctx.Response.Header.Set("X-Late", hunt2LateV)
	return copy(p, "hello"), nil
}

func TestHunt2_1_StreamedResponse_LateHeaderSetterRewritesWireBlock(t *testing.T) {
	ln0, err := net.Listen("tcp", "127.0.0.1:0")
	if err != nil {
		t.Fatal(err)
	}
	addr := ln0.Addr().String()
	ln0.Close()
	h := New(WithHostPorts(addr), WithExitWaitTime(100*time.Millisecond))
	h.GET("/s", func(c context.Context, ctx *app.RequestContext) {
		for i := 0; i < hunt2NApp; i++ {
			ctx.Response.Header.Set(hunt2BigName(i), strings.Repeat("v", 90))
		}
		ctx.SetBodyStream(&hunt2RespStream{ctx: ctx}, -1)
	})
	go h.Spin()
	defer h.Shutdown(context.Background()) //nolint:errcheck

	var c net.Conn
	for i := 0; i < 100; i++ {
		if c, err = net.Dial("tcp", addr); err == nil {
			break
		}
		time.Sleep(20 * time.Millisecond)
	}
	if err != nil {
		t.Fatal(err)
	}
	defer c.Close()
	c.Write([]byte("GET /s HTTP/1.1\r\nHost: x\r\nConnection: close\r\n\r\n")) //nolint:errcheck
	c.SetReadDeadline(time.Now().Add(3 * time.Second))                         //nolint:errcheck
	raw, _ := io.ReadAll(c)
	if len(raw) == 0 {
		t.Fatal("no response")
	}
	t.Logf("first bytes on the wire: %q", raw[:130])

	names := hunt2CheckBlock(t, raw, "HTTP/1.1 200 ", "")
	if n := hunt2Count(names, "x-big-"); n != hunt2NApp {
		t.Errorf("the application set %d X-Big-* fields, the wire has %d", hunt2NApp, n)
	}
	if n := hunt2Count(names, "set-cookie"); n != 0 {
		t.Errorf("the application never set a cookie, the wire has %d Set-Cookie line(s)", n)
	}
	if n := hunt2Count(names, "date"); n != 1 {
		t.Errorf("the wire has %d Date lines", n)
	}
	resp, err := http.ReadResponse(bufio.NewReader(bytes.NewReader(raw)), nil)
	if err != nil {
		t.Fatalf("net/http cannot read the response back: %v", err)
	}
	if v := resp.Header.Values("Set-Cookie"); len(v) != 0 {
		t.Errorf("net/http sees Set-Cookie %q", v)
	}
}

// ---------------------------------------------------------------- request

type hunt2ReqStream struct {
	req  *protocol.Request
	done bool
}

func (r *hunt2ReqStream) Read(p []byte) (int, error) {
	if r.done {
		return 0, io.EOF
	}
	r.done = true
	r.req.Header.Set("X-Late", hunt2LateRq)
	return copy(p, "hello"), nil
}

func TestHunt2_1_StreamedRequest_LateHeaderSetterRewritesWireBlock(t *testing.T) {
	ln, err := net.Listen("tcp", "127.0.0.1:0")
	if err != nil {
		t.Fatal(err)
	}
	defer ln.Close()
	got := make(chan []byte, 1)
	go func() {
		c, err := ln.Accept()
		if err != nil {
			got <- nil
			return
		}
		defer c.Close()
		var raw []byte
		buf := make([]byte, 64<<10)
		c.SetReadDeadline(time.Now().Add(3 * time.Second)) //nolint:errcheck
		for !bytes.Contains(raw, []byte("\r\n0\r\n\r\n")) {
			n, err := c.Read(buf)
			raw = append(raw, buf[:n]...)
			if err != nil {
				break
			}
		}
		c.Write([]byte("HTTP/1.1 200 OK\r\nContent-Length: 0\r\nConnection: close\r\n\r\n")) //nolint:errcheck
		got <- raw
	}()

	cli, err := client.NewClient()
	if err != nil {
		t.Fatal(err)
	}
	req, resp := protocol.AcquireRequest(), protocol.AcquireResponse()
	req.SetMethod("POST")
	req.SetRequestURI("http://" + ln.Addr().String() + "/upload")
	for i := 0; i < hunt2NApp; i++ {
		req.Header.Set(hunt2BigName(i), strings.Repeat("v", 90))
	}
	req.SetBodyStream(&hunt2ReqStream{req: req}, -1)
	_ = cli.Do(context.Background(), req, resp)

	raw := <-got
	if len(raw) == 0 {
		t.Fatal("no request on the wire")
	}
	t.Logf("first bytes on the wire: %q", raw[:130])

	names := hunt2CheckBlock(t, raw, "POST /upload", " HTTP/1.1")
	if n := hunt2Count(names, "x-big-"); n != hunt2NApp {
		t.Errorf("the application set %d X-Big-* fields, the wire has %d", hunt2NApp, n)
	}
	if n := hunt2Count(names, "x-injected"); n != 0 {
		t.Errorf("the wire has an X-Injected line, no such field was set")
	}
	if n := hunt2Count(names, "host"); n != 1 {
		t.Errorf("the wire has %d Host lines", n)
	}
	r, err := http.ReadRequest(bufio.NewReader(bytes.NewReader(raw)))
	if err != nil {
		t.Fatalf("net/http cannot read the request back: %v", err)
	}
	if r.Method != "POST" || r.URL.Path != "/upload" {
		t.Errorf("net/http reads %s %s", r.Method, r.URL.Path)
	}
	if v := r.Header.Values("X-Injected"); len(v) != 0 {
		t.Errorf("net/http sees X-Injected %q", v)
	}
}
