package server

// hunt2 / C01 / finding 1
//
// RFC 7230 section 4.1.1: a chunk-size may be followed by chunk extensions
// (chunk-ext = *( ";" chunk-ext-name [ "=" chunk-ext-val ] )) and "a recipient
// MUST ignore unrecognized chunk extensions".  Such a request is well-formed and
// unambiguously framed, so the handler has to see the chunk data and the request
// that follows on the connection has to be served as well.

import (
	"bufio"
	"context"
	"fmt"
	"io"
	"net"
	"net/http"
	"sync"
	"testing"
	"time"

	"github.com/cloudwego/hertz/pkg/app"
	"github.com/cloudwego/hertz/pkg/common/config"
	"github.com/cloudwego/hertz/pkg/network/netpoll"
	"github.com/cloudwego/hertz/pkg/network/standard"
)

type zzh1Seen struct {
	method, uri, body, bodyErr string
}

func zzh1Start(t *testing.T, useNetpoll, stream bool) (addr string, take func() []zzh1Seen, stop func()) {
	l, err := net.Listen("tcp", "127.0.0.1:0")
	if err != nil {
		t.Fatal(err)
	}
	addr = l.Addr().String()
	l.Close()
	opts := []config.Option{WithHostPorts(addr), WithStreamBody(stream), WithDisablePrintRoute(true), WithExitWaitTime(10 * time.Millisecond)}
	if useNetpoll {
		opts = append(opts, WithTransport(netpoll.NewTransporter))
	} else {
		opts = append(opts, WithTransport(standard.NewTransporter))
	}
	h := New(opts...)
	var mu sync.Mutex
	var log []zzh1Seen
	h.NoRoute(func(c context.Context, ctx *app.RequestContext) {
		e := zzh1Seen{method: string(ctx.Request.Header.Method()), uri: string(ctx.Request.Header.RequestURI())}
		if ctx.Request.IsBodyStream() {
			b, err := io.ReadAll(ctx.RequestBodyStream())
			e.body = string(b)
			if err != nil {
				e.bodyErr = err.Error()
			}
		} else {
			e.body = string(ctx.Request.Body())
		}
		mu.Lock()
		log = append(log, e)
		mu.Unlock()
		ctx.SetStatusCode(200)
		ctx.SetBodyString("ok " + e.uri)
	})
	go h.Spin()
	for i := 0; i < 300; i++ {
		c, err := net.Dial("tcp", addr)
		if err == nil {
			c.Close()
			break
		}
		time.Sleep(10 * time.Millisecond)
	}
	time.Sleep(30 * time.Millisecond)
	take = func() []zzh1Seen {
		mu.Lock()
		defer mu.Unlock()
		r := log
		log = nil
		return r
	}
	stop = func() {
		ctx, cancel := context.WithTimeout(context.Background(), 300*time.Millisecond)
		defer cancel()
		_ = h.Shutdown(ctx)
	}
	take()
	return
}

// zzh1Exchange sends raw on one connection and reads up to want responses.
func zzh1Exchange(t *testing.T, addr, raw string, want int) (status []int, bodies []string) {
	c, err := net.Dial("tcp", addr)
	if err != nil {
		t.Fatal(err)
	}
	defer c.Close()
	if _, err = c.Write([]byte(raw)); err != nil {
		t.Fatal(err)
	}
	br := bufio.NewReader(c)
	for i := 0; i < want; i++ {
		c.SetReadDeadline(time.Now().Add(2 * time.Second))
		r, err := http.ReadResponse(br, nil)
		if err != nil {
			return
		}
		b, _ := io.ReadAll(r.Body)
		status = append(status, r.StatusCode)
		bodies = append(bodies, string(b))
		if r.Close {
			return
		}
	}
	return
}

func TestZZHunt2_1_ChunkExtensions(t *testing.T) {
	chunkLines := []struct{ name, first, last string }{
		{"ext with value", "5;ext=1", "0"},
		{"ext without value", "5;ext", "0"},
		{"quoted ext value", `5;ext="a b"`, "0"},
		{"ext on the last chunk", "5", "0;last=1"},
	}
	for _, useNetpoll := range []bool{false, true} {
		for _, stream := range []bool{false, true} {
			addr, take, stop := zzh1Start(t, useNetpoll, stream)
			for _, cl := range chunkLines {
				name := fmt.Sprintf("netpoll=%v/stream=%v/%s", useNetpoll, stream, cl.name)
				raw := "POST /a HTTP/1.1\r\nHost: x\r\nTransfer-Encoding: chunked\r\n\r\n" +
					cl.first + "\r\nhello\r\n" + cl.last + "\r\n\r\n" +
					"GET /b HTTP/1.1\r\nHost: x\r\n\r\n"
				status, bodies := zzh1Exchange(t, addr, raw, 2)
				time.Sleep(5 * time.Millisecond)
				log := take()
				if len(status) != 2 || status[0] != 200 || status[1] != 200 || bodies[0] != "ok /a" || bodies[1] != "ok /b" {
					t.Errorf("%s: responses: status=%v bodies=%q, want two 200 responses (ok /a, ok /b)", name, status, bodies)
				}
				if len(log) != 2 {
					t.Errorf("%s: handler ran %d times (%+v), want 2 (POST /a, GET /b)", name, len(log), log)
					continue
				}
				if log[0].uri != "/a" || log[0].body != "hello" || log[0].bodyErr != "" {
					t.Errorf("%s: first handler saw uri=%q body=%q err=%q, want /a with body \"hello\"", name, log[0].uri, log[0].body, log[0].bodyErr)
				}
				if log[1].method != "GET" || log[1].uri != "/b" || log[1].body != "" {
					t.Errorf("%s: second handler saw %s %s body=%q, want GET /b", name, log[1].method, log[1].uri, log[1].body)
				}
			}
			stop()
		}
	}
}
