package server

// hunt2 / C01 / finding 3
//
// A response to a HEAD request never carries a message body (RFC 7230 section
// 3.3.3, rule 1): after its header block the next bytes on the connection belong
// to the response to the next request.  Serve knows that (it sets
// Response.SkipBody for HEAD), but a handler that answers through the chunked
// body writer -- the documented way to stream a response,
// ctx.Response.HijackWriter(resp.NewChunkedBodyWriter(...)) -- still gets its
// chunks written behind the header block of the HEAD response.  On a keep-alive
// connection those bytes are taken for the response to the next request.

import (
	"bufio"
	"context"
	"io"
	"net"
	"net/http"
	"testing"
	"time"

	"github.com/cloudwego/hertz/pkg/app"
	"github.com/cloudwego/hertz/pkg/common/config"
	"github.com/cloudwego/hertz/pkg/network/netpoll"
	"github.com/cloudwego/hertz/pkg/network/standard"
	"github.com/cloudwego/hertz/pkg/protocol/http1/resp"
)

func TestZZHunt2_3_HeadResponseThroughChunkedWriter(t *testing.T) {
	for _, useNetpoll := range []bool{false, true} {
		l, err := net.Listen("tcp", "127.0.0.1:0")
		if err != nil {
			t.Fatal(err)
		}
		addr := l.Addr().String()
		l.Close()
		opts := []config.Option{WithHostPorts(addr), WithDisablePrintRoute(true), WithExitWaitTime(10 * time.Millisecond)}
		if useNetpoll {
			opts = append(opts, WithTransport(netpoll.NewTransporter))
		} else {
			opts = append(opts, WithTransport(standard.NewTransporter))
		}
		h := New(opts...)
		// the same streaming handler serves GET and HEAD
		h.Any("/stream", func(c context.Context, ctx *app.RequestContext) {
			ctx.Response.HijackWriter(resp.NewChunkedBodyWriter(&ctx.Response, ctx.GetWriter()))
			ctx.Write([]byte("hello")) //nolint:errcheck
			ctx.Flush()                //nolint:errcheck
		})
		h.GET("/next", func(c context.Context, ctx *app.RequestContext) {
			ctx.String(200, "NEXT")
		})
		go h.Spin()
		for i := 0; i < 300; i++ {
			c, err := net.Dial("tcp", addr)
			if err == nil {
				c.Close()
				break
			}
			time.Sleep(10 * time.Millisecond)
		}
		time.Sleep(30 * time.Millisecond)

		func() {
			c, err := net.Dial("tcp", addr)
			if err != nil {
				t.Fatal(err)
			}
			defer c.Close()
			raw := "HEAD /stream HTTP/1.1\r\nHost: x\r\n\r\n" +
				"GET /next HTTP/1.1\r\nHost: x\r\n\r\n"
			if _, err = c.Write([]byte(raw)); err != nil {
				t.Fatal(err)
			}
			br := bufio.NewReader(c)
			c.SetReadDeadline(time.Now().Add(2 * time.Second))

			// response 1 answers the HEAD request: a header block and nothing else
			r1, err := http.ReadResponse(br, &http.Request{Method: "HEAD"})
			if err != nil {
				t.Errorf("netpoll=%v: reading the response to HEAD: %v", useNetpoll, err)
				return
			}
			io.Copy(io.Discard, r1.Body) //nolint:errcheck
			if r1.StatusCode != 200 {
				t.Errorf("netpoll=%v: HEAD /stream: status %d, want 200", useNetpoll, r1.StatusCode)
			}

			// what follows on the connection must be the response to GET /next
			peek, _ := br.Peek(16)
			r2, err := http.ReadResponse(br, &http.Request{Method: "GET"})
			if err != nil {
				t.Errorf("netpoll=%v: the bytes behind the HEAD response are not the next response: %v (they start with %q)", useNetpoll, err, peek)
				return
			}
			b, _ := io.ReadAll(r2.Body)
			if r2.StatusCode != 200 || string(b) != "NEXT" {
				t.Errorf("netpoll=%v: second response: status %d body %q, want 200 \"NEXT\"", useNetpoll, r2.StatusCode, b)
			}
		}()

		ctx, cancel := context.WithTimeout(context.Background(), 300*time.Millisecond)
		_ = h.Shutdown(ctx)
		cancel()
	}
}
