package server

// hunt2 / C01 / finding 4
//
// A client may send its requests back-to-back and then shut down the sending
// direction of the connection (shutdown(SHUT_WR), `printf ... | nc -N host port`):
// the byte stream is complete and well framed, the client goes on reading the
// responses.  With the standard transport every request is handled and answered.
// With the netpoll transport (the default on Linux/macOS) the FIN is taken for a
// closed connection: the first handler still runs, but no response reaches the
// client, and the requests behind the first one are never handled.

import (
	"bufio"
	"context"
	"io"
	"net"
	"net/http"
	"sync"
	"testing"
	"time"

	"github.com/cloudwego/hertz/pkg/app"
	"github.com/cloudwego/hertz/pkg/common/config"
	"github.com/cloudwego/hertz/pkg/network/netpoll"
	"github.com/cloudwego/hertz/pkg/network/standard"
)

func TestZZHunt2_4_RequestsFollowedByHalfClose(t *testing.T) {
	for _, useNetpoll := range []bool{false, true} {
		l, err := net.Listen("tcp", "127.0.0.1:0")
		if err != nil {
			t.Fatal(err)
		}
		addr := l.Addr().String()
		l.Close()
		opts := []config.Option{WithHostPorts(addr), WithDisablePrintRoute(true), WithExitWaitTime(10 * time.Millisecond)}
		if useNetpoll {
			opts = append(opts, WithTransport(netpoll.NewTransporter))
		} else {
			opts = append(opts, WithTransport(standard.NewTransporter))
		}
		h := New(opts...)
		var mu sync.Mutex
		var handled []string
		h.NoRoute(func(c context.Context, ctx *app.RequestContext) {
			mu.Lock()
			handled = append(handled, string(ctx.Request.Header.Method())+" "+string(ctx.Request.Header.RequestURI())+" "+string(ctx.Request.Body()))
			mu.Unlock()
			ctx.SetStatusCode(200)
			ctx.SetBodyString("ok " + string(ctx.Request.Header.RequestURI()))
		})
		go h.Spin()
		for i := 0; i < 300; i++ {
			c, err := net.Dial("tcp", addr)
			if err == nil {
				c.Close()
				break
			}
			time.Sleep(10 * time.Millisecond)
		}
		time.Sleep(30 * time.Millisecond)
		mu.Lock()
		handled = nil
		mu.Unlock()

		for _, tc := range []struct {
			name string
			raw  string
			want []string // response bodies
		}{
			{"one request", "GET /a HTTP/1.1\r\nHost: x\r\n\r\n", []string{"ok /a"}},
			{"three requests", "POST /a HTTP/1.1\r\nHost: x\r\nContent-Length: 5\r\n\r\nhello" +
				"GET /b HTTP/1.1\r\nHost: x\r\n\r\n" +
				"POST /c HTTP/1.1\r\nHost: x\r\nTransfer-Encoding: chunked\r\n\r\n3\r\nabc\r\n0\r\n\r\n", []string{"ok /a", "ok /b", "ok /c"}},
		} {
			c, err := net.Dial("tcp", addr)
			if err != nil {
				t.Fatal(err)
			}
			if _, err = c.Write([]byte(tc.raw)); err != nil {
				t.Fatal(err)
			}
			// everything is sent: close the sending direction, keep reading
			if err = c.(*net.TCPConn).CloseWrite(); err != nil {
				t.Fatal(err)
			}
			br := bufio.NewReader(c)
			var got []string
			for range tc.want {
				c.SetReadDeadline(time.Now().Add(time.Second))
				r, err := http.ReadResponse(br, nil)
				if err != nil {
					break
				}
				b, _ := io.ReadAll(r.Body)
				got = append(got, string(b))
			}
			c.Close()
			time.Sleep(10 * time.Millisecond)
			mu.Lock()
			hs := handled
			handled = nil
			mu.Unlock()
			if len(got) != len(tc.want) {
				t.Errorf("netpoll=%v/%s: got %d responses %q, want %d %q", useNetpoll, tc.name, len(got), got, len(tc.want), tc.want)
			} else {
				for i := range got {
					if got[i] != tc.want[i] {
						t.Errorf("netpoll=%v/%s: response %d is %q, want %q", useNetpoll, tc.name, i, got[i], tc.want[i])
					}
				}
			}
			if len(hs) != len(tc.want) {
				t.Errorf("netpoll=%v/%s: handler ran %d times %q, want %d", useNetpoll, tc.name, len(hs), hs, len(tc.want))
			}
		}

		ctx, cancel := context.WithTimeout(context.Background(), 300*time.Millisecond)
		_ = h.Shutdown(ctx)
		cancel()
	}
}
