package server

// hunt2 / C01 / finding 2
//
// RFC 7230 section 3.2: header-field = field-name ":" OWS field-value OWS, and
// OWS = *( SP / HTAB ).  A horizontal tab between the colon and the value (or
// behind the value) is optional whitespace exactly like a space: it is not part
// of the field value.  "Content-Length:\t5" therefore announces a body of five
// bytes, and "X-Probe:\tv\t" has the value "v".

import (
	"bufio"
	"context"
	"fmt"
	"io"
	"net"
	"net/http"
	"sync"
	"testing"
	"time"

	"github.com/cloudwego/hertz/pkg/app"
	"github.com/cloudwego/hertz/pkg/common/config"
	"github.com/cloudwego/hertz/pkg/network/netpoll"
	"github.com/cloudwego/hertz/pkg/network/standard"
)

type zzh2Seen struct {
	method, uri, body, probe string
}

func zzh2Start(t *testing.T, useNetpoll, stream bool) (addr string, take func() []zzh2Seen, stop func()) {
	l, err := net.Listen("tcp", "127.0.0.1:0")
	if err != nil {
		t.Fatal(err)
	}
	addr = l.Addr().String()
	l.Close()
	opts := []config.Option{WithHostPorts(addr), WithStreamBody(stream), WithDisablePrintRoute(true), WithExitWaitTime(10 * time.Millisecond)}
	if useNetpoll {
		opts = append(opts, WithTransport(netpoll.NewTransporter))
	} else {
		opts = append(opts, WithTransport(standard.NewTransporter))
	}
	h := New(opts...)
	var mu sync.Mutex
	var log []zzh2Seen
	h.NoRoute(func(c context.Context, ctx *app.RequestContext) {
		e := zzh2Seen{method: string(ctx.Request.Header.Method()), uri: string(ctx.Request.Header.RequestURI())}
		e.body = string(ctx.Request.Body())
		e.probe = string(ctx.Request.Header.Peek("X-Probe"))
		mu.Lock()
		log = append(log, e)
		mu.Unlock()
		ctx.SetStatusCode(200)
		ctx.SetBodyString("ok " + e.uri)
	})
	go h.Spin()
	for i := 0; i < 300; i++ {
		c, err := net.Dial("tcp", addr)
		if err == nil {
			c.Close()
			break
		}
		time.Sleep(10 * time.Millisecond)
	}
	time.Sleep(30 * time.Millisecond)
	take = func() []zzh2Seen {
		mu.Lock()
		defer mu.Unlock()
		r := log
		log = nil
		return r
	}
	stop = func() {
		ctx, cancel := context.WithTimeout(context.Background(), 300*time.Millisecond)
		defer cancel()
		_ = h.Shutdown(ctx)
	}
	take()
	return
}

func zzh2Exchange(t *testing.T, addr, raw string, want int) (status []int, bodies []string) {
	c, err := net.Dial("tcp", addr)
	if err != nil {
		t.Fatal(err)
	}
	defer c.Close()
	if _, err = c.Write([]byte(raw)); err != nil {
		t.Fatal(err)
	}
	br := bufio.NewReader(c)
	for i := 0; i < want; i++ {
		c.SetReadDeadline(time.Now().Add(2 * time.Second))
		r, err := http.ReadResponse(br, nil)
		if err != nil {
			return
		}
		b, _ := io.ReadAll(r.Body)
		status = append(status, r.StatusCode)
		bodies = append(bodies, string(b))
		if r.Close {
			return
		}
	}
	return
}

func TestZZHunt2_2_TabIsOptionalWhitespace(t *testing.T) {
	cases := []struct{ name, headers string }{
		{"tab before the Content-Length value", "Content-Length:\t5\r\nX-Probe: v\r\n"},
		{"tab behind the Content-Length value", "Content-Length: 5\t\r\nX-Probe: v\r\n"},
		{"space and tab around the Content-Length value", "Content-Length: \t5 \t \r\nX-Probe: v\r\n"},
		{"tab around an ordinary field value", "Content-Length: 5\r\nX-Probe:\tv\t\r\n"},
	}
	for _, useNetpoll := range []bool{false, true} {
		for _, stream := range []bool{false, true} {
			addr, take, stop := zzh2Start(t, useNetpoll, stream)
			for _, cs := range cases {
				name := fmt.Sprintf("netpoll=%v/stream=%v/%s", useNetpoll, stream, cs.name)
				raw := "POST /a HTTP/1.1\r\nHost: x\r\n" + cs.headers + "\r\nhello" +
					"GET /b HTTP/1.1\r\nHost: x\r\n\r\n"
				status, bodies := zzh2Exchange(t, addr, raw, 2)
				time.Sleep(5 * time.Millisecond)
				log := take()
				if len(status) != 2 || status[0] != 200 || status[1] != 200 || bodies[0] != "ok /a" || bodies[1] != "ok /b" {
					t.Errorf("%s: responses: status=%v bodies=%q, want two 200 responses (ok /a, ok /b)", name, status, bodies)
				}
				if len(log) != 2 {
					t.Errorf("%s: handler ran %d times (%+v), want 2 (POST /a, GET /b)", name, len(log), log)
					continue
				}
				if log[0].uri != "/a" || log[0].body != "hello" {
					t.Errorf("%s: first handler saw uri=%q body=%q, want /a with body \"hello\"", name, log[0].uri, log[0].body)
				}
				if log[0].probe != "v" {
					t.Errorf("%s: first handler saw X-Probe=%q, want \"v\" (optional whitespace is not part of the value)", name, log[0].probe)
				}
				if log[1].method != "GET" || log[1].uri != "/b" || log[1].body != "" {
					t.Errorf("%s: second handler saw %s %s body=%q, want GET /b", name, log[1].method, log[1].uri, log[1].body)
				}
			}
			stop()
		}
	}
}
