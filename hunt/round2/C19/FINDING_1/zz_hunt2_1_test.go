package route

// C19 / finding 1
//
// HERTZ_DISABLE_REQUEST_CONTEXT_POOL=true (an environment switch read in
// pkg/protocol/http1/server.go init) makes Server.getRequestContext hand out a
// bare app.NewContext(0). Such a context has no TraceInfo. With a tracer
// registered (server.WithTracer) Server.Serve dereferences
// ctx.GetTraceInfo().Stats() unconditionally, so every traced request dies in a
// nil-pointer panic before the handler runs: the tracer gets a Start and a
// Finish for a request that was never handled and never answered, the Finish
// carries no trace info / no stage events and no error, and on the error
// outcomes (malformed header ...) the Finish is lost altogether (DoFinish
// panics on the nil TraceInfo before it reaches the tracers).
//
// The environment variable is read once at process start, so the test re-runs
// its own test binary with the variable set when it is not set already.

import (
	"context"
	"fmt"
	"os"
	"os/exec"
	"strings"
	"sync"
	"sync/atomic"
	"testing"
	"time"

	"github.com/cloudwego/hertz/pkg/app"
	"github.com/cloudwego/hertz/pkg/common/config"
	"github.com/cloudwego/hertz/pkg/common/test/mock"
	"github.com/cloudwego/hertz/pkg/common/tracer/stats"
	"github.com/cloudwego/hertz/pkg/network"
)

const hunt2C19Env = "HERTZ_DISABLE_REQUEST_CONTEXT_POOL"

type hunt2C19Tracer struct {
	mu  sync.Mutex
	log []string
}

var hunt2C19Stages = []struct {
	name string
	e    stats.Event
}{
	{"HTTPStart", stats.HTTPStart},
	{"ReadHeaderStart", stats.ReadHeaderStart}, {"ReadHeaderFinish", stats.ReadHeaderFinish},
	{"ReadBodyStart", stats.ReadBodyStart}, {"ReadBodyFinish", stats.ReadBodyFinish},
	{"ServerHandleStart", stats.ServerHandleStart}, {"ServerHandleFinish", stats.ServerHandleFinish},
	{"WriteStart", stats.WriteStart}, {"WriteFinish", stats.WriteFinish},
	{"HTTPFinish", stats.HTTPFinish},
}

type hunt2C19Transporter struct{}

func (hunt2C19Transporter) Close() error                               { return nil }
func (hunt2C19Transporter) Shutdown(ctx context.Context) error         { return nil }
func (hunt2C19Transporter) ListenAndServe(onData network.OnData) error { return nil }

func (x *hunt2C19Tracer) Start(ctx context.Context, c *app.RequestContext) context.Context {
	x.mu.Lock()
	x.log = append(x.log, "S")
	x.mu.Unlock()
	return ctx
}

func (x *hunt2C19Tracer) Finish(ctx context.Context, c *app.RequestContext) {
	entry := "F(" + string(c.Request.URI().Path()) + ")"
	if ti := c.GetTraceInfo(); ti == nil {
		entry += "[no trace info]"
	} else {
		var last time.Time
		for _, st := range hunt2C19Stages {
			ev := ti.Stats().GetEvent(st.e)
			if ev == nil {
				entry += "[missing " + st.name + "]"
				continue
			}
			if ev.Time().Before(last) {
				entry += "[" + st.name + " out of order]"
			}
			last = ev.Time()
		}
	}
	x.mu.Lock()
	x.log = append(x.log, entry)
	x.mu.Unlock()
}

func (x *hunt2C19Tracer) String() string {
	x.mu.Lock()
	defer x.mu.Unlock()
	return strings.Join(x.log, " ")
}

func TestHunt2C19TracerWithRequestContextPoolDisabled(t *testing.T) {
	if v := os.Getenv(hunt2C19Env); v != "true" {
		// the switch is read in an init(): run this very test again in a process that has it
		cmd := exec.Command(os.Args[0], "-test.run=^TestHunt2C19TracerWithRequestContextPoolDisabled$", "-test.v")
		cmd.Env = append(os.Environ(), hunt2C19Env+"=true")
		out, err := cmd.CombinedOutput()
		if err != nil {
			t.Fatalf("with %s=true the traced server misbehaves (%v):\n%s", hunt2C19Env, err, out)
		}
		return
	}

	serve := func(wire string) (tr *hunt2C19Tracer, handled []string, response string, panicked interface{}) {
		tr = &hunt2C19Tracer{}
		opt := config.NewOptions(nil)
		opt.Tracers = append(opt.Tracers, tr)
		// a transporter without a listener to look at: the engine counts as running once its status says so
		opt.TransporterNewer = func(*config.Options) network.Transporter { return hunt2C19Transporter{} }
		engine := NewEngine(opt)
		if err := engine.Init(); err != nil {
			t.Fatal(err)
		}
		atomic.StoreUint32(&engine.status, statusRunning)
		h := func(c context.Context, ctx *app.RequestContext) {
			handled = append(handled, string(ctx.Request.URI().Path()))
			ctx.String(200, "ok")
		}
		engine.GET("/a", h)
		engine.GET("/b", h)
		conn := mock.NewConn(wire)
		func() {
			defer func() { panicked = recover() }()
			engine.Serve(context.Background(), conn) //nolint:errcheck
		}()
		if rec := conn.WriterRecorder(); rec.WroteLen() > 0 {
			b, _ := rec.Peek(rec.WroteLen())
			response = string(b)
		}
		return
	}

	// two requests on one keep-alive connection, the second one closes it
	tr, handled, response, panicked := serve("GET /a HTTP/1.1\r\nHost: h\r\n\r\nGET /b HTTP/1.1\r\nHost: h\r\nConnection: close\r\n\r\n")
	if panicked != nil {
		t.Errorf("ok requests: Serve panicked: %v", panicked)
	}
	if got := fmt.Sprint(handled); got != "[/a /b]" {
		t.Errorf("ok requests: handled %s, want [/a /b]", got)
	}
	if n := strings.Count(response, "HTTP/1.1 200"); n != 2 {
		t.Errorf("ok requests: %d responses written, want 2", n)
	}
	if got, want := tr.String(), "S F(/a) S F(/b)"; got != want {
		t.Errorf("ok requests: tracer calls %q, want %q", got, want)
	}

	// an exchange that ends in an error still gets its Finish
	tr, _, _, panicked = serve("BAD\r\n\r\n")
	if panicked != nil {
		t.Errorf("malformed request: Serve panicked: %v", panicked)
	}
	if got := tr.String(); !strings.HasPrefix(got, "S F(") || strings.Count(got, "F(") != 1 {
		t.Errorf("malformed request: tracer calls %q, want one Start followed by one Finish", got)
	}
}
