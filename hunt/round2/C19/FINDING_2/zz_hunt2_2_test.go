package route

// C19 / finding 2
//
// internal/stats.Controller.DoStart / DoFinish run all registered tracers inside ONE
// recover. A tracer that panics therefore takes the calls of the OTHER, well-behaved
// tracers with it:
//   - panic in Start of an earlier tracer: the later tracers never get a Start for this
//     request, but DoFinish still delivers their Finish -> a Finish without a preceding
//     Start. DoStart also returns a nil context.Context (unnamed result after recover),
//     which Serve passes on to the handler chain.
//   - panic in Finish of a later tracer (Finish runs in reverse order): the earlier
//     tracers never get their Finish -> Start, Start, Start ... without a Finish.
// The warning that is logged says "This doesn't affect the http call".

import (
	"context"
	"strings"
	"sync"
	"sync/atomic"
	"testing"

	"github.com/cloudwego/hertz/pkg/app"
	"github.com/cloudwego/hertz/pkg/common/config"
	"github.com/cloudwego/hertz/pkg/common/test/mock"
	"github.com/cloudwego/hertz/pkg/network"
)

type hunt2C19bTransporter struct{}

func (hunt2C19bTransporter) Close() error                               { return nil }
func (hunt2C19bTransporter) Shutdown(ctx context.Context) error         { return nil }
func (hunt2C19bTransporter) ListenAndServe(onData network.OnData) error { return nil }

// a well-behaved tracer that writes down what it is told
type hunt2C19bGood struct {
	mu  sync.Mutex
	log []string
}

func (x *hunt2C19bGood) Start(ctx context.Context, c *app.RequestContext) context.Context {
	x.mu.Lock()
	x.log = append(x.log, "S")
	x.mu.Unlock()
	return ctx
}

func (x *hunt2C19bGood) Finish(ctx context.Context, c *app.RequestContext) {
	x.mu.Lock()
	x.log = append(x.log, "F("+string(c.Request.URI().Path())+")")
	x.mu.Unlock()
}

func (x *hunt2C19bGood) String() string {
	x.mu.Lock()
	defer x.mu.Unlock()
	return strings.Join(x.log, " ")
}

// a faulty tracer (think of a metrics plug-in with a bug)
type hunt2C19bBad struct{ inStart, inFinish bool }

func (b *hunt2C19bBad) Start(ctx context.Context, c *app.RequestContext) context.Context {
	if b.inStart {
		panic("faulty tracer: Start")
	}
	return ctx
}

func (b *hunt2C19bBad) Finish(ctx context.Context, c *app.RequestContext) {
	if b.inFinish {
		panic("faulty tracer: Finish")
	}
}

func hunt2C19bServe(t *testing.T, tracers []interface{}, wire string) (handlerCtxNil []bool) {
	opt := config.NewOptions(nil)
	opt.Tracers = append(opt.Tracers, tracers...)
	opt.TransporterNewer = func(*config.Options) network.Transporter { return hunt2C19bTransporter{} }
	engine := NewEngine(opt)
	if err := engine.Init(); err != nil {
		t.Fatal(err)
	}
	atomic.StoreUint32(&engine.status, statusRunning)
	h := func(c context.Context, ctx *app.RequestContext) {
		handlerCtxNil = append(handlerCtxNil, c == nil)
		ctx.String(200, "ok")
	}
	engine.GET("/a", h)
	engine.GET("/b", h)
	engine.Serve(context.Background(), mock.NewConn(wire)) //nolint:errcheck
	return
}

const hunt2C19bWire = "GET /a HTTP/1.1\r\nHost: h\r\n\r\nGET /b HTTP/1.1\r\nHost: h\r\nConnection: close\r\n\r\n"

func TestHunt2C19PanickingTracerStartUnpairsTheOthers(t *testing.T) {
	good := &hunt2C19bGood{}
	nilCtx := hunt2C19bServe(t, []interface{}{&hunt2C19bBad{inStart: true}, good}, hunt2C19bWire)
	if got, want := good.String(), "S F(/a) S F(/b)"; got != want {
		t.Errorf("calls seen by the well-behaved tracer registered after a tracer whose Start panics: %q, want %q", got, want)
	}
	if len(nilCtx) != 2 {
		t.Errorf("%d requests handled, want 2", len(nilCtx))
	}
	for i, isNil := range nilCtx {
		if isNil {
			t.Errorf("request %d: the handler was called with a nil context.Context", i+1)
		}
	}
}

func TestHunt2C19PanickingTracerFinishUnpairsTheOthers(t *testing.T) {
	good := &hunt2C19bGood{}
	hunt2C19bServe(t, []interface{}{good, &hunt2C19bBad{inFinish: true}}, hunt2C19bWire)
	if got, want := good.String(), "S F(/a) S F(/b)"; got != want {
		t.Errorf("calls seen by the well-behaved tracer registered before a tracer whose Finish panics: %q, want %q", got, want)
	}
}
