package binding_test

// C15 finding 1: the scalar header getter takes "Header.Peek(key) != nil" for
// "the header is present". For the headers the request header keeps in dedicated
// buffers (User-Agent, Content-Type, Host, Content-Length) Peek returns the buffer
// itself: nil on a new Request, but an EMPTY NON-NIL slice once the (pooled)
// Request has carried such a header before and was Reset. On a recycled request an
// absent User-Agent is therefore "present with the value \"\"": a 'required' is
// silently satisfied and a lower-priority source (json) is overridden by "".

import (
	"fmt"
	"testing"

	"github.com/cloudwego/hertz/pkg/app"
	"github.com/cloudwego/hertz/pkg/common/test/mock"
	"github.com/cloudwego/hertz/pkg/protocol/http1/req"
)

const hunt2f1WithUA = "GET /warm HTTP/1.1\r\nHost: example.com\r\nUser-Agent: curl/8.0\r\nContent-Type: text/plain\r\n\r\n"

func hunt2f1Body(body string) string {
	return fmt.Sprintf("POST /x HTTP/1.1\r\nHost: example.com\r\nContent-Type: application/json\r\nContent-Length: %d\r\n\r\n%s", len(body), body)
}

// serve reads raw into the context's request the way the http1 server does
func hunt2f1Read(t *testing.T, ctx *app.RequestContext, raw string) {
	t.Helper()
	if err := req.Read(&ctx.Request, mock.NewZeroCopyReader(raw)); err != nil {
		t.Fatalf("reading the request failed: %v", err)
	}
}

// recycled returns a context that has already served one request that carried a
// User-Agent and was reset, exactly what the server's context pool hands out
func hunt2f1Recycled(t *testing.T) *app.RequestContext {
	ctx := app.NewContext(0)
	hunt2f1Read(t, ctx, hunt2f1WithUA)
	ctx.Reset()
	return ctx
}

func TestHunt2_1_RequiredHeaderAbsentOnRecycledRequest(t *testing.T) {
	type Req struct {
		UA string `header:"User-Agent,required"`
	}
	raw := hunt2f1Body(`{}`) // no User-Agent header at all

	fresh := app.NewContext(0)
	hunt2f1Read(t, fresh, raw)
	var a Req
	errFresh := fresh.Bind(&a)
	if errFresh == nil {
		t.Fatalf("new request: a missing required header must be an error")
	}

	rec := hunt2f1Recycled(t)
	hunt2f1Read(t, rec, raw)
	var b Req
	errRec := rec.Bind(&b)
	if errRec == nil {
		t.Fatalf("recycled request: the request has no User-Agent header and the field is 'required', "+
			"but Bind returned no error and left UA=%q (the same bytes on a new request gave: %v)", b.UA, errFresh)
	}
}

func TestHunt2_1_AbsentHeaderOverridesJSONOnRecycledRequest(t *testing.T) {
	type Req struct {
		UA string `header:"User-Agent" json:"ua"`
	}
	raw := hunt2f1Body(`{"ua":"from-json"}`) // no User-Agent header: json is the first source that carries the value

	fresh := app.NewContext(0)
	hunt2f1Read(t, fresh, raw)
	var a Req
	if err := fresh.Bind(&a); err != nil || a.UA != "from-json" {
		t.Fatalf("new request: want UA=from-json, got %q err=%v", a.UA, err)
	}

	rec := hunt2f1Recycled(t)
	hunt2f1Read(t, rec, raw)
	var b Req
	if err := rec.Bind(&b); err != nil {
		t.Fatal(err)
	}
	if b.UA != "from-json" {
		t.Fatalf("recycled request: the header is absent, json carries \"from-json\"; want UA=from-json as on a new request, got %q", b.UA)
	}
}

func TestHunt2_1_AbsentContentTypeLeavesPointerNilOnRecycledRequest(t *testing.T) {
	type Req struct {
		CT string  `header:"Content-Type"`
		N  *string `header:"Content-Type"`
	}
	raw := "GET /x HTTP/1.1\r\nHost: example.com\r\n\r\n"
	rec := hunt2f1Recycled(t)
	hunt2f1Read(t, rec, raw)
	var b Req
	if err := rec.Bind(&b); err != nil {
		t.Fatal(err)
	}
	if b.N != nil {
		t.Fatalf("recycled request without a Content-Type header: the pointer field must stay nil (no value), got pointer to %q", *b.N)
	}
}
