package binding_test

// C15 finding 2: the scalar form getter decides "present" for a multipart field by
// len(value) != 0. A multipart/form-data field that is sent with an empty value is
// taken as absent: 'required' fails although the field is in the request, and the
// value is taken from a lower-priority source instead. The same empty value in an
// urlencoded body (f=) and the same multipart field bound to a slice are "present".

import (
	"fmt"
	"testing"

	"github.com/cloudwego/hertz/pkg/app/server/binding"
	"github.com/cloudwego/hertz/pkg/common/test/mock"
	"github.com/cloudwego/hertz/pkg/protocol"
	"github.com/cloudwego/hertz/pkg/protocol/http1/req"
)

func hunt2f2Parse(t *testing.T, raw string) *protocol.Request {
	t.Helper()
	r := &protocol.Request{}
	if err := req.Read(r, mock.NewZeroCopyReader(raw)); err != nil {
		t.Fatalf("reading the request failed: %v", err)
	}
	return r
}

func hunt2f2Multipart(extraHeader string) string {
	body := "--xx\r\nContent-Disposition: form-data; name=\"f\"\r\n\r\n\r\n" + // f = ""
		"--xx\r\nContent-Disposition: form-data; name=\"g\"\r\n\r\n1\r\n--xx--\r\n"
	return fmt.Sprintf("POST /x HTTP/1.1\r\nHost: example.com\r\n%sContent-Type: multipart/form-data; boundary=xx\r\nContent-Length: %d\r\n\r\n%s",
		extraHeader, len(body), body)
}

func TestHunt2_2_RequiredMultipartFieldWithEmptyValue(t *testing.T) {
	type Req struct {
		F string `form:"f,required"`
	}
	// control: the same empty value in an urlencoded form is present
	r := hunt2f2Parse(t, "POST /x HTTP/1.1\r\nHost: example.com\r\nContent-Type: application/x-www-form-urlencoded\r\nContent-Length: 6\r\n\r\nf=&g=1")
	var c Req
	if err := binding.Bind(r, &c, nil); err != nil {
		t.Fatalf("urlencoded f=: %v", err)
	}

	r = hunt2f2Parse(t, hunt2f2Multipart(""))
	mf, err := r.MultipartForm()
	if err != nil || len(mf.Value["f"]) != 1 {
		t.Fatalf("the multipart form must carry the field f: %v %v", mf, err)
	}
	var v Req
	if err := binding.Bind(r, &v, nil); err != nil {
		t.Fatalf("the multipart body carries the field f (with the value \"\"), the required value is not missing, but Bind failed: %v", err)
	}
}

func TestHunt2_2_EmptyMultipartFieldLosesToLowerPrioritySource(t *testing.T) {
	type Req struct {
		F  string   `form:"f" header:"X-F"`
		FS []string `form:"f" header:"X-F"`
	}
	r := hunt2f2Parse(t, hunt2f2Multipart("X-F: from-header\r\n"))
	var v Req
	if err := binding.Bind(r, &v, nil); err != nil {
		t.Fatal(err)
	}
	// form comes before header; the slice field of the same tags agrees
	if len(v.FS) != 1 || v.FS[0] != "" {
		t.Fatalf("slice field: want [\"\"] from the form, got %q", v.FS)
	}
	if v.F != "" {
		t.Fatalf("form is the first source that carries f (value \"\"), but the field was filled from the header: %q", v.F)
	}
}
