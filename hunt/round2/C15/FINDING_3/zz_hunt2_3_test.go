package binding_test

// C15 finding 3: preBindBody decides "the request has a body" by
// "Content-Length > 0 or the body is still a stream". A chunked request on a server
// that streams request bodies has Content-Length -1; as soon as anything has read
// the body once (a middleware calling Request.Body(), or an earlier Bind), the
// stream is drained into the body buffer, IsBodyStream() turns false and the length
// stays -1: every later Bind skips the json body although Request.Body() returns it.
// Fields stay zero without an error, while the required-key check (which reads
// Request.Body() itself) is satisfied.

import (
	"testing"

	"github.com/cloudwego/hertz/pkg/app"
	"github.com/cloudwego/hertz/pkg/common/test/mock"
	"github.com/cloudwego/hertz/pkg/protocol/http1/req"
)

const hunt2f3Chunked = "POST /x HTTP/1.1\r\nHost: example.com\r\nContent-Type: application/json\r\nTransfer-Encoding: chunked\r\n\r\n" +
	"11\r\n{\"a\":5,\"s\":\"str\"}\r\n0\r\n\r\n"

// read the request the way the http1 server does with server.WithStreamBody(true)
func hunt2f3Read(t *testing.T) *app.RequestContext {
	t.Helper()
	ctx := app.NewContext(0)
	zr := mock.NewZeroCopyReader(hunt2f3Chunked)
	if err := req.ReadHeader(&ctx.Request.Header, zr); err != nil {
		t.Fatal(err)
	}
	if err := req.ReadBodyStream(&ctx.Request, zr, 4*1024*1024, false, true); err != nil {
		t.Fatal(err)
	}
	if !ctx.Request.IsBodyStream() || ctx.Request.Header.ContentLength() != -1 {
		t.Fatalf("setup: expected a streamed chunked body, stream=%v length=%d", ctx.Request.IsBodyStream(), ctx.Request.Header.ContentLength())
	}
	return ctx
}

type hunt2f3Req struct {
	A int    `json:"a,required"`
	S string `json:"s"`
}

func TestHunt2_3_BindAfterBodyWasRead(t *testing.T) {
	ctx := hunt2f3Read(t)
	// e.g. an access-log or signature middleware in front of the handler
	if got := string(ctx.Request.Body()); got != `{"a":5,"s":"str"}` {
		t.Fatalf("setup: body = %q", got)
	}
	var v hunt2f3Req
	if err := ctx.Bind(&v); err != nil {
		t.Fatal(err)
	}
	if v.A != 5 || v.S != "str" {
		t.Fatalf("the json body %s is in the request, but Bind returned %+v without an error", ctx.Request.Body(), v)
	}
}

func TestHunt2_3_SecondBindOfTheSameRequest(t *testing.T) {
	ctx := hunt2f3Read(t)
	var first, second hunt2f3Req
	if err := ctx.Bind(&first); err != nil || first.A != 5 || first.S != "str" {
		t.Fatalf("first Bind: %+v %v", first, err)
	}
	if err := ctx.Bind(&second); err != nil {
		t.Fatal(err)
	}
	if second != first {
		t.Fatalf("the second Bind of the same request must give the same result: first %+v, second %+v", first, second)
	}
}
