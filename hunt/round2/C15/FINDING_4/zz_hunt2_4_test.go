package binding_test

// C15 finding 4: the form source is only read when the Content-Type is spelled in
// lower case. Request.PostArgs() (urlencoded) and RequestHeader.MultipartFormBoundary()
// (multipart) compare the media type with bytes.HasPrefix against the lower-case
// constant, and the "boundary" parameter name is matched case-sensitively as well.
// Media types and parameter names are case-insensitive (RFC 9110 8.3.1): with
// "Application/X-WWW-Form-Urlencoded" or "Multipart/Form-Data" every form value is
// absent for Bind: fields stay zero and 'required' fails although the value is there.

import (
	"fmt"
	"testing"

	"github.com/cloudwego/hertz/pkg/app/server/binding"
	"github.com/cloudwego/hertz/pkg/common/test/mock"
	"github.com/cloudwego/hertz/pkg/protocol"
	"github.com/cloudwego/hertz/pkg/protocol/http1/req"
)

type hunt2f4Req struct {
	A int      `form:"a,required"`
	S []string `form:"s"`
}

func hunt2f4Bind(t *testing.T, contentType, body string) (hunt2f4Req, error) {
	t.Helper()
	raw := fmt.Sprintf("POST /x HTTP/1.1\r\nHost: example.com\r\nContent-Type: %s\r\nContent-Length: %d\r\n\r\n%s", contentType, len(body), body)
	r := &protocol.Request{}
	if err := req.Read(r, mock.NewZeroCopyReader(raw)); err != nil {
		t.Fatalf("reading the request failed: %v", err)
	}
	var v hunt2f4Req
	err := binding.Bind(r, &v, nil)
	return v, err
}

const hunt2f4Multipart = "--xx\r\nContent-Disposition: form-data; name=\"a\"\r\n\r\n5\r\n" +
	"--xx\r\nContent-Disposition: form-data; name=\"s\"\r\n\r\nx\r\n--xx--\r\n"

func TestHunt2_4_FormContentTypeSpelling(t *testing.T) {
	cases := []struct{ name, contentType, body string }{
		{"urlencoded lower case (control)", "application/x-www-form-urlencoded", "a=5&s=x"},
		{"urlencoded mixed case", "Application/X-WWW-Form-Urlencoded", "a=5&s=x"},
		{"urlencoded upper case with charset", "APPLICATION/X-WWW-FORM-URLENCODED; charset=UTF-8", "a=5&s=x"},
		{"multipart lower case (control)", "multipart/form-data; boundary=xx", hunt2f4Multipart},
		{"multipart mixed case", "Multipart/Form-Data; boundary=xx", hunt2f4Multipart},
		{"multipart parameter name Boundary", "multipart/form-data; Boundary=xx", hunt2f4Multipart},
	}
	for _, c := range cases {
		t.Run(c.name, func(t *testing.T) {
			v, err := hunt2f4Bind(t, c.contentType, c.body)
			if err != nil {
				t.Fatalf("Content-Type %q: the form carries a=5, Bind failed: %v", c.contentType, err)
			}
			if v.A != 5 || len(v.S) != 1 || v.S[0] != "x" {
				t.Fatalf("Content-Type %q: want {A:5 S:[x]}, got %+v", c.contentType, v)
			}
		})
	}
}
