package generator

// C16 / finding 3: the empty route set.  A service that declares no HTTP method
// (a service without api.* annotations) still gets a router file, a
// middleware.go and a handler file; all three import packages they do not use,
// so the generated router package does not compile instead of registering
// nothing.

import (
	"bytes"
	"encoding/json"
	"fmt"
	"io/ioutil"
	"os"
	"os/exec"
	"path/filepath"
	"sort"
	"strings"
	"testing"
)

type huntRoute3 struct {
	Verb, Path, Name string
	NoGen            bool
}

type huntSpec3 struct {
	Dir, Proj             string
	Sort, Snake, ByMethod bool
	Cmd                   string
	Routes                []huntRoute3
}

const huntEnv3 = "ZZ_HUNT2_3_SPEC"

// TestZZHunt2_3_Helper is the "hz" process: one generator run per process, as
// with the real tool (the generator keeps package level name tables).
func TestZZHunt2_3_Helper(t *testing.T) {
	raw := os.Getenv(huntEnv3)
	if raw == "" {
		t.Skip("helper process only")
	}
	var s huntSpec3
	if err := json.Unmarshal([]byte(raw), &s); err != nil {
		t.Fatal(err)
	}
	if err := os.MkdirAll(s.Dir, 0o755); err != nil {
		t.Fatal(err)
	}
	if err := os.Chdir(s.Dir); err != nil { // hz runs inside the project directory
		t.Fatal(err)
	}
	svc := &Service{Name: "Svc"}
	for _, r := range s.Routes {
		svc.Methods = append(svc.Methods, &HttpMethod{
			Name: r.Name, HTTPMethod: r.Verb, Path: r.Path,
			RequestTypeName: "struct{}", ReturnTypeName: "struct{}", GenHandler: !r.NoGen,
		})
	}
	pkg := &HttpPackage{IdlName: "svc.thrift", Package: "svc", Services: []*Service{svc}}
	g := HttpPackageGenerator{
		HandlerDir: "biz/handler", RouterDir: "biz/router", ModelDir: "biz/model",
		TemplateGenerator:    TemplateGenerator{OutputDir: "."},
		ProjPackage:          s.Proj,
		HandlerByMethod:      s.ByMethod,
		SnakeStyleMiddleware: s.Snake,
		SortRouter:           s.Sort,
		CmdType:              s.Cmd,
	}
	SetDefaultTemplateConfig()
	if err := g.Generate(pkg); err != nil {
		t.Fatalf("generate: %v", err)
	}
	files, err := g.GetFormatAndExcludedFiles()
	if err != nil {
		t.Fatalf("format: %v", err)
	}
	for _, f := range files { // what the thriftgo/protoc host does with the plugin response
		if err := os.MkdirAll(filepath.Dir(f.Path), 0o755); err != nil {
			t.Fatal(err)
		}
		if err := ioutil.WriteFile(f.Path, []byte(f.Content), 0o644); err != nil {
			t.Fatal(err)
		}
	}
}

func huntHertzRoot3(t *testing.T) string {
	wd, err := os.Getwd() // <root>/cmd/hz/generator
	if err != nil {
		t.Fatal(err)
	}
	root := filepath.Clean(filepath.Join(wd, "..", "..", ".."))
	if _, err := os.Stat(filepath.Join(root, "pkg", "app", "server")); err != nil {
		t.Fatalf("hertz root not found from %s: %v", wd, err)
	}
	return root
}

func huntEnviron3() []string {
	return append(os.Environ(), "GOFLAGS=-mod=mod", "GOPROXY=off", "GOSUMDB=off", "GOTOOLCHAIN=local")
}

// huntNewModule3 makes an empty module "demo" that resolves hertz to this tree.
func huntNewModule3(t *testing.T) string {
	root := huntHertzRoot3(t)
	dir, err := ioutil.TempDir(root, "zz_hunt2_3_tmp")
	if err != nil {
		t.Fatal(err)
	}
	t.Cleanup(func() { os.RemoveAll(dir) })
	gomod := "module demo\n\ngo 1.17\n\nrequire github.com/cloudwego/hertz v0.0.0\n\nreplace github.com/cloudwego/hertz => ../\n"
	if err := ioutil.WriteFile(filepath.Join(dir, "go.mod"), []byte(gomod), 0o644); err != nil {
		t.Fatal(err)
	}
	sum, err := ioutil.ReadFile(filepath.Join(root, "go.sum"))
	if err != nil {
		t.Fatal(err)
	}
	if err := ioutil.WriteFile(filepath.Join(dir, "go.sum"), sum, 0o644); err != nil {
		t.Fatal(err)
	}
	return dir
}

func huntGenerate3(t *testing.T, s huntSpec3) {
	raw, _ := json.Marshal(s)
	cmd := exec.Command(os.Args[0], "-test.run=^TestZZHunt2_3_Helper$", "-test.v")
	cmd.Env = append(os.Environ(), huntEnv3+"="+string(raw))
	out, err := cmd.CombinedOutput()
	if err != nil {
		t.Fatalf("generator run failed: %v\n%s", err, out)
	}
}

const huntCheckSrc3 = `package zzcheck

import (
	"fmt"
	"strings"
	"testing"

	router "demo/biz/router"
	"github.com/cloudwego/hertz/pkg/app/server"
)

func TestRoutes(t *testing.T) {
	h := server.New()
	router.GeneratedRegister(h)
	for _, ri := range h.Routes() {
		n := ri.Handler
		fmt.Println("ROUTE", ri.Method, ri.Path, n[strings.LastIndex(n, ".")+1:])
	}
}
`

// huntRegistered3 compiles the generated project and returns the registered
// "VERB path handler" triples.
func huntRegistered3(t *testing.T, dir string) []string {
	build := exec.Command("go", "build", "./...")
	build.Dir = dir
	build.Env = huntEnviron3()
	if out, err := build.CombinedOutput(); err != nil {
		t.Fatalf("the generated code does not compile: %v\n%s", err, out)
	}
	if err := os.MkdirAll(filepath.Join(dir, "zzcheck"), 0o755); err != nil {
		t.Fatal(err)
	}
	if err := ioutil.WriteFile(filepath.Join(dir, "zzcheck", "zz_test.go"), []byte(huntCheckSrc3), 0o644); err != nil {
		t.Fatal(err)
	}
	run := exec.Command("go", "test", "-count=1", "-v", "-run", "^TestRoutes$", "./zzcheck")
	run.Dir = dir
	run.Env = huntEnviron3()
	out, err := run.CombinedOutput()
	if err != nil {
		t.Fatalf("registering the generated routes failed: %v\n%s", err, out)
	}
	var got []string
	for _, l := range bytes.Split(out, []byte("\n")) {
		if bytes.HasPrefix(l, []byte("ROUTE ")) {
			got = append(got, string(l[len("ROUTE "):]))
		}
	}
	sort.Strings(got)
	return got
}

func huntDeclared3(routes []huntRoute3) []string {
	var want []string
	for _, r := range routes {
		want = append(want, fmt.Sprintf("%s %s %s", r.Verb, r.Path, r.Name))
	}
	sort.Strings(want)
	return want
}

func huntRun3(t *testing.T, s huntSpec3) {
	dir := huntNewModule3(t)
	s.Dir, s.Proj, s.Cmd = dir, "demo", "new"
	huntGenerate3(t, s)
	got, want := huntRegistered3(t, dir), huntDeclared3(s.Routes)
	if strings.Join(got, "\n") != strings.Join(want, "\n") {
		t.Fatalf("registered routes differ from the declared ones\n got: %q\nwant: %q", got, want)
	}
}

func TestZZHunt2_3_EmptyRouteSet(t *testing.T) {
	huntRun3(t, huntSpec3{Routes: nil})
}

func TestZZHunt2_3_EmptyRouteSetHandlerByMethod(t *testing.T) {
	huntRun3(t, huntSpec3{ByMethod: true, Routes: nil})
}

// Control: one route is enough for everything to be generated correctly.
func TestZZHunt2_3_ControlOneRoute(t *testing.T) {
	huntRun3(t, huntSpec3{Routes: []huntRoute3{{Verb: "GET", Path: "/ping", Name: "Ping"}}})
}
