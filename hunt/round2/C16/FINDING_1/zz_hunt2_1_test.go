package generator

// C16 / finding 1: with handler-by-method, the handler file is named after the
// handler ("GetTest" -> get_test.go).  A name that ends in "Test" (or in a
// GOOS/GOARCH word: "ListAndroid" -> list_android.go) gives a file the go tool
// leaves out of the package, so the generated router refers to a handler that
// does not exist and the generated code does not compile.

import (
	"bytes"
	"encoding/json"
	"fmt"
	"io/ioutil"
	"os"
	"os/exec"
	"path/filepath"
	"sort"
	"strings"
	"testing"
)

type huntRoute1 struct {
	Verb, Path, Name string
	NoGen            bool
}

type huntSpec1 struct {
	Dir, Proj             string
	Sort, Snake, ByMethod bool
	Cmd                   string
	Routes                []huntRoute1
}

const huntEnv1 = "ZZ_HUNT2_1_SPEC"

// TestZZHunt2_1_Helper is the "hz" process: one generator run per process, as
// with the real tool (the generator keeps package level name tables).
func TestZZHunt2_1_Helper(t *testing.T) {
	raw := os.Getenv(huntEnv1)
	if raw == "" {
		t.Skip("helper process only")
	}
	var s huntSpec1
	if err := json.Unmarshal([]byte(raw), &s); err != nil {
		t.Fatal(err)
	}
	if err := os.MkdirAll(s.Dir, 0o755); err != nil {
		t.Fatal(err)
	}
	if err := os.Chdir(s.Dir); err != nil { // hz runs inside the project directory
		t.Fatal(err)
	}
	svc := &Service{Name: "Svc"}
	for _, r := range s.Routes {
		svc.Methods = append(svc.Methods, &HttpMethod{
			Name: r.Name, HTTPMethod: r.Verb, Path: r.Path,
			RequestTypeName: "struct{}", ReturnTypeName: "struct{}", GenHandler: !r.NoGen,
		})
	}
	pkg := &HttpPackage{IdlName: "svc.thrift", Package: "svc", Services: []*Service{svc}}
	g := HttpPackageGenerator{
		HandlerDir: "biz/handler", RouterDir: "biz/router", ModelDir: "biz/model",
		TemplateGenerator:    TemplateGenerator{OutputDir: "."},
		ProjPackage:          s.Proj,
		HandlerByMethod:      s.ByMethod,
		SnakeStyleMiddleware: s.Snake,
		SortRouter:           s.Sort,
		CmdType:              s.Cmd,
	}
	SetDefaultTemplateConfig()
	if err := g.Generate(pkg); err != nil {
		t.Fatalf("generate: %v", err)
	}
	files, err := g.GetFormatAndExcludedFiles()
	if err != nil {
		t.Fatalf("format: %v", err)
	}
	for _, f := range files { // what the thriftgo/protoc host does with the plugin response
		if err := os.MkdirAll(filepath.Dir(f.Path), 0o755); err != nil {
			t.Fatal(err)
		}
		if err := ioutil.WriteFile(f.Path, []byte(f.Content), 0o644); err != nil {
			t.Fatal(err)
		}
	}
}

func huntHertzRoot1(t *testing.T) string {
	wd, err := os.Getwd() // <root>/cmd/hz/generator
	if err != nil {
		t.Fatal(err)
	}
	root := filepath.Clean(filepath.Join(wd, "..", "..", ".."))
	if _, err := os.Stat(filepath.Join(root, "pkg", "app", "server")); err != nil {
		t.Fatalf("hertz root not found from %s: %v", wd, err)
	}
	return root
}

func huntEnviron1() []string {
	return append(os.Environ(), "GOFLAGS=-mod=mod", "GOPROXY=off", "GOSUMDB=off", "GOTOOLCHAIN=local")
}

// huntNewModule1 makes an empty module "demo" that resolves hertz to this tree.
func huntNewModule1(t *testing.T) string {
	root := huntHertzRoot1(t)
	dir, err := ioutil.TempDir(root, "zz_hunt2_1_tmp")
	if err != nil {
		t.Fatal(err)
	}
	t.Cleanup(func() { os.RemoveAll(dir) })
	gomod := "module demo\n\ngo 1.17\n\nrequire github.com/cloudwego/hertz v0.0.0\n\nreplace github.com/cloudwego/hertz => ../\n"
	if err := ioutil.WriteFile(filepath.Join(dir, "go.mod"), []byte(gomod), 0o644); err != nil {
		t.Fatal(err)
	}
	sum, err := ioutil.ReadFile(filepath.Join(root, "go.sum"))
	if err != nil {
		t.Fatal(err)
	}
	if err := ioutil.WriteFile(filepath.Join(dir, "go.sum"), sum, 0o644); err != nil {
		t.Fatal(err)
	}
	return dir
}

func huntGenerate1(t *testing.T, s huntSpec1) {
	raw, _ := json.Marshal(s)
	cmd := exec.Command(os.Args[0], "-test.run=^TestZZHunt2_1_Helper$", "-test.v")
	cmd.Env = append(os.Environ(), huntEnv1+"="+string(raw))
	out, err := cmd.CombinedOutput()
	if err != nil {
		t.Fatalf("generator run failed: %v\n%s", err, out)
	}
}

const huntCheckSrc1 = `package zzcheck

import (
	"fmt"
	"strings"
	"testing"

	router "demo/biz/router"
	"github.com/cloudwego/hertz/pkg/app/server"
)

func TestRoutes(t *testing.T) {
	h := server.New()
	router.GeneratedRegister(h)
	for _, ri := range h.Routes() {
		n := ri.Handler
		fmt.Println("ROUTE", ri.Method, ri.Path, n[strings.LastIndex(n, ".")+1:])
	}
}
`

// huntRegistered1 compiles the generated project and returns the registered
// "VERB path handler" triples.
func huntRegistered1(t *testing.T, dir string) []string {
	build := exec.Command("go", "build", "./...")
	build.Dir = dir
	build.Env = huntEnviron1()
	if out, err := build.CombinedOutput(); err != nil {
		t.Fatalf("the generated code does not compile: %v\n%s", err, out)
	}
	if err := os.MkdirAll(filepath.Join(dir, "zzcheck"), 0o755); err != nil {
		t.Fatal(err)
	}
	if err := ioutil.WriteFile(filepath.Join(dir, "zzcheck", "zz_test.go"), []byte(huntCheckSrc1), 0o644); err != nil {
		t.Fatal(err)
	}
	run := exec.Command("go", "test", "-count=1", "-v", "-run", "^TestRoutes$", "./zzcheck")
	run.Dir = dir
	run.Env = huntEnviron1()
	out, err := run.CombinedOutput()
	if err != nil {
		t.Fatalf("registering the generated routes failed: %v\n%s", err, out)
	}
	var got []string
	for _, l := range bytes.Split(out, []byte("\n")) {
		if bytes.HasPrefix(l, []byte("ROUTE ")) {
			got = append(got, string(l[len("ROUTE "):]))
		}
	}
	sort.Strings(got)
	return got
}

func huntDeclared1(routes []huntRoute1) []string {
	var want []string
	for _, r := range routes {
		want = append(want, fmt.Sprintf("%s %s %s", r.Verb, r.Path, r.Name))
	}
	sort.Strings(want)
	return want
}

func huntRun1(t *testing.T, s huntSpec1) {
	dir := huntNewModule1(t)
	s.Dir, s.Proj, s.Cmd = dir, "demo", "new"
	huntGenerate1(t, s)
	got, want := huntRegistered1(t, dir), huntDeclared1(s.Routes)
	if strings.Join(got, "\n") != strings.Join(want, "\n") {
		t.Fatalf("registered routes differ from the declared ones\n got: %q\nwant: %q", got, want)
	}
}

// A REST resource called "test": CreateTest / GetTest / ListTest.
func TestZZHunt2_1_HandlerByMethodNameEndingInTest(t *testing.T) {
	huntRun1(t, huntSpec1{ByMethod: true, Routes: []huntRoute1{
		{Verb: "POST", Path: "/tests", Name: "CreateTest"},
		{Verb: "GET", Path: "/tests/:id", Name: "GetTest"},
		{Verb: "GET", Path: "/ping", Name: "Ping"},
	}})
}

// The same route set is fine when the handlers go into one file per service:
// the defect is in the by-method file naming, not in the route set.
func TestZZHunt2_1_ControlHandlerByService(t *testing.T) {
	huntRun1(t, huntSpec1{ByMethod: false, Routes: []huntRoute1{
		{Verb: "POST", Path: "/tests", Name: "CreateTest"},
		{Verb: "GET", Path: "/tests/:id", Name: "GetTest"},
		{Verb: "GET", Path: "/ping", Name: "Ping"},
	}})
}

// Same cause, other spelling: the name ends in a GOOS word that is not the
// platform the project is built for.
func TestZZHunt2_1_HandlerByMethodNameEndingInGOOS(t *testing.T) {
	huntRun1(t, huntSpec1{ByMethod: true, Routes: []huntRoute1{
		{Verb: "GET", Path: "/downloads/windows", Name: "DownloadWindows"},
		{Verb: "GET", Path: "/downloads/plan9", Name: "DownloadPlan9"},
	}})
}
