package generator

// C16 / finding 4: hz update over an existing middleware.go decides whether a
// middleware function is already there with bytes.Contains(file, " <name>Mw").
// That is a prefix test: " _ListMw" is found inside "func _ListMwStatsMw()",
// " _apiMw" inside "func _apiMwMw()".  With snake-style middleware names (the
// names keep their case) a route added later whose middleware name is such a
// prefix gets no middleware function and the router package does not compile.

import (
	"bytes"
	"encoding/json"
	"fmt"
	"io/ioutil"
	"os"
	"os/exec"
	"path/filepath"
	"sort"
	"strings"
	"testing"
)

type huntRoute4 struct {
	Verb, Path, Name string
	NoGen            bool
}

type huntSpec4 struct {
	Dir, Proj             string
	Sort, Snake, ByMethod bool
	Cmd                   string
	Routes                []huntRoute4
}

const huntEnv4 = "ZZ_HUNT2_4_SPEC"

// TestZZHunt2_4_Helper is the "hz" process: one generator run per process, as
// with the real tool (the generator keeps package level name tables).
func TestZZHunt2_4_Helper(t *testing.T) {
	raw := os.Getenv(huntEnv4)
	if raw == "" {
		t.Skip("helper process only")
	}
	var s huntSpec4
	if err := json.Unmarshal([]byte(raw), &s); err != nil {
		t.Fatal(err)
	}
	if err := os.MkdirAll(s.Dir, 0o755); err != nil {
		t.Fatal(err)
	}
	if err := os.Chdir(s.Dir); err != nil { // hz runs inside the project directory
		t.Fatal(err)
	}
	svc := &Service{Name: "Svc"}
	for _, r := range s.Routes {
		svc.Methods = append(svc.Methods, &HttpMethod{
			Name: r.Name, HTTPMethod: r.Verb, Path: r.Path,
			RequestTypeName: "struct{}", ReturnTypeName: "struct{}", GenHandler: !r.NoGen,
		})
	}
	pkg := &HttpPackage{IdlName: "svc.thrift", Package: "svc", Services: []*Service{svc}}
	g := HttpPackageGenerator{
		HandlerDir: "biz/handler", RouterDir: "biz/router", ModelDir: "biz/model",
		TemplateGenerator:    TemplateGenerator{OutputDir: "."},
		ProjPackage:          s.Proj,
		HandlerByMethod:      s.ByMethod,
		SnakeStyleMiddleware: s.Snake,
		SortRouter:           s.Sort,
		CmdType:              s.Cmd,
	}
	SetDefaultTemplateConfig()
	if err := g.Generate(pkg); err != nil {
		t.Fatalf("generate: %v", err)
	}
	files, err := g.GetFormatAndExcludedFiles()
	if err != nil {
		t.Fatalf("format: %v", err)
	}
	for _, f := range files { // what the thriftgo/protoc host does with the plugin response
		if err := os.MkdirAll(filepath.Dir(f.Path), 0o755); err != nil {
			t.Fatal(err)
		}
		if err := ioutil.WriteFile(f.Path, []byte(f.Content), 0o644); err != nil {
			t.Fatal(err)
		}
	}
}

func huntHertzRoot4(t *testing.T) string {
	wd, err := os.Getwd() // <root>/cmd/hz/generator
	if err != nil {
		t.Fatal(err)
	}
	root := filepath.Clean(filepath.Join(wd, "..", "..", ".."))
	if _, err := os.Stat(filepath.Join(root, "pkg", "app", "server")); err != nil {
		t.Fatalf("hertz root not found from %s: %v", wd, err)
	}
	return root
}

func huntEnviron4() []string {
	return append(os.Environ(), "GOFLAGS=-mod=mod", "GOPROXY=off", "GOSUMDB=off", "GOTOOLCHAIN=local")
}

// huntNewModule4 makes an empty module "demo" that resolves hertz to this tree.
func huntNewModule4(t *testing.T) string {
	root := huntHertzRoot4(t)
	dir, err := ioutil.TempDir(root, "zz_hunt2_4_tmp")
	if err != nil {
		t.Fatal(err)
	}
	t.Cleanup(func() { os.RemoveAll(dir) })
	gomod := "module demo\n\ngo 1.17\n\nrequire github.com/cloudwego/hertz v0.0.0\n\nreplace github.com/cloudwego/hertz => ../\n"
	if err := ioutil.WriteFile(filepath.Join(dir, "go.mod"), []byte(gomod), 0o644); err != nil {
		t.Fatal(err)
	}
	sum, err := ioutil.ReadFile(filepath.Join(root, "go.sum"))
	if err != nil {
		t.Fatal(err)
	}
	if err := ioutil.WriteFile(filepath.Join(dir, "go.sum"), sum, 0o644); err != nil {
		t.Fatal(err)
	}
	return dir
}

func huntGenerate4(t *testing.T, s huntSpec4) {
	raw, _ := json.Marshal(s)
	cmd := exec.Command(os.Args[0], "-test.run=^TestZZHunt2_4_Helper$", "-test.v")
	cmd.Env = append(os.Environ(), huntEnv4+"="+string(raw))
	out, err := cmd.CombinedOutput()
	if err != nil {
		t.Fatalf("generator run failed: %v\n%s", err, out)
	}
}

const huntCheckSrc4 = `package zzcheck

import (
	"fmt"
	"strings"
	"testing"

	router "demo/biz/router"
	"github.com/cloudwego/hertz/pkg/app/server"
)

func TestRoutes(t *testing.T) {
	h := server.New()
	router.GeneratedRegister(h)
	for _, ri := range h.Routes() {
		n := ri.Handler
		fmt.Println("ROUTE", ri.Method, ri.Path, n[strings.LastIndex(n, ".")+1:])
	}
}
`

// huntRegistered4 compiles the generated project and returns the registered
// "VERB path handler" triples.
func huntRegistered4(t *testing.T, dir string) []string {
	build := exec.Command("go", "build", "./...")
	build.Dir = dir
	build.Env = huntEnviron4()
	if out, err := build.CombinedOutput(); err != nil {
		t.Fatalf("the generated code does not compile: %v\n%s", err, out)
	}
	if err := os.MkdirAll(filepath.Join(dir, "zzcheck"), 0o755); err != nil {
		t.Fatal(err)
	}
	if err := ioutil.WriteFile(filepath.Join(dir, "zzcheck", "zz_test.go"), []byte(huntCheckSrc4), 0o644); err != nil {
		t.Fatal(err)
	}
	run := exec.Command("go", "test", "-count=1", "-v", "-run", "^TestRoutes$", "./zzcheck")
	run.Dir = dir
	run.Env = huntEnviron4()
	out, err := run.CombinedOutput()
	if err != nil {
		t.Fatalf("registering the generated routes failed: %v\n%s", err, out)
	}
	var got []string
	for _, l := range bytes.Split(out, []byte("\n")) {
		if bytes.HasPrefix(l, []byte("ROUTE ")) {
			got = append(got, string(l[len("ROUTE "):]))
		}
	}
	sort.Strings(got)
	return got
}

func huntDeclared4(routes []huntRoute4) []string {
	var want []string
	for _, r := range routes {
		want = append(want, fmt.Sprintf("%s %s %s", r.Verb, r.Path, r.Name))
	}
	sort.Strings(want)
	return want
}

func huntRun4(t *testing.T, s huntSpec4) {
	dir := huntNewModule4(t)
	s.Dir, s.Proj, s.Cmd = dir, "demo", "new"
	huntGenerate4(t, s)
	got, want := huntRegistered4(t, dir), huntDeclared4(s.Routes)
	if strings.Join(got, "\n") != strings.Join(want, "\n") {
		t.Fatalf("registered routes differ from the declared ones\n got: %q\nwant: %q", got, want)
	}
}

func huntUpdate4(t *testing.T, first, second huntSpec4) {
	dir := huntNewModule4(t)
	first.Dir, first.Proj, first.Cmd = dir, "demo", "new"
	huntGenerate4(t, first)
	if got, want := huntRegistered4(t, dir), huntDeclared4(first.Routes); strings.Join(got, "\n") != strings.Join(want, "\n") {
		t.Fatalf("after hz new: registered routes differ from the declared ones\n got: %q\nwant: %q", got, want)
	}
	second.Dir, second.Proj, second.Cmd = dir, "demo", "update"
	huntGenerate4(t, second)
	if got, want := huntRegistered4(t, dir), huntDeclared4(second.Routes); strings.Join(got, "\n") != strings.Join(want, "\n") {
		t.Fatalf("after hz update: registered routes differ from the declared ones\n got: %q\nwant: %q", got, want)
	}
}

// hz new with one method, hz update after a second method was added to the IDL.
func TestZZHunt2_4_UpdateSnakeStyleHandlerNamePrefix(t *testing.T) {
	first := []huntRoute4{{Verb: "GET", Path: "/stats", Name: "ListMwStats"}}
	second := append(append([]huntRoute4{}, first...), huntRoute4{Verb: "GET", Path: "/items", Name: "List"})
	huntUpdate4(t, huntSpec4{Snake: true, Routes: first}, huntSpec4{Snake: true, Routes: second})
}

// The same with group names: /apiMw/... exists, /api/... is added.
func TestZZHunt2_4_UpdateSnakeStyleGroupNamePrefix(t *testing.T) {
	first := []huntRoute4{{Verb: "GET", Path: "/apiMw/ping", Name: "Ping"}}
	second := append(append([]huntRoute4{}, first...), huntRoute4{Verb: "GET", Path: "/api/users", Name: "Users"})
	huntUpdate4(t, huntSpec4{Snake: true, Routes: first}, huntSpec4{Snake: true, Routes: second})
}

// Control: the same two steps in the opposite order (the longer name is added
// second) are generated correctly, and so is a single hz new with both.
func TestZZHunt2_4_ControlOppositeOrder(t *testing.T) {
	first := []huntRoute4{{Verb: "GET", Path: "/items", Name: "List"}}
	second := append(append([]huntRoute4{}, first...), huntRoute4{Verb: "GET", Path: "/stats", Name: "ListMwStats"})
	huntUpdate4(t, huntSpec4{Snake: true, Routes: first}, huntSpec4{Snake: true, Routes: second})
}
