package server

// C04 finding 2: a handler that has started a response through the chunked body
// writer (header block and first chunks written) and then runs into an error calls one
// of the helpers that replace the response - ctx.AbortWithMsg, ctx.NotFound,
// ctx.NotModified, Response.Reset. Response.Reset() silently drops the installed
// writer; the server then writes a SECOND, complete response (status line, header
// fields, Content-Length body) into the middle of the unterminated chunked body and
// keeps the connection alive.

import (
	"bufio"
	"context"
	"errors"
	"fmt"
	"io"
	"net"
	"net/http"
	"strings"
	"testing"
	"time"

	"github.com/cloudwego/hertz/internal/testutils"
	"github.com/cloudwego/hertz/pkg/app"
	"github.com/cloudwego/hertz/pkg/protocol/http1/resp"
)

func TestHunt2C04ResponseReplacedAfterChunkedWriterStarted(t *testing.T) {
	h := New(WithHostPorts("127.0.0.1:0"), WithDisablePrintRoute(true))
	h.GET("/flushed", func(c context.Context, ctx *app.RequestContext) {
		ctx.Response.HijackWriter(resp.NewChunkedBodyWriter(&ctx.Response, ctx.GetWriter()))
		ctx.WriteString("hello")
		ctx.Flush()
		// ... producing the rest of the stream fails:
		ctx.AbortWithMsg("boom", http.StatusInternalServerError)
	})
	h.GET("/unflushed", func(c context.Context, ctx *app.RequestContext) {
		ctx.Response.HijackWriter(resp.NewChunkedBodyWriter(&ctx.Response, ctx.GetWriter()))
		ctx.WriteString("hello")
		ctx.NotFound()
	})
	h.GET("/probe", func(c context.Context, ctx *app.RequestContext) {
		ctx.SetBodyString("probe")
	})
	go h.Spin()
	waitEngineRunning(h)
	defer h.Close()
	addr := testutils.GetListenerAddr(h)

	for _, path := range []string{"/flushed", "/unflushed"} {
		t.Run(path, func(t *testing.T) {
			con, err := net.Dial("tcp", addr)
			if err != nil {
				t.Fatal(err)
			}
			defer con.Close()
			con.SetDeadline(time.Now().Add(2 * time.Second))
			fmt.Fprintf(con, "GET %s HTTP/1.1\r\nHost: a\r\n\r\nGET /probe HTTP/1.1\r\nHost: a\r\n\r\n", path)
			br := bufio.NewReader(con)

			req, _ := http.NewRequest("GET", "http://a"+path, nil)
			res, err := http.ReadResponse(br, req)
			if err != nil {
				t.Fatalf("first response: %v", err)
			}
			body, err := io.ReadAll(res.Body)
			// The header block of the first response (200, chunked) is on the wire. What follows has
			// to be the rest of ONE well-formed message; the only acceptable alternative is that the
			// server gives the message up and closes the connection (the client then sees a clean
			// "unexpected EOF", never bytes of another message inside this one).
			if err != nil {
				if errors.Is(err, io.ErrUnexpectedEOF) {
					return // connection aborted: the client knows the response is broken
				}
				t.Fatalf("the response that was started with the chunked writer does not decode: %v (status %d, body so far %q)", err, res.StatusCode, body)
			}
			if strings.Contains(string(body), "HTTP/1.1 ") {
				t.Fatalf("a second status line ended up inside the body of the first response: %q", body)
			}
			if res.Close {
				return
			}
			// connection kept alive: the second response starts exactly where the first one ended
			req2, _ := http.NewRequest("GET", "http://a/probe", nil)
			res2, err := http.ReadResponse(br, req2)
			if errors.Is(err, io.EOF) || errors.Is(err, io.ErrUnexpectedEOF) {
				return // the server chose to close the connection behind the complete first message
			}
			if err != nil {
				t.Fatalf("second response on the connection: %v", err)
			}
			if b, _ := io.ReadAll(res2.Body); string(b) != "probe" {
				t.Fatalf("second response on the connection: status %d body %q, want the /probe response", res2.StatusCode, b)
			}
		})
	}
}
