package server

// C04 finding 1: a body stream of KNOWN length whose Content-Length header field is
// deleted afterwards (Response.Header.Del("Content-Length"), or the documented
// shortcut ctx.Header("Content-Length", "")) goes out with neither Content-Length nor
// Transfer-Encoding, and without its body, on a connection that is kept alive.

import (
	"bufio"
	"context"
	"fmt"
	"io"
	"net"
	"net/http"
	"strings"
	"testing"
	"time"

	"github.com/cloudwego/hertz/internal/testutils"
	"github.com/cloudwego/hertz/pkg/app"
)

type hunt2OnlyReader struct{ r io.Reader }

func (o hunt2OnlyReader) Read(p []byte) (int, error) { return o.r.Read(p) }

func TestHunt2C04KnownLengthStreamAfterDelContentLength(t *testing.T) {
	h := New(WithHostPorts("127.0.0.1:0"), WithDisablePrintRoute(true))
	h.GET("/del", func(c context.Context, ctx *app.RequestContext) {
		ctx.SetBodyStream(hunt2OnlyReader{strings.NewReader("hello")}, 5)
		ctx.Response.Header.Del("Content-Length")
	})
	h.GET("/shortcut", func(c context.Context, ctx *app.RequestContext) {
		ctx.SetBodyStream(hunt2OnlyReader{strings.NewReader("hello")}, 5)
		ctx.Header("Content-Length", "") // documented: removes the header
	})
	h.GET("/probe", func(c context.Context, ctx *app.RequestContext) {
		ctx.SetBodyString("probe")
	})
	go h.Spin()
	waitEngineRunning(h)
	defer h.Close()
	addr := testutils.GetListenerAddr(h)

	for _, path := range []string{"/del", "/shortcut"} {
		t.Run(path, func(t *testing.T) {
			con, err := net.Dial("tcp", addr)
			if err != nil {
				t.Fatal(err)
			}
			defer con.Close()
			con.SetDeadline(time.Now().Add(2 * time.Second))
			// two requests on one keep-alive connection
			fmt.Fprintf(con, "GET %s HTTP/1.1\r\nHost: a\r\n\r\nGET /probe HTTP/1.1\r\nHost: a\r\n\r\n", path)
			br := bufio.NewReader(con)

			req, _ := http.NewRequest("GET", "http://a"+path, nil)
			res, err := http.ReadResponse(br, req)
			if err != nil {
				t.Fatalf("first response: %v", err)
			}
			chunked := len(res.TransferEncoding) > 0 && res.TransferEncoding[0] == "chunked"
			if !chunked && res.Header.Get("Content-Length") != "5" && !strings.EqualFold(res.Header.Get("Connection"), "close") {
				t.Errorf("the 200 response on a kept-alive connection has no framing at all: Content-Length=%q Transfer-Encoding=%v Connection=%q",
					res.Header.Get("Content-Length"), res.TransferEncoding, res.Header.Get("Connection"))
			}
			body, err := io.ReadAll(res.Body)
			if err != nil {
				t.Fatalf("reading the body of the first response: %v (got %q)", err, body)
			}
			if string(body) != "hello" {
				t.Fatalf("body of the first response = %q, want %q", body, "hello")
			}

			req2, _ := http.NewRequest("GET", "http://a/probe", nil)
			res2, err := http.ReadResponse(br, req2)
			if err != nil {
				t.Fatalf("second response: %v", err)
			}
			body2, _ := io.ReadAll(res2.Body)
			if string(body2) != "probe" {
				t.Fatalf("body of the second response = %q, want %q", body2, "probe")
			}
		})
	}
}
