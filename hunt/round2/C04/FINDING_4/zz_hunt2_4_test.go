package server

// C04 finding 4: whether a response is a response to HEAD (and therefore has no
// body) is decided AFTER the handler chain from the mutable ctx.Request, not from
// what was read off the wire (connectionClose and isHTTP11 are captured before the
// handler, the method is not). A handler that rewrites the request method - e.g. the
// usual "serve HEAD through the GET logic" rewrite, or a proxy handler that reuses
// ctx.Request as its outgoing request - makes the server put the body after the
// header block of a HEAD response (the next response on the connection then starts
// in the middle of it), or withhold the body of a GET response whose Content-Length
// announces it.

import (
	"bufio"
	"context"
	"fmt"
	"io"
	"net"
	"net/http"
	"testing"
	"time"

	"github.com/cloudwego/hertz/internal/testutils"
	"github.com/cloudwego/hertz/pkg/app"
)

func TestHunt2C04HeadDecidedFromMutatedRequest(t *testing.T) {
	h := New(WithHostPorts("127.0.0.1:0"), WithDisablePrintRoute(true))
	h.HEAD("/x", func(c context.Context, ctx *app.RequestContext) {
		ctx.Request.SetMethod("GET") // hand over to the GET logic
		ctx.SetBodyString("hello")
	})
	h.GET("/y", func(c context.Context, ctx *app.RequestContext) {
		ctx.Request.SetMethod("HEAD") // e.g. reuse ctx.Request for an upstream probe
		ctx.SetBodyString("hello")
	})
	h.GET("/probe", func(c context.Context, ctx *app.RequestContext) {
		ctx.SetBodyString("probe")
	})
	go h.Spin()
	waitEngineRunning(h)
	defer h.Close()
	addr := testutils.GetListenerAddr(h)

	t.Run("HEAD", func(t *testing.T) {
		con, err := net.Dial("tcp", addr)
		if err != nil {
			t.Fatal(err)
		}
		defer con.Close()
		con.SetDeadline(time.Now().Add(2 * time.Second))
		fmt.Fprintf(con, "HEAD /x HTTP/1.1\r\nHost: a\r\n\r\nGET /probe HTTP/1.1\r\nHost: a\r\n\r\n")
		br := bufio.NewReader(con)
		req, _ := http.NewRequest("HEAD", "http://a/x", nil)
		if _, err = http.ReadResponse(br, req); err != nil {
			t.Fatalf("response to HEAD: %v", err)
		}
		// the next thing on the connection has to be the status line of the second response
		next, _ := br.Peek(5)
		if string(next) != "HTTP/" {
			t.Fatalf("the response to the HEAD request on the wire is followed by %q: it carries a body", next)
		}
		req2, _ := http.NewRequest("GET", "http://a/probe", nil)
		res2, err := http.ReadResponse(br, req2)
		if err != nil {
			t.Fatalf("second response: %v", err)
		}
		if b, _ := io.ReadAll(res2.Body); string(b) != "probe" {
			t.Fatalf("second response body %q", b)
		}
	})

	t.Run("GET", func(t *testing.T) {
		con, err := net.Dial("tcp", addr)
		if err != nil {
			t.Fatal(err)
		}
		defer con.Close()
		con.SetDeadline(time.Now().Add(2 * time.Second))
		fmt.Fprintf(con, "GET /y HTTP/1.1\r\nHost: a\r\n\r\n")
		br := bufio.NewReader(con)
		req, _ := http.NewRequest("GET", "http://a/y", nil)
		res, err := http.ReadResponse(br, req)
		if err != nil {
			t.Fatalf("response to GET: %v", err)
		}
		b, err := io.ReadAll(res.Body)
		if err != nil || string(b) != "hello" {
			t.Fatalf("response to GET announces Content-Length %d; body read: %q, %v", res.ContentLength, b, err)
		}
	})
}
