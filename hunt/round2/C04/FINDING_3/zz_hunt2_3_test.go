package server

// C04 finding 3: the error responses the server writes itself (413 Request Entity Too
// Large, 400 Bad Request, ...) carry their text body also when the request was a HEAD
// request: writeErrorResponse never looks at the method, only the regular path after
// the handler sets Response.SkipBody.

import (
	"bufio"
	"bytes"
	"context"
	"io"
	"net"
	"net/http"
	"testing"
	"time"

	"github.com/cloudwego/hertz/internal/testutils"
	"github.com/cloudwego/hertz/pkg/app"
	"github.com/cloudwego/hertz/pkg/common/config"
)

func hunt2HeadErrorResponse(t *testing.T, rawRequest string, wantStatus int, opts ...config.Option) {
	opts = append([]config.Option{WithHostPorts("127.0.0.1:0"), WithDisablePrintRoute(true)}, opts...)
	h := New(opts...)
	h.Any("/x", func(c context.Context, ctx *app.RequestContext) {
		ctx.SetBodyString("hello")
	})
	go h.Spin()
	waitEngineRunning(h)
	defer h.Close()

	con, err := net.Dial("tcp", testutils.GetListenerAddr(h))
	if err != nil {
		t.Fatal(err)
	}
	defer con.Close()
	con.SetDeadline(time.Now().Add(2 * time.Second))
	if _, err = con.Write([]byte(rawRequest)); err != nil {
		t.Fatal(err)
	}
	// the server closes the connection after an error response: take everything it sent
	raw, _ := io.ReadAll(con)

	br := bufio.NewReader(bytes.NewReader(raw))
	req, _ := http.NewRequest("HEAD", "http://a/x", nil)
	res, err := http.ReadResponse(br, req)
	if err != nil {
		t.Fatalf("cannot decode the response to the HEAD request: %v; raw=%q", err, raw)
	}
	if res.StatusCode != wantStatus {
		t.Fatalf("status = %d, want %d; raw=%q", res.StatusCode, wantStatus, raw)
	}
	// A response to HEAD ends with the empty line after the header fields.
	rest, _ := io.ReadAll(br)
	if len(rest) != 0 {
		t.Fatalf("the %d response to a HEAD request is followed by %d bytes of message body %q", res.StatusCode, len(rest), rest)
	}
}

func TestHunt2C04HeadErrorResponseBodyTooLarge(t *testing.T) {
	hunt2HeadErrorResponse(t,
		"HEAD /x HTTP/1.1\r\nHost: a\r\nContent-Length: 100\r\n\r\n",
		http.StatusRequestEntityTooLarge, WithMaxRequestBodySize(10))
}

func TestHunt2C04HeadErrorResponseGetOnly(t *testing.T) {
	hunt2HeadErrorResponse(t,
		"HEAD /x HTTP/1.1\r\nHost: a\r\n\r\n",
		http.StatusBadRequest, WithGetOnly(true))
}
