package server

// C14 finding 2: the bytes that ContinueReadBodyStream pre-reads (up to 8 KiB of a
// body of known length) stay in the request's own body buffer (Request.body); the
// body stream only keeps a bytes.Reader over that slice. The request goes on to
// treat the buffer as its own: Request.ResetBody (called by SetBodyStream,
// SetBodyRaw...) hands it back to the shared requestBodyPool when it is larger
// than MaxKeepBodySize, and Request.BodyE/Body/SwapBody write the body they
// collect into it. A handler that still reads the stream - because it wrapped it -
// then gets bytes that are not bytes of its request body.

import (
	"bytes"
	"compress/gzip"
	"context"
	"fmt"
	"io"
	"net/http"
	"strings"
	"testing"
	"time"

	"github.com/cloudwego/hertz/internal/testutils"
	"github.com/cloudwego/hertz/pkg/app"
	"github.com/cloudwego/hertz/pkg/network/standard"
)

func h2Post(t *testing.T, url string, hdr map[string]string, body []byte) (int, string) {
	req, err := http.NewRequest("POST", url, bytes.NewReader(body))
	if err != nil {
		t.Fatal(err)
	}
	for k, v := range hdr {
		req.Header.Set(k, v)
	}
	tr := &http.Transport{}
	defer tr.CloseIdleConnections()
	resp, err := (&http.Client{Transport: tr, Timeout: 5 * time.Second}).Do(req)
	if err != nil {
		t.Logf("POST %s: %v", url, err)
		return 0, ""
	}
	defer resp.Body.Close()
	b, _ := io.ReadAll(resp.Body)
	return resp.StatusCode, string(b)
}

// A body-size guard, written the obvious way: replace the request body stream by a
// limited view of itself. With WithMaxKeepBodySize below the size of the pre-read
// buffer, SetBodyStream -> ResetBody puts that buffer into requestBodyPool while
// the stream still reads from it; the next request that arrives (on any
// connection) takes the buffer from the pool and pre-reads ITS body into it.
func TestHunt2_2_StreamYieldsBodyOfAnotherRequest(t *testing.T) {
	h := New(WithHostPorts("127.0.0.1:0"), WithStreamBody(true), WithTransport(standard.NewTransporter),
		WithExitWaitTime(10*time.Millisecond), WithMaxKeepBodySize(1024))
	entered := make(chan struct{})
	goOn := make(chan struct{})
	var got []byte
	var gotErr error
	h.POST("/a", func(c context.Context, ctx *app.RequestContext) {
		ctx.Request.SetBodyStream(io.LimitReader(ctx.RequestBodyStream(), 1<<20), -1)
		close(entered)
		<-goOn // a handler that does something else before it reads its body
		got, gotErr = io.ReadAll(ctx.Request.BodyStream())
		ctx.String(200, "ok")
	})
	h.POST("/b", func(c context.Context, ctx *app.RequestContext) {
		_, _ = io.ReadAll(ctx.RequestBodyStream())
		ctx.String(200, "ok")
	})
	go h.Spin()
	waitEngineRunning(h)
	defer h.Close()
	base := "http://" + testutils.GetListenerAddr(h)

	bodyA := []byte(strings.Repeat("A", 3000))
	bodyB := []byte(strings.Repeat("B", 3000))
	done := make(chan struct{})
	go func() {
		defer close(done)
		h2Post(t, base+"/a", nil, bodyA)
	}()
	select {
	case <-entered:
	case <-time.After(3 * time.Second):
		t.Fatal("handler of /a was not reached")
	}
	for i := 0; i < 20; i++ { // other clients
		h2Post(t, base+"/b", nil, bodyB)
	}
	close(goOn)
	<-done

	if gotErr != nil {
		t.Fatalf("reading the body of /a: %v", gotErr)
	}
	if !bytes.Equal(got, bodyA) {
		t.Fatalf("the handler of /a read %d bytes from its body stream, %d of them are 'B' (the body of the requests to /b) and %d are 'A'; its body is 3000 x 'A'",
			len(got), bytes.Count(got, []byte("B")), bytes.Count(got, []byte("A")))
	}
}

// Default options. A decompressing middleware wraps the stream and installs the
// wrapper with SetBodyStream; the handler then asks for the body. BodyE collects
// the (longer) decompressed body into Request.body, i.e. on top of the pre-read
// compressed bytes the gzip reader has not fetched yet.
func TestHunt2_2_BodyOverwritesPrereadBytesOfWrappedStream(t *testing.T) {
	var plain bytes.Buffer
	for i := 0; plain.Len() < 100000; i++ {
		fmt.Fprintf(&plain, "{\"id\": %d, \"name\": \"user\", \"active\": true, \"tags\": [\"a\", \"b\"]}\n", i)
	}
	var z bytes.Buffer
	zw := gzip.NewWriter(&z)
	_, _ = zw.Write(plain.Bytes())
	_ = zw.Close()
	if z.Len() <= 4096 || z.Len() > 8192 {
		t.Skipf("compressed body is %d bytes, the scenario needs 4097..8192", z.Len())
	}

	h := New(WithHostPorts("127.0.0.1:0"), WithStreamBody(true), WithTransport(standard.NewTransporter),
		WithExitWaitTime(10*time.Millisecond))
	var raw bytes.Buffer // what the request body stream itself yielded
	h.Use(func(c context.Context, ctx *app.RequestContext) {
		if string(ctx.Request.Header.Peek("Content-Encoding")) != "gzip" {
			return
		}
		zr, err := gzip.NewReader(io.TeeReader(ctx.RequestBodyStream(), &raw))
		if err != nil {
			ctx.AbortWithMsg(err.Error(), 400)
			return
		}
		ctx.Request.SetBodyStream(zr, -1)
		ctx.Request.Header.Del("Content-Encoding")
	})
	var got []byte
	var gotErr error
	h.POST("/z", func(c context.Context, ctx *app.RequestContext) {
		b, err := ctx.Body()
		got, gotErr = append([]byte(nil), b...), err
		ctx.String(200, "ok")
	})
	go h.Spin()
	waitEngineRunning(h)
	defer h.Close()

	h2Post(t, "http://"+testutils.GetListenerAddr(h)+"/z", map[string]string{"Content-Encoding": "gzip"}, z.Bytes())

	sent := z.Bytes()
	r := raw.Bytes()
	if len(r) > len(sent) || !bytes.Equal(r, sent[:len(r)]) {
		i := 0
		for i < len(r) && i < len(sent) && r[i] == sent[i] {
			i++
		}
		t.Errorf("the request body stream yielded %d bytes that are not a prefix of the %d byte body: they differ from offset %d on (stream: %q, body: %q)",
			len(r), len(sent), i, r[i:i+24], sent[i:i+24])
	}
	if gotErr != nil || !bytes.Equal(got, plain.Bytes()) {
		t.Errorf("ctx.Body() = %d bytes, error %v; the request carries %d bytes (gzip, %d on the wire)", len(got), gotErr, plain.Len(), len(sent))
	}
}
