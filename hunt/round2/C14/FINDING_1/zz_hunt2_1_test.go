package server

// C14 finding 1: after the chunked request body stream has FAILED inside a
// chunk-size line (the bytes of the line read so far are consumed), Serve still
// drains the stream with skipRest, which starts to parse a chunk-size line at
// whatever position the failed parse left the connection at. With a chunk
// extension ("40;0") the stream fails at ';' and skipRest takes the extension
// "0" for the last-chunk: the data of the chunk is then served as a request.

import (
	"bytes"
	"context"
	"io"
	"net"
	"strings"
	"sync"
	"testing"
	"time"

	"github.com/cloudwego/hertz/internal/testutils"
	"github.com/cloudwego/hertz/pkg/app"
	"github.com/cloudwego/hertz/pkg/common/config"
	"github.com/cloudwego/hertz/pkg/network/netpoll"
	"github.com/cloudwego/hertz/pkg/network/standard"
)

type h1Server struct {
	addr string
	mu   sync.Mutex
	hits []string
}

func (s *h1Server) seen() []string {
	s.mu.Lock()
	defer s.mu.Unlock()
	return append([]string(nil), s.hits...)
}

// h1Start starts a streaming server: POST /up reads the body stream until it ends
// or fails, every other target is recorded and answered with 404.
func h1Start(t *testing.T, np bool, opts ...config.Option) *h1Server {
	s := &h1Server{}
	o := []config.Option{WithHostPorts("127.0.0.1:0"), WithStreamBody(true), WithExitWaitTime(10 * time.Millisecond)}
	if np {
		o = append(o, WithTransport(netpoll.NewTransporter))
	} else {
		o = append(o, WithTransport(standard.NewTransporter))
	}
	h := New(append(o, opts...)...)
	rec := func(ctx *app.RequestContext) {
		s.mu.Lock()
		s.hits = append(s.hits, string(ctx.Request.Header.Method())+" "+string(ctx.Request.URI().Path()))
		s.mu.Unlock()
	}
	h.POST("/up", func(c context.Context, ctx *app.RequestContext) {
		rec(ctx)
		// the usual way to consume a stream: read until it reports its end or an error
		b, err := io.ReadAll(ctx.RequestBodyStream())
		if err != nil {
			ctx.String(400, "body: %d bytes, error: %v", len(b), err)
			return
		}
		ctx.String(200, "body: %d bytes", len(b))
	})
	h.NoRoute(func(c context.Context, ctx *app.RequestContext) {
		rec(ctx)
		ctx.String(404, "no route")
	})
	go h.Spin()
	waitEngineRunning(h)
	t.Cleanup(func() {
		ctx, cancel := context.WithTimeout(context.Background(), 50*time.Millisecond)
		defer cancel()
		_ = h.Shutdown(ctx)
	})
	s.addr = testutils.GetListenerAddr(h)
	return s
}

type h1Seg struct {
	pause time.Duration
	data  string
}

// h1Exchange writes the segments and returns what the server answered until it
// closed the connection or stayed quiet for wait.
func h1Exchange(t *testing.T, addr string, segs []h1Seg, wait time.Duration) string {
	c, err := net.Dial("tcp", addr)
	if err != nil {
		t.Fatal(err)
	}
	defer c.Close()
	var out bytes.Buffer
	done := make(chan struct{})
	go func() {
		defer close(done)
		buf := make([]byte, 65536)
		for {
			n, err := c.Read(buf)
			out.Write(buf[:n])
			if err != nil {
				return
			}
		}
	}()
	for _, sg := range segs {
		time.Sleep(sg.pause)
		if _, err := c.Write([]byte(sg.data)); err != nil {
			break
		}
	}
	select {
	case <-done:
	case <-time.After(wait):
		_ = c.SetReadDeadline(time.Now())
		<-done
	}
	return out.String()
}

// h1ChunkData is the 64 byte payload of the only chunk of the body: to an HTTP
// parser that starts in the middle of it, it is an empty line and a request.
func h1ChunkData(t *testing.T) string {
	d := "\r\nGET /smuggled HTTP/1.1\r\nHost: a\r\nX-Pad: "
	for len(d) < 0x40-4 {
		d += "x"
	}
	d += "\r\n\r\n"
	if len(d) != 0x40 {
		t.Fatalf("payload is %d bytes", len(d))
	}
	return d
}

// One chunk of 0x40 bytes with a chunk extension (RFC 9112 7.1.1: chunk-ext =
// *( BWS ";" BWS chunk-ext-name [ "=" chunk-ext-val ] ), "a recipient MUST ignore
// unrecognized chunk extensions"), then the last-chunk, then a pipelined request.
func TestHunt2_1_ChunkExtensionDataServedAsRequest(t *testing.T) {
	for _, np := range []bool{false, true} {
		name := "standard"
		if np {
			name = "netpoll"
		}
		t.Run(name, func(t *testing.T) {
			s := h1Start(t, np)
			raw := "POST /up HTTP/1.1\r\nHost: a\r\nTransfer-Encoding: chunked\r\n\r\n" +
				"40;0\r\n" + h1ChunkData(t) + "\r\n" +
				"0\r\n\r\n" +
				"GET /after HTTP/1.1\r\nHost: a\r\n\r\n"
			out := h1Exchange(t, s.addr, []h1Seg{{data: raw}}, 500*time.Millisecond)
			hits := s.seen()
			t.Logf("requests that reached a handler: %q", hits)
			t.Logf("answers:\n%s", out)
			// Whatever the server makes of the chunk extension (ignore it and deliver the
			// 64 bytes, or refuse the body and close): the 64 bytes are body bytes, they
			// must never be parsed as a request.
			for _, h := range hits {
				if strings.Contains(h, "/smuggled") {
					t.Fatalf("bytes of the request body were served as the request %q (requests served on the connection: %q)", h, hits)
				}
			}
			// and what follows the body is GET /after, or nothing at all
			if len(hits) > 1 && hits[1] != "GET /after" {
				t.Fatalf("the request served after POST /up is %q, the first request behind the body is GET /after", hits[1])
			}
		})
	}
}

// Same defect, reached through a read timeout instead of a chunk extension
// (netpoll, whose read timeout leaves the connection usable): the sender pauses
// between the two digits of the chunk size "40" for 2.5 read timeouts. ReadHexInt
// gives up after the "4" and reports it as a complete number, ParseChunkSize then
// times out waiting for CR, the stream reports the error - and skipRest reads the
// rest of the line, "0", as the last-chunk.
func TestHunt2_1_NetpollPauseInsideChunkSize(t *testing.T) {
	const T = 200 * time.Millisecond
	s := h1Start(t, true, WithReadTimeout(T))
	out := h1Exchange(t, s.addr, []h1Seg{
		{data: "POST /up HTTP/1.1\r\nHost: a\r\nTransfer-Encoding: chunked\r\n\r\n4"},
		{pause: T * 5 / 2, data: "0\r\n" + h1ChunkData(t) + "\r\n0\r\n\r\n"},
	}, 1500*time.Millisecond)
	hits := s.seen()
	t.Logf("requests that reached a handler: %q", hits)
	t.Logf("answers:\n%s", out)
	for _, h := range hits {
		if strings.Contains(h, "/smuggled") {
			t.Fatalf("bytes of the request body were served as the request %q (requests served on the connection: %q)", h, hits)
		}
	}
}
