package server

// C14 finding 3: the end of a chunked request body depends on how far the handler
// read it. The stream itself (bodyStream.Read -> ext.ReadTrailer -> HeaderScanner)
// accepts a bare LF as line terminator in the trailer section, exactly as the
// request header parser does: "0\r\n\n" ends the body. The drain that runs when the
// handler stopped early (bodyStream.skipRest -> ext.SkipTrailer -> skipTrailer)
// only knows CRLF: it goes on to the next "\r\n\r\n" and eats the pipelined request
// that follows the body.

import (
	"bytes"
	"context"
	"fmt"
	"io"
	"net"
	"reflect"
	"strconv"
	"sync"
	"testing"
	"time"

	"github.com/cloudwego/hertz/internal/testutils"
	"github.com/cloudwego/hertz/pkg/app"
	"github.com/cloudwego/hertz/pkg/common/config"
	"github.com/cloudwego/hertz/pkg/network/netpoll"
	"github.com/cloudwego/hertz/pkg/network/standard"
)

type h3Server struct {
	addr string
	mu   sync.Mutex
	hits []string
}

func (s *h3Server) seen() []string {
	s.mu.Lock()
	defer s.mu.Unlock()
	return append([]string(nil), s.hits...)
}

// POST /up?stop=N reads N bytes of the body stream (all of it without stop) and
// reports what it saw; every other target is recorded and answered with 404.
func h3Start(t *testing.T, np bool) *h3Server {
	s := &h3Server{}
	o := []config.Option{WithHostPorts("127.0.0.1:0"), WithStreamBody(true), WithExitWaitTime(10 * time.Millisecond)}
	if np {
		o = append(o, WithTransport(netpoll.NewTransporter))
	} else {
		o = append(o, WithTransport(standard.NewTransporter))
	}
	h := New(o...)
	rec := func(ctx *app.RequestContext) {
		s.mu.Lock()
		s.hits = append(s.hits, string(ctx.Request.Header.Method())+" "+string(ctx.Request.URI().Path()))
		s.mu.Unlock()
	}
	h.POST("/up", func(c context.Context, ctx *app.RequestContext) {
		rec(ctx)
		st := ctx.RequestBodyStream()
		if v := ctx.Query("stop"); v != "" {
			n, _ := strconv.Atoi(v)
			b := make([]byte, n)
			m, err := io.ReadFull(st, b)
			ctx.String(200, "read %q err=%v", b[:m], err)
			return
		}
		b, err := io.ReadAll(st)
		ctx.String(200, "read all %q err=%v", b, err)
	})
	h.NoRoute(func(c context.Context, ctx *app.RequestContext) {
		rec(ctx)
		ctx.String(404, "no route")
	})
	go h.Spin()
	waitEngineRunning(h)
	t.Cleanup(func() {
		ctx, cancel := context.WithTimeout(context.Background(), 50*time.Millisecond)
		defer cancel()
		_ = h.Shutdown(ctx)
	})
	s.addr = testutils.GetListenerAddr(h)
	return s
}

// h3Exchange returns the answers and whether the server closed the connection.
func h3Exchange(t *testing.T, addr, raw string) (string, bool) {
	c, err := net.Dial("tcp", addr)
	if err != nil {
		t.Fatal(err)
	}
	defer c.Close()
	var out bytes.Buffer
	done := make(chan bool, 1)
	go func() {
		buf := make([]byte, 65536)
		for {
			n, err := c.Read(buf)
			out.Write(buf[:n])
			if err != nil {
				done <- err == io.EOF
				return
			}
		}
	}()
	if _, err := c.Write([]byte(raw)); err != nil {
		t.Fatal(err)
	}
	closed := false
	select {
	case closed = <-done:
	case <-time.After(500 * time.Millisecond):
		_ = c.SetReadDeadline(time.Now())
		<-done
	}
	return out.String(), closed
}

func TestHunt2_3_BareLFTrailerSectionDrainEatsNextRequest(t *testing.T) {
	trailers := map[string]string{
		"empty trailer section, LF":      "\n",
		"one field, lines end in LF":     "X-Sum: 1\n\n",
		"one field, only last line LF":   "X-Sum: 1\r\n\n",
		"one field, only field line LF":  "X-Sum: 1\n\r\n",
	}
	for _, np := range []bool{false, true} {
		tr := "standard"
		if np {
			tr = "netpoll"
		}
		for name, trailer := range trailers {
			t.Run(tr+"/"+name, func(t *testing.T) {
				s := h3Start(t, np)
				body := "5\r\nhello\r\n0\r\n" + trailer
				pipelined := "GET /first HTTP/1.1\r\nHost: a\r\n\r\nGET /second HTTP/1.1\r\nHost: a\r\n\r\n"
				req := func(target string) string {
					return "POST " + target + " HTTP/1.1\r\nHost: a\r\nTransfer-Encoding: chunked\r\n\r\n" + body + pipelined
				}
				all := []string{"POST /up", "GET /first", "GET /second"}

				// 1. The handler reads the stream to its end: this is where the body ends
				// as far as hertz is concerned.
				out, _ := h3Exchange(t, s.addr, req("/up"))
				full := s.seen()
				if !reflect.DeepEqual(full, all) || !bytes.Contains([]byte(out), []byte(`read all "hello" err=<nil>`)) {
					t.Skipf("this spelling of the trailer section is not accepted as the end of the body (served %q): nothing to compare\n%s", full, out)
				}

				// 2. The same bytes, the handler stops after 2 bytes of the body. What
				// follows the body is still GET /first; or the connection is closed.
				out, closed := h3Exchange(t, s.addr, req("/up?stop=2"))
				got := s.seen()[len(full):]
				t.Logf("stream read to its end: served %q; handler stopped after 2 bytes: served %q, closed=%v", full, got, closed)
				if reflect.DeepEqual(got, all) {
					return
				}
				if closed && (reflect.DeepEqual(got, all[:1]) || reflect.DeepEqual(got, all[:2])) {
					return
				}
				t.Fatalf("%s\nthe body ends after %q (the same server served %q when the handler read the stream to its end), but after a handler that stopped early the requests served on the connection are %q, connection closed: %v\n%s",
					fmt.Sprintf("body %q followed by GET /first and GET /second", body), "0\r\n"+trailer, full, got, closed, out)
			})
		}
	}
}
