package server

// C14 hunt, finding 2.
//
// netpoll transport + a read timeout (WithReadTimeout; the default is 3 min).
// When the wait for the next chunk-size line of a streamed chunked body times
// out, bytesconv.ReadHexInt answers the failed Peek(1) with r.Skip(1). On
// netpoll Skip(1) is itself a blocking read with a fresh timeout: if the next
// chunk arrives during that second wait, its first byte - the first digit of
// the chunk size - is silently discarded while the handler is only told
// "timeout". The stream has lost a framing byte: "40\r\n" is later read as
// "0\r\n", i.e. as the end of the body, and the chunk data is taken for a
// trailer section / for the next request.

import (
	"bufio"
	"context"
	"fmt"
	"io"
	"net"
	"net/http"
	"strings"
	"testing"
	"time"

	"github.com/cloudwego/hertz/internal/testutils"
	"github.com/cloudwego/hertz/pkg/app"
	"github.com/cloudwego/hertz/pkg/network/netpoll"
)

const hunt2ReadTimeout = 2 * time.Second

func hunt2Server(t *testing.T) (*Hertz, string) {
	h := New(WithStreamBody(true), WithHostPorts("127.0.0.1:0"), WithExitWaitTime(10*time.Millisecond),
		WithTransport(netpoll.NewTransporter), WithReadTimeout(hunt2ReadTimeout))
	// reads the stream once, up to EOF or the first error
	h.POST("/once", func(c context.Context, ctx *app.RequestContext) {
		b, err := io.ReadAll(ctx.RequestBodyStream())
		ctx.String(200, "read=%q err=%v", b, err)
	})
	// reads the stream up to EOF; a timeout is a temporary error, so it tries again
	h.POST("/patient", func(c context.Context, ctx *app.RequestContext) {
		r := ctx.RequestBodyStream()
		var got []byte
		buf := make([]byte, 64)
		timeouts := 0
		for {
			n, err := r.Read(buf)
			got = append(got, buf[:n]...)
			if err == io.EOF {
				ctx.Response.Header.Set("X-EOF", "true")
				break
			}
			if err != nil {
				if strings.Contains(err.Error(), "timeout") && timeouts < 3 {
					timeouts++
					continue
				}
				ctx.Response.Header.Set("X-Err", err.Error())
				break
			}
		}
		ctx.String(200, "%s", got)
	})
	h.GET("/probe", func(c context.Context, ctx *app.RequestContext) { ctx.String(200, "PROBE-OK") })
	h.GET("/smuggled", func(c context.Context, ctx *app.RequestContext) { ctx.String(200, "SMUGGLED") })
	go h.Spin()
	for i := 0; i < 500 && !h.IsRunning(); i++ {
		time.Sleep(10 * time.Millisecond)
	}
	time.Sleep(100 * time.Millisecond)
	return h, testutils.GetListenerAddr(h)
}

type hunt2Resp struct {
	status int
	hdr    http.Header
	body   string
}

func (r hunt2Resp) String() string { return fmt.Sprintf("{%d %q}", r.status, r.body) }

// sends part1, pauses, sends part2, and collects every response
func hunt2Exchange(t *testing.T, addr, part1 string, pause time.Duration, part2 string) (resps []hunt2Resp, closed bool) {
	conn, err := net.Dial("tcp", addr)
	if err != nil {
		t.Fatal(err)
	}
	defer conn.Close()
	conn.Write([]byte(part1)) //nolint:errcheck
	time.Sleep(pause)
	conn.Write([]byte(part2)) //nolint:errcheck
	br := bufio.NewReader(conn)
	for {
		conn.SetReadDeadline(time.Now().Add(4 * hunt2ReadTimeout)) //nolint:errcheck
		resp, err := http.ReadResponse(br, nil)
		if err != nil {
			ne, isNet := err.(net.Error)
			closed = !(isNet && ne.Timeout())
			return
		}
		b, _ := io.ReadAll(resp.Body)
		resp.Body.Close()
		resps = append(resps, hunt2Resp{resp.StatusCode, resp.Header, string(b)})
	}
}

const hunt2Probe = "GET /probe HTTP/1.1\r\nHost: x\r\n\r\n"

// The client sends the first chunk, is silent for 1.5 x ReadTimeout, then sends
// the second chunk, the end of the body and a pipelined probe.
func TestHunt2_NetpollTimeoutBetweenChunksLosesChunkSizeDigit(t *testing.T) {
	h, addr := hunt2Server(t)
	defer h.Close()
	pause := hunt2ReadTimeout * 3 / 2

	// control: the same bytes with a pause well below the read timeout
	t.Run("control: short pause", func(t *testing.T) {
		data := strings.Repeat("p", 0x40)
		part1 := "POST /once HTTP/1.1\r\nHost: x\r\nTransfer-Encoding: chunked\r\n\r\n5\r\nhello\r\n"
		part2 := "40\r\n" + data + "\r\n0\r\n\r\n" + hunt2Probe
		resps, closed := hunt2Exchange(t, addr, part1, hunt2ReadTimeout/10, part2)
		if len(resps) != 2 || resps[0].body != fmt.Sprintf("read=%q err=<nil>", "hello"+data) || resps[1].body != "PROBE-OK" {
			t.Fatalf("control failed: %v closed=%v", resps, closed)
		}
	})

	t.Run("handler stops at the timeout error", func(t *testing.T) {
		inner := "\r\nGET /smuggled HTTP/1.1\r\nHost: x\r\n\r\n"
		data := inner + strings.Repeat("p", 0x40-len(inner)) // 0x40 bytes of chunk data
		part1 := "POST /once HTTP/1.1\r\nHost: x\r\nTransfer-Encoding: chunked\r\n\r\n5\r\nhello\r\n"
		part2 := "40\r\n" + data + "\r\n0\r\n\r\n" + hunt2Probe
		resps, closed := hunt2Exchange(t, addr, part1, pause, part2)
		if len(resps) == 0 {
			t.Fatalf("no response (closed=%v)", closed)
		}
		t.Logf("first response: %q; what followed: %v closed=%v", resps[0].body, resps[1:], closed)
		// whatever the handler saw (all of the body, or "hello" and a timeout
		// error): afterwards the connection must be closed or in sync
		rest := resps[1:]
		for _, r := range rest {
			if r.body == "SMUGGLED" {
				t.Errorf("unread body bytes were served as a request: %d %q", r.status, r.body)
			}
		}
		switch {
		case len(rest) == 0 && closed:
		case len(rest) == 1 && rest[0].status == 200 && rest[0].body == "PROBE-OK":
		default:
			t.Errorf("connection out of sync after the streamed request: server answered %v (closed=%v); want only the probe's answer, or a closed connection", rest, closed)
		}
	})

	t.Run("handler retries after the timeout error", func(t *testing.T) {
		data := "k: v\r\n\r\nABCDEFGH" // 0x10 bytes of chunk data
		part1 := "POST /patient HTTP/1.1\r\nHost: x\r\nTransfer-Encoding: chunked\r\n\r\n5\r\nhello\r\n"
		part2 := "10\r\n" + data + "\r\n0\r\n\r\n" + hunt2Probe
		resps, closed := hunt2Exchange(t, addr, part1, pause, part2)
		if len(resps) == 0 {
			t.Fatalf("no response (closed=%v)", closed)
		}
		want := "hello" + data
		r0 := resps[0]
		t.Logf("handler read %q eof=%q err=%q; what followed: %v closed=%v", r0.body, r0.hdr.Get("X-EOF"), r0.hdr.Get("X-Err"), resps[1:], closed)
		// the bytes read are a prefix of the body ...
		if !strings.HasPrefix(want, r0.body) {
			t.Errorf("bytes read %q are not a prefix of the body %q", r0.body, want)
		}
		// ... and end-of-stream is reported exactly at its end
		if r0.hdr.Get("X-EOF") == "true" && r0.body != want {
			t.Errorf("end-of-stream reported after %d of %d body bytes: read %q, body is %q", len(r0.body), len(want), r0.body, want)
		}
	})
}
