package server

// C14 hunt, finding 3.
//
// Streaming enabled + Engine.ContinueHandler that declines an
// "Expect: 100-continue" request. http1.Server.Serve then neither reads the
// body nor closes the connection: it runs the handler chain (without a body
// stream), writes the response with keep-alive and goes on parsing. A client
// is allowed to send the body without waiting for "100 Continue" (RFC 7231
// 5.1.1), and those body bytes are then parsed as the next request.

import (
	"bufio"
	"context"
	"fmt"
	"io"
	"net"
	"net/http"
	"testing"
	"time"

	"github.com/cloudwego/hertz/internal/testutils"
	"github.com/cloudwego/hertz/pkg/app"
	"github.com/cloudwego/hertz/pkg/common/config"
	"github.com/cloudwego/hertz/pkg/network/netpoll"
	"github.com/cloudwego/hertz/pkg/network/standard"
	"github.com/cloudwego/hertz/pkg/protocol"
)

func TestHunt3_DeclinedExpectContinueLeavesBodyOnTheConnection(t *testing.T) {
	transports := map[string]config.Option{
		"standard": WithTransport(standard.NewTransporter),
		"netpoll":  WithTransport(netpoll.NewTransporter),
	}
	for trName, tr := range transports {
		t.Run(trName, func(t *testing.T) {
			h := New(WithStreamBody(true), WithHostPorts("127.0.0.1:0"), WithExitWaitTime(10*time.Millisecond), tr)
			// decline every body that is announced with Expect: 100-continue
			h.ContinueHandler = func(header *protocol.RequestHeader) bool { return false }
			h.POST("/upload", func(c context.Context, ctx *app.RequestContext) {
				n, _ := io.Copy(io.Discard, ctx.RequestBodyStream())
				ctx.String(ctx.Response.StatusCode(), "upload read %d bytes", n)
			})
			h.GET("/probe", func(c context.Context, ctx *app.RequestContext) { ctx.String(200, "PROBE-OK") })
			h.GET("/smuggled", func(c context.Context, ctx *app.RequestContext) { ctx.String(200, "SMUGGLED") })
			go h.Spin()
			for i := 0; i < 500 && !h.IsRunning(); i++ {
				time.Sleep(10 * time.Millisecond)
			}
			time.Sleep(100 * time.Millisecond)
			defer h.Close()
			addr := testutils.GetListenerAddr(h)

			body := "GET /smuggled HTTP/1.1\r\nHost: x\r\n\r\n"
			raw := fmt.Sprintf("POST /upload HTTP/1.1\r\nHost: x\r\nExpect: 100-continue\r\nContent-Length: %d\r\n\r\n%s", len(body), body) +
				"GET /probe HTTP/1.1\r\nHost: x\r\n\r\n"

			conn, err := net.Dial("tcp", addr)
			if err != nil {
				t.Fatal(err)
			}
			defer conn.Close()
			conn.Write([]byte(raw)) //nolint:errcheck
			br := bufio.NewReader(conn)
			type res struct {
				status int
				body   string
			}
			var resps []res
			closed := false
			for {
				conn.SetReadDeadline(time.Now().Add(3 * time.Second)) //nolint:errcheck
				resp, err := http.ReadResponse(br, nil)
				if err != nil {
					ne, isNet := err.(net.Error)
					closed = !(isNet && ne.Timeout())
					break
				}
				b, _ := io.ReadAll(resp.Body)
				resp.Body.Close()
				resps = append(resps, res{resp.StatusCode, string(b)})
			}
			if len(resps) == 0 {
				t.Fatalf("no response (closed=%v)", closed)
			}
			t.Logf("first response: %+v; what followed: %+v closed=%v", resps[0], resps[1:], closed)
			rest := resps[1:]
			for _, r := range rest {
				if r.body == "SMUGGLED" {
					t.Errorf("unread body bytes were served as a request: %+v", r)
				}
			}
			switch {
			case len(rest) == 0 && closed:
				// connection closed: allowed
			case len(rest) == 1 && rest[0].status == 200 && rest[0].body == "PROBE-OK":
				// body skipped, in sync: allowed
			default:
				t.Errorf("connection out of sync: after the declined request the server answered %+v (closed=%v); "+
					"want only the probe's answer, or a closed connection", rest, closed)
			}
		})
	}
}
