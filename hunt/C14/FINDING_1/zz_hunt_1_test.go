package server

// C14 hunt, finding 1.
//
// With request-body streaming enabled, a handler that consumes the stream
// through protocol.Request.BodyWriteTo and stops in the middle (the
// destination writer fails), or that simply calls Request.CloseBodyStream
// (stop after zero bytes), leaves Request.IsBodyStream()==false.
// http1.Server.Serve only drains the unread remainder when IsBodyStream() is
// still true, so nothing is drained, the connection is kept alive, and the
// unread body bytes are parsed as the next request.

import (
	"bufio"
	"context"
	"errors"
	"fmt"
	"io"
	"net"
	"net/http"
	"strings"
	"testing"
	"time"

	"github.com/cloudwego/hertz/internal/testutils"
	"github.com/cloudwego/hertz/pkg/app"
	"github.com/cloudwego/hertz/pkg/common/config"
	"github.com/cloudwego/hertz/pkg/network/netpoll"
	"github.com/cloudwego/hertz/pkg/network/standard"
)

// hunt1QuotaWriter accepts `left` bytes and then fails, like a size-capped
// upload sink or a full disk.
type hunt1QuotaWriter struct{ left int }

func (w *hunt1QuotaWriter) Write(p []byte) (int, error) {
	if len(p) > w.left {
		n := w.left
		w.left = 0
		return n, errors.New("quota exceeded")
	}
	w.left -= len(p)
	return len(p), nil
}

type hunt1Resp struct {
	status int
	body   string
}

// hunt1Exchange writes raw on a fresh connection and returns every response
// the server sends until it closes the connection or stays silent.
func hunt1Exchange(t *testing.T, addr, raw string) (resps []hunt1Resp, closed bool) {
	conn, err := net.Dial("tcp", addr)
	if err != nil {
		t.Fatal(err)
	}
	defer conn.Close()
	if _, err = conn.Write([]byte(raw)); err != nil {
		t.Fatal(err)
	}
	br := bufio.NewReader(conn)
	for {
		conn.SetReadDeadline(time.Now().Add(3 * time.Second)) //nolint:errcheck
		resp, err := http.ReadResponse(br, nil)
		if err != nil {
			ne, isNet := err.(net.Error)
			closed = !(isNet && ne.Timeout())
			return
		}
		b, _ := io.ReadAll(resp.Body)
		resp.Body.Close()
		resps = append(resps, hunt1Resp{resp.StatusCode, string(b)})
	}
}

func TestHunt1_StreamDroppedByRequestAPIIsNotDrained(t *testing.T) {
	transports := map[string]config.Option{
		"standard": WithTransport(standard.NewTransporter),
		"netpoll":  WithTransport(netpoll.NewTransporter),
	}
	for trName, tr := range transports {
		h := New(WithStreamBody(true), WithHostPorts("127.0.0.1:0"), WithExitWaitTime(10*time.Millisecond), tr)
		// consumes the stream through the public BodyWriteTo; the sink fails
		// after 10 bytes, so consumption stops in the middle of the body
		h.POST("/upload", func(c context.Context, ctx *app.RequestContext) {
			if !ctx.Request.IsBodyStream() {
				ctx.String(500, "body is not streamed")
				return
			}
			err := ctx.Request.BodyWriteTo(&hunt1QuotaWriter{left: 10})
			ctx.String(200, "upload: %v", err)
		})
		// consumes nothing and "closes" the stream
		h.POST("/close", func(c context.Context, ctx *app.RequestContext) {
			if !ctx.Request.IsBodyStream() {
				ctx.String(500, "body is not streamed")
				return
			}
			ctx.Request.CloseBodyStream() //nolint:errcheck
			ctx.String(200, "closed")
		})
		// control: consumes 10 bytes through the stream itself and stops
		h.POST("/read10", func(c context.Context, ctx *app.RequestContext) {
			n, err := io.ReadFull(ctx.RequestBodyStream(), make([]byte, 10))
			ctx.String(200, "read10: %d %v", n, err)
		})
		h.GET("/probe", func(c context.Context, ctx *app.RequestContext) { ctx.String(200, "PROBE-OK") })
		h.GET("/smuggled", func(c context.Context, ctx *app.RequestContext) { ctx.String(200, "SMUGGLED") })
		go h.Spin()
		for i := 0; i < 500 && !h.IsRunning(); i++ {
			time.Sleep(10 * time.Millisecond)
		}
		time.Sleep(100 * time.Millisecond)
		lnAddr := testutils.GetListenerAddr(h)

		const probe = "GET /probe HTTP/1.1\r\nHost: x\r\n\r\n"
		inner := "GET /smuggled HTTP/1.1\r\nHost: x\r\n\r\n"
		// 8192 bytes are pre-read into the body buffer for a body of known
		// length, so the unread remainder on the wire starts at offset 8192.
		fixedBody := strings.Repeat("a", 8192) + inner
		// a chunked body is not pre-read; BodyWriteTo reads 4096 bytes, then
		// the sink fails
		chunkData := strings.Repeat("a", 4096) + inner

		cases := []struct{ name, raw string }{
			{
				"control: partial Read on the stream/content-length",
				fmt.Sprintf("POST /read10 HTTP/1.1\r\nHost: x\r\nContent-Length: %d\r\n\r\n%s", len(fixedBody), fixedBody) + probe,
			},
			{
				"control: partial Read on the stream/chunked",
				fmt.Sprintf("POST /read10 HTTP/1.1\r\nHost: x\r\nTransfer-Encoding: chunked\r\n\r\n%x\r\n%s\r\n0\r\n\r\n", len(chunkData), chunkData) + probe,
			},
			{
				"BodyWriteTo/content-length",
				fmt.Sprintf("POST /upload HTTP/1.1\r\nHost: x\r\nContent-Length: %d\r\n\r\n%s", len(fixedBody), fixedBody) + probe,
			},
			{
				"BodyWriteTo/chunked",
				fmt.Sprintf("POST /upload HTTP/1.1\r\nHost: x\r\nTransfer-Encoding: chunked\r\n\r\n%x\r\n%s\r\n0\r\n\r\n", len(chunkData), chunkData) + probe,
			},
			{
				"CloseBodyStream/content-length",
				fmt.Sprintf("POST /close HTTP/1.1\r\nHost: x\r\nContent-Length: %d\r\n\r\n%s", len(fixedBody), fixedBody) + probe,
			},
		}
		for _, tc := range cases {
			t.Run(trName+"/"+tc.name, func(t *testing.T) {
				resps, closed := hunt1Exchange(t, lnAddr, tc.raw)
				if len(resps) == 0 {
					t.Fatalf("no response to the streamed request (closed=%v)", closed)
				}
				if resps[0].status != 200 {
					t.Fatalf("unexpected first response: %+v", resps[0])
				}
				t.Logf("first response: %q; what followed: %+v closed=%v", resps[0].body, resps[1:], closed)
				// C14: after the handler returns, the next request is parsed from
				// the first byte after the body (-> exactly the probe is answered)
				// or the connection is closed (-> nothing is answered). Unread body
				// bytes are never interpreted as a request.
				rest := resps[1:]
				for _, r := range rest {
					if r.body == "SMUGGLED" {
						t.Errorf("unread body bytes were served as a request: %+v", r)
					}
				}
				switch {
				case len(rest) == 0 && closed:
					// connection closed: allowed
				case len(rest) == 1 && rest[0].status == 200 && rest[0].body == "PROBE-OK":
					// in sync: allowed
				default:
					t.Errorf("connection out of sync: after the streamed request the server answered %+v (closed=%v); "+
						"want only the probe's answer, or a closed connection", rest, closed)
				}
			})
		}
		h.Close() //nolint:errcheck
	}
}
