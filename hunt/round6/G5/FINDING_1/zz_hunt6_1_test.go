package validator_test

import (
	"testing"

	vd "github.com/cloudwego/hertz/internal/tagexpr/validator"
)

// Repair 101d8a6 marks every container member whose Elem() chain ends at an interface
// (or passes a struct map key) for the run-time walk (subRunAll). That chain is followed
// through pointers (case reflect.Ptr: tt = tt.Elem()), but the run-time walker cannot
// cope with a nil pointer to a slice / array / map: it dereferences the nil pointer to
// the zero reflect.Value and calls Len() on it.
//
// Before the repair a member such as []*[]interface{}, map[string]*[]interface{} or
// []*map[string]interface{} was not walked at all and a nil element validated fine;
// now Validate panics with "reflect: call of reflect.Value.Len on zero Value".
//
// Expected: a nil pointer element holds nothing to validate; Validate returns nil
// (as it did before 101d8a6), it must not panic.

func hunt6Validate1(v interface{}) (err error, panicked interface{}) {
	defer func() { panicked = recover() }()
	return vd.Validate(v, true), nil
}

func TestHunt6_1_NilPointerToContainerOfInterfaces(t *testing.T) {
	type A struct {
		F []*[]interface{}
	}
	type B struct {
		F map[string]*[]interface{}
	}
	type C struct {
		F []*map[string]interface{}
	}
	type D struct {
		// a JSON-ish payload: an absent (*[]int)(nil) two levels down
		F map[string]map[string]interface{}
	}
	good := []interface{}{1, "x"}
	cases := []struct {
		name string
		v    interface{}
	}{
		{"[]*[]interface{} with a nil element", &A{F: []*[]interface{}{&good, nil}}},
		{"map[string]*[]interface{} with a nil value", &B{F: map[string]*[]interface{}{"a": nil}}},
		{"[]*map[string]interface{} with a nil element", &C{F: []*map[string]interface{}{nil}}},
		{"map[string]map[string]interface{} holding (*[]int)(nil)", &D{F: map[string]map[string]interface{}{"a": {"b": (*[]int)(nil)}}}},
	}
	for _, c := range cases {
		err, p := hunt6Validate1(c.v)
		if p != nil {
			t.Errorf("%s: Validate panicked: %v (want: nil error, as before 101d8a6)", c.name, p)
			continue
		}
		if err != nil {
			t.Errorf("%s: Validate = %v, want nil", c.name, err)
		}
	}
}
