package validator_test

import (
	"testing"

	vd "github.com/cloudwego/hertz/internal/tagexpr/validator"
)

// Repair 101d8a6 added a look at the key type of an INNER map of a nested container
// member, but only for a key that is (a pointer to) a struct or an interface:
//
//	if kk := derefType(tt.Key()); kk.Kind() == reflect.Struct || kk.Kind() == reflect.Interface
//
// The outermost levels treat an array key like any other container (the key type of the
// member itself and of its first element level go through the full Elem() chain:
// map[[1]K]int, []map[[1]K]int and map[string]map[[1]K]int are walked and K's rules
// evaluated). One level deeper an array key - of structs or of interfaces - is still
// never walked: the rules of the structs inside are silently not evaluated.
//
// Expected: F[0][0]{k}[0].N is reported for [][]map[[1]K]int just as F[0]{k}[0].N is
// reported for []map[[1]K]int.

type hunt6Key struct {
	N int `vd:"$>0"`
}

func TestHunt6_3_InnerMapArrayKey(t *testing.T) {
	bad := [1]hunt6Key{{N: 0}}

	// control: one level less is walked
	type C struct {
		F []map[[1]hunt6Key]int
	}
	if err := vd.Validate(&C{F: []map[[1]hunt6Key]int{{bad: 1}}}); err == nil {
		t.Fatalf("control []map[[1]K]int: rule of K not evaluated")
	}

	type S struct {
		F [][]map[[1]hunt6Key]int
	}
	if err := vd.Validate(&S{F: [][]map[[1]hunt6Key]int{{{bad: 1}}}}); err == nil {
		t.Errorf("[][]map[[1]K]int: Validate = nil, want the failing rule N of the key struct (invalid parameter: F[0][0]{k}[0].N)")
	}

	type I struct {
		F [][]map[[1]interface{}]int
	}
	if err := vd.Validate(&I{F: [][]map[[1]interface{}]int{{{[1]interface{}{hunt6Key{}}: 1}}}}); err == nil {
		t.Errorf("[][]map[[1]interface{}]int: Validate = nil, want the failing rule N of the struct held by the key")
	}
}
