package validator_test

import (
	"testing"

	vd "github.com/cloudwego/hertz/internal/tagexpr/validator"
)

// Repair 9bca773 taught reflectValueGetter (as an earlier repair taught valueGetter of a
// nested field) that an outer level of a multi-level pointer may be nil. The third site
// with the same loop was left: setUnsupportedGetter, the valueGetter of every member whose
// element kind is struct / interface / func / chan ..., does
//
//	for i := 0; i < f.ptrDeep; i++ { v = v.Elem() }
//
// after checking the outermost level only. With a ***T member whose outermost pointer is
// set and whose middle level is nil, the second Elem() yields the zero Value and the
// third one panics: "reflect: call of reflect.Value.Elem on zero Value" inside Validate.
//
// Expected: the member's value is nil (the struct / interface is absent), like for a
// nil outermost level: `$==nil` holds, Validate returns nil without panicking.

type hunt6Leaf struct {
	V int
}

func hunt6Validate2(v interface{}) (err error, panicked interface{}) {
	defer func() { panicked = recover() }()
	return vd.Validate(v, true), nil
}

func TestHunt6_2_UnsupportedGetterMultiLevelPointer(t *testing.T) {
	type S struct {
		P ***hunt6Leaf `vd:"$==nil"`
	}
	type I struct {
		P ***interface{} `vd:"$==nil"`
	}

	// control: outermost level nil -> value nil, rule holds
	if err, p := hunt6Validate2(&S{}); p != nil || err != nil {
		t.Fatalf("control (P==nil): err=%v panic=%v", err, p)
	}

	// outermost level set, middle level nil
	if err, p := hunt6Validate2(&S{P: new(**hunt6Leaf)}); p != nil {
		t.Errorf("***struct member, *P == nil: Validate panicked: %v (want: value nil, no error)", p)
	} else if err != nil {
		t.Errorf("***struct member, *P == nil: Validate = %v, want nil", err)
	}
	if err, p := hunt6Validate2(&I{P: new(**interface{})}); p != nil {
		t.Errorf("***interface{} member, *P == nil: Validate panicked: %v (want: value nil, no error)", p)
	} else if err != nil {
		t.Errorf("***interface{} member, *P == nil: Validate = %v, want nil", err)
	}
}
