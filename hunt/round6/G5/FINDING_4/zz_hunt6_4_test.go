package validator_test

import (
	"testing"

	vd "github.com/cloudwego/hertz/internal/tagexpr/validator"
)

// Repairs 9bca773 / e3f48a1 made the getters of a NESTED field treat a nil at any level
// of a multi-level pointer parent as "the struct is absent" (value nil, reflect value
// invalid), which is what the validator's nil-parent exemption relies on: the failing
// rules below an absent optional struct are ignored.
//
// The exemption itself (Validator.Validate) still looks at the outermost level only
// (v.Kind()==reflect.Ptr && v.IsNil() on the raw member value): for a member P **T the
// exemption works when P == nil, and one level further down (P **Elem with *P == nil and
// the rule at P.O.V, because there the child getter returns the invalid Value), but not
// for the rules directly below P when *P == nil: the struct does not exist, its fields
// evaluate to nil, the rule fails and is reported as "invalid parameter: P.V".
//
// Expected: the rules of a struct that is absent are exempt whichever level of the
// pointer chain is nil.

type hunt6Opt struct {
	V int `vd:"$>0"`
}

type hunt6Elem struct {
	O *hunt6Opt
}

func TestHunt6_4_NilParentExemptionInnerLevel(t *testing.T) {
	type S struct {
		P **hunt6Opt
	}
	// controls
	if err := vd.Validate(&S{}); err != nil {
		t.Fatalf("control P == nil: %v", err)
	}
	type N struct {
		P **hunt6Elem
	}
	if err := vd.Validate(&N{P: new(*hunt6Elem)}); err != nil {
		t.Fatalf("control P **Elem, *P == nil, rule at P.O.V: %v", err)
	}
	o := &hunt6Opt{V: 1}
	if err := vd.Validate(&S{P: &o}); err != nil {
		t.Fatalf("control present and valid: %v", err)
	}

	// the struct is absent: *P == nil
	if err := vd.Validate(&S{P: new(*hunt6Opt)}); err != nil {
		t.Errorf("P **Opt with *P == nil: Validate = %q, want nil (the optional struct is absent, as for P == nil)", err)
	}
}
