package client

import (
	"bufio"
	"bytes"
	"context"
	"net"
	"testing"
	"time"
)

// A response whose body stream failed must not be handed out as a (partial or
// empty) body without an error (b37c991). Get / Post read the stream of a client
// in stream mode through Response.Body(), which drops the error of BodyE: a body
// that the peer cut half way comes back as (200, <empty>, nil).
func TestHunt6_1_GetStreamModeCutBodyIsAnError(t *testing.T) {
	ln, err := net.Listen("tcp", "127.0.0.1:0")
	if err != nil {
		t.Fatal(err)
	}
	defer ln.Close()
	const declared = 20000
	const sent = 10000
	go func() {
		for {
			conn, err := ln.Accept()
			if err != nil {
				return
			}
			go func(conn net.Conn) {
				defer conn.Close()
				br := bufio.NewReader(conn)
				for {
					line, err := br.ReadString('\n')
					if err != nil {
						return
					}
					if line == "\r\n" {
						break
					}
				}
				conn.Write([]byte("HTTP/1.1 200 OK\r\nContent-Type: text/plain\r\nContent-Length: 20000\r\n\r\n")) //nolint:errcheck
				conn.Write(bytes.Repeat([]byte("x"), sent))                                                        //nolint:errcheck
				// the peer goes away inside the body
			}(conn)
		}
	}()

	url := "http://" + ln.Addr().String() + "/"

	// the buffered client reports the cut body
	cb, _ := NewClient(WithDialTimeout(2 * time.Second))
	_, _, errBuffered := cb.Get(context.Background(), nil, url)
	if errBuffered == nil {
		t.Fatalf("buffered client: expected an error for a body cut at %d of %d bytes", sent, declared)
	}

	// the streaming client must report it as well
	cs, _ := NewClient(WithDialTimeout(2*time.Second), WithResponseBodyStream(true))
	status, body, err := cs.Get(context.Background(), nil, url)
	if err == nil {
		t.Fatalf("streaming client: Get returned status=%d len(body)=%d err=nil for a body the peer cut at %d of %d bytes; "+
			"want an error (the buffered client says: %v)", status, len(body), sent, declared, errBuffered)
	}
}
