package client

import (
	"bufio"
	"context"
	"net"
	"strings"
	"sync/atomic"
	"testing"
	"time"

	"github.com/cloudwego/hertz/pkg/protocol"
)

// f1b4884 / ef2c649: Connection is a list of case-insensitive tokens; the close
// option of the request and of the response are read that way now, and ef2c649 relies
// on "a response that switches protocols is a 101". The one place that acts on a 101
// still compares the whole Connection value with "Upgrade": a 101 that carries
// 'Connection: keep-alive, Upgrade' (the list Firefox sends and many servers echo)
// is not taken for a switch. Response.Hijack is refused, and the connection, which
// speaks the new protocol from here on, goes back to the pool: the next request to
// the host is written into it.
func TestHunt6_4_SwitchingProtocolsWithConnectionTokenList(t *testing.T) {
	ln, err := net.Listen("tcp", "127.0.0.1:0")
	if err != nil {
		t.Fatal(err)
	}
	defer ln.Close()
	var httpAfterSwitch int32
	go func() {
		for {
			conn, err := ln.Accept()
			if err != nil {
				return
			}
			go func(conn net.Conn) {
				defer conn.Close()
				br := bufio.NewReader(conn)
				upgrade := false
				for {
					line, err := br.ReadString('\n')
					if err != nil {
						return
					}
					if strings.HasPrefix(strings.ToLower(line), "upgrade:") {
						upgrade = true
					}
					if line == "\r\n" {
						break
					}
				}
				if !upgrade {
					conn.Write([]byte("HTTP/1.1 200 OK\r\nContent-Length: 2\r\n\r\nok")) //nolint:errcheck
					return
				}
				conn.Write([]byte("HTTP/1.1 101 Switching Protocols\r\nUpgrade: demo\r\nConnection: keep-alive, Upgrade\r\n\r\n")) //nolint:errcheck
				// from here on the connection speaks "demo", not HTTP
				conn.SetReadDeadline(time.Now().Add(2 * time.Second)) //nolint:errcheck
				line, _ := br.ReadString('\n')
				if strings.Contains(line, "HTTP/1.1") {
					atomic.AddInt32(&httpAfterSwitch, 1)
				}
			}(conn)
		}
	}()

	c, _ := NewClient(WithDialTimeout(2 * time.Second))
	url := "http://" + ln.Addr().String() + "/"

	req, resp := protocol.AcquireRequest(), protocol.AcquireResponse()
	req.SetRequestURI(url)
	req.Header.Set("Upgrade", "demo")
	req.Header.Set("Connection", "Upgrade")
	if err = c.Do(context.Background(), req, resp); err != nil {
		t.Fatal(err)
	}
	if resp.StatusCode() != 101 {
		t.Fatalf("status %d", resp.StatusCode())
	}
	_, hijackErr := resp.Hijack()

	// the next, ordinary request to the same host
	req2, resp2 := protocol.AcquireRequest(), protocol.AcquireResponse()
	req2.SetRequestURI(url)
	c.DoTimeout(context.Background(), req2, resp2, time.Second) //nolint:errcheck
	time.Sleep(50 * time.Millisecond)

	if hijackErr != nil {
		t.Errorf("101 with 'Connection: keep-alive, Upgrade': Response.Hijack() = %v; want the connection", hijackErr)
	}
	if n := atomic.LoadInt32(&httpAfterSwitch); n != 0 {
		t.Errorf("the connection that switched protocols went back to the pool: the next HTTP request was written into it")
	}
}
