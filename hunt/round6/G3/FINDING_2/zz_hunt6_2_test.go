package ext

import (
	"io"
	"syscall"
	"testing"
)

// hunt6Reader hands out data and then fails every read with err.
type hunt6Reader struct {
	data []byte
	err  error
}

func (r *hunt6Reader) Peek(n int) ([]byte, error) {
	if n > len(r.data) {
		return nil, r.err
	}
	return r.data[:n], nil
}
func (r *hunt6Reader) Skip(n int) error                 { r.data = r.data[n:]; return nil }
func (r *hunt6Reader) Release() error                   { return nil }
func (r *hunt6Reader) Len() int                         { return len(r.data) }
func (r *hunt6Reader) ReadByte() (byte, error)          { return 0, r.err }
func (r *hunt6Reader) ReadBinary(n int) ([]byte, error) { return nil, r.err }

// 9ad740d made a timeout inside a read-until-close body an error; every other
// failed read is still taken for the end of the body. Only the end of the
// connection (io.EOF) ends such a body: a reset connection, or a TLS connection
// cut without close_notify (io.ErrUnexpectedEOF from crypto/tls, the truncation
// the record layer exists to detect), has not delivered the whole body.
func TestHunt6_2_ReadUntilCloseBodyFailedReadIsNotTheEnd(t *testing.T) {
	// the end of the connection ends the body
	b, err := ReadBody(&hunt6Reader{data: []byte("part"), err: io.EOF}, -2, 0, nil)
	if err != nil || string(b) != "part" {
		t.Fatalf("EOF: got %q, %v", b, err)
	}
	for _, e := range []error{syscall.ECONNRESET, io.ErrUnexpectedEOF} {
		b, err := ReadBody(&hunt6Reader{data: []byte("part"), err: e}, -2, 0, nil)
		if err == nil {
			t.Errorf("the read failed with %q inside a read-until-close body: ReadBody returned %q without an error; want the error", e, b)
		}
	}
}
