package client

import (
	"bufio"
	"context"
	"net"
	"testing"
	"time"

	"github.com/cloudwego/hertz/pkg/protocol"
)

// 9ad740d: "a read timeout inside a read-until-close body is an error, not the end
// of the body". Only the end of the connection (EOF) ends such a body; the repair
// singles out timeouts and still takes every other failed read for the end. A
// connection that is reset inside the body (the peer crashed, a middlebox cut it)
// makes Do return nil with the part that had arrived, labelled with its own
// Content-Length.
func TestHunt6_2_E2E_ResetInsideReadUntilCloseBodyIsAnError(t *testing.T) {
	ln, err := net.Listen("tcp", "127.0.0.1:0")
	if err != nil {
		t.Fatal(err)
	}
	defer ln.Close()
	go func() {
		for {
			conn, err := ln.Accept()
			if err != nil {
				return
			}
			go func(conn net.Conn) {
				br := bufio.NewReader(conn)
				for {
					line, err := br.ReadString('\n')
					if err != nil {
						conn.Close()
						return
					}
					if line == "\r\n" {
						break
					}
				}
				// no Content-Length, no chunking: the body runs until the connection ends
				conn.Write([]byte("HTTP/1.1 200 OK\r\nContent-Type: text/plain\r\nConnection: close\r\n\r\nfirst half of the document, ")) //nolint:errcheck
				// the client has taken the part and waits for more ...
				time.Sleep(300 * time.Millisecond)
				// ... and the connection is reset (RST), not closed
				conn.(*net.TCPConn).SetLinger(0) //nolint:errcheck
				conn.Close()
			}(conn)
		}
	}()

	c, _ := NewClient(WithDialTimeout(2 * time.Second))
	req, resp := protocol.AcquireRequest(), protocol.AcquireResponse()
	req.SetRequestURI("http://" + ln.Addr().String() + "/")
	err = c.Do(context.Background(), req, resp)
	if err == nil {
		t.Fatalf("Do returned nil for a read-until-close body whose connection was reset: status=%d Content-Length=%d body=%q; "+
			"want the read error (connection reset by peer), as for a timeout",
			resp.StatusCode(), resp.Header.ContentLength(), resp.Body())
	}
}
