package protocol

import (
	"errors"
	"io"
	"strings"
	"testing"
)

type hunt6FailingStream struct{ sent bool }

func (s *hunt6FailingStream) Read(p []byte) (int, error) {
	if !s.sent {
		s.sent = true
		return copy(p, "part"), nil
	}
	return 0, errors.New("stream cut")
}

// b37c991 keeps the error of a failed body stream until "the body is set or reset",
// and takes it back in SetBody, SetBodyString and AppendBody - not in
// AppendBodyString (what ctx.String / the text render use). A handler that answers
// the failure with a text body sends that body, but Body / BodyE of the very same
// response (access log, compression and ETag middleware read it) keep failing.
func TestHunt6_3_AppendBodyStringAfterFailedStream(t *testing.T) {
	for _, tc := range []struct {
		name string
		set  func(resp *Response)
	}{
		{"AppendBody", func(resp *Response) { resp.AppendBody([]byte("upstream failed")) }},
		{"SetBodyString", func(resp *Response) { resp.SetBodyString("upstream failed") }},
		{"AppendBodyString", func(resp *Response) { resp.AppendBodyString("upstream failed") }},
	} {
		resp := &Response{}
		resp.SetBodyStream(&hunt6FailingStream{}, -1)
		if _, err := resp.BodyE(); err == nil {
			t.Fatal("the stream fails: BodyE must fail")
		}
		tc.set(resp)
		if string(resp.BodyBytes()) != "upstream failed" {
			t.Fatalf("%s: BodyBytes=%q", tc.name, resp.BodyBytes())
		}
		body, err := resp.BodyE()
		if err != nil || string(body) != "upstream failed" {
			t.Errorf("%s after a failed stream: BodyE returns %q, %v and Body() %q, while the body that is sent is %q; want that body and no error",
				tc.name, body, err, resp.Body(), resp.BodyBytes())
		}
	}
}

// The error also outlives a new stream that was read without any failure: BodyE
// returns the new body once, and the old error from the second call on.
func TestHunt6_3_StaleErrorAfterNewStream(t *testing.T) {
	resp := &Response{}
	resp.SetBodyStream(&hunt6FailingStream{}, -1)
	if _, err := resp.BodyE(); err == nil {
		t.Fatal("the stream fails: BodyE must fail")
	}
	resp.SetBodyStreamNoReset(io.NopCloser(strings.NewReader("second body")), -1)
	body, err := resp.BodyE()
	if err != nil || string(body) != "second body" {
		t.Fatalf("first BodyE on the new stream: %q, %v", body, err)
	}
	body, err = resp.BodyE()
	if err != nil || string(body) != "second body" {
		t.Errorf("second BodyE on the new stream, which was read completely: %q, %v; want %q and no error", body, err, "second body")
	}
}
