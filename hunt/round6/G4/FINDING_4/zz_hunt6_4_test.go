package binding

import (
	"testing"

	"github.com/cloudwego/hertz/pkg/protocol"
)

// Finding 4 (regression of 845c439, second cause):
// For a field that has a case twin the presence lookup (jsonKeyExists, exactLast) accepts
// the exact spelling ONLY. The body decoder still falls back to the case-insensitive
// match when no field spells the key exactly, and gives the key to the FIRST of the
// twins (encoding/json and sonic agree). With fields "id" and "ID" and the body
// {"Id":7} the first field is filled with 7 and is then reported absent: its 'required'
// fails, its default replaces the 7. Before 845c439 the first field was right.

func hunt6JSONReq4(body string) *protocol.Request {
	req := protocol.NewRequest("POST", "/x", nil)
	req.Header.SetContentTypeBytes([]byte("application/json"))
	req.SetBody([]byte(body))
	req.Header.SetContentLength(len(body))
	return req
}

func TestHunt6_4_ThirdSpellingRequired(t *testing.T) {
	type Req struct {
		A int `json:"id,required"`
		B int `json:"ID"`
	}
	var r Req
	err := DefaultBinder().Bind(hunt6JSONReq4(`{"Id":7}`), &r, nil)
	if r.A != 7 {
		t.Skipf("the body decoder did not give the key to the first field (A=%d B=%d)", r.A, r.B)
	}
	if err != nil {
		t.Fatalf("body {\"Id\":7} filled A = 7, yet A's 'required' fails: %v", err)
	}
}

func TestHunt6_4_ThirdSpellingDefault(t *testing.T) {
	type Req struct {
		A int `json:"id" default:"5"`
		B int `json:"ID" default:"6"`
	}
	var r Req
	if err := DefaultBinder().Bind(hunt6JSONReq4(`{"Id":7}`), &r, nil); err != nil {
		t.Fatal(err)
	}
	if r.A != 7 {
		t.Fatalf("body {\"Id\":7}: A = %d, want 7 (the body decoder gives the key to the first twin; the default 5 must not replace it); B = %d", r.A, r.B)
	}
	if r.B != 6 {
		t.Fatalf("B = %d, want its default 6 (the key went to A)", r.B)
	}
}
