package binding

import (
	"testing"

	"github.com/cloudwego/hertz/pkg/protocol"
)

// Finding 3 (incompleteness of b1c61ce, same root cause one level down):
// b1c61ce made a struct used as the key of a map FIELD count for "this type needs
// validating" (elemMayCarryRules(field.Type.Key())). elemMayCarryRules itself still
// looks only at t.Elem() for a map it meets inside a container, so a struct map key one
// level down ([]map[K]V, map[string]map[K]V, [2]map[K]V) is not seen. The validator does
// walk there (ValidateStruct on the same value reports the rule), so BindAndValidate
// returns nil for a value that Validate refuses.

type hunt6Key struct {
	N int `vd:"$>0"`
}

func hunt6JSONReq3(body string) *protocol.Request {
	req := protocol.NewRequest("POST", "/x", nil)
	req.Header.SetContentTypeBytes([]byte("application/json"))
	req.SetBody([]byte(body))
	req.Header.SetContentLength(len(body))
	return req
}

func TestHunt6_3_StructMapKeyInsideSlice(t *testing.T) {
	type Req struct {
		M []map[hunt6Key]int `json:"-"`
	}
	r := Req{M: []map[hunt6Key]int{{hunt6Key{N: 0}: 1}}}
	direct := DefaultValidator().ValidateStruct(&r)
	if direct == nil {
		t.Skip("the validator does not walk there, nothing to compare")
	}
	err := DefaultBinder().BindAndValidate(hunt6JSONReq3(`{}`), &r, nil)
	if err == nil {
		t.Fatalf("BindAndValidate returned nil, the validator itself says: %v", direct)
	}
}

func TestHunt6_3_StructMapKeyInsideMap(t *testing.T) {
	type Req struct {
		M map[string]map[hunt6Key]int `json:"-"`
	}
	r := Req{M: map[string]map[hunt6Key]int{"a": {hunt6Key{N: 0}: 1}}}
	direct := DefaultValidator().ValidateStruct(&r)
	if direct == nil {
		t.Skip("the validator does not walk there, nothing to compare")
	}
	err := DefaultBinder().BindAndValidate(hunt6JSONReq3(`{}`), &r, nil)
	if err == nil {
		t.Fatalf("BindAndValidate returned nil, the validator itself says: %v", direct)
	}
}

// control: the case b1c61ce repaired (key of the field's own map) is validated
func TestHunt6_3_ControlStructMapKeyOfField(t *testing.T) {
	type Req struct {
		M map[hunt6Key]int `json:"-"`
	}
	r := Req{M: map[hunt6Key]int{{N: 0}: 1}}
	if err := DefaultBinder().BindAndValidate(hunt6JSONReq3(`{}`), &r, nil); err == nil {
		t.Fatal("control failed: the key of a map field is not validated")
	}
}
