package binding

import (
	"testing"

	"github.com/cloudwego/hertz/pkg/protocol"
)

// Finding 1 (incompleteness of f68ee90 / e43ca6a, the "presence lookup"):
// The body decoder (encoding/json rules, sonic follows them) FLATTENS an embedded
// struct that has no json tag: {"a":1} fills Req.Inner.A. The presence lookup of the
// field decoders asks the body for the path "Inner.a" (embedded field name + '.' + name),
// a key no decoder ever reads. So for every field of an embedded struct
//   - a declared default replaces the value the body carried, and
//   - json 'required' is never enforced (missing "superior" object counts as satisfied),
//   - while a body that happens to carry an unrelated key "Inner" makes 'required' fail
//     although the key is there.

func hunt6JSONReq1(body string) *protocol.Request {
	req := protocol.NewRequest("POST", "/x", nil)
	req.Header.SetContentTypeBytes([]byte("application/json"))
	req.SetBody([]byte(body))
	req.Header.SetContentLength(len(body))
	return req
}

type Hunt6Page struct {
	Size int `json:"size" default:"20"`
}

type Hunt6Auth struct {
	Token string `json:"token,required"`
}

func TestHunt6_1_EmbeddedStructDefaultReplacesBodyValue(t *testing.T) {
	type Req struct {
		Hunt6Page
	}
	var r Req
	if err := DefaultBinder().Bind(hunt6JSONReq1(`{"size":50}`), &r, nil); err != nil {
		t.Fatal(err)
	}
	if r.Size != 50 {
		t.Fatalf("body {\"size\":50}: Size = %d, want 50 (the body carries the key; the default 20 must not replace it)", r.Size)
	}
}

func TestHunt6_1_EmbeddedPointerStructDefaultReplacesBodyValue(t *testing.T) {
	type Req struct {
		*Hunt6Page
	}
	var r Req
	if err := DefaultBinder().Bind(hunt6JSONReq1(`{"size":50}`), &r, nil); err != nil {
		t.Fatal(err)
	}
	if r.Hunt6Page == nil || r.Size != 50 {
		t.Fatalf("body {\"size\":50}: Hunt6Page = %+v, want Size 50", r.Hunt6Page)
	}
}

func TestHunt6_1_EmbeddedStructRequiredNotEnforced(t *testing.T) {
	type Req struct {
		Hunt6Auth
	}
	var r Req
	err := DefaultBinder().Bind(hunt6JSONReq1(`{"other":1}`), &r, nil)
	if err == nil {
		t.Fatalf("body without \"token\": Bind returned nil, want the 'required' error (Token = %q)", r.Token)
	}
}

func TestHunt6_1_EmbeddedStructRequiredFailsThoughPresent(t *testing.T) {
	type Req struct {
		Hunt6Auth
	}
	var r Req
	// "Hunt6Auth" is just another key of the body; encoding/json does not give it to the
	// embedded struct, the token is read from the top level
	err := DefaultBinder().Bind(hunt6JSONReq1(`{"token":"t","Hunt6Auth":{}}`), &r, nil)
	if err != nil {
		t.Fatalf("body carries \"token\" (Token = %q was bound), yet Bind fails: %v", r.Token, err)
	}
}
