package binding

import (
	"testing"

	"github.com/cloudwego/hertz/pkg/protocol"
)

// Finding 2 (regression of 845c439):
// hasCaseTwin counts EVERY other struct member whose name equals the field's json name
// ignoring case, also members the body decoder never fills (unexported ones). With
//   id int                       // private bookkeeping
//   ID int `json:"ID,required"`
// the body {"id":7} is given to ID by the body decoder (case-insensitive match, the
// unexported member is no candidate), but ID is flagged JSONExact and looked up by its
// exact spelling only: 'required' fails although the value was bound, and a default
// replaces the bound value. Before 845c439 (with f68ee90) both cases worked.

func hunt6JSONReq2(body string) *protocol.Request {
	req := protocol.NewRequest("POST", "/x", nil)
	req.Header.SetContentTypeBytes([]byte("application/json"))
	req.SetBody([]byte(body))
	req.Header.SetContentLength(len(body))
	return req
}

func TestHunt6_2_UnexportedSiblingRequired(t *testing.T) {
	type Req struct {
		id int
		ID int `json:"ID,required"`
	}
	var r Req
	err := DefaultBinder().Bind(hunt6JSONReq2(`{"id":7}`), &r, nil)
	_ = r.id
	if err != nil {
		t.Fatalf("body {\"id\":7} filled ID = %d (no other exported field takes the key), yet 'required' fails: %v", r.ID, err)
	}
	if r.ID != 7 {
		t.Fatalf("ID = %d, want 7", r.ID)
	}
}

func TestHunt6_2_UnexportedSiblingDefault(t *testing.T) {
	type Req struct {
		id int
		ID int `json:"ID" default:"5"`
	}
	var r Req
	err := DefaultBinder().Bind(hunt6JSONReq2(`{"id":7}`), &r, nil)
	_ = r.id
	if err != nil {
		t.Fatal(err)
	}
	if r.ID != 7 {
		t.Fatalf("body {\"id\":7}: ID = %d, want 7 (the body's value, not the default 5)", r.ID)
	}
}
