package http1

// Demonstration for repair 996761b ("with tracers the request keeps a copy of a body
// that lives in the read buffers").
//
// The repair copies the zero-copy body before Serve releases the read buffers, but
// skips the copy whenever the request HasMultipartForm(). With
// DisablePreParseMultipartForm a multipart body is taken out of the read buffers without
// a copy like any other body (Peek + SetBodyRaw); as soon as a handler asks for the form
// (MultipartForm, FormValue, PostForm, FormFile ...) HasMultipartForm() is true, the
// copy is skipped and the tracers' Finish sees, in Request.Body(), memory that went back
// to the buffer pool: exactly the defect the repair describes.

import (
	"context"
	"strconv"
	"sync"
	"testing"

	"github.com/cloudwego/hertz/pkg/app"
	"github.com/cloudwego/hertz/pkg/common/test/mock"
	"github.com/cloudwego/hertz/pkg/common/tracer"
	"github.com/cloudwego/hertz/pkg/common/tracer/traceinfo"
)

// hunt6PoisonConn models what a pooled read buffer does: after Release the memory of
// every slice handed out by Peek belongs to somebody else (here: it is overwritten).
type hunt6PoisonConn struct {
	*mock.Conn
	handedOut [][]byte
}

func (c *hunt6PoisonConn) Peek(n int) ([]byte, error) {
	b, err := c.Conn.Peek(n)
	if len(b) > 0 {
		c.handedOut = append(c.handedOut, b)
	}
	return b, err
}

func (c *hunt6PoisonConn) Release() error {
	for _, b := range c.handedOut {
		for i := range b {
			b[i] = 'X'
		}
	}
	c.handedOut = c.handedOut[:0]
	return c.Conn.Release()
}

type hunt6FinishController struct {
	bodyAtFinish string
}

func (m *hunt6FinishController) Append(col tracer.Tracer) {}
func (m *hunt6FinishController) DoStart(ctx context.Context, c *app.RequestContext) context.Context {
	return ctx
}

func (m *hunt6FinishController) DoFinish(ctx context.Context, c *app.RequestContext, err error) {
	m.bodyAtFinish = string(c.Request.Body())
}
func (m *hunt6FinishController) HasTracer() bool { return true }

func hunt6ServeMultipart(t *testing.T, askForForm bool) (sent, seenInHandler, seenAtFinish string) {
	body := "--bnd\r\nContent-Disposition: form-data; name=\"a\"\r\n\r\nvalue-of-a\r\n--bnd--\r\n"
	raw := "POST /upload HTTP/1.1\r\nHost: example.com\r\nConnection: close\r\n" +
		"Content-Type: multipart/form-data; boundary=bnd\r\n" +
		"Content-Length: " + strconv.Itoa(len(body)) + "\r\n\r\n" + body

	controller := &hunt6FinishController{}
	server := &Server{}
	server.eventStackPool = &sync.Pool{New: func() interface{} { return &eventStack{} }}
	server.EnableTrace = true
	server.DisablePreParseMultipartForm = true
	server.Core = &mockCore{
		ctxPool: &sync.Pool{New: func() interface{} {
			ctx := &app.RequestContext{}
			ti := traceinfo.NewTraceInfo()
			ti.Stats().SetLevel(2)
			ctx.SetTraceInfo(ti)
			return ctx
		}},
		controller: controller,
		isRunning:  true,
		mockHandler: func(c context.Context, ctx *app.RequestContext) {
			if askForForm {
				f, err := ctx.MultipartForm()
				if err != nil || len(f.Value["a"]) != 1 || f.Value["a"][0] != "value-of-a" {
					t.Errorf("handler: form not parsed: %v %v", f, err)
				}
			}
			seenInHandler = string(ctx.Request.Body())
		},
	}
	conn := &hunt6PoisonConn{Conn: mock.NewConn(raw)}
	server.Serve(context.TODO(), conn) //nolint:errcheck
	return body, seenInHandler, controller.bodyAtFinish
}

func TestHunt6_1_TracerSeesReleasedMultipartBody(t *testing.T) {
	// control: the handler does not ask for the form, the repair's copy is made
	sent, inHandler, atFinish := hunt6ServeMultipart(t, false)
	if inHandler != sent || atFinish != sent {
		t.Fatalf("control (no MultipartForm call) failed: handler saw %q, Finish saw %q", inHandler, atFinish)
	}

	// the handler asks for the form: the body at Finish must still be the request's own
	sent, inHandler, atFinish = hunt6ServeMultipart(t, true)
	if inHandler != sent {
		t.Fatalf("handler saw body %q, want %q", inHandler, sent)
	}
	if atFinish != sent {
		t.Fatalf("the tracers' Finish sees released read-buffer memory as Request.Body() "+
			"after the handler called MultipartForm():\n got %q\nwant %q (all 'X' = memory given back by zr.Release)",
			atFinish, sent)
	}
}
