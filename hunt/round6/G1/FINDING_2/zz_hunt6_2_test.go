package route

// Demonstration for repair 3046c7b ("the renderer and the TLS flag of a connection are
// handed to the context for every request").
//
// The repair re-installs, for every request, two of the things a handler can replace
// on its context for its own answer (HTMLRender, Request.isTLS). The engine hands two
// more to the context in the same way - once, when the context is allocated - and
// neither ResetWithoutConn nor Reset nor Serve restores them: the form value function
// (engine.SetFormValueFunc / ctx.SetFormValueFunc) and the client IP function
// (engine.SetClientIPFunc / ctx.SetClientIPFunc). A handler that installs its own one
// for its own request (the setters are exported methods of RequestContext, like the
// HTMLRender member) changes FormValue / ClientIP for every later request of the
// keep-alive connection, and, through the context pool, of other connections.

import (
	"context"
	"strings"
	"sync/atomic"
	"testing"

	"github.com/cloudwego/hertz/pkg/app"
	"github.com/cloudwego/hertz/pkg/common/config"
	"github.com/cloudwego/hertz/pkg/common/test/mock"
	"github.com/cloudwego/hertz/pkg/protocol/consts"
)

func TestHunt6_2_PerRequestFormValueAndClientIPFuncSurviveTheRequest(t *testing.T) {
	engine := NewEngine(config.NewOptions(nil))
	atomic.StoreUint32(&engine.status, statusRunning)
	// what the server owner configured for all requests
	engine.SetFormValueFunc(func(ctx *app.RequestContext, key string) []byte {
		return []byte("engine:" + string(ctx.QueryArgs().Peek(key)))
	})
	engine.SetClientIPFunc(func(ctx *app.RequestContext) string { return "engine-ip" })
	engine.Init()
	// (no listener in this test: a transporter without one, so that the engine counts as running)
	engine.transport = &mockTransporter{}

	// one handler chooses its own functions for its own request
	engine.GET("/special", func(c context.Context, ctx *app.RequestContext) {
		ctx.SetFormValueFunc(func(ctx *app.RequestContext, key string) []byte { return []byte("special-handler") })
		ctx.SetClientIPFunc(func(ctx *app.RequestContext) string { return "special-ip" })
		ctx.String(consts.StatusOK, "%s|%s", ctx.FormValue("k"), ctx.ClientIP())
	})
	var form, ip string
	engine.GET("/plain", func(c context.Context, ctx *app.RequestContext) {
		form, ip = string(ctx.FormValue("k")), ctx.ClientIP()
		ctx.String(consts.StatusOK, "%s|%s", form, ip)
	})

	// control: an ordinary request sees what the engine is configured with
	engine.Serve(context.Background(), mock.NewConn("GET /plain?k=v HTTP/1.1\r\nHost: a\r\nConnection: close\r\n\r\n")) //nolint:errcheck
	if form != "engine:v" || ip != "engine-ip" {
		t.Fatalf("control failed: FormValue=%q ClientIP=%q", form, ip)
	}
	form, ip = "", ""

	// two requests on one keep-alive connection
	conn := mock.NewConn("GET /special?k=1 HTTP/1.1\r\nHost: a\r\n\r\n" +
		"GET /plain?k=v HTTP/1.1\r\nHost: a\r\nConnection: close\r\n\r\n")
	engine.Serve(context.Background(), conn) //nolint:errcheck
	if !engine.IsRunning() {
		t.Fatal("test setup: engine not running")
	}

	out, _ := conn.WriterRecorder().ReadBinary(conn.WriterRecorder().WroteLen())
	if !strings.Contains(string(out), "special-handler|special-ip") {
		t.Fatalf("first request not answered as expected: %q", out)
	}
	if form != "engine:v" || ip != "engine-ip" {
		t.Fatalf("second request of the connection: FormValue(\"k\")=%q ClientIP()=%q, "+
			"want \"engine:v\" and \"engine-ip\" (what the engine is configured with); "+
			"the first request's handler replaced the functions for its own request only", form, ip)
	}
}
