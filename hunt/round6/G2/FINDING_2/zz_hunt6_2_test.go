package http1

import (
	"context"
	"strings"
	"sync"
	"testing"

	"github.com/cloudwego/hertz/pkg/app"
	"github.com/cloudwego/hertz/pkg/common/test/mock"
	"github.com/cloudwego/hertz/pkg/protocol/http1/resp"
)

func hunt6ServeHead(t *testing.T, h func(c context.Context, ctx *app.RequestContext)) string {
	t.Helper()
	server := &Server{}
	server.eventStackPool = pool
	server.IdleTimeout = 1 // keep-alive: go on to the next request on the connection
	server.Core = &mockCore{
		ctxPool:     &sync.Pool{New: func() interface{} { return &app.RequestContext{} }},
		mockHandler: h,
		isRunning:   true,
	}
	conn := mock.NewConn("HEAD /a HTTP/1.1\r\nHost: a\r\n\r\nHEAD /b HTTP/1.1\r\nHost: a\r\n\r\n")
	server.Serve(context.TODO(), conn) //nolint:errcheck
	rec := conn.WriterRecorder()
	b, _ := rec.Peek(rec.WroteLen())
	return string(b)
}

func hunt6CheckHeadAnswers(t *testing.T, name, out string) {
	t.Helper()
	// two HEAD requests: two header blocks and nothing else on the connection
	want := 2
	if n := strings.Count(out, "HTTP/1.1 200 OK\r\n"); n != want {
		t.Fatalf("%s: want %d answers, got %d: %q", name, want, n, out)
	}
	for i, part := range strings.SplitAfter(out, "\r\n\r\n") {
		if part != "" && !strings.HasPrefix(part, "HTTP/1.1 ") {
			t.Errorf("%s: the answer to HEAD must not carry a body (the next answer on the keep-alive connection starts in the middle of it), but after header block %d the connection carries %q\nall output: %q", name, i, part, out)
			return
		}
	}
}

// 36a09bf lets the chunked body writer drop the body of an answer to HEAD by marking
// the response (Response.SkipBody) before the handler runs. The mark lives in a field
// that every "start the response afresh" helper clears: Response.Reset and with it
// ctx.NotFound, ctx.NotModified, ctx.AbortWithMsg, and Response.CopyTo (which copies the
// source's SkipBody over it). A handler that starts afresh and then streams through
// resp.NewChunkedBodyWriter answers HEAD with chunks, last-chunk and trailer section
// again - exactly what the commit repairs - although the server knows the method all
// along (it marks the response a second time after the handler, too late for a writer
// that writes while the handler runs).
func TestHunt6_2_ChunkedWriterHeadAfterResponseReset(t *testing.T) {
	// control: without the reset the body is dropped
	out := hunt6ServeHead(t, func(c context.Context, ctx *app.RequestContext) {
		ctx.Response.HijackWriter(resp.NewChunkedBodyWriter(&ctx.Response, ctx.GetWriter()))
		ctx.Write([]byte("hello")) //nolint:errcheck
	})
	hunt6CheckHeadAnswers(t, "control", out)

	out = hunt6ServeHead(t, func(c context.Context, ctx *app.RequestContext) {
		// e.g. a middleware has prepared an answer that this handler discards
		ctx.Response.Reset()
		ctx.Response.HijackWriter(resp.NewChunkedBodyWriter(&ctx.Response, ctx.GetWriter()))
		ctx.Write([]byte("hello")) //nolint:errcheck
	})
	hunt6CheckHeadAnswers(t, "after Response.Reset", out)
}
