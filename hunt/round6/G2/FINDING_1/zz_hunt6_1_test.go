//go:build verif

package http1

import (
	"bytes"
	"context"
	"errors"
	"net"
	"os"
	"strings"
	"sync"
	"testing"
	"time"

	"github.com/cloudwego/hertz/pkg/app"
	errs "github.com/cloudwego/hertz/pkg/common/errors"
	"github.com/cloudwego/hertz/pkg/network/standard"
	"github.com/cloudwego/hertz/pkg/protocol"
	"github.com/cloudwego/hertz/pkg/protocol/http1/resp"
)

// hunt6Conn is a net.Conn whose Read hands out the given segments one by one and
// then fails with the error a socket reports when its read deadline has passed.
type hunt6Conn struct {
	segs [][]byte
	out  bytes.Buffer
}

func (c *hunt6Conn) Read(p []byte) (int, error) {
	if len(c.segs) == 0 {
		return 0, &net.OpError{Op: "read", Net: "tcp", Err: os.ErrDeadlineExceeded}
	}
	n := copy(p, c.segs[0])
	if n == len(c.segs[0]) {
		c.segs = c.segs[1:]
	} else {
		c.segs[0] = c.segs[0][n:]
	}
	return n, nil
}
func (c *hunt6Conn) Write(p []byte) (int, error)        { return c.out.Write(p) }
func (c *hunt6Conn) Close() error                       { return nil }
func (c *hunt6Conn) LocalAddr() net.Addr                { return &net.TCPAddr{} }
func (c *hunt6Conn) RemoteAddr() net.Addr               { return &net.TCPAddr{} }
func (c *hunt6Conn) SetDeadline(t time.Time) error      { return nil }
func (c *hunt6Conn) SetReadDeadline(t time.Time) error  { return nil }
func (c *hunt6Conn) SetWriteDeadline(t time.Time) error { return nil }

func hunt6Serve(t *testing.T, segs ...string) string {
	t.Helper()
	server := &Server{}
	server.eventStackPool = pool
	server.Core = &mockCore{
		ctxPool: &sync.Pool{New: func() interface{} { return &app.RequestContext{} }},
	}
	nc := &hunt6Conn{}
	for _, s := range segs {
		nc.segs = append(nc.segs, []byte(s))
	}
	server.Serve(context.TODO(), standard.NewConnForVerif(nc, 4096)) //nolint:errcheck
	return nc.out.String()
}

// The read deadline passes while the server waits for the request header. When not a
// single byte of the request has arrived the server answers 408 Request Timeout (the
// control below); when a part of the header block has arrived - the ordinary case of a
// slow or stalled client - it must answer the same. Since 0b4b7d4 the standard
// connection hands the buffered part out together with the timeout, the header reader
// turns that into a "error when reading request headers" parse error, and the client
// is told 400 Bad Request for a request that was well-formed as far as it got.
func TestHunt6_1_ServerReadTimeoutInsideHeaderBlockIs408(t *testing.T) {
	// control: the deadline passes before the first byte
	out := hunt6Serve(t)
	if !strings.HasPrefix(out, "HTTP/1.1 408 ") {
		t.Fatalf("control: timeout before the first byte: want a 408 answer, got %q", out)
	}
	// the deadline passes inside the header block
	out = hunt6Serve(t, "GET /foo HTTP/1.1\r\nHost: example.com\r\nX-A: b")
	if !strings.HasPrefix(out, "HTTP/1.1 408 ") {
		t.Errorf("timeout inside the header block: want a 408 Request Timeout answer like the one given when the deadline passes before the first byte, got %q", out)
	}
}

// The client twin: the read deadline passes while the client waits for the rest of the
// response header block. resp.ReadHeader reports errs.ErrTimeout for a deadline that
// passes before the first byte (control); it must report the same when a part of the
// header block has arrived, callers tell a timeout from a malformed response with
// errors.Is(err, errs.ErrTimeout). Since 0b4b7d4 it reports a generic
// "error when reading response headers" error.
func TestHunt6_1_ClientReadTimeoutInsideHeaderBlockIsErrTimeout(t *testing.T) {
	var r protocol.Response
	err := resp.ReadHeader(&r.Header, standard.NewConnForVerif(&hunt6Conn{}, 4096))
	if !errors.Is(err, errs.ErrTimeout) {
		t.Fatalf("control: timeout before the first byte: want errs.ErrTimeout, got %v", err)
	}
	nc := &hunt6Conn{segs: [][]byte{[]byte("HTTP/1.1 200 OK\r\nContent-Le")}}
	err = resp.ReadHeader(&r.Header, standard.NewConnForVerif(nc, 4096))
	if !errors.Is(err, errs.ErrTimeout) {
		t.Errorf("timeout inside the header block: want errs.ErrTimeout, got %v", err)
	}
}
