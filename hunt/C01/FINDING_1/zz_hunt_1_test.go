package server

// C01 finding 1: a request with "Expect: 100-continue" that the ContinueHandler
// rejects is answered without its body being read (or the connection being
// closed); the body bytes that the client sent back-to-back are then parsed and
// dispatched as the next request on the connection.

import (
	"bufio"
	"context"
	"fmt"
	"io"
	"net"
	"net/http"
	"sync"
	"testing"
	"time"

	"github.com/cloudwego/hertz/internal/testutils"
	"github.com/cloudwego/hertz/pkg/app"
	"github.com/cloudwego/hertz/pkg/network"
	"github.com/cloudwego/hertz/pkg/network/netpoll"
	"github.com/cloudwego/hertz/pkg/network/standard"
	"github.com/cloudwego/hertz/pkg/protocol"

	"github.com/cloudwego/hertz/pkg/common/config"
)

type hunt1Seen struct {
	method, target, body string
}

func TestHunt1ExpectRejectedBodyBecomesNextRequest(t *testing.T) {
	transports := map[string]func(*config.Options) network.Transporter{
		"standard": standard.NewTransporter,
		"netpoll":  netpoll.NewTransporter,
	}
	for tname, tr := range transports {
		for _, stream := range []bool{false, true} {
			name := fmt.Sprintf("%s/stream=%v", tname, stream)
			t.Run(name, func(t *testing.T) {
				var mu sync.Mutex
				var seen []hunt1Seen

				h := New(WithHostPorts("127.0.0.1:0"), WithTransport(tr), WithStreamBody(stream),
					WithIdleTimeout(time.Second), WithExitWaitTime(10*time.Millisecond))
				// the (documented, optional) hook that lets a server refuse a body
				h.ContinueHandler = func(header *protocol.RequestHeader) bool { return false }
				h.NoRoute(func(c context.Context, ctx *app.RequestContext) {
					var body []byte
					if ctx.Request.IsBodyStream() {
						body, _ = io.ReadAll(ctx.RequestBodyStream())
					} else {
						body = ctx.Request.Body()
					}
					mu.Lock()
					seen = append(seen, hunt1Seen{string(ctx.Request.Method()), string(ctx.Request.RequestURI()), string(body)})
					mu.Unlock()
				})
				go h.Spin()
				for i := 0; i < 200 && !h.IsRunning(); i++ {
					time.Sleep(10 * time.Millisecond)
				}
				defer h.Close()

				// two well-formed requests, sent back to back. The 31 body bytes of the
				// first one happen to look like a request.
				body := "GET /evil HTTP/1.1\r\nHost: x\r\n\r\n"
				wire := fmt.Sprintf("POST /upload HTTP/1.1\r\nHost: x\r\nExpect: 100-continue\r\nContent-Length: %d\r\n\r\n%s", len(body), body) +
					"GET /next HTTP/1.1\r\nHost: x\r\n\r\n"

				conn, err := net.Dial("tcp", testutils.GetListenerAddr(h))
				if err != nil {
					t.Fatal(err)
				}
				defer conn.Close()
				if _, err = conn.Write([]byte(wire)); err != nil {
					t.Fatal(err)
				}
				conn.SetReadDeadline(time.Now().Add(3 * time.Second))
				br := bufio.NewReader(conn)
				nresp := 0
				for {
					r, err := http.ReadResponse(br, nil)
					if err != nil {
						break
					}
					io.Copy(io.Discard, r.Body)
					if r.StatusCode >= 200 {
						nresp++
					}
					if r.Close {
						break
					}
				}

				mu.Lock()
				defer mu.Unlock()
				t.Logf("final responses: %d, handler saw: %+v", nresp, seen)
				for _, s := range seen {
					if s.target == "/evil" {
						t.Errorf("body bytes of POST /upload were dispatched to a handler as the request %s %s: "+
							"no byte of one request may be delivered as part of another", s.method, s.target)
					}
				}
				if len(seen) > 2 {
					t.Errorf("2 requests were sent, handlers were invoked %d times", len(seen))
				}
				if nresp > 2 {
					t.Errorf("2 requests were sent, %d final responses were written", nresp)
				}
			})
		}
	}
}
