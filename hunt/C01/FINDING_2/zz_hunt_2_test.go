package server

// C01 finding 2: in streaming mode the pre-read of a body whose Content-Length
// is above the pre-read limit takes every byte that is buffered into the
// (recycled) body buffer, including the pipelined requests behind the body.
// Those requests are never dispatched and never answered.

import (
	"bufio"
	"bytes"
	"context"
	"fmt"
	"io"
	"net"
	"net/http"
	"sync"
	"testing"
	"time"

	"github.com/cloudwego/hertz/internal/testutils"
	"github.com/cloudwego/hertz/pkg/app"
	"github.com/cloudwego/hertz/pkg/common/config"
	"github.com/cloudwego/hertz/pkg/network"
	"github.com/cloudwego/hertz/pkg/network/netpoll"
	"github.com/cloudwego/hertz/pkg/network/standard"
)

func hunt2Post(target string, n int, fill byte) []byte {
	var b bytes.Buffer
	fmt.Fprintf(&b, "POST %s HTTP/1.1\r\nHost: x\r\nContent-Length: %d\r\n\r\n", target, n)
	b.Write(bytes.Repeat([]byte{fill}, n))
	return b.Bytes()
}

func TestHunt2StreamPrereadSwallowsPipelinedRequests(t *testing.T) {
	transports := map[string]func(*config.Options) network.Transporter{
		"standard": standard.NewTransporter,
		"netpoll":  netpoll.NewTransporter,
	}
	for tname, tr := range transports {
		// how the handler of the second request takes its body
		for _, second := range []string{"Body()", "RequestBodyStream()"} {
			t.Run(tname+"/"+second, func(t *testing.T) {
				var mu sync.Mutex
				var seen []string

				h := New(WithHostPorts("127.0.0.1:0"), WithTransport(tr), WithStreamBody(true),
					WithMaxRequestBodySize(0), // no limit on the request body size
					WithIdleTimeout(time.Second), WithExitWaitTime(10*time.Millisecond))
				h.NoRoute(func(c context.Context, ctx *app.RequestContext) {
					var body []byte
					if string(ctx.Request.Path()) == "/mid" && second == "RequestBodyStream()" {
						body, _ = io.ReadAll(ctx.RequestBodyStream())
					} else {
						body = ctx.Request.Body() // what c.Body(), c.Bind(), c.GetRawData() do
					}
					mu.Lock()
					seen = append(seen, fmt.Sprintf("%s %s body=%d", ctx.Request.Method(), ctx.Request.RequestURI(), len(body)))
					mu.Unlock()
				})
				go h.Spin()
				for i := 0; i < 200 && !h.IsRunning(); i++ {
					time.Sleep(10 * time.Millisecond)
				}
				defer h.Close()

				// four well-formed requests on one connection
				var wire []byte
				wire = append(wire, hunt2Post("/big", 100000, 'a')...) // grows the connection's body buffer
				wire = append(wire, hunt2Post("/mid", 8200, 'b')...)   // > 8 KiB pre-read limit
				wire = append(wire, "GET /tail1 HTTP/1.1\r\nHost: x\r\n\r\n"...)
				wire = append(wire, "GET /tail2 HTTP/1.1\r\nHost: x\r\n\r\n"...)

				conn, err := net.Dial("tcp", testutils.GetListenerAddr(h))
				if err != nil {
					t.Fatal(err)
				}
				defer conn.Close()
				go conn.Write(wire)
				conn.SetReadDeadline(time.Now().Add(4 * time.Second))
				br := bufio.NewReader(conn)
				nresp := 0
				var rerr error
				for nresp < 4 {
					var r *http.Response
					if r, rerr = http.ReadResponse(br, nil); rerr != nil {
						break
					}
					io.Copy(io.Discard, r.Body)
					nresp++
				}

				mu.Lock()
				defer mu.Unlock()
				t.Logf("responses: %d (read error: %v), handler saw: %q", nresp, rerr, seen)
				want := []string{"POST /big body=100000", "POST /mid body=8200", "GET /tail1 body=0", "GET /tail2 body=0"}
				if fmt.Sprint(seen) != fmt.Sprint(want) {
					t.Errorf("handlers must be invoked once per request, in order:\n got  %q\n want %q", seen, want)
				}
				if nresp != 4 {
					t.Errorf("4 requests were sent, %d responses were written", nresp)
				}
			})
		}
	}
}

// The same with default options (MaxRequestBodySize = 4 MiB) on the default
// (netpoll) transport: uploads above 4 MiB, the very reason to switch on
// streaming. The body buffer that grew beyond MaxKeepBodySize goes back to the
// pool and is handed out again for the next request (unless a GC emptied the
// pool in between, hence a few attempts).
func TestHunt2DefaultOptionsNetpoll(t *testing.T) {
	var mu sync.Mutex
	var seen []string

	h := New(WithHostPorts("127.0.0.1:0"), WithTransport(netpoll.NewTransporter), WithStreamBody(true),
		WithIdleTimeout(time.Second), WithExitWaitTime(10*time.Millisecond))
	h.NoRoute(func(c context.Context, ctx *app.RequestContext) {
		body := ctx.Request.Body()
		if string(ctx.Request.Path()) == "/big" {
			time.Sleep(300 * time.Millisecond) // let the rest of the pipeline arrive
		}
		mu.Lock()
		seen = append(seen, fmt.Sprintf("%s %s body=%d", ctx.Request.Method(), ctx.Request.RequestURI(), len(body)))
		mu.Unlock()
	})
	go h.Spin()
	for i := 0; i < 200 && !h.IsRunning(); i++ {
		time.Sleep(10 * time.Millisecond)
	}
	defer h.Close()

	var wire []byte
	wire = append(wire, hunt2Post("/big", 6<<20, 'a')...)
	wire = append(wire, hunt2Post("/mid", 5<<20, 'b')...)
	wire = append(wire, "GET /tail1 HTTP/1.1\r\nHost: x\r\n\r\n"...)
	want := []string{"POST /big body=6291456", "POST /mid body=5242880", "GET /tail1 body=0"}

	for attempt := 1; attempt <= 10; attempt++ {
		mu.Lock()
		seen = nil
		mu.Unlock()
		conn, err := net.Dial("tcp", testutils.GetListenerAddr(h))
		if err != nil {
			t.Fatal(err)
		}
		go conn.Write(wire)
		conn.SetReadDeadline(time.Now().Add(6 * time.Second))
		br := bufio.NewReader(conn)
		nresp := 0
		for nresp < 3 {
			r, err := http.ReadResponse(br, nil)
			if err != nil {
				break
			}
			io.Copy(io.Discard, r.Body)
			nresp++
		}
		conn.Close()
		mu.Lock()
		got := fmt.Sprint(seen)
		mu.Unlock()
		if got != fmt.Sprint(want) || nresp != 3 {
			t.Fatalf("attempt %d: 3 requests sent, %d responses; handlers saw\n got  %s\n want %q", attempt, nresp, got, want)
		}
	}
}
