package server

// C01 finding 3: with default options a multipart/form-data request of known
// length is taken apart by the framework while the body is read; the handler
// does not get the body bytes that the Content-Length framing assigns to the
// request but a re-serialisation of the parsed form (part headers dropped,
// preamble/epilogue dropped, order of fields not preserved).

import (
	"bufio"
	"context"
	"fmt"
	"io"
	"net"
	"net/http"
	"strconv"
	"sync"
	"testing"
	"time"

	"github.com/cloudwego/hertz/internal/testutils"
	"github.com/cloudwego/hertz/pkg/app"
)

func TestHunt3MultipartBodyBytesNotThoseOnTheWire(t *testing.T) {
	for _, stream := range []bool{false, true} {
		t.Run(fmt.Sprintf("stream=%v", stream), func(t *testing.T) {
			var mu sync.Mutex
			var gotBody, gotCL string
			var calls int

			h := New(WithHostPorts("127.0.0.1:0"), WithStreamBody(stream),
				WithIdleTimeout(time.Second), WithExitWaitTime(10*time.Millisecond))
			h.NoRoute(func(c context.Context, ctx *app.RequestContext) {
				var body []byte
				if ctx.Request.IsBodyStream() {
					body, _ = io.ReadAll(ctx.RequestBodyStream())
				} else {
					body = ctx.Request.Body()
				}
				mu.Lock()
				calls++
				gotBody = string(body)
				gotCL = string(ctx.Request.Header.Peek("Content-Length"))
				mu.Unlock()
			})
			go h.Spin()
			for i := 0; i < 200 && !h.IsRunning(); i++ {
				time.Sleep(10 * time.Millisecond)
			}
			defer h.Close()

			body := "--BOUND\r\n" +
				"Content-Disposition: form-data; name=\"a\"\r\n" +
				"X-Part-Header: signed-value\r\n" +
				"\r\n" +
				"value-a\r\n" +
				"--BOUND\r\n" +
				"Content-Disposition: form-data; name=\"f\"; filename=\"f.txt\"\r\n" +
				"Content-Type: text/plain\r\n" +
				"\r\n" +
				"FILE\r\n" +
				"--BOUND--\r\n"
			wire := "POST /mp HTTP/1.1\r\nHost: x\r\nContent-Type: multipart/form-data; boundary=BOUND\r\n" +
				"Content-Length: " + strconv.Itoa(len(body)) + "\r\n\r\n" + body

			conn, err := net.Dial("tcp", testutils.GetListenerAddr(h))
			if err != nil {
				t.Fatal(err)
			}
			defer conn.Close()
			conn.Write([]byte(wire))
			conn.SetReadDeadline(time.Now().Add(3 * time.Second))
			r, err := http.ReadResponse(bufio.NewReader(conn), nil)
			if err != nil {
				t.Fatal(err)
			}
			io.Copy(io.Discard, r.Body)

			mu.Lock()
			defer mu.Unlock()
			if calls != 1 {
				t.Fatalf("handler invoked %d times", calls)
			}
			if gotBody != body {
				t.Errorf("the handler must see exactly the body bytes of the request\n on the wire (%d bytes): %q\n handler got (%d bytes): %q",
					len(body), body, len(gotBody), gotBody)
			}
			if gotCL != strconv.Itoa(len(gotBody)) {
				t.Errorf("handler sees Content-Length %s but a body of %d bytes", gotCL, len(gotBody))
			}
		})
	}
}
