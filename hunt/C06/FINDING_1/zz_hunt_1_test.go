package route

import (
	"context"
	"testing"

	"github.com/cloudwego/hertz/pkg/app"
	"github.com/cloudwego/hertz/pkg/common/config"
)

// Property C06: the engine runs the handler chain of the route the priority rule selects
// (static > :param > *catch-all, backtracking when a choice cannot complete), every path
// parameter equals the (here: percent-decoded) substring it matched, and when no pattern
// matches no route handler runs.
//
// Configuration: UseRawPath=true with UnescapePathValues=true (the latter is the default).
// While backtracking out of a :param node, router.find restores its position in the path
// with len(<already unescaped parameter value>) instead of the length of the raw text the
// parameter consumed.  As soon as a parameter value that contains a %XX escape has to be
// given back, every later decision is taken at a wrong offset in the request path.

type zzHit struct {
	route  string
	params map[string]string
}

func zzServe(e *Engine, method, uri string) (hits []zzHit, status int) {
	ctx := e.NewContext()
	ctx.Request.Header.SetMethod(method)
	ctx.Request.SetRequestURI(uri)
	ctx.Request.SetHost("example.com")
	ctx.Set("zzhits", &hits)
	e.ServeHTTP(context.Background(), ctx)
	return hits, ctx.Response.StatusCode()
}

func zzRoute(e *Engine, pattern string) {
	e.GET(pattern, func(c context.Context, ctx *app.RequestContext) {
		h := zzHit{route: ctx.FullPath(), params: map[string]string{}}
		for _, p := range ctx.Params {
			h.params[p.Key] = p.Value
		}
		v, _ := ctx.Get("zzhits")
		hp := v.(*[]zzHit)
		*hp = append(*hp, h)
	})
}

func zzRawEngine() *Engine {
	opt := config.NewOptions(nil)
	opt.UseRawPath = true
	opt.UnescapePathValues = true // default value, spelled out
	opt.DisablePrintRoute = true
	return NewEngine(opt)
}

// (a) wrong parameter value: the catch-all must receive the whole (decoded) remainder.
func TestZZHunt1_CatchAllValueAfterBacktrack(t *testing.T) {
	e := zzRawEngine()
	zzRoute(e, "/:p/foo")
	zzRoute(e, "/*rest")

	// sanity: without an escape in the abandoned parameter the result is right
	hits, _ := zzServe(e, "GET", "/ab/bar")
	if len(hits) != 1 || hits[0].route != "/*rest" || hits[0].params["rest"] != "ab/bar" {
		t.Fatalf("sanity: /ab/bar -> %+v", hits)
	}

	// "/a%2Fb/bar": ":p" first takes "a%2Fb", "/foo" does not follow, so the router must
	// fall back to "/*rest" with rest = decoded("a%2Fb/bar") = "a/b/bar".
	hits, _ = zzServe(e, "GET", "/a%2Fb/bar")
	if len(hits) != 1 || hits[0].route != "/*rest" {
		t.Fatalf("/a%%2Fb/bar: want exactly the /*rest handler, got %+v", hits)
	}
	if got, want := hits[0].params["rest"], "a/b/bar"; got != want {
		t.Errorf("/a%%2Fb/bar: catch-all parameter rest = %q, want %q (the decoded text it matched)", got, want)
	}
}

// (b) a route handler runs although no registered pattern matches the request path.
func TestZZHunt1_HandlerRunsForNonMatchingPath(t *testing.T) {
	e := zzRawEngine()
	zzRoute(e, "/a/:b/c")
	zzRoute(e, "/:x/d")

	// "/a/%41%41/d" has three segments.  "/a/:b/c" does not match (last segment is "d"),
	// "/:x/d" does not match (it has two segments).  Nothing may run; 404 expected.
	hits, status := zzServe(e, "GET", "/a/%41%41/d")
	if len(hits) != 0 {
		t.Errorf("/a/%%41%%41/d matches no registered pattern, but a route handler ran: %+v (status %d)", hits, status)
	}
	if status != 404 {
		t.Errorf("/a/%%41%%41/d: status = %d, want 404", status)
	}
}

// (c) a matching route is not dispatched (404) because backtracking resumed at a wrong offset.
func TestZZHunt1_MatchingRouteNotDispatched(t *testing.T) {
	e := zzRawEngine()
	zzRoute(e, "/a/:x/ab:z")
	zzRoute(e, "/:y/k/:x/:w")

	// sanity without escapes
	hits, _ := zzServe(e, "GET", "/a/k/aba/b")
	if len(hits) != 1 || hits[0].route != "/:y/k/:x/:w" {
		t.Fatalf("sanity: /a/k/aba/b -> %+v", hits)
	}

	// "/a/k%20/..." : static "a" is tried first, ":x" takes "k%20", "/ab:z" fails on "/aba/b"
	// only after z was bound, so the router must back out completely and use "/:y/k%20/:x/:w".
	e2 := zzRawEngine()
	zzRoute(e2, "/a/:x/ab:z")
	zzRoute(e2, "/:y/k%20/:x/:w")
	hits, status := zzServe(e2, "GET", "/a/k%20/aba/b")
	if len(hits) != 1 || hits[0].route != "/:y/k%20/:x/:w" {
		t.Fatalf("/a/k%%20/aba/b must be served by /:y/k%%20/:x/:w; got hits=%+v status=%d", hits, status)
	}
	if hits[0].params["y"] != "a" || hits[0].params["x"] != "aba" || hits[0].params["w"] != "b" {
		t.Errorf("/a/k%%20/aba/b: params = %v, want y=a x=aba w=b", hits[0].params)
	}
}
