package route

import (
	"context"
	"strings"
	"testing"
	"time"

	"github.com/cloudwego/hertz/pkg/app"
	"github.com/cloudwego/hertz/pkg/common/config"
)

func TestZZHunt3_MaxParamsWrap(t *testing.T) {
	opt := config.NewOptions(nil)
	opt.DisablePrintRoute = true
	e := NewEngine(opt)
	const n = 65536
	pat := strings.Repeat("/:p", n)
	req := strings.Repeat("/v", n)
	ran := false
	st := time.Now()
	e.GET(pat, func(c context.Context, ctx *app.RequestContext) { ran = true })
	t.Logf("registered in %v, maxParams=%d", time.Since(st), e.maxParams)
	ctx := e.NewContext()
	ctx.Request.Header.SetMethod("GET")
	ctx.Request.SetRequestURI(req)
	ctx.Request.SetHost("example.com")
	func() {
		defer func() {
			if r := recover(); r != nil {
				t.Errorf("ServeHTTP panicked: %v", r)
			}
		}()
		e.ServeHTTP(context.Background(), ctx)
	}()
	if !ran {
		t.Errorf("handler of the only (matching) route did not run; status=%d", ctx.Response.StatusCode())
	}
}
