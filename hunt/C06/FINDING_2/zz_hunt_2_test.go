package route

import (
	"context"
	"testing"

	"github.com/cloudwego/hertz/pkg/app"
	"github.com/cloudwego/hertz/pkg/common/config"
)

// Property C06: "... with each path parameter equal to the substring it matched ...".
//
// In a URL *path* the byte '+' is an ordinary character (only in a query string does it
// stand for a space).  With UseRawPath=true and UnescapePathValues=true (default) the router
// decodes parameter values with url.QueryUnescape, so a '+' in the matched path text is
// delivered to the handler as ' '.  The default configuration (UseRawPath=false), which the
// option documentation calls equivalent ("UnescapePathValues effectively is true, as url.Path
// gonna be used, which is already unescaped"), delivers "a+b" for the same request.
func TestZZHunt2_PlusInPathParam(t *testing.T) {
	for _, raw := range []bool{false, true} {
		opt := config.NewOptions(nil)
		opt.UseRawPath = raw
		opt.UnescapePathValues = true
		opt.DisablePrintRoute = true
		e := NewEngine(opt)

		var name, rest, full string
		e.GET("/u/:name/f/*rest", func(c context.Context, ctx *app.RequestContext) {
			name, rest, full = ctx.Param("name"), ctx.Param("rest"), ctx.FullPath()
		})

		ctx := e.NewContext()
		ctx.Request.Header.SetMethod("GET")
		ctx.Request.SetRequestURI("/u/a+b/f/c++/x+y.txt")
		ctx.Request.SetHost("example.com")
		e.ServeHTTP(context.Background(), ctx)

		if full != "/u/:name/f/*rest" {
			t.Fatalf("UseRawPath=%v: route not dispatched (full path %q)", raw, full)
		}
		if name != "a+b" {
			t.Errorf("UseRawPath=%v: :name matched the path text \"a+b\" but the handler got %q", raw, name)
		}
		if rest != "c++/x+y.txt" {
			t.Errorf("UseRawPath=%v: *rest matched the path text \"c++/x+y.txt\" but the handler got %q", raw, rest)
		}
	}
}
