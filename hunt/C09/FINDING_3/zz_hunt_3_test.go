package route

import (
	"context"
	"strings"
	"sync/atomic"
	"testing"
	"time"

	"github.com/cloudwego/hertz/pkg/app"
	"github.com/cloudwego/hertz/pkg/app/middlewares/server/recovery"
	"github.com/cloudwego/hertz/pkg/common/config"
	"github.com/cloudwego/hertz/pkg/common/test/mock"
	"github.com/cloudwego/hertz/pkg/network"
)

// Property C09: after a panic of request i that was caught by the recovery
// middleware, the next request served with the recycled context observes
// exactly what it would observe with a newly allocated context.
//
// History: the handler of request i iterates the context keys with
// ctx.ForEachKey and the callback panics. The recovery middleware answers 500
// and the context is reset and reused. The probe handler just calls
// ctx.Set("k", "v") - on a new context that is a map store, on the recycled
// one it never returns.

type huntC09Transport3 struct{}

func (huntC09Transport3) ListenAndServe(onData network.OnData) error { return nil }
func (huntC09Transport3) Close() error                               { return nil }
func (huntC09Transport3) Shutdown(ctx context.Context) error         { return nil }

func huntC09Engine3() *Engine {
	opt := config.NewOptions(nil)
	opt.DisablePrintRoute = true
	opt.IdleTimeout = 50 * time.Millisecond
	e := NewEngine(opt)
	e.transport = huntC09Transport3{} // no Listener(): IsRunning() only looks at the status
	atomic.StoreUint32(&e.status, statusRunning)
	e.Init()
	e.Use(recovery.Recovery())
	e.GET("/panic", func(c context.Context, ctx *app.RequestContext) {
		ctx.Set("user", "alice")
		ctx.ForEachKey(func(k string, v interface{}) {
			panic("boom in ForEachKey callback")
		})
	})
	e.GET("/probe", func(c context.Context, ctx *app.RequestContext) {
		ctx.Set("k", "v")
		ctx.String(200, "probe-ok")
	})
	return e
}

// serve feeds input to a new connection and returns what the server wrote,
// or ok=false if Serve is still running after the timeout.
func huntC09Serve3(e *Engine, input string) (out string, ok bool) {
	conn := mock.NewConn(input)
	done := make(chan struct{})
	go func() {
		defer close(done)
		_ = e.Serve(context.Background(), conn)
	}()
	select {
	case <-done:
		ok = true
	case <-time.After(3 * time.Second):
		// Serve is stuck; do not touch the connection it still owns
		return "", false
	}
	w := conn.WriterRecorder()
	b, _ := w.ReadBinary(w.WroteLen())
	return string(b), ok
}

const (
	huntC09Panic3 = "GET /panic HTTP/1.1\r\nHost: example.com\r\n\r\n"
	huntC09Probe3 = "GET /probe HTTP/1.1\r\nHost: example.com\r\n\r\n"
)

func TestHuntC09RecoveredPanicInForEachKeyPoisonsContext(t *testing.T) {
	// fresh context: the probe alone is answered
	out, ok := huntC09Serve3(huntC09Engine3(), huntC09Probe3)
	if !ok || !strings.Contains(out, "probe-ok") {
		t.Fatalf("precondition: probe on a fresh engine: finished=%v out=%q", ok, out)
	}

	t.Run("same keep-alive connection", func(t *testing.T) {
		// request i alone is answered with 500 by the recovery middleware
		out, ok := huntC09Serve3(huntC09Engine3(), huntC09Panic3)
		if !ok || !strings.Contains(out, "500 Internal Server Error") {
			t.Fatalf("request i was not answered by the recovery middleware: finished=%v out=%q", ok, out)
		}
		// request i followed by the probe
		out, ok = huntC09Serve3(huntC09Engine3(), huntC09Panic3+huntC09Probe3)
		if !ok {
			t.Fatalf("probe after the recovered panic is never answered: Serve hangs, the recycled context blocks in ctx.Set")
		}
		if !strings.Contains(out, "probe-ok") {
			t.Errorf("probe after the recovered panic was not served; server wrote %q", out)
		}
	})

	t.Run("another connection", func(t *testing.T) {
		e := huntC09Engine3()
		// the first connection is closed after the panicking request, so its
		// context goes back to the pool
		out, ok := huntC09Serve3(e, "GET /panic HTTP/1.1\r\nHost: example.com\r\nConnection: close\r\n\r\n")
		if !ok || !strings.Contains(out, "500 Internal Server Error") {
			t.Fatalf("request i: finished=%v out=%q", ok, out)
		}
		for i := 0; i < 4; i++ {
			out, ok := huntC09Serve3(e, huntC09Probe3)
			if !ok {
				t.Fatalf("probe on new connection #%d is never answered: Serve hangs, the context taken from the pool blocks in ctx.Set", i)
			}
			if !strings.Contains(out, "probe-ok") {
				t.Errorf("probe on new connection #%d was not served; server wrote %q", i, out)
			}
		}
	})
}
