package server

import (
	"bufio"
	"context"
	"fmt"
	"io"
	"net"
	"net/http"
	"strings"
	"testing"
	"time"

	"github.com/cloudwego/hertz/internal/testutils"
	"github.com/cloudwego/hertz/pkg/app"
	"github.com/cloudwego/hertz/pkg/common/config"
	"github.com/cloudwego/hertz/pkg/network/netpoll"
	"github.com/cloudwego/hertz/pkg/network/standard"
)

// Property C09: whatever the handler of request i did to the request object
// (bodies, streams, ...), the next request served on the same keep-alive
// connection observes exactly what it would observe on a fresh connection.
//
// Configuration: WithStreamBody(true).
// History: request i is a POST whose body is longer than the 8 KiB that the
// server pre-reads; its handler replaces the request body with an exported
// mutator (Request.SetBodyString - ResetBody, SetBody, SetBodyRaw,
// SetBodyStream, AppendBody and Request.Reset behave the same) without having
// read the streamed body. The server then forgets the connection-bound body
// stream: the unread rest of body i stays on the connection and is parsed as
// request i+1. The client's real next request (the probe) gets the answer of
// a request that the client never sent.
func TestHuntC09DroppedBodyStreamDesyncsKeepAliveConnection(t *testing.T) {
	transports := map[string]config.Option{
		"standard": WithTransport(standard.NewTransporter),
		"netpoll":  WithTransport(netpoll.NewTransporter),
	}
	for name, topt := range transports {
		t.Run(name, func(t *testing.T) {
			h := New(WithHostPorts("127.0.0.1:0"), WithStreamBody(true), WithDisablePrintRoute(true),
				WithExitWaitTime(time.Millisecond), topt)
			h.POST("/upload", func(c context.Context, ctx *app.RequestContext) {
				// e.g. a middleware that replaces the payload before the
				// request is bound / forwarded
				ctx.Request.SetBodyString(`{"sanitized":true}`)
				ctx.String(200, "upload-done")
			})
			h.GET("/probe", func(c context.Context, ctx *app.RequestContext) {
				ctx.String(200, "probe-ok")
			})
			h.GET("/smuggled", func(c context.Context, ctx *app.RequestContext) {
				ctx.String(200, "SMUGGLED-REQUEST-WAS-SERVED")
			})
			go h.Spin()
			waitEngineRunning(h)
			defer h.Close()

			conn, err := net.Dial("tcp", testutils.GetListenerAddr(h))
			if err != nil {
				t.Fatal(err)
			}
			defer conn.Close()
			conn.SetDeadline(time.Now().Add(5 * time.Second)) //nolint:errcheck
			br := bufio.NewReader(conn)

			do := func(raw string) (int, string, error) {
				if _, err := io.WriteString(conn, raw); err != nil {
					return 0, "", err
				}
				resp, err := http.ReadResponse(br, nil)
				if err != nil {
					return 0, "", err
				}
				defer resp.Body.Close()
				b, err := io.ReadAll(resp.Body)
				return resp.StatusCode, string(b), err
			}

			// request i: one POST, Content-Length covers all of the payload
			payload := strings.Repeat("a", 8192) + "GET /smuggled HTTP/1.1\r\nHost: example.com\r\n\r\n"
			post := fmt.Sprintf("POST /upload HTTP/1.1\r\nHost: example.com\r\nContent-Length: %d\r\n\r\n%s", len(payload), payload)
			code, body, err := do(post)
			if err != nil || code != 200 || body != "upload-done" {
				t.Fatalf("request i: code=%d body=%q err=%v", code, body, err)
			}

			// request i+1: the probe. The connection was kept alive, so the
			// server must answer *this* request (after skipping the rest of
			// body i), exactly as it does on a fresh connection.
			code, body, err = do("GET /probe HTTP/1.1\r\nHost: example.com\r\n\r\n")
			if err != nil {
				// closing the connection instead would have been acceptable
				t.Logf("connection was closed after request i: %v", err)
				return
			}
			if code != 200 || body != "probe-ok" {
				t.Errorf("probe on the keep-alive connection was answered with %d %q, want 200 \"probe-ok\": "+
					"the unread rest of the previous request body was served as a request", code, body)
			}
		})
	}
}
