package route

import (
	"context"
	"fmt"
	"sync/atomic"
	"testing"
	"time"

	"github.com/cloudwego/hertz/pkg/app"
	"github.com/cloudwego/hertz/pkg/common/config"
	"github.com/cloudwego/hertz/pkg/common/test/mock"
	"github.com/cloudwego/hertz/pkg/network"
)

// Property C09: whatever the handler of request i did to the RequestContext
// through its exported mutators, the probe request i+1 that is served with the
// recycled context (same keep-alive connection, or another connection that
// gets the context from the pool) observes what it would observe with a newly
// allocated context.

// huntC09Transport is a transporter without a Listener() method, so that
// Engine.IsRunning() only looks at the status word and the mock connection is
// kept alive between requests.
type huntC09Transport struct{}

func (huntC09Transport) ListenAndServe(onData network.OnData) error { return nil }
func (huntC09Transport) Close() error                               { return nil }
func (huntC09Transport) Shutdown(ctx context.Context) error         { return nil }

const huntC09Probe = "GET /probe?a=1 HTTP/1.1\r\nHost: example.com\r\nX-Forwarded-For: 9.9.9.9\r\n\r\n"

func huntC09Dump(ctx *app.RequestContext) string {
	return fmt.Sprintf("clientIP=%s formValue(a)=%s exiled=%v scheme=%s uri=%s",
		ctx.ClientIP(), ctx.FormValue("a"), ctx.IsExiled(), ctx.Request.Scheme(), ctx.Request.URI().FullURI())
}

func huntC09Engine(mutate app.HandlerFunc, dumps *[]string) *Engine {
	opt := config.NewOptions(nil)
	opt.DisablePrintRoute = true
	opt.IdleTimeout = 50 * time.Millisecond // the mock connection "times out" once its input is used up
	e := NewEngine(opt)
	e.transport = huntC09Transport{}
	atomic.StoreUint32(&e.status, statusRunning)
	e.Init()
	e.GET("/mutate", mutate)
	e.GET("/probe", func(c context.Context, ctx *app.RequestContext) {
		*dumps = append(*dumps, huntC09Dump(ctx))
		ctx.String(200, "ok")
	})
	return e
}

func huntC09Serve(t *testing.T, e *Engine, input string) {
	t.Helper()
	done := make(chan struct{})
	go func() {
		defer close(done)
		_ = e.Serve(context.Background(), mock.NewConn(input))
	}()
	select {
	case <-done:
	case <-time.After(5 * time.Second):
		t.Fatal("Serve did not return")
	}
}

func TestHuntC09ContextMutatorsSurviveRecycling(t *testing.T) {
	cases := []struct {
		name   string
		mutate app.HandlerFunc
	}{
		{"SetClientIPFunc", func(c context.Context, ctx *app.RequestContext) {
			ctx.SetClientIPFunc(func(*app.RequestContext) string { return "6.6.6.6" })
		}},
		{"SetFormValueFunc", func(c context.Context, ctx *app.RequestContext) {
			ctx.SetFormValueFunc(func(*app.RequestContext, string) []byte { return []byte("leaked") })
		}},
		{"Exile", func(c context.Context, ctx *app.RequestContext) { ctx.Exile() }},
		{"Request.SetIsTLS", func(c context.Context, ctx *app.RequestContext) { ctx.Request.SetIsTLS(true) }},
	}

	// what the probe observes on a fresh engine / fresh connection / fresh context
	var base []string
	huntC09Serve(t, huntC09Engine(func(c context.Context, ctx *app.RequestContext) {}, &base), huntC09Probe)
	if len(base) != 1 {
		t.Fatalf("baseline probe ran %d times", len(base))
	}
	t.Logf("fresh context: %s", base[0])

	for _, tc := range cases {
		t.Run(tc.name, func(t *testing.T) {
			var dumps []string
			e := huntC09Engine(tc.mutate, &dumps)

			// connection 1: request i mutates the context, request i+1 is the
			// probe on the same keep-alive connection.
			mutateReq := "GET /mutate HTTP/1.1\r\nHost: example.com\r\n\r\n"
			huntC09Serve(t, e, mutateReq+huntC09Probe)
			if len(dumps) != 1 {
				t.Fatalf("probe on the keep-alive connection ran %d times", len(dumps))
			}
			if dumps[0] != base[0] {
				t.Errorf("same keep-alive connection: probe after %s observes\n   %s\nwant (fresh context)\n   %s", tc.name, dumps[0], base[0])
			}

			// connection 2..n: new connections, contexts come from the pool.
			dumps = dumps[:0]
			for i := 0; i < 8; i++ {
				huntC09Serve(t, e, huntC09Probe)
			}
			for _, d := range dumps {
				if d != base[0] {
					t.Errorf("another connection: probe after %s observes\n   %s\nwant (fresh context)\n   %s", tc.name, d, base[0])
					break
				}
			}
			if len(dumps) != 8 {
				t.Fatalf("probes on new connections ran %d times", len(dumps))
			}
		})
	}
}
