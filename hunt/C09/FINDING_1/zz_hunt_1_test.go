package protocol

import (
	"testing"

	"github.com/cloudwego/hertz/internal/bytestr"
)

// Property C09: a Cookie obtained from AcquireCookie after a ReleaseCookie is
// indistinguishable from a freshly allocated one.
//
// History: a cookie whose path climbs above the root ("/..") is released;
// the recycled cookie is then used to parse an ordinary Set-Cookie value.
// With a fresh Cookie this only fills in the cookie. With the recycled one the
// parse writes through into the package-level slice bytestr.StrSlash, and from
// then on every URI / request line of the process that relies on the default
// path "/" is wrong.
func TestHuntC09RecycledCookieCorruptsGlobalSlash(t *testing.T) {
	// keep the damage local to this test
	defer func() { bytestr.StrSlash[0] = '/' }()

	const setCookie = "a=b; path=x"

	// what a freshly allocated cookie does
	fresh := &Cookie{}
	if err := fresh.Parse(setCookie); err != nil {
		t.Fatal(err)
	}
	freshRepr := fresh.String()
	var u0 URI
	u0.Parse(nil, []byte("http://example.com"))
	if got := string(u0.Path()); got != "/" {
		t.Fatalf("precondition: path of http://example.com is %q", got)
	}

	// request i: a cookie with a path above the root, e.g.
	// ctx.SetCookie("k", "v", 0, "/..", "", ...), which acquires and releases
	// a pooled cookie internally.
	c := AcquireCookie()
	c.SetKey("k")
	c.SetValue("v")
	c.SetPath("/..")
	if got := string(c.Path()); got != "/" {
		t.Fatalf("normalized cookie path = %q, want /", got)
	}
	ReleaseCookie(c)

	// request i+1: the recycled cookie (sync.Pool normally hands the same
	// object back; if it does not, the released object has been through the
	// very same Reset and is used directly).
	var rc *Cookie
	for i := 0; i < 64 && rc == nil; i++ {
		if x := AcquireCookie(); x == c {
			rc = x
		}
	}
	if rc == nil {
		rc = c
	}
	if err := rc.Parse(setCookie); err != nil {
		t.Fatal(err)
	}

	// the recycled cookie itself looks like the fresh one ...
	if got := rc.String(); got != freshRepr {
		t.Errorf("recycled cookie parses to %q, fresh cookie to %q", got, freshRepr)
	}

	// ... but the rest of the process must not be able to tell that a
	// recycled object was used.
	if got := string(bytestr.StrSlash); got != "/" {
		t.Errorf("parsing into a recycled Cookie changed the global bytestr.StrSlash to %q", got)
	}
	var u URI // brand-new URI
	if got := string(u.Path()); got != "/" {
		t.Errorf("path of a zero URI = %q after a recycled Cookie was used, want \"/\"", got)
	}
	u.Parse(nil, []byte("http://example.com"))
	if got := string(u.FullURI()); got != "http://example.com/" {
		t.Errorf("http://example.com now parses to %q, want http://example.com/", got)
	}
	var h RequestHeader
	if got := string(h.RequestURI()); got != "/" {
		t.Errorf("default request target of a zero RequestHeader = %q, want \"/\"", got)
	}
	var u2 URI
	u2.Parse([]byte("example.com"), []byte("/.."))
	if got := string(u2.Path()); got != "/" {
		t.Errorf("request path /.. now normalizes to %q, want \"/\"", got)
	}
}
