package protocol

import (
	"bytes"
	"testing"
)

// Property C17: for every URI assembled through the setters, parsing its full
// string form yields the same scheme, host, path, query and fragment.  The
// fragment is quantified over all byte strings, NUL included.
//
// URI.AppendBytes/FullURI write the fragment verbatim, URI.parse throws the
// whole URI away when it sees a control byte, so a fragment with a control
// byte does not survive: not only the fragment but scheme, host, path and
// query are lost as well.
func TestZZHunt1FragmentWithControlByteRoundTrip(t *testing.T) {
	for _, frag := range []string{"a\x00b", "\x00", "line1\nline2", "tab\there", "del\x7f"} {
		var u URI
		u.SetScheme("https")
		u.SetHost("example.com:8443")
		u.SetPath("/dir/file")
		u.QueryArgs().Add("k", "v")
		u.SetHash(frag)

		full := append([]byte(nil), u.FullURI()...)

		var v URI
		v.Parse(nil, full)

		if !bytes.Equal(v.Scheme(), u.Scheme()) {
			t.Errorf("fragment %q: full %q: scheme %q after parsing, want %q", frag, full, v.Scheme(), u.Scheme())
		}
		if !bytes.Equal(v.Host(), u.Host()) {
			t.Errorf("fragment %q: full %q: host %q after parsing, want %q", frag, full, v.Host(), u.Host())
		}
		if !bytes.Equal(v.Path(), u.Path()) {
			t.Errorf("fragment %q: full %q: path %q after parsing, want %q", frag, full, v.Path(), u.Path())
		}
		if got, want := v.QueryArgs().String(), u.QueryArgs().String(); got != want {
			t.Errorf("fragment %q: full %q: query %q after parsing, want %q", frag, full, got, want)
		}
		if !bytes.Equal(v.Hash(), u.Hash()) {
			t.Errorf("fragment %q: full %q: fragment %q after parsing, want %q", frag, full, v.Hash(), u.Hash())
		}
		if again := v.FullURI(); !bytes.Equal(again, full) {
			t.Errorf("fragment %q: formatting the parsed URI gives %q, want the fixed point %q", frag, again, full)
		}
	}
}
