package protocol

import (
	"bytes"
	"testing"
)

// Property C17: for every URI assembled through the setters, parsing its full
// string form yields the same scheme, host, path, query and fragment.
//
// With the option URI.DisablePathNormalizing the formatter writes
// PathOriginal() verbatim.  When no path was set that is the empty string (the
// default "/" of Path() is not applied), so the string form is
// "http://example.com#frag".  splitHostURI ends the authority only at '/' or
// '?', so the fragment is swallowed by the host.
func TestZZHunt3DisablePathNormalizingEmptyPathFragment(t *testing.T) {
	var u URI
	u.DisablePathNormalizing = true
	u.SetScheme("http")
	u.SetHost("example.com")
	u.SetHash("frag")

	full := append([]byte(nil), u.FullURI()...)

	var v URI
	v.Parse(nil, full)

	if !bytes.Equal(v.Host(), u.Host()) {
		t.Errorf("full %q: host %q after parsing, want %q", full, v.Host(), u.Host())
	}
	if !bytes.Equal(v.Path(), u.Path()) {
		t.Errorf("full %q: path %q after parsing, want %q", full, v.Path(), u.Path())
	}
	if !bytes.Equal(v.Hash(), u.Hash()) {
		t.Errorf("full %q: fragment %q after parsing, want %q", full, v.Hash(), u.Hash())
	}
}

// Same option, IPv6 literal with port, a raw query string that contains a '/':
// the first '/' of the query is taken for the start of the path.
func TestZZHunt3DisablePathNormalizingEmptyPathQuery(t *testing.T) {
	var u URI
	u.DisablePathNormalizing = true
	u.SetHost("[::1]:8080")
	u.SetQueryString("next=/home")

	full := append([]byte(nil), u.FullURI()...)

	var v URI
	v.Parse(nil, full)

	if !bytes.Equal(v.Host(), u.Host()) {
		t.Errorf("full %q: host %q after parsing, want %q", full, v.Host(), u.Host())
	}
	if !bytes.Equal(v.Path(), u.Path()) {
		t.Errorf("full %q: path %q after parsing, want %q", full, v.Path(), u.Path())
	}
	if !bytes.Equal(v.QueryString(), u.QueryString()) {
		t.Errorf("full %q: query %q after parsing, want %q", full, v.QueryString(), u.QueryString())
	}
}
