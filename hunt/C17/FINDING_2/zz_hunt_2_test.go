package protocol

import (
	"bytes"
	"testing"
)

// Property C17: for every URI assembled through the setters, parsing its full
// string form yields the same ... query ...
//
// URI.RequestURI prefers the parsed argument list whenever it is non-empty and
// otherwise falls back to the raw query string, without looking at
// parsedQueryArgs.  SetQueryString only clears parsedQueryArgs, it leaves the
// old parsed list in place.  So once QueryArgs() has been looked at, the
// string form can carry a query the URI no longer has.

// Second use of the query setter: the query that was replaced is the one that
// is formatted.
func TestZZHunt2SetQueryStringAfterQueryArgs(t *testing.T) {
	var u URI
	u.SetScheme("http")
	u.SetHost("example.com")
	u.SetPath("/search")
	u.SetQueryString("a=1")
	if got := string(u.QueryArgs().Peek("a")); got != "1" { // only a read
		t.Fatalf("setup: a=%q", got)
	}
	u.SetQueryString("b=2") // replaces the query

	if got := string(u.QueryString()); got != "b=2" {
		t.Fatalf("setup: QueryString() = %q", got)
	}

	full := append([]byte(nil), u.FullURI()...)
	var v URI
	v.Parse(nil, full)

	if !bytes.Equal(v.QueryString(), u.QueryString()) {
		t.Errorf("full %q: query %q after parsing, want %q (the query the URI was given last)", full, v.QueryString(), u.QueryString())
	}
	if v.QueryArgs().Has("a") || string(v.QueryArgs().Peek("b")) != "2" {
		t.Errorf("full %q: parsed args %q, want b=2 only", full, v.QueryArgs().String())
	}
	// the source URI itself agrees that its query is b=2 ...
	if got := u.QueryArgs().String(); got != "b=2" {
		t.Errorf("source QueryArgs() = %q, want b=2", got)
	}
}

// Removing every argument through the argument list: the removed arguments
// come back in the string form.
func TestZZHunt2DeleteLastQueryArg(t *testing.T) {
	var u URI
	u.SetHost("example.com")
	u.SetPath("/search")
	u.SetQueryString("token=secret")
	u.QueryArgs().Del("token")

	if n := u.QueryArgs().Len(); n != 0 {
		t.Fatalf("setup: %d args left", n)
	}

	full := append([]byte(nil), u.FullURI()...)
	var v URI
	v.Parse(nil, full)

	if got, want := v.QueryArgs().String(), u.QueryArgs().String(); got != want {
		t.Errorf("full %q: parsed args %q, want %q (the source URI has no arguments)", full, got, want)
	}
}
